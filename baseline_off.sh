#!/bin/bash
# hooks.baseline_off_cmd: the repository's own test suite, guard MANIFOLD_VERIF OFF, pristine flags
set -e
/verif/lib/buildrepo.sh off
ctest --test-dir /verif/build/off -j8 --timeout 900 --output-junit /verif/build/off/junit.xml 2>&1 | tail -5
