#!/bin/bash
# hooks.baseline_off_cmd: the repository's own test suite, guard MANIFOLD_VERIF OFF, pristine flags
B=${VERIF_BUILD:-/verif/build}/off; mkdir -p $(dirname $B)
# gtest test discovery runs the test binary with a 5 s timeout at build time: on a loaded machine retry the build
for i in 1 2 3; do /verif/lib/buildrepo.sh off > $B.buildlog 2>&1 && break; grep -q "terminated due to timeout" $B.buildlog || { cat $B.buildlog; exit 2; }; sleep 15; done
set -e
ctest --test-dir $B -j8 --timeout 900 --output-junit $B/junit.xml 2>&1 | tail -5
