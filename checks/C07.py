"""C07 - every output triangle traces back to its source face and interpolated properties.
Expr.tla derives, for every enumerated expression, the INSTANCES of each original (leaf i under the
composition of all transforms above it); TLC enumerates the families.  The driver builds every leaf
as an original from a MeshGL64 (a lattice box, own original ID, one face ID per face, an own affine
integer property field per face and channel, property vertices deduplicated so half seams occur,
different channel counts per leaf), evaluates the root and checks every exported triangle in exact
integer arithmetic: run structure (contiguous, covering, sorted by original ID, empty runs trail),
run transform = the transform of an instance the spec derives, the triangle pulled back through
its run transform lies within the source face its face ID names, orientation (flipped when
back-side), every property value = the face's field at the pulled-back position, missing channels
zero.  A sample of pulled-back triangles is validated by TLC against Prov_Trace.tla!TriOnFace."""
import json, os, glob, random
import vf, progfam

OWNED = {'prov'}

def nops(n):
    if n['k'] == 'let': return nops(n['def']) + nops(n['body'])
    if n['k'] == 'op': return 1 + sum(nops(c) for c in n['ch'])
    return 0

def sig(f, beh):
    d = f['detail']
    if f['kind'] == 'prov:property':
        return 'prov:property|%s|%s' % (d.get('class', ''), 'one Boolean' if nops(beh) <= 1 else 'two or more Booleans')
    return '%s|%s|%s' % (f['kind'], d.get('why', ''), progfam.expr_text(beh))

def main(tier):
    chk = vf.Check('C07', tier, 'exploration')
    vf.build('seq')
    rnd = random.Random(vf.seed())
    work = '%s/work/C07' % vf.BUILD
    os.makedirs(work, exist_ok=True)
    for f in glob.glob(work + '/trace*.ndjson'): os.remove(f)
    total = nontriv = tris = 0
    samples = []
    states = trans = 0
    for fam, nq in (('T2', 225), ('T3', 1500), ('D3', 700), ('T4', 500)):
        behs, r = progfam.generate('Expr_%s.cfg' % fam, module='Expr', timeout=900)
        states += r.distinct; trans += r.generated
        sub = behs if tier == 'thorough' or len(behs) <= nq else rnd.sample(behs, nq)
        n, nt = progfam.replay(chk, sub, 4, ['--trace=%s/trace%s{j}.ndjson' % (work, fam)], OWNED, tag=fam, mode='prov', jobs=12, sig_of=sig)
        total += n; nontriv += nt
        tris += sum(x.get('tris', 0) for x in chk.last_results.values())
        samples.append(progfam.expr_text(json.loads(sub[0])))
    allp = work + '/all_traces.ndjson'
    nrec = 0
    with open(allp, 'w') as out:
        for t in sorted(glob.glob(work + '/trace*.ndjson')):
            for line in open(t):
                if line.strip() and (tier == 'thorough' or nrec < 6000): out.write(line); nrec += 1
    rt = vf.tlc('Prov_Trace', 'Prov_Trace.cfg', workers=1, timeout=1500, env={'TRACE': allp})
    if rt.violation:
        import re
        m = re.findall(r'l = (\d+)', rt.out)
        rec = open(allp).read().splitlines()[int(m[-1]) - 1] if m else ''
        chk.violation('trace|TriOnFace rejected', 'pulled-back triangle rejected by Prov_Trace.tla!TriOnFace: ' + rec[:500], {'record': rec})
    elif rt.error or rt.distinct < nrec:
        raise vf.ToolError('trace validation did not complete: %s\n%s' % (rt.error, rt.out[-1500:]))
    chk.coverage.update({
        'states': states, 'transitions': trans, 'traces_validated_against_impl': nrec,
        'evaluations': total, 'distinct_nontrivial': nontriv, 'triangles_checked': tris,
        'rule': 'Expr.tla families T2 (all), T3/D3/T4 (%s) with originals carrying per-face IDs and per-face affine integer fields; '
                'non-trivial = at least one integral output triangle checked; triangles with a non-integral vertex (zero-volume flaps, DESIGN 3.1) are skipped and counted'
                % ('all' if tier == 'thorough' else 'seeded samples'),
        'samples': samples})
    chk.assumptions += ['lattice group transforms only (exact integer pull-back); non-affine fields and general-position faces are not covered']
    chk.finish()

def replay(path):
    progfam.replay_file(path)
