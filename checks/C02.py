"""C02 - Booleans compute the regularized set operation (lattice regime: exact voxel sets).
TLC enumerates CSG programs over lattice boxes (Program.tla / Lattice.tla are the oracle);
mfdrive executes them eagerly through operator/Boolean/BatchBoolean/Split/SplitByPlane/TrimByPlane
and an independent solid-angle winding oracle classifies every cell centre of every result."""
import json
import vf, progfam

OWNED = {'cells', 'volume', 'status', 'winding', 'genpos'}

def main(tier):
    chk = vf.Check('C02', tier, 'exploration')
    vf.build('seq')
    progfam.model_check(chk)
    total = nontriv = 0
    samples = []
    # (1) exhaustive: all ordered pairs of the 27 boxes of the 2x2x2 window x 3 ops
    behs, r = progfam.generate('GenC02pairs.cfg')
    n, nt = progfam.replay(chk, behs, 1, ['--eager'], OWNED, tag='pairs')
    total += n; nontriv += nt; samples.append(progfam.prog_text(json.loads(behs[len(behs)//3])))
    chk.coverage['exhaustive_pairs_2x2x2'] = n
    # (2) seeded random deeper programs (batches, splits, plane cuts, lattice transforms)
    num = 150 if tier == 'quick' else 2500
    behs, r = progfam.generate('GenC02sim.cfg', simulate=num, timeout=3000)
    n, nt = progfam.replay(chk, behs, 2, ['--eager'], OWNED, tag='sim')
    total += n; nontriv += nt; samples.append(progfam.prog_text(json.loads(behs[0])))
    n2, _ = progfam.replay(chk, behs[: len(behs)//2], 2, ['--eager', '--matrix'], OWNED, tag='simM')
    total += n2
    # the same programs as one lazy expression each (operands with pending transforms)
    n3, _ = progfam.replay(chk, behs, 2, [], OWNED, tag='simL')
    total += n3
    # (3) exhaustive: two transformed leaves (5 generators each, pending) x 3 ops x node transform
    ebehs, r = progfam.generate('Expr_T2.cfg', module='Expr')
    n, nt = progfam.replay(chk, ebehs, 4, [], OWNED, tag='T2', mode='expr')
    total += n; nontriv += nt; samples.append(progfam.expr_text(json.loads(ebehs[7])))
    n, nt = progfam.replay(chk, ebehs, 4, ['--eager'], OWNED, tag='T2E', mode='expr')
    total += n
    # (4) general position: every (primitive x primitive x op x pose) class of GenPos.tla instantiated with seeded generic
    #     float parameters; sample points classified by the winding oracle on A, B and the result; inclusion-exclusion,
    #     commutativity, Split and plane splits on volumes and sample points
    gbehs, r = progfam.generate('GenPos.cfg', module='GenPos')
    n, nt = progfam.replay(chk, gbehs, 0, ['--seed=%d' % vf.seed(), '--reps=%d' % (1 if tier == 'quick' else 12), '--points=%d' % (60 if tier == 'quick' else 300)],
                           OWNED, tag='genpos', mode='genpos', jobs=12, chunk=30,
                           sig_of=lambda f, beh: '%s|%s' % (f['kind'], json.dumps(beh)[:200]))
    total += n; nontriv += nt; samples.append(gbehs[0][:200])
    chk.coverage['general_position_classes'] = n
    chk.coverage['general_position_points_judged'] = sum(x.get('judged', 0) for x in chk.last_results.values())
    # (5) derived operands: ALL chains of three Booleans over the four coincident bars/slabs of CatDerived (each box used
    #     once; after the first Boolean one operand is always the newest RESULT, whose halfedge order is decided by the
    #     Boolean and not by a constructor) - 2592 programs, BFS-exhaustive under ACTION_CONSTRAINT ChainAC
    behs, r = progfam.generate('GenC02chain.cfg')
    n, nt = progfam.replay(chk, behs, 2, ['--eager'], OWNED, tag='chain')
    total += n; nontriv += nt; samples.append(progfam.prog_text(json.loads(behs[len(behs)//2])))
    chk.coverage['exhaustive_derived_operand_chains'] = n
    # the same chains as one lazy expression each (the evaluator may flatten/reorder same-operator chains)
    n3, _ = progfam.replay(chk, behs, 2, [], OWNED, tag='chainL')
    total += n3
    if tier == 'thorough':
        # seeded random (non-chain, repeated operands) programs over the same catalogue
        behs, r = progfam.generate('GenC02derived.cfg', simulate=4000, timeout=3000)
        n, nt = progfam.replay(chk, behs, 2, ['--eager'], OWNED, tag='derived')
        total += n; nontriv += nt
        chk.coverage['derived_operand_programs'] = n
    if tier == 'thorough':
        behs, r = progfam.generate('GenC02triples.cfg', timeout=3000)
        n, nt = progfam.replay(chk, behs, 1, ['--eager'], OWNED, tag='triples', timeout=6000)
        total += n; nontriv += nt
        chk.coverage['exhaustive_triples_2x2x2'] = n
    chk.coverage.update({
        'evaluations': total, 'distinct_nontrivial': nontriv,
        'rule': 'distinct TLC-generated programs (BFS-exhaustive over the 27 boxes of the 2x2x2 window; seeded '
                '-simulate over all 1000 boxes of the 4x4x4 window, depth 8); non-trivial = at least one forced '
                'result of an expression with >=1 Boolean is a non-empty solid; every result classified at all '
                'cell centres by the independent winding oracle and compared with Lattice.tla set algebra',
        'samples': samples, 'exhaustive': False})
    chk.assumptions += ['cell centres are >=0.5 from every lattice plane, so double arithmetic decides the solid-angle winding sum',
                        'general position: finitely many seeded sample points per class; points within 4x tolerance of an input surface are excluded as the property states']
    chk.finish()

def replay(path):
    progfam.replay_file(path)
