"""C20 - the C binding is a faithful, memory-safe image of the C++ API.
spec/CApi.tla:
 * life family: an operational model of the life cycle of C objects (Unalloc -> Raw(size) -> Live(type)
   -> Destructed -> Freed; manifold_alloc_*/caller malloc(size), placement construction into `void* mem`,
   destruct_*, delete_* = destruct + free, vector get/set/push_back as element copies).  The PROTOCOL
   automaton and an independent MEMORY model are checked against each other by TLC on every program inside
   the bound: NoDoubleDestruct, NoUseAfterDestruct, ConstructOnlyIntoRawOfCorrectSize, NoLeakAtEnd, NoBadFree,
   InBounds, Refines, and tightness (every call the protocol forbids commits a memory error).  With the
   guards removed every one of the invariants is violated (CApi_bad_*.cfg, demanded by this check).
   TLC prints every complete legal program; the driver runs it on the real functions for all 13 handle
   types, both allocation styles, with guard bytes behind manifold_<t>_size() bytes, under ASan/LSan, and
   compares every observation with the value the memory model predicts.
 * unit/ops families: typed programs over the exported functions (table Fns); the driver (mirror table
   drive/capi_table.inc) executes each step through the C++ API and through the C function with the same
   arguments and compares field by field (status by NAME through the enum maps of the spec, scalars
   bit-exact, meshes/polygons read back through the C accessors, callbacks' context pointer).
 * enum family: ErrorMap/OpMap/JoinMap of the spec against conv.cpp (directly and end to end).
Evidence lists functions_bound / functions_exported measured from the header."""
import json, os, re, collections, time
from concurrent.futures import ThreadPoolExecutor
import vf, progfam

OWNED = {'ptr', 'guard', 'size', 'leak', 'value', 'mesh', 'poly', 'status', 'ctx', 'enum', 'life', 'len'}
ENV = {'ASAN_OPTIONS': 'detect_leaks=1:abort_on_error=0:halt_on_error=1:allocator_may_return_null=1',
       'LSAN_OPTIONS': 'exitcode=0'}
BAD = ['NoDoubleDestruct', 'NoUseAfterDestruct', 'ConstructOnlyIntoRawOfCorrectSize', 'NoLeakAtEnd', 'NoBadFree', 'InBounds']
BINDING_FILES = ('bindings/c/', 'conv.h', 'manifoldc.cpp', 'cross.cpp', 'box.cpp', 'rect.cpp')


def exported():
    src = open(vf.REPO + '/bindings/c/include/manifold/manifoldc.h').read()
    src = re.sub(r'//[^\n]*', '', src)
    return sorted(set(re.findall(r'\b(manifold_\w+)\s*\(', src)))


def text_of(beh):
    if beh.get('fam') == 'life':
        out = []
        for c in beh['calls']:
            a = [str(c[k]) for k in ('s', 't', 'from', 'i', 'n') if k in c and not (k == 'n' and c.get('t') != 'V')]
            out.append('%s(%s)%s' % (c['op'], ','.join(a), ('=%s' % c['exp']) if 'exp' in c else ''))
        return 'life: ' + '; '.join(out)
    if beh.get('fam') == 'enum':
        return 'enum %s: %s <-> %s' % (beh['enum'], beh['c'], beh['cpp'])
    regs = lambda ks, rs: ','.join('%s%d' % (k, r) for k, r in zip(ks, rs))
    f = lambda s: '%s%s(%s%s)' % ((regs(s['sig']['o'], s['out']) + '=') if s['out'] else '', s['f'], regs(s['sig']['a'], s['in']),
                                  ('; ' + ','.join(str(x) for x in s['p'])) if s['p'] else '')
    return 'ops: <prelude>; ' + '; '.join(f(s) for s in beh['steps'])


def sig_of(f, beh):
    d = f['detail']
    what = d.get('field') or d.get('what') or d.get('via') or d.get('why') or ''
    typ = d.get('type', '')
    return '%s|%s|%s|%s' % (f['kind'], d.get('fn', ''), typ, str(what)[:80])


def pdrive(behs, work, tag, args, jobs, timeout, chunk=40):
    """like progfam.pdrive, with the environment (LSan on) passed to the driver"""
    n = len(behs)
    jobs = max(1, min(jobs, (n + chunk - 1) // chunk))
    size = (n + jobs - 1) // jobs

    def one(j):
        lo = j * size
        part = behs[lo:lo + size]
        inp = '%s/beh%s.%d.ndjson' % (work, tag, j)
        out = '%s/res%s.%d.ndjson' % (work, tag, j)
        vf.write_ndjson(inp, part)
        res, cr = vf.drive('seq', args, inp, out, timeout=timeout, env=ENV)
        lsan = 0
        for j2 in vf.read_ndjson(out):
            if j2.get('done'):
                lsan = j2.get('lsan_leaks', 0)
        return ({lo + i: r for i, r in res.items()}, [(lo + i, rc, t) for (i, rc, t) in cr], lsan, (lo, lo + len(part)))

    results, crashes, lsan = {}, [], []
    with ThreadPoolExecutor(max_workers=jobs) as ex:
        for res, cr, ls, rng in ex.map(one, range(jobs)):
            for i, r in res.items():
                r['i'] = i
            results.update(res)
            crashes += cr
            if ls:
                lsan.append(rng)
    return results, crashes, lsan


def run_family(chk, name, behs, args, stats, jobs=8, timeout=2400, chunk=40):
    work = '%s/work/%s' % (vf.BUILD, chk.pid)
    os.makedirs(work, exist_ok=True)
    t0 = time.time()
    results, crashes, lsan = pdrive(behs, work, name, args, jobs, timeout, chunk)
    vf.log('[C20] %s: %d cases driven in %.0fs, %d crash(es)' % (name, len(behs), time.time() - t0, len(crashes)))
    stats['evaluations'] += len(results)
    stats['nontrivial'] += sum(1 for r in results.values() if r.get('nontrivial', 0) > 0)
    stats['steps'] += sum(r.get('steps', 0) for r in results.values())
    stats['skipped'] += sum(r.get('skipped', 0) for r in results.values())
    for r in results.values():
        stats['fns'].update(r.get('newfns', []))
        for w in r.get('skipwhy', []):
            stats['skipwhy'][w[:70]] += 1
    failing = [(i, [f for f in r['fail'] if f['kind'] in OWNED], [f for f in r['fail'] if f['kind'] not in OWNED])
               for i, r in sorted(results.items()) if r['fail']]
    for i, own, other in failing:
        for f in other:
            raise vf.ToolError('driver-side problem in %s case %d: %s' % (name, i, json.dumps(f)[:400]))
    failing = [(i, own) for i, own, _ in failing if own][:100]
    # only repeatable failures / crashes count: run each of them once more, alone
    crashes = crashes[:25]   # a change that stops every case is shown by the first few
    redo = [i for i, _ in failing] + [i for i, _, _ in crashes]
    again, crashed_again = {}, {}
    if redo:
        inp, out = '%s/beh%s.confirm.ndjson' % (work, name), '%s/res%s.confirm.ndjson' % (work, name)
        vf.write_ndjson(inp, [behs[i] for i in redo])
        res2, cr2 = vf.drive('seq', args, inp, out, timeout=900, env=ENV)
        again = {redo[k]: r for k, r in res2.items()}
        crashed_again = {redo[k]: t for k, _, t in cr2}
    for i, own in failing:
        beh = json.loads(behs[i])
        r2 = again.get(i)
        kinds2 = set(f['kind'] for f in r2['fail']) if r2 else set(f['kind'] for f in own)
        for f in own:
            if f['kind'] in kinds2:
                chk.violation(sig_of(f, beh), '%s at step %s of [%s] -- %s' % (f['kind'], f['step'], text_of(beh)[:700], json.dumps(f['detail'])[:500]),
                              {'driver': args, 'K': 0, 'behaviour': beh, 'failure': f, 'variant': 'seq'})
    for i, rc, text in crashes:
        beh = json.loads(behs[i])
        text2 = crashed_again.get(i)
        if text2 is None:
            stats['flaky_crashes'] += 1
            continue
        site = progfam.crash_site(text2)
        phase = ([l for l in text2.splitlines() if l.startswith('C20-PHASE:')] or [''])[-1]
        in_binding = any(b in text2 for b in BINDING_FILES) or phase.startswith('C20-PHASE: c ')
        if phase.startswith('C20-PHASE: cpp') or not in_binding:
            # the C++ call itself (made first, same arguments) stops the process: not the binding's doing
            stats['library_crashes'].append('%s %s in [%s]' % (site, phase, text_of(beh)[-200:]))
            continue
        chk.violation('crash|' + site, 'process stopped (rc=%s, %s) inside the C binding while executing [%s]\n%s' %
                      (rc, phase, text_of(beh)[:700], text2[-1800:]),
                      {'driver': args, 'K': 0, 'behaviour': beh, 'variant': 'seq'})
    if lsan and not chk.violations:
        lo, hi = lsan[0]
        chk.violation('leak|lsan|' + name, 'LeakSanitizer reports leaked memory after the %s cases %d..%d although no single case grew the heap' % (name, lo, hi),
                      {'driver': args, 'K': 0, 'behaviour': json.loads(behs[lo]), 'variant': 'seq'})
    return results


def tlc_jobs(jobs):
    """vf.tlc_many; with VERIF_TLC_CACHE=<dir> (mutation runs only) the generated behaviours are reused: they do not
    depend on /repo, only on the specification, the configuration and the seed"""
    cache = os.environ.get('VERIF_TLC_CACHE')
    if not cache:
        return vf.tlc_many(jobs, parallel=6)
    import hashlib, pickle
    os.makedirs(cache, exist_ok=True)
    spec = open(vf.SPEC + '/CApi.tla').read()
    out, todo = {}, []
    for k, (m, cfg, kw) in enumerate(jobs):
        key = hashlib.sha1((spec + open(vf.SPEC + '/' + cfg).read() + json.dumps(kw, sort_keys=True) + str(vf.seed())).encode()).hexdigest()
        path = '%s/%s.pkl' % (cache, key)
        if os.path.exists(path):
            out[k] = pickle.load(open(path, 'rb'))
        else:
            todo.append((k, path))
    if todo:
        for (k, path), r in zip(todo, vf.tlc_many([jobs[k] for k, _ in todo], parallel=6)):
            out[k] = r
            if not r.error:
                pickle.dump(r, open(path, 'wb'))
    return [out[k] for k in range(len(jobs))]


def main(tier):
    chk = vf.Check('C20', tier, 'model_checking')
    vf.build('seq')
    quick = tier == 'quick'
    life_cfg = 'CApi_life6.cfg' if quick else 'CApi_life7.cfg'
    jobs = [('CApi', 'CApi_tight.cfg', {}), ('CApi', 'CApi_enum.cfg', {}), ('CApi', 'CApi_unit.cfg', {}),
            ('CApi', life_cfg, {'workers': 4, 'timeout': 2400}),
            ('CApi', 'CApi_lifesim.cfg', {'simulate': 150 if quick else 3000, 'depth': 60}),
            ('CApi', 'CApi_ops.cfg', {'simulate': 60 if quick else 1500, 'depth': 40, 'timeout': 2400})]
    jobs += [('CApi', 'CApi_bad_%s.cfg' % b, {'extra': ['-noGenerateSpecTE']}) for b in BAD]
    t0 = time.time()
    res = tlc_jobs(jobs)
    vf.log('[C20] TLC: %d runs in %.0fs' % (len(jobs), time.time() - t0))
    names = ['tight', 'enum', 'unit', 'life', 'lifesim', 'ops'] + ['bad_' + b for b in BAD]
    R = dict(zip(names, res))
    for n in names[:6]:
        vf.tlc_ok(R[n], 'CApi ' + n)
        if R[n].violation:
            raise vf.ToolError('CApi.tla (%s): %s violated in the MODEL\n%s' % (n, R[n].violation, R[n].out[-2500:]))
        if n != 'tight' and not R[n].behaviours:
            raise vf.ToolError('CApi.tla (%s): nothing generated\n%s' % (n, R[n].out[-2000:]))
    # vacuity gate: without the protocol's guards each invariant must fail in the model
    for b in BAD:
        if R['bad_' + b].violation != b:
            raise vf.ToolError('CApi.tla: invariant %s is not violated by unguarded C programs (vacuous?)\n%s' % (b, R['bad_' + b].out[-1500:]))
    chk.coverage['states'] = sum(r.distinct for r in res)
    chk.coverage['transitions'] = sum(r.generated for r in res)
    dedup = lambda l: list(dict.fromkeys(l))
    fam = {n: dedup(R[n].behaviours) for n in ('enum', 'unit', 'life', 'lifesim', 'ops')}
    work = '%s/work/%s' % (vf.BUILD, chk.pid)
    os.makedirs(work, exist_ok=True)
    emap = work + '/enummap.ndjson'
    vf.write_ndjson(emap, fam['enum'])
    args = ['capi', '--enummap=' + emap]
    stats = {'evaluations': 0, 'nontrivial': 0, 'steps': 0, 'skipped': 0, 'fns': set(), 'skipwhy': collections.Counter(),
             'library_crashes': [], 'flaky_crashes': 0}
    run_family(chk, 'enum', fam['enum'], args, stats, jobs=1)
    run_family(chk, 'unit', fam['unit'], args, stats, jobs=12, chunk=20)
    run_family(chk, 'life', fam['life'] + [b for b in fam['lifesim'] if b not in set(fam['life'])], args, stats, jobs=8)
    run_family(chk, 'ops', fam['ops'], args, stats, jobs=12, chunk=5)
    exp = exported()
    bound = sorted(set(exp) & stats['fns'])
    rows = set(json.loads(s)['steps'][0]['f'] for s in fam['unit'])
    # three-way consistency: the spec's function table, the driver's mirror table, the header
    p = vf.run([vf.build('seq'), 'capi', '--list'], timeout=120)
    listed = set(json.loads([l for l in p.stdout.splitlines() if l.startswith('{')][-1]).keys())
    if listed != rows:
        raise vf.ToolError('function table of CApi.tla and mirror table of the driver differ: %s' % sorted(listed ^ rows))
    if not set('manifold_' + r for r in rows) <= set(exp):
        raise vf.ToolError('rows that name no exported function: %s' % sorted(set('manifold_' + r for r in rows) - set(exp)))
    chk.coverage.update({
        'traces_validated_against_impl': stats['evaluations'],
        'evaluations': stats['evaluations'], 'distinct_nontrivial': stats['nontrivial'],
        'functions_exported': len(exp), 'functions_bound': len(bound), 'functions_unbound': sorted(set(exp) - set(bound)),
        'mirror_rows': len(rows), 'steps_executed_both_worlds': stats['steps'], 'steps_skipped_by_guards': stats['skipped'],
        'skip_reasons': ['%s (x%d)' % kv for kv in stats['skipwhy'].most_common(12)],
        'library_crashes_not_attributed_to_binding': stats['library_crashes'][:10], 'flaky_crashes': stats['flaky_crashes'],
        'life_programs': len(fam['life']), 'life_programs_simulated': len(fam['lifesim']), 'unit_programs': len(fam['unit']),
        'random_programs': len(fam['ops']), 'enum_pairs': len(fam['enum']),
        'unguarded_model_violates': BAD, 'exhaustive': True,
        'rule': 'life: every complete legal life-cycle program of <= %d calls on 3 slots over abstract types E/V/P (BFS, exhaustive) '
                '+ seeded longer ones, each executed for 3 element/vector pairs x 7 plain handle types (up to 21 instantiations); '
                'unit: every row of the function table x every argument tuple of its domain after the standard prelude (exhaustive); '
                'ops: seeded random typed compositions of 16 calls; enum: every pair of the three enum maps. functions_bound = exported '
                'functions actually called by the driver in this run, functions_exported = parsed from manifoldc.h. non-trivial = a '
                'life program with > 4 calls, an ops program with a compared non-empty result, an enum pair checked' % (6 if quick else 7),
        'samples': [text_of(json.loads(fam['life'][len(fam['life']) // 2])), text_of(json.loads(fam['lifesim'][0])),
                    text_of(json.loads(fam['unit'][len(fam['unit']) // 3])), text_of(json.loads(fam['ops'][0])),
                    text_of(json.loads(fam['enum'][0]))]})
    chk.assumptions += ['the C++ API is the oracle of faithfulness (the property is relative to it); both calls are made in one process, C++ first',
                        'memory safety is witnessed by ASan/UBSan/LSan, guard bytes behind manifold_<t>_size() bytes, canaries behind caller arrays and the allocator\'s byte count',
                        'accessors are not called for arrays whose advertised length is 0 (see finding F20-1)',
                        'the mirror table drive/capi_table.inc is hand written from the header; a row that is itself wrong shows as a failure on the unchanged tree']
    if len(bound) < 0.9 * len(exp) and not chk.violations:
        raise vf.ToolError('only %d of %d exported functions were reached' % (len(bound), len(exp)))
    chk.finish()


def replay(path):
    j = json.load(open(path))
    rp = j['replay']
    work = '%s/work/replay' % vf.BUILD
    os.makedirs(work, exist_ok=True)
    vf.write_ndjson(work + '/c20.ndjson', [json.dumps(rp['behaviour'])])
    args = [a for a in rp['driver'] if not a.startswith('--enummap')]
    results, crashes = vf.drive('seq', args, work + '/c20.ndjson', work + '/c20.res', timeout=600, env=ENV)
    print(json.dumps(results.get(0), indent=1)[:3000])
    print([(i, rc, t[-1500:]) for i, rc, t in crashes])
    bad = bool(crashes) or bool([f for f in (results.get(0) or {}).get('fail', []) if f['kind'] in OWNED])
    if bad:
        print('VIOLATION property=%s replay=%s' % (j['property'], path))
    raise SystemExit(1 if bad else 0)
