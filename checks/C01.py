"""C01 - every returned Manifold is a closed oriented 2-manifold or an empty error."""
import json
import vf, progfam

OWNED = {'manifold', 'counts', 'broken-noerror'}

def sig(f, beh):
    d = f['detail']
    why = d.get('why') or d.get('why32') or ''
    if 'non-finite tolerance' in why:
        return 'manifold|non-finite tolerance|32-bit export of an empty Manifold'
    return progfam.default_sig(f, beh)

def main(tier):
    chk = vf.Check('C01', tier, 'exploration')
    vf.build('seq')
    progfam.model_check(chk)
    total = nontriv = 0
    behs, r = progfam.generate('GenC02pairs.cfg')
    sub = behs if tier == 'thorough' else behs[vf.seed() % 4::4]
    n, nt = progfam.replay(chk, sub, 1, ['--manifold'], OWNED, tag='pairs', jobs=12, sig_of=sig)
    total += n; nontriv += nt
    num = 60 if tier == 'quick' else 1500
    sbehs, r = progfam.generate('GenC05sim.cfg', simulate=num, timeout=3000)
    import os, glob
    work = '%s/work/C01' % vf.BUILD
    os.makedirs(work, exist_ok=True)
    for f in glob.glob(work + '/mtrace*.ndjson'): os.remove(f)
    n, nt = progfam.replay(chk, sbehs, 2, ['--manifold', '--trace=%s/mtrace{j}.ndjson' % work], OWNED, tag='sim', jobs=12, sig_of=sig)
    total += n; nontriv += nt
    # the TLA+ predicate itself judges the recorded meshes (Halfedge_Trace.tla)
    r0 = vf.tlc('Halfedge', 'Halfedge.cfg', workers=2, timeout=300)
    vf.tlc_ok(r0, 'Halfedge lemmas')
    if r0.violation: raise vf.ToolError('Halfedge.tla lemma %s violated' % r0.violation)
    allp = work + '/all_meshes.ndjson'
    nrec = 0
    with open(allp, 'w') as out:
        for t in sorted(glob.glob(work + '/mtrace*.ndjson')):
            for line in open(t):
                if line.strip() and nrec < (600 if tier == "quick" else 20000): out.write(line); nrec += 1
    rt = vf.tlc('Halfedge_Trace', 'Halfedge_Trace.cfg', workers=1, timeout=2400, env={'TRACE': allp})
    if rt.violation:
        import re
        m = re.findall(r'l = (\d+)', rt.out)
        rec = open(allp).read().splitlines()[int(m[-1]) - 1] if m else ''
        chk.violation('trace|Halfedge_Trace rejected a recorded mesh', 'exported mesh rejected by Halfedge.tla!Closed2Manifold/CountsAgree: ' + rec[:600], {'record': rec})
    elif rt.error or rt.distinct < nrec:
        raise vf.ToolError('mesh trace validation did not complete: %s\n%s' % (rt.error, rt.out[-1500:]))
    chk.coverage['traces_validated_against_impl'] = nrec
    # every node of exhaustively enumerated expression families (lazy, real object lifetimes)
    import random
    rnd = random.Random(vf.seed())
    for fam in ('T3', 'D3'):
        eb, r = progfam.generate('Expr_%s.cfg' % fam, module='Expr', timeout=900)
        sub = eb if tier == 'thorough' else rnd.sample(eb, 500)
        n, nt = progfam.replay(chk, sub, 4, [], OWNED, tag=fam, mode='expr', jobs=12, sig_of=sig)
        total += n; nontriv += nt
    # the results of ~45 deriving operations (smoothing, refinement, hull, Minkowski, warp, normals, split ...) applied to
    # imported meshes with property seams, merge vectors, tangents, several runs (nominal + benign variants of MeshGL.tla)
    mb, r = progfam.generate('MeshGL_1.cfg', module='MeshGL', timeout=600)
    benign = [b for b in mb if json.loads(b)['expect'] == 'Any']
    n, nt = progfam.replay(chk, benign, 0, [], {'broken-noerror'}, tag='ops', mode='meshgl', jobs=12, chunk=3, sig_of=sig)
    total += n; nontriv += nt
    # the topological kernel under stress (Kernel.tla): short merge edges whose endpoints share up to five neighbours
    # (link condition fails: FormLoop repair), flat/raised stacked vertices; hulls of point sets spanning no volume in every order
    for fam in ('collapse', 'hull'):
        kb, r = progfam.generate('Kernel_%s.cfg' % fam, module='Kernel', timeout=600)
        chk.coverage['states'] += r.distinct; chk.coverage['transitions'] += r.generated
        n, nt = progfam.replay(chk, kb, 0, [], OWNED, tag='k' + fam, mode='kernel', jobs=12, chunk=20,
                               sig_of=lambda f, beh: '%s|%s|%s|%s' % (f['kind'], f['detail'].get('why', ''), f['detail'].get('op', ''), json.dumps(beh)[:200]))
        total += n; nontriv += nt
        chk.coverage['kernel_' + fam] = n
    chk.coverage.update({
        'evaluations': total, 'distinct_nontrivial': nontriv,
        'rule': 'Closed2Manifold (directed edge once + opposite once after merge vectors, no repeated vertex, indices in range, '
                'every vertex referenced, all floats finite, NumVert/NumEdge/NumTri/Genus agree) evaluated on the 64- and 32-bit '
                'export of every live handle of TLC-generated lattice programs (coincident/touching/nested operands, all public '
                'derivations of Program.tla); non-trivial = non-empty result of >=1 Boolean',
        'samples': [progfam.prog_text(json.loads(sbehs[0]))]})
    chk.finish()

def replay(path):
    progfam.replay_file(path)
