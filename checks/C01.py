"""C01 - every returned Manifold is a closed oriented 2-manifold or an empty error."""
import json
import vf, progfam

OWNED = {'manifold', 'counts'}

def sig(f, beh):
    d = f['detail']
    why = d.get('why') or d.get('why32') or ''
    if 'non-finite tolerance' in why:
        return 'manifold|non-finite tolerance|32-bit export of an empty Manifold'
    return progfam.default_sig(f, beh)

def main(tier):
    chk = vf.Check('C01', tier, 'exploration')
    vf.build('seq')
    progfam.model_check(chk)
    total = nontriv = 0
    behs, r = progfam.generate('GenC02pairs.cfg')
    sub = behs if tier == 'thorough' else behs[vf.seed() % 2::2]
    n, nt = progfam.replay(chk, sub, 1, ['--manifold'], OWNED, tag='pairs', jobs=12, sig_of=sig)
    total += n; nontriv += nt
    num = 60 if tier == 'quick' else 1500
    sbehs, r = progfam.generate('GenC05sim.cfg', simulate=num, timeout=3000)
    n, nt = progfam.replay(chk, sbehs, 2, ['--manifold'], OWNED, tag='sim', jobs=12, sig_of=sig)
    total += n; nontriv += nt
    chk.coverage.update({
        'evaluations': total, 'distinct_nontrivial': nontriv,
        'rule': 'Closed2Manifold (directed edge once + opposite once after merge vectors, no repeated vertex, indices in range, '
                'every vertex referenced, all floats finite, NumVert/NumEdge/NumTri/Genus agree) evaluated on the 64- and 32-bit '
                'export of every live handle of TLC-generated lattice programs (coincident/touching/nested operands, all public '
                'derivations of Program.tla); non-trivial = non-empty result of >=1 Boolean',
        'samples': [progfam.prog_text(json.loads(sbehs[0]))]})
    chk.finish()

def replay(path):
    progfam.replay_file(path)
