"""C15 - cancellation is all-or-nothing at every check site; progress is monotone, ends at 1.
Ctx.tla models the protocol (reset order, loop/entry/phase checks, the cancel-aware helper that
returns early and MUST be followed by a check, PhaseBalance) with Cancel enabled between any two
steps; TLC checks AllOrNothing/ProgressBounded/ProgressMonotone/CompletedMeansOne/ShortCircuit/
CancelSticky/termination, and refutes AllOrNothing when the post-helper check is removed.
Binding: the MANIFOLD_VERIF probe in IsCancelled counts the checks of a registered context; every
case (Expr.tla expressions with shared/held/pre-evaluated sub-expressions observed through
WithContext(ctx).Status(), and the eager context-observed operations) is first run uncancelled to
learn K, then re-run with Cancel injected at the k-th check for k = 1..K; each run is judged by
the driver and its recorded trace is validated by TLC against Ctx_Trace.tla."""
import json, os, random, glob
import vf, progfam

OWNED = {'allornothing', 'progress', 'sticky', 'shortcircuit', 'operands', 'rebuild', 'uncancelled'}
EAGER = ['Refine', 'RefineToLength', 'RefineToTolerance', 'Hull', 'MinkowskiSum', 'MinkowskiDifference',
         'FromMeshGL', 'FromMeshGL32', 'Smooth', 'LevelSet', 'StatusTree', 'MinkowskiSumNC']

def sig(f, beh):
    d = f['detail']
    what = d.get('op') or d.get('what') or ''
    return '%s|%s|%s' % (f['kind'], what, progfam.prog_text(beh) if 'op' not in beh or beh.get('k') != 'eager' else beh['op'])

def main(tier):
    chk = vf.Check('C15', tier, 'model_checking')
    vf.build('seq')
    r = vf.tlc('Ctx', 'Ctx_ok.cfg', workers=4, timeout=300)
    vf.tlc_ok(r, 'Ctx model check')
    if r.violation:
        raise vf.ToolError('Ctx.tla: %s violated in the model\n%s' % (r.violation, r.out[-2000:]))
    chk.coverage['states'] = r.distinct; chk.coverage['transitions'] = r.generated
    r2 = vf.tlc('Ctx', 'Ctx_nopost.cfg', workers=4, timeout=300)
    if r2.violation != 'AllOrNothing':
        raise vf.ToolError('Ctx.tla lost its sensitivity: removing the post-helper check no longer violates AllOrNothing')
    chk.coverage['model_sensitivity'] = 'PostCheck=FALSE refuted by TLC (AllOrNothing)'
    rnd = random.Random(vf.seed())
    work = '%s/work/C15' % vf.BUILD
    os.makedirs(work, exist_ok=True)
    for f in glob.glob(work + '/trace*.ndjson'): os.remove(f)
    total = points = 0
    samples = []
    ntree = {'D3': 24, 'T3': 16} if tier == 'quick' else {'D3': 60, 'T3': 50, 'T4': 30}
    maxk = 60 if tier == 'quick' else 100
    for fam, n in ntree.items():
        behs, r = progfam.generate('Expr_%s.cfg' % fam, module='Expr', timeout=900)
        pick = rnd.sample(behs, min(n, len(behs)))
        for opts, tag in (([], ''), (['--viacopy'], 'V')):
            sub = pick if tier == 'thorough' or not opts else pick[: len(pick) // 2]
            n1, _ = progfam.replay(chk, sub, 4, opts + ['--maxk=%d' % maxk, '--trace=%s/trace%s%s{j}.ndjson' % (work, fam, tag)],
                                   OWNED, tag=fam + tag, mode='cancel', jobs=14, chunk=2, sig_of=sig)
            total += n1
            points += sum(min(x.get('K', 0), maxk) for x in chk.last_results.values())
        samples.append(progfam.expr_text(json.loads(pick[0])))
    eager = [json.dumps({'k': 'eager', 'op': op}) for op in (EAGER if tier == 'thorough' else EAGER[:-1])]
    # the non-convex Minkowski sum runs hundreds of Booleans per evaluation (minutes under ASan): fewer cancel points for it
    heavy = [e for e in eager if 'MinkowskiSumNC' in e]
    light = [e for e in eager if e not in heavy]
    for grp, mk, tg in ((light, 12 if tier == 'quick' else 120, 'E'), (heavy, 10, 'H')):
        if not grp: continue
        n1, _ = progfam.replay(chk, grp, 4, ['--maxk=%d' % mk, '--trace=%s/trace%s{j}.ndjson' % (work, tg)],
                               OWNED, tag='eager' + tg, mode='cancel', jobs=14, chunk=1, sig_of=sig)
        total += n1
        points += sum(min(x.get('K', 0), mk) for x in chk.last_results.values())
    samples.append('eager: ' + ', '.join(EAGER))
    # trace validation of every recorded run against Ctx_Trace.tla
    traces = sorted(glob.glob(work + '/trace*.ndjson'))
    allp = work + '/all_traces.ndjson'
    nrec = 0
    with open(allp, 'w') as out:
        for t in traces:
            for line in open(t):
                if line.strip() and nrec < 60000: out.write(line); nrec += 1
    rt = vf.tlc('Ctx_Trace', 'Ctx_Trace.cfg', workers=1, timeout=1500, env={'TRACE': allp})
    if rt.violation:
        # locate the rejected record: TLC prints l
        import re
        m = re.findall(r'l = (\d+)', rt.out)
        idx = int(m[-1]) - 1 if m else -1
        rec = open(allp).read().splitlines()[idx] if idx >= 0 else ''
        chk.violation('trace|Ctx_Trace rejected|' + rec[:200], 'recorded run rejected by Ctx_Trace.tla!RunOK: ' + rec[:600], {'record': rec})
    elif rt.error or rt.distinct < nrec:
        raise vf.ToolError('trace validation did not complete: %s\n%s' % (rt.error, rt.out[-1500:]))
    chk.coverage.update({
        'traces_validated_against_impl': nrec,
        'evaluations': points, 'distinct_nontrivial': total,
        'cancel_points_injected': points,
        'rule': 'cases = seeded sample of Expr.tla families D3/T3(/T4) (shared, held, pre-evaluated and evaluated-through-a-copy '
                'sub-expressions) + %d eager context-observed operations; for each case Cancel is injected at the k-th cancellation check '
                'for k=1..K (K measured by the probe; strided to <= maxk points); a case is non-trivial when K > 1; every run is one '
                'recorded trace validated by TLC' % len(eager),
        'samples': samples})
    chk.assumptions += ['a decrease of donePhases that coincides with a change of totalPhases is the start of a new (sub-)evaluation, not a violation',
                        'racing cancellation from another thread is covered only through the probe (every check site), not by real thread timing']
    chk.finish()

def replay(path):
    progfam.replay_file(path)
