"""C12 - Offset, Hull, Decompose and Simplify of CrossSections mean what they say.
spec/Xoff.tla (on top of spec/Xsec.tla, the pixel lattice of C11) states the property in exact integers:
for unions of lattice rectangles with holes / notches / touching pieces it derives, per pixel centre and per
(delta, join type, miter limit, segment count), whether the statement demands it inside, outside or leaves it
open (Miter: exactly the Chebyshev dilation / erosion; Round: inside closer than delta*cos(pi/n), outside
farther than delta; every join type: contains the input dilated along its edges, nothing farther than
miterLimit*delta, monotone in delta); for sharp convex polygons the same generic clauses with exact rational
distances; the exact convex hull (cyclic vertex sequence, area) of lattice point sets; the edge-connected
components of the pixel set; and the relation SimplifyOK(in, out, tol) together with a reference simplifier.
TLC checks the internal consistency of these oracles on every enumerated case (RegionIsFill, DemandsConsistent,
MiterIsSandwiched, MorphologyLaws, SharpSound, HullSound, ExtremeAgree, DecSound, SimpSound) and prints the
cases; drive/xoff.cpp executes CrossSection::Offset / Hull / Decompose / Simplify and measures.
Corner-angle family (Xoff.tla, "corner angles"): 38 simple integer polygons whose corners TLC classifies exactly
(convex / reflex x below 30, 30..90, above 90 degrees, collinear; CornerSound, CornerCoverage), placed by Pythagorean
rotations / mirror as a solid and as a hole, offset by both signs of delta with 3..64 (and the default) segments; the
rule (closer than |delta| cos(pi/n) => in the dilation, farther than |delta| => not) is the specification's, the driver
measures the distance of probe points on rays around every corner and beside every edge to the input polygon."""
import json, os, time, threading, re
import vf

LOCK = threading.Lock()
OWNED_PREFIX = ('off:', 'dec:', 'hull:', 'simp:')


def owned(kind):
    return kind.startswith(OWNED_PREFIX)


def case_text(c):
    k = c['kind']
    if k in ('off', 'dec'):
        s = 'Region(add=%s%s%s)' % (c['add'], ' sub=%s' % c['sub'] if c['sub'] else '', (' island=%s' % c['isl'] if c.get('isl') else '') + (' hole2=%s' % c['sub2'] if c.get('sub2') else ''))
        return ('Offset of ' if k == 'off' else 'Decompose of ') + s.replace(' ', '')
    if k == 'corner':
        return 'Offset of %s[%s] rotated by (%d,%d)/%d%s%s' % (
            c['name'], ' '.join('%d,%d' % tuple(v) for v in c['c']), c['rot'][0], c['rot'][1], c['rot'][2],
            ' mirrored' if c['mirror'] else '', ' as a hole in a box' if c['hole'] else '')
    if k == 'sharp':
        return 'Offset of polygon[' + ' '.join('%g,%g' % (v[0] / 2.0, v[1] / 2.0) for v in c['c']) + ']'
    if k == 'hull':
        return 'Hull of points ' + ' '.join('%d,%d' % tuple(p) for p in c['pts'])
    if k == 'hullx':
        return 'Hull of rectangles %s' % str(c['rects']).replace(' ', '')
    if k == 'simp':
        return 'Simplify(%d/%d) of ring ' % (c['tn'], c['td']) + ' '.join('%d,%d' % tuple(p) for p in c['ring'])
    return json.dumps(c)[:200]


# ---- classification of the known double-inversion defect (F-C12-1) -------------------------------------------
def _collapsing(c, delta, pixels):
    """True iff every given pixel lies within Chebyshev distance |delta| of a bounded edge-connected component of S
    (S = the region for delta < 0, its complement for delta > 0) whose Chebyshev erosion by |delta| is empty, i.e.
    next to a contour that the offset must remove entirely (an outline narrower than 2|delta| in both axes / a hole
    that must close): there the double-inverted contour re-appears."""
    K = c['K']; W = 2 * K
    A = set(c['A'])
    S = A if delta < 0 else set(range(W * W)) - A
    e = int(abs(delta))
    if e == 0 or not pixels:
        return False
    U, seen = set(), set()
    for p in S:
        if p in seen:
            continue
        cm = {p}; todo = [p]
        while todo:
            q = todo.pop(); x, y = q % W, q // W
            for dx, dy in ((1, 0), (-1, 0), (0, 1), (0, -1)):
                nx, ny = x + dx, y + dy
                if 0 <= nx < W and 0 <= ny < W:
                    r = nx + W * ny
                    if r in S and r not in cm:
                        cm.add(r); todo.append(r)
        seen |= cm
        ok = True
        for q in cm:
            x, y = q % W, q // W
            if x in (0, W - 1) or y in (0, W - 1):
                ok = False; break                 # the unbounded part of the complement
            if all((x + dx) + W * (y + dy) in cm for dx in range(-e, e + 1) for dy in range(-e, e + 1)):
                ok = False; break                 # survives the erosion
        if ok:
            U |= cm
    for p in pixels:
        x, y = p % W, p // W
        if not any(abs(q % W - x) <= e and abs(q // W - y) <= e for q in U):
            return False
    return True


def classify(c, f):
    """tag of a failure: 'doubleinv' for the known defect, else ''"""
    d = f['detail']
    if c['kind'] != 'off':
        return ''
    K = c['K']; W = 2 * K
    if f['kind'] == 'off:pixels' and 'bad' in d and d.get('count', 0) == len(d['bad']):
        return 'doubleinv' if _collapsing(c, d['delta'], d['bad']) else ''
    if f['kind'] == 'off:monotone':
        import math
        p = (int(math.floor(d['x'])) + K) + W * (int(math.floor(d['y'])) + K)
        if d['d1'] < 0 and _collapsing(c, d['d1'], [p]):
            return 'doubleinv'
        if d['d2'] > 0 and _collapsing(c, d['d2'], [p]):
            return 'doubleinv'
    return ''


def sig_of(c, f):
    d = f['detail']
    tag = classify(c, f)
    par = '%s/ml%s/n%s/d%s' % (d.get('jt', ''), d.get('miterLimit', ''), d.get('segments', ''), d.get('delta', d.get('d1', '')))
    via = d.get('via', '')
    if isinstance(via, list):
        via = ','.join(via)
    return '%s|%s|%s|%s|%s' % (f['kind'], tag or d.get('why', ''), via, par if 'jt' in d else '', case_text(c))


class Tally:
    def __init__(self):
        self.n = self.nontrivial = self.evals = self.probes = 0
        self.kinds = {}
        self.foreign = {}


def pdrive(variant, args, cases, work, tag, timeout, jobs, per_job=60):
    from concurrent.futures import ThreadPoolExecutor
    n = len(cases)
    jobs = max(1, min(jobs, (n + per_job - 1) // per_job))
    size = (n + jobs - 1) // jobs
    def one(j):
        lo = j * size
        inp = '%s/cases%s.%d.ndjson' % (work, tag, j)
        out = '%s/res%s.%d.ndjson' % (work, tag, j)
        vf.write_ndjson(inp, cases[lo:lo + size])
        for attempt in range(6):
            try:
                res, cr = vf.drive(variant, args, inp, out, timeout=timeout, env={'ASAN_OPTIONS':
                    'detect_leaks=0:abort_on_error=0:halt_on_error=1:allocator_may_return_null=1:quarantine_size_mb=16'})
                break
            except OSError:          # the shared driver binary is being re-linked by a concurrent build
                if attempt == 5:
                    raise
                time.sleep(20)
        return ({lo + i: r for i, r in res.items()}, [(lo + i, rc, t) for (i, rc, t) in cr])
    results, crashes = {}, []
    with ThreadPoolExecutor(max_workers=jobs) as ex:
        for res, cr in ex.map(one, range(jobs)):
            results.update(res); crashes += cr
    return results, crashes


def run_cases(chk, tally, cases, tag, jobs=12, variant='seq', timeout=3000, per_job=60):
    work = '%s/work/%s' % (vf.BUILD, chk.pid)
    os.makedirs(work, exist_ok=True)
    args = ['xoff']
    t0 = time.time()
    results, crashes = pdrive(variant, args, cases, work, tag, timeout, jobs, per_job)
    vf.log('[C12] driver %s: %d cases in %.0fs' % (tag, len(results), time.time() - t0))
    failing = []
    for i, r in sorted(results.items()):
        c = json.loads(cases[i])
        tally.n += 1
        tally.kinds[c['kind']] = tally.kinds.get(c['kind'], 0) + 1
        tally.nontrivial += 1 if r.get('nontrivial', 0) > 0 else 0
        tally.evals += r.get('evals', 0)
        tally.probes += r.get('probes', 0)
        own = [f for f in r['fail'] if owned(f['kind'])]
        for f in r['fail']:
            if not owned(f['kind']):
                tally.foreign[f['kind']] = tally.foreign.get(f['kind'], 0) + 1
        if own:
            failing.append((i, own))
    for (i, rc, text) in crashes:
        c = json.loads(cases[i])
        import progfam
        chk.violation('crash|' + progfam.crash_site(text),
                      'driver crashed (rc=%s) on: %s\n%s' % (rc, case_text(c), text[-1500:]),
                      {'driver': args, 'case': c})
    if failing:
        # confirm a bounded number per signature class by re-running them once
        seen, pick = {}, []
        for i, fl in failing:
            c = json.loads(cases[i])
            key = tuple(sorted(set((f['kind'], classify(c, f)) for f in fl)))
            if seen.get(key, 0) < 25:
                seen[key] = seen.get(key, 0) + 1
                pick.append((i, fl))
        inp2 = '%s/confirm%s.ndjson' % (work, tag)
        vf.write_ndjson(inp2, [cases[i] for i, _ in pick])
        res2, cr2 = vf.drive(variant, args, inp2, inp2 + '.res', timeout=900)
        for n, (i, fl) in enumerate(pick):
            r2 = res2.get(n)
            kinds2 = set(f['kind'] for f in r2['fail']) if r2 is not None else None
            c = json.loads(cases[i])
            for f in fl:
                if kinds2 is not None and f['kind'] not in kinds2:
                    continue
                d = dict(f['detail'])
                chk.violation(sig_of(c, f), '%s: %s -- %s' % (f['kind'], case_text(c), json.dumps(d)[:600]),
                              {'driver': args, 'case': c, 'failure': f})
    return len(results)


def gen(chk, cfg, fams, timeout=1500, workers=4):
    t0 = time.time()
    r = vf.tlc('Xoff', cfg, workers=workers, timeout=timeout,
               env={'JAVA_TOOL_OPTIONS': '-Xss64m -Xmx4g -XX:ParallelGCThreads=2'})
    vf.tlc_ok(r, 'Xoff/' + cfg)
    if r.violation:
        raise vf.ToolError('Xoff/%s: invariant %s violated in the MODEL (specification bug)\n%s' % (cfg, r.violation, r.out[-2500:]))
    if r.error:
        raise vf.ToolError('Xoff/%s: TLC failed (%s)\n%s' % (cfg, r.error, r.out[-2500:]))
    cases = list(dict.fromkeys(r.behaviours))
    if not cases:
        raise vf.ToolError('no cases generated from %s\n%s' % (cfg, r.out[-2000:]))
    with LOCK:
        chk.coverage['states'] = chk.coverage.get('states', 0) + r.distinct
        chk.coverage['transitions'] = chk.coverage.get('transitions', 0) + r.generated
        fams[cfg.replace('Xoff_', '').replace('.cfg', '')] = len(cases)
    vf.log('[C12] TLC %s: %d cases, %d states in %.0fs' % (cfg, len(cases), r.distinct, time.time() - t0))
    return cases


def main(tier):
    chk = vf.Check('C12', tier, 'model_checking')
    vf.build('seq')
    quick = tier == 'quick'
    tally = Tally()
    fams = {}
    plan = [('reg', 'Xoff_reg_q.cfg' if quick else 'Xoff_reg_t.cfg', 8),
            ('misc', 'Xoff_misc_q.cfg' if quick else 'Xoff_misc_t.cfg', 4),
            ('sharp', 'Xoff_sharp.cfg', 2),
            ('corner', 'Xoff_corner_q.cfg' if quick else 'Xoff_corner_t.cfg', 2 if quick else 4)]
    from concurrent.futures import ThreadPoolExecutor
    def one(job):
        time.sleep(0.3 * plan.index(job))      # distinct TLC metadirs
        return gen(chk, job[1], fams, workers=job[2])
    # (mutation campaigns: C12_SAVE_CASES=<dir> keeps the TLC output, C12_REUSE_CASES=<dir> replays it - the cases
    # do not depend on /repo; C12_ONLY=off,sharp,misc restricts the driver runs)
    reuse = os.environ.get('C12_REUSE_CASES')
    if reuse:
        B = {j[0]: [l.strip() for l in open('%s/%s.ndjson' % (reuse, j[0])) if l.strip()] for j in plan}
        chk.coverage['states'] = chk.coverage['transitions'] = 0
    else:
        with ThreadPoolExecutor(max_workers=4) as ex:
            B = dict(zip([j[0] for j in plan], ex.map(one, plan)))
    if os.environ.get('C12_SAVE_CASES'):
        for k, v in B.items():
            vf.write_ndjson('%s/%s.ndjson' % (os.environ['C12_SAVE_CASES'], k), v)
    only = set(os.environ.get('C12_ONLY', 'off,sharp,misc,corner').split(','))
    cornercov = [json.loads(c) for c in B['corner'] if json.loads(c)['kind'] == 'cornercov']
    corner = [c for c in B['corner'] if json.loads(c)['kind'] == 'corner']

    # heavy cases (Offset: 40 offsets each) first, spread evenly over the chunks
    reg = B['reg']
    off = [c for c in reg if json.loads(c)["kind"] == "off"]
    rest = [c for c in reg if json.loads(c)['kind'] != 'off']
    if 'off' in only:
        run_cases(chk, tally, off, 'off', jobs=14, per_job=30)
    if 'sharp' in only:
        run_cases(chk, tally, B['sharp'], 'sharp', jobs=6, per_job=1)
    if 'misc' in only:
        run_cases(chk, tally, rest + B['misc'], 'misc', jobs=12, per_job=300)
    if 'corner' in only:
        # heavy cases (many vertices / segments) spread evenly over the chunks
        order = sorted(range(len(corner)), key=lambda i: -len(json.loads(corner[i])['c']))
        jobs = 12
        spread = [corner[i] for j in range(jobs) for i in order[j::jobs]]
        corner = spread
        run_cases(chk, tally, corner, 'corner', jobs=jobs, per_job=4)
    # what the corner family covered (measured on the cases that were run)
    cc = [json.loads(c) for c in corner]
    cstat = {'polygons': len(set(c['name'] for c in cc)), 'placements': len(cc),
             'as_hole': sum(1 for c in cc if c['hole']), 'offsets': sum(len(c['vars']) for c in cc),
             'round_offsets': sum(1 for c in cc for v in c['vars'] if v['jt'] == 'Round'),
             'delta_positive': sum(1 for c in cc for v in c['vars'] if v['dn'] > 0),
             'delta_negative': sum(1 for c in cc for v in c['vars'] if v['dn'] < 0),
             'probes_judged': tally.probes,
             'classes_checked_by_TLC': sorted(cornercov[0]['classes']) if cornercov else []}
    byc, bys = {}, {}
    for c in cc:
        nr = sum(1 for v in c['vars'] if v['jt'] == 'Round')
        for k in c['cls']:
            byc[k] = byc.get(k, 0) + nr          # (corner of that class) x (Round offset) pairs
        for v in c['vars']:
            if v['jt'] == 'Round':
                key = 'default(%d)' % v['n'] if v['seg'] < 3 else str(v['seg'])
                bys[key] = bys.get(key, 0) + 1
    cstat['corner_x_round_offset_by_class'] = byc
    cstat['round_offsets_by_segments'] = bys
    cstat['needle_tips_below_30_degrees'] = sorted(set(c['name'] for c in cc if 'convex_lt30' in c['cls']))
    cstat['notches_below_30_degrees'] = sorted(set(c['name'] for c in cc if 'reflex_lt30' in c['cls']))

    def sample(cases, kind, n=1):
        xs = [json.loads(c) for c in cases if json.loads(c)['kind'] == kind]
        out = []
        for c in xs[len(xs) // 3::max(1, len(xs) // 3)][:n]:
            t = case_text(c)
            if kind in ('off', 'sharp'):
                v = c['vars'][2 if kind == 'off' else 1]
                d = v['ds'][-1]
                t += ' x (%s, miterLimit %.1f, %d segments) x delta -2..2; at delta=%d the statement demands %d pixels inside, leaves %d open' % (
                    v['jt'], v['ml10'] / 10.0, v['seg'], d['d'], len(d['in']), len(d['maybe']))
            elif kind == 'corner':
                v = c['vars'][0]
                t += ' (corners: %s) x %d offsets, e.g. Round delta=%d/%d with %d segments: probes closer than %.4f*|delta| must be covered, farther than |delta| must not' % (
                    ' '.join(c['cls']), len(c['vars']), v['dn'], v['dd'], v['n'], v['cos4'] / 1e4)
            elif kind == 'dec':
                t += ' -> %d components' % c['n']
            elif kind in ('hull', 'hullx'):
                t += ' -> hull ' + ' '.join('%d,%d' % tuple(p) for p in c['hull'])
            elif kind == 'simp':
                t += ' -> reference keeps %d of %d vertices' % (len(c['ref']), len(c['ring']))
            out.append(t)
        return out
    samples = sample(off, 'off', 2) + sample(B['sharp'], 'sharp') + sample(rest, 'dec', 2) + sample(rest, 'hullx') + \
        sample(B['misc'], 'hull', 2) + sample(B['misc'], 'simp', 2) + sample(corner, 'corner', 2)

    chk.coverage.update({
        'traces_validated_against_impl': tally.n,
        'evaluations': tally.evals, 'cases': tally.n, 'cases_by_kind': tally.kinds,
        'distinct_nontrivial': tally.nontrivial,
        'families': fams,
        'corner_angle_family': cstat,
        'not_owned_failures_seen': tally.foreign,
        'rule': 'distinct cases printed by TLC from Xoff.tla. Regions: every lattice rectangle of the 4x4 grid, every pair of rectangles '
                'of the 3x3 grid (overlapping, edge-touching, vertex-touching, apart), the 4x4 / 3x4 block minus every rectangle '
                '(holes, notches, cuts into two pieces) [thorough: pairs on the 4x4 grid, a thinned set of two-minus-one triples]; each '
                'region x {Miter limit 2 / 3.5, Round with 3 / 5 / 8 / 16 segments, Square, Bevel} x delta in -2..2 (one Offset call each), '
                'and once for Decompose and for Hull of its rectangles (3 spellings); Decompose also on a 6x6 block minus a hole plus an island inside the hole (nested outlines). Sharp polygons: 6 convex polygons with 14..90 degree '
                'corners x {Miter limit 2/3/5/10, Round with 8 / 16 / 5 segments, Square, Bevel} x delta. Corner angles: 38 simple polygons (needles with '
                'tips of 1..152 degrees incl. 29.7 / 29.9 / 30.3 / 30.5, spikes on a body, V-notches of 5.7..90 degrees cut into a body, saw teeth, stars, octagon, '
                'hexagon, 176 / 184 degree corners, collinear vertices, L) x placements (rotation by a Pythagorean angle, mirror; solid / hole in a box) x '
                'delta (growing the polygon by 1/2, 1, 2; shrinking it by 1/4, 1/2, 1 while something of the contour survives; signs swapped for the hole) x Round with {3,4,5,6,8,12,16,32,64,default} segments '
                'and Miter 2 / 5, Square, Bevel, thinned to every 3rd [thorough: 2nd] variant per placement; 180 rays x 2 radii around every vertex + 5 points x 2 sides x 2 radii per '
                'edge are judged by the rule of the statement (corner_angle_family.probes_judged). Hull: every set of <= 4 [thorough <= 6] points and every set '
                'of >= 14 points of the 4x4 grid, each in 4 spellings (order reversed, points repeated, split over two contours). Simplify: '
                'rectangles with every subset of redundant boundary lattice points, a box with near-collinear vertices displaced by '
                '-2..1, staircases; each x tolerances 1/2, 1, 3/2, 2 [..3], each as one ring, two rings and as a hole. evaluations = '
                'API calls judged; non-trivial = non-empty region / more than one component or a hole / non-degenerate hull / '
                'Simplify must remove a vertex',
        'samples': samples})
    chk.assumptions += [
        'corner-angle family: the distance of a probe to the input polygon is computed by the driver in long double (point-segment '
        'distance, crossing-number inside test); probes in the band between |delta|*floor(10^4 cos(pi/n))/10^4*(1-10^-6) and |delta|*(1+10^-6) '
        'are not judged; for delta of the default segment count the specification transcribes Quality::GetCircularSegments (checked against the API)',
        'lattice regime: regions are unions / differences of integer rectangles, delta is an integer in -2..2; membership is sampled at '
        'pixel centres (plus 4 interior points per pixel for monotonicity and for Miter exactness) by an independent crossing-number oracle',
        'cos(pi/n) enters as a table of rational lower bounds (Xoff.tla!CosLB); pixels between the bounds are not judged',
        'for Square / Bevel only the clauses of the statement are demanded (contains the edge dilation, nothing farther than '
        'miterLimit*delta, monotone, regularized); the exact shape of the cap is not judged',
        'GetTolerance() is not part of any verdict (known candidate F3)']
    chk.finish()


def replay(path):
    j = json.load(open(path))
    rp = j['replay']
    work = '%s/work/replay' % vf.BUILD
    os.makedirs(work, exist_ok=True)
    vf.write_ndjson(work + '/c12.ndjson', [json.dumps(rp['case'])])
    results, crashes = vf.drive(rp.get('variant', 'seq'), rp['driver'], work + '/c12.ndjson', work + '/c12.res', timeout=900)
    r = results.get(0, {'fail': []})
    own = [f for f in r['fail'] if owned(f['kind'])]
    print(case_text(rp['case']))
    print(json.dumps(own, indent=1)[:4000]); print(crashes)
    want = rp.get('failure', {}).get('kind')
    if crashes or (own and (want is None or any(f['kind'] == want for f in own))):
        print('VIOLATION property=%s replay=%s' % (j['property'], path))
        raise SystemExit(1)
    print('replay passes')
    raise SystemExit(0)
