"""C10 - Triangulate returns a correct triangulation of epsilon-valid polygons.

Poly.tla states the property on integer-lattice polygon sets with exact integer predicates:
EpsValidSet (simple, pairwise disjoint contours, outer CCW / holes CW by nesting depth) and
ValidTriangulation (count V-2+2h-2(o-1), indices are input indices, every triangle CCW, areas sum
to the polygon area, every input edge exactly once in input direction, every other edge matched
by its reverse).  TLC
  * explores family S as a state graph (all simple lattice paths, closed into every simple
    polygon up to MaxV vertices of the G x G grid) and enumerates the candidate sets of the
    families H1/H2 (holes), N (nesting to depth 4), M (several outers), C (combs/staircases),
    Z/ZH (star-shaped octagons alone, as holes and islands), X (arbitrary, mostly invalid contours,
    including one- and two-point contours), keeping those that satisfy EpsValidSet;
  * checks GenValid / PathSimple (incremental generator == full predicate), PickOK (Pick's theorem
    ties Area2, Inside, o and h together), RefValid (a reference ear clipper written in the spec
    satisfies ValidTriangulation with exactly the stated count), MutantsRejected;
  * prints every polygon set with the numbers the property demands (ntri, area2, V, h, o, valid).
drive/poly.cpp maps each set to doubles by exact similarities (rotation, power-of-two scale,
far translation, explicit epsilon, renumbered indices, rotated contour order/start vertex), calls
TriangulateIdx (allowConvex true/false), Triangulate, and a reused PolygonTriangulator (after
another polygon set, then twice in a row), under a watchdog, and validates each output with a
64-bit transcription of ValidTriangulation.  A sample of the recorded (polygons, triangles) goes
back to TLC (Poly_Trace.tla: Accept / Reject / SameClause), so the TLA+ predicate itself is what
is evaluated on the implementation's outputs.  Seeded random star / rectilinear polygon sets
(nested rings, holes, up to ~200 vertices) go through the same validators.
Placement / scale ("at any scale and epsilon"): Poly.tla (a') defines the similarity placements
s * p + t (s in 1e-3, 1e-2, 1, 1e3; |t| in 0, 1e3, 1e5, 3e6 along x, y, both; real units, so the
coordinates are rounded, not exact) and prints with every case the classes that leave the placed
set epsilon-valid with margin (feature size >= 1000 * default epsilon = 1e-9 * largest coordinate);
the driver presents every case under some of them (all of them in the thorough all-views pass) and
validates the returned triangles on the lattice against the SAME expected numbers: the result must
not depend on where the polygon lies or how big it is.  TLC checks PlaceNumbers / PlaceValid (the
oracle's numbers, validity and nesting are invariant under similarities) and, in Poly_Trace,
PlaceOK of the recorded placements."""
import json, os, glob, random, hashlib, re, time
from concurrent.futures import ThreadPoolExecutor
import vf, progfam

PID = 'C10'
OWNED = ('tri.', 'reuse')

# (MutantsRejected is checked in the small configurations S37/S38/S54/Z*/C*/X*; the large S configurations check
#  GenValid, PathSimple, PickOK and RefValid)
QUICK = ['S45r0', 'S45r1', 'S45r2', 'S45r3', 'S37', 'Z2', 'ZH', 'D', 'H1', 'H2', 'N', 'M', 'C', 'X']
THOROUGH = ['S46r0', 'S46r1', 'S46r2', 'S46r3', 'S55r0', 'S55r1', 'S55r2', 'S55r3', 'S55r4', 'S38', 'S54', 'Z3', 'ZH', 'D',
            'H1big', 'H2big', 'Nbig', 'Mbig', 'Cbig', 'Xbig', 'H1', 'H2', 'M', 'N', 'C']


# ------------------------------------------------------------------ exact helpers (Python ints)
def orient(a, b, c):
    return (b[0] - a[0]) * (c[1] - a[1]) - (b[1] - a[1]) * (c[0] - a[0])


def area2(c):
    return sum(c[i][0] * c[(i + 1) % len(c)][1] - c[(i + 1) % len(c)][0] * c[i][1] for i in range(len(c)))


def on_seg(a, b, p):
    return orient(a, b, p) == 0 and min(a[0], b[0]) <= p[0] <= max(a[0], b[0]) and min(a[1], b[1]) <= p[1] <= max(a[1], b[1])


def seg_meet(a, b, c, d):
    o1, o2, o3, o4 = orient(a, b, c), orient(a, b, d), orient(c, d, a), orient(c, d, b)
    if o1 * o2 < 0 and o3 * o4 < 0:
        return True
    return on_seg(a, b, c) or on_seg(a, b, d) or on_seg(c, d, a) or on_seg(c, d, b)


def simple_contour(c):
    n = len(c)
    if n < 3 or len(set((p[0], p[1]) for p in c)) != n:
        return False
    for i in range(n):
        a, v, b = c[i], c[(i + 1) % n], c[(i + 2) % n]
        if orient(a, v, b) == 0 and (a[0] - v[0]) * (b[0] - v[0]) + (a[1] - v[1]) * (b[1] - v[1]) > 0:
            return False
    for i in range(n):
        for j in range(i + 1, n):
            if (i + 1) % n == j or (j + 1) % n == i:
                continue
            if seg_meet(c[i], c[(i + 1) % n], c[j], c[(j + 1) % n]):
                return False
    return True


def inside(p, c):
    cr = 0
    n = len(c)
    for i in range(n):
        a, b = c[i], c[(i + 1) % n]
        if (a[1] <= p[1] < b[1] and orient(a, b, p) > 0) or (b[1] <= p[1] < a[1] and orient(a, b, p) < 0):
            cr += 1
    return cr % 2 == 1


def eps_valid_set(P):
    """pre-filter of the random generator only; the verdict-relevant validity is decided by the
    driver's transcription and, for the recorded ones, by Poly.tla!EpsValidSet in TLC"""
    if not P or not all(simple_contour(c) for c in P):
        return False
    for k in range(len(P)):
        for m in range(k + 1, len(P)):
            c, d = P[k], P[m]
            for i in range(len(c)):
                for j in range(len(d)):
                    if seg_meet(c[i], c[(i + 1) % len(c)], d[j], d[(j + 1) % len(d)]):
                        return False
    for k in range(len(P)):
        depth = sum(1 for m in range(len(P)) if m != k and inside(P[k][0], P[m]))
        a = area2(P[k])
        if (depth % 2 == 0 and a <= 0) or (depth % 2 == 1 and a >= 0):
            return False
    return True


# transcription of Poly.tla (a') for the seeded random sets only (TLC-generated cases carry the spec's own
# list; the driver cross-checks every list against its transcription, Poly_Trace.tla!PlaceLogged re-derives
# the recorded ones in TLC)
P_SCALES = [(1, 1000), (1, 100), (1, 1), (1000, 1)]
P_OFFSETS = [0, 1000, 100000, 3000000]


def admissible_classes(P):
    cd = lambda x, y: (x + y - 1) // y
    pts = set((p[0], p[1]) for c in P for p in c)
    f2 = 1
    for c in P:
        for i in range(len(c)):
            a, b = c[i], c[(i + 1) % len(c)]
            for p in pts:
                if p == (a[0], a[1]) or p == (b[0], b[1]):
                    continue
                if (p[0] - a[0]) * (b[0] - a[0]) + (p[1] - a[1]) * (b[1] - a[1]) <= 0 or \
                   (p[0] - b[0]) * (a[0] - b[0]) + (p[1] - b[1]) * (a[1] - b[1]) <= 0:
                    v = 1
                else:
                    o = orient(a, b, p)
                    v = 1000000 if o == 0 else cd((b[0] - a[0]) ** 2 + (b[1] - a[1]) ** 2, o * o)
                f2 = max(f2, v)
    q = 1
    while q * q < f2:
        q += 1
    m = max(max(abs(p[0]), abs(p[1])) for p in pts)
    wh = max(p[0] for p in pts) - min(p[0] for p in pts) + max(p[1] for p in pts) - min(p[1] for p in pts)
    out = []
    for (sn, sd) in P_SCALES:
        for T in P_OFFSETS:
            if (sn, sd, T) == (1, 1, 0):
                continue
            X = (T // 1000) * sd + cd(sn * m, 1000)
            if q * X <= sn * 1000000 and cd(wh * X, 100) <= sn * 1000000:
                out.append([sn, sd, T])
    return out


def make_case(P, fam):
    idx = 0
    polys = []
    for c in P:
        polys.append([[p[0], p[1], idx + i] for i, p in enumerate(c)])
        idx += len(c)
    V = idx
    h = sum(1 for c in P if area2(c) < 0)
    o = sum(1 for c in P if area2(c) > 0)
    return {'fam': fam, 'polys': polys, 'valid': True, 'V': V, 'h': h, 'o': o,
            'ntri': V - 2 + 2 * h - 2 * (o - 1), 'area2': sum(area2(c) for c in P), 'place': admissible_classes(P)}


# ------------------------------------------------------------------ seeded random families
def primitive_dirs(R):
    from math import gcd
    return [(x, y) for x in range(-R, R + 1) for y in range(-R, R + 1) if (x or y) and gcd(abs(x), abs(y)) == 1]


def sort_by_angle(ds):
    from functools import cmp_to_key
    def half(d):
        return 0 if (d[1] > 0 or (d[1] == 0 and d[0] > 0)) else 1
    def cmp(a, b):
        ha, hb = half(a), half(b)
        if ha != hb:
            return ha - hb
        cr = a[0] * b[1] - a[1] * b[0]
        return -1 if cr > 0 else (1 if cr < 0 else 0)
    return sorted(ds, key=cmp_to_key(cmp))


def rand_star(rng, n, R, cx, cy, rings):
    """star-shaped lattice polygon around (cx,cy); rings > 1: concentric integer multiples of it,
    alternately CCW / CW (outer, hole, island ...): nesting depth = rings - 1"""
    dirs = primitive_dirs(3)
    ds = sort_by_angle(rng.sample(dirs, min(n, len(dirs))))
    ks = []
    for d in ds:
        m = max(abs(d[0]), abs(d[1]))
        ks.append(rng.randint(1, max(1, R // m)))
    base = [(d[0] * k, d[1] * k) for d, k in zip(ds, ks)]
    P = []
    for r in range(rings, 0, -1):
        c = [(cx + r * p[0], cy + r * p[1]) for p in base]
        if (rings - r) % 2 == 1:
            c = c[::-1]
        P.append(c)
    rng.shuffle(P)
    return P


def rand_skyline(rng, ncol, holes):
    xs = [0]
    for _ in range(ncol):
        xs.append(xs[-1] + rng.choice([1, 1, 2, 3]))
    bot, top = [], []
    b, t = rng.randint(0, 6), rng.randint(10, 16)
    for i in range(ncol):
        nb = max(0, min(8, b + rng.choice([-2, -1, 0, 0, 1, 2])))
        nt = max(9, min(20, t + rng.choice([-3, -1, 0, 0, 1, 3])))
        # adjacent columns must overlap in an interval of positive length
        if i > 0 and not (max(nb, bot[-1]) < min(nt, top[-1])):
            nb, nt = bot[-1], top[-1]
        bot.append(nb); top.append(nt); b, t = nb, nt
    c = []
    def add(p):
        if not c or c[-1] != p:
            c.append(p)
    for i in range(ncol):
        add((xs[i], bot[i])); add((xs[i + 1], bot[i]))
    for i in range(ncol - 1, -1, -1):
        add((xs[i + 1], top[i])); add((xs[i], top[i]))
    if c[0] == c[-1]:
        c.pop()
    # randomly drop straight (collinear) vertices
    out = []
    for i, p in enumerate(c):
        a, b2 = c[i - 1], c[(i + 1) % len(c)]
        if orient(a, p, b2) == 0 and rng.random() < 0.5:
            continue
        out.append(p)
    P = [out]
    for i in range(ncol):
        if holes and xs[i + 1] - xs[i] >= 3 and top[i] - bot[i] >= 3 and rng.random() < 0.7:
            x0, x1, y0, y1 = xs[i] + 1, xs[i + 1] - 1, bot[i] + 1, top[i] - 1
            kind = rng.randint(0, 2)
            if kind == 0:
                P.append([(x0, y0), (x0, y1), (x1, y1), (x1, y0)])          # CW rectangle
            elif kind == 1:
                P.append([(x0, y0), (x0, y1), (x1, y0)])                    # CW triangle
            else:
                ym = rng.randint(y0, y1)
                P.append([(x0, ym), (x1, y1), (x1, y0)] if ym not in (y0, y1) else [(x0, y0), (x0, y1), (x1, y1)])
    return P


def random_cases(tier):
    rng = random.Random(vf.seed() * 7919 + 10)
    want = 200 if tier == 'quick' else 2000
    out = []
    tries = 0
    while len(out) < want and tries < want * 20:
        tries += 1
        kind = rng.random()
        if kind < 0.5:
            rings = rng.choice([1, 1, 2, 3, 4])
            if rng.random() < 0.4:                     # two separate outer polygons (x in 2..38 and 42..62)
                R = rng.randint(3, 18 // rings)
                P = rand_star(rng, rng.randint(4, 16), R, 20, 32, rings) + \
                    rand_star(rng, rng.randint(3, 12), rng.randint(2, 5), 52, 32, rng.choice([1, 2]))
                rng.shuffle(P)
            else:
                R = rng.randint(3, 28 // rings if tier == 'thorough' else 20 // rings)
                P = rand_star(rng, rng.randint(4, 16), R, 32, 32, rings)
        else:
            P = rand_skyline(rng, rng.randint(2, 12 if tier == 'quick' else 28), rng.random() < 0.7)
        if max(abs(v) for c in P for p in c for v in p) > 64:
            continue
        if not eps_valid_set(P):
            continue
        cs = make_case(P, 'R')
        if cs['V'] <= 70:
            cs['rec'] = True       # TLC re-derives validity, count and area of these (Poly_Trace.tla)
        out.append(cs)
    return out


# ------------------------------------------------------------------ pipeline pieces
def poly_text(cs):
    return ' '.join(('+' if area2(c) > 0 else '-') + '[' + ' '.join('%d,%d' % (p[0], p[1]) for p in c) + ']' for c in cs['polys'])


def tlc_generate(chk, names):
    """run the generating/model-checking TLC configurations in parallel"""
    def one(name):
        t0 = time.time()
        r = vf.tlc('Poly', 'Poly_%s.cfg' % name, workers=2, timeout=3400, heap='3g')
        return name, r, time.time() - t0
    cases = []
    with ThreadPoolExecutor(max_workers=min(len(names), 14)) as ex:
        for name, r, dt in ex.map(one, names):
            vf.tlc_ok(r, 'Poly_%s' % name)
            if r.violation:
                raise vf.ToolError('Poly.tla (%s): invariant %s violated in the MODEL (specification bug)\n%s'
                                   % (name, r.violation, r.out[-2500:]))
            if r.error or not r.behaviours:
                raise vf.ToolError('Poly_%s: no cases generated (%s)\n%s' % (name, r.error, r.out[-2000:]))
            chk.coverage['states'] = chk.coverage.get('states', 0) + r.distinct
            chk.coverage['transitions'] = chk.coverage.get('transitions', 0) + r.generated
            seen = set()
            n = 0
            for b in r.behaviours:
                if b in seen:
                    continue
                seen.add(b)
                cs = json.loads(b)
                cs['cfg'] = name
                cases.append(cs); n += 1
            chk.coverage.setdefault('cases_per_config', {})[name] = n
            vf.log('[C10] TLC %s: %d states, %d cases, %.0fs' % (name, r.distinct, n, dt))
    return cases


def finish_cases(cases):
    """add a stable key (selects the views) and the polygon set a reused triangulator saw before"""
    prev = None
    for cs in cases:
        cs['key'] = int(hashlib.sha1(json.dumps(cs['polys']).encode()).hexdigest()[:12], 16)
        if prev is not None:
            cs['prime'] = prev
        prev = cs['polys'] if cs.get('valid', True) else prev
    return cases


ASAN = {'ASAN_OPTIONS': 'detect_leaks=0:abort_on_error=0:halt_on_error=1:allocator_may_return_null=1:quarantine_size_mb=16'}


def pdrive(args, behaviours, work, tag, timeout, jobs):
    """progfam.pdrive with a bounded ASan quarantine (the default 256 MB quarantine makes every one of the
    ~10^6 short-lived triangulator allocations touch fresh pages: 6x slower)"""
    n = len(behaviours)
    jobs = max(1, min(jobs, (n + 199) // 200))
    size = (n + jobs - 1) // jobs

    def one(j):
        lo = j * size
        inp = '%s/beh%s.%d.ndjson' % (work, tag, j)
        out = '%s/res%s.%d.ndjson' % (work, tag, j)
        vf.write_ndjson(inp, behaviours[lo:lo + size])
        res, cr = vf.drive('seq', args, inp, out, timeout=timeout, env=ASAN)
        return ({lo + i: r for i, r in res.items()}, [(lo + i, rc, t) for (i, rc, t) in cr])
    results, crashes = {}, []
    with ThreadPoolExecutor(max_workers=jobs) as ex:
        for res, cr in ex.map(one, range(jobs)):
            for i, r in res.items():
                r['i'] = i
            results.update(res); crashes += cr
    return results, crashes


def run_driver(chk, cases, opts, tag, jobs=12, timeout=3000):
    work = '%s/work/%s' % (vf.BUILD, PID)
    os.makedirs(work, exist_ok=True)
    for f in glob.glob('%s/res%s.*' % (work, tag)) + glob.glob('%s/beh%s.*' % (work, tag)):
        os.remove(f)
    behs = [json.dumps(c) for c in cases]
    args = ['poly'] + opts
    results, crashes = pdrive(args, behs, work, tag, timeout, jobs)
    recs = []
    for f in sorted(glob.glob('%s/res%s.*.rec*' % (work, tag))):
        recs += vf.read_ndjson(f)
    return results, crashes, recs, args


def confirm(cs, views, args):
    """re-run ONE case with the exact views once: only repeatable failures count"""
    work = '%s/work/%s' % (vf.BUILD, PID)
    one = dict(cs)
    if views:
        one['views'] = views
    vf.write_ndjson(work + '/confirm.ndjson', [json.dumps(one)])
    res, cr = vf.drive('seq', [a for a in args if a != '--record'], work + '/confirm.ndjson', work + '/confirm.res', timeout=300, env=ASAN)
    return one, res.get(0), cr


def crash_kind(text):
    if 'MFDRIVE-WATCHDOG' in text or text == 'TIMEOUT':
        return 'hang'
    return 'crash:' + progfam.crash_site(text)


def judge(chk, cases, results, crashes, args):
    nfail = 0
    for i, r in sorted(results.items()):
        bad = [f for f in r['fail'] if f['kind'].startswith('oracle')]
        if bad:
            raise vf.ToolError('driver transcription and Poly.tla disagree on case %s: %s' % (poly_text(cases[i]), json.dumps(bad)[:600]))
        fl = [f for f in r['fail'] if f['kind'].startswith(OWNED)]
        if not fl:
            continue
        nfail += 1
        if nfail > 25:
            continue
        one, r2, cr2 = confirm(cases[i], r.get('views'), args)
        kinds2 = set(f['kind'] for f in (r2 or {}).get('fail', []))
        for f in fl:
            if r2 is not None and f['kind'] not in kinds2:
                chk.drift.append('unrepeatable %s on %s' % (f['kind'], poly_text(cases[i])))
                continue
            d = f['detail']
            sig = '%s|%s|%s|%s' % (f['kind'], d.get('call', ''), cases[i]['fam'], poly_text(cases[i]))
            chk.violation(sig, '%s: %s returned an invalid result for %s (view %s): %s' % (
                f['kind'], d.get('call'), poly_text(cases[i]), json.dumps(d.get('view')), json.dumps(d)[:700]),
                {'driver': [a for a in args if a != '--record'], 'case': one, 'failure': f})
    for (i, rc, text) in crashes[:25]:
        one, r2, cr2 = confirm(cases[i], None, args + ['--allviews'])
        kind = crash_kind(text)
        if not cr2:
            chk.drift.append('unrepeatable %s on %s' % (kind, poly_text(cases[i])))
            continue
        sig = '%s|%s|%s' % (kind, cases[i]['fam'], poly_text(cases[i]))
        what = 'did not terminate within the watchdog' if kind == 'hang' else 'crashed (rc=%s)' % rc
        chk.violation(sig, 'triangulation %s on %s\n%s' % (what, poly_text(cases[i]), text[-1500:]),
                      {'driver': args + ['--allviews'], 'case': one})
    return nfail


def corrupt(rec, how):
    r = dict(rec)
    t = [list(x) for x in rec['tris']]
    ids = [v[2] for c in rec['polys'] for v in c]
    if how == 0:
        t[0] = [t[0][0], t[0][2], t[0][1]]          # one triangle clockwise / its edges reversed
    elif how == 1:
        t = t[:-1]                                   # one triangle missing
    elif how == 2:
        t[len(t) // 2][1] = max(ids) + 1             # an index that is not an input index
    elif how == 3:
        t = t + [t[0]]                               # one triangle twice
    else:
        if len(t) >= 2 and sorted(t[0]) != sorted(t[1]):
            t[0] = list(t[1])                        # count and indices stay right: one triangle replaced by a copy of another
        else:
            t = t[:-1]
    r['tris'] = t
    r['why'] = '-'
    r['ok'] = False
    r['corrupted'] = how
    return r


def trace_validate(chk, recs, tier):
    """Poly_Trace.tla on a sample of the recorded outputs of the real code"""
    rng = random.Random(vf.seed())
    maxn = 500 if tier == 'quick' else 4000
    good = [r for r in recs if r['ok']]
    bad = [r for r in recs if not r['ok']]
    forced = [r for r in good if len(r['tris']) > 20]
    rest = [r for r in good if len(r['tris']) <= 20]
    rng.shuffle(forced); rng.shuffle(rest)
    forced = forced[:60 if tier == 'quick' else 300]       # TLC needs ~(3T)^2 steps for T triangles
    sample = forced + rest[:maxn - len(forced)]
    neg = bad[:200] + [corrupt(r, k % 5) for k, r in enumerate(sample[:maxn // 4]) if r['valid'] and r['tris']]
    work = '%s/work/%s' % (vf.BUILD, PID)
    out = {}
    for mode, items in (('accept', sample), ('reject', neg)):
        if not items:
            raise vf.ToolError('no recorded outputs for trace validation (%s)' % mode)
        path = '%s/trace_%s.ndjson' % (work, mode)
        vf.write_ndjson(path, [json.dumps(x) for x in items])
        r = vf.tlc('Poly_Trace', 'Poly_Trace_%s.cfg' % mode, workers=8, timeout=2400, env={'POLY_TRACE': path})
        vf.tlc_ok(r, 'Poly_Trace ' + mode)
        chk.coverage['states'] += r.distinct; chk.coverage['transitions'] += r.generated
        if r.violation:
            m = re.findall(r'/\\ i = (\d+)', r.out)
            rec = items[int(m[-1]) - 1] if m else None
            if mode == 'accept' and r.violation == 'Accept' and rec is not None:
                sig = 'trace|%s|%s' % (rec['call'], json.dumps(rec['polys']))
                chk.violation(sig, 'Poly.tla!ValidTriangulation (evaluated by TLC) rejects the output of %s on %s: tris=%s'
                              % (rec['call'], json.dumps(rec['polys'])[:400], json.dumps(rec['tris'])[:400]),
                              {'trace_record': rec})
            else:
                raise vf.ToolError('Poly_Trace (%s): %s violated: the driver transcription and the specification disagree '
                                   'on record %s\n%s' % (mode, r.violation, json.dumps(rec)[:800], r.out[-1500:]))
        out[mode] = len(items)
    out['placed'] = sum(1 for r in sample if r.get('place'))
    return out


# ------------------------------------------------------------------ main
def main(tier):
    chk = vf.Check(PID, tier, 'model_checking')
    vf.build('seq')
    cases = tlc_generate(chk, QUICK if tier == 'quick' else THOROUGH)
    ntlc = len(cases)
    cases += random_cases(tier)
    finish_cases(cases)
    vf.log('[C10] %d cases from TLC, %d seeded random (%.0fs)' % (ntlc, len(cases) - ntlc, time.time() - chk.t0))
    opts = ['--record', '--recevery=%d' % (40 if tier == 'quick' else 120), '--recmaxtri=%d' % (80 if tier == 'quick' else 220)]
    if tier == 'quick':
        opts += ['--views=2', '--place=2']
    else:
        opts += ['--views=5', '--place=6']
    results, crashes, recs, args = run_driver(chk, cases, opts, 'A', timeout=1200 if tier == 'quick' else 6000)
    nfail = judge(chk, cases, results, crashes, args)
    vf.log('[C10] driver pass A: %d cases, %d failing, %d crashes (%.0fs)' % (len(results), nfail, len(crashes), time.time() - chk.t0))
    # the families with holes / nesting / several outers are few: all 21 views for them
    sub = [c for c in cases if c['fam'] in ('H1', 'H2', 'N', 'M', 'C', 'Z', 'ZH', 'D', 'R')]
    if tier == 'quick':
        sub = sub[::3]
    if chk.violations:
        # already decided; a crashing triangulator makes every further pass very slow (one restart per crash)
        vf.log('[C10] violations found in pass A: the all-views pass and trace validation are skipped')
        chk.coverage.update({'evaluations': sum(r.get('calls', 0) for r in results.values()), 'distinct_nontrivial': 0,
                             'rule': 'aborted after the first driver pass because of violations', 'samples': [],
                             'traces_validated_against_impl': 0})
        chk.finish()
    res2, cr2, recs2, args2 = run_driver(chk, sub, ['--allviews', '--place=6' if tier == 'quick' else '--allplace',
                                                    '--record', '--recevery=400', '--recmaxtri=80'], 'B')
    nfail += judge(chk, sub, res2, cr2, args2)
    vf.log('[C10] driver pass B (all views): %d cases (%.0fs)' % (len(res2), time.time() - chk.t0))
    tv = trace_validate(chk, recs + recs2, tier)
    vf.log('[C10] Poly_Trace: %d recorded outputs accepted, %d corrupted/failed ones rejected (%.0fs)' % (tv['accept'], tv['reject'], time.time() - chk.t0))
    calls = sum(r.get('calls', 0) for r in results.values()) + sum(r.get('calls', 0) for r in res2.values())
    nontriv = sum(1 for r in results.values() if r.get('nontrivial'))
    convex_diff = sum(1 for r in results.values() if r.get('diag', {}).get('convexPathDiffers'))
    allres = list(results.values()) + list(res2.values())
    placed_by = {}
    for r in allres:
        for k, n in r.get('placedby', {}).items():
            placed_by[k] = placed_by.get(k, 0) + n
    nclasses = {}
    for c in cases:
        if c.get('valid', True):
            nclasses[len(c.get('place', []))] = nclasses.get(len(c.get('place', [])), 0) + 1
    holes_far = sum(1 for c in cases if c.get('valid', True) and c.get('h', 0) > 0 and
                    any(pl[2] >= 100000 and pl[0] < pl[1] for pl in c.get('place', [])))
    pick = lambda fam: next((poly_text(c) for c in cases if c['fam'] == fam and c['V'] >= 6), None)
    chk.coverage.update({
        'evaluations': calls,
        'distinct_nontrivial': nontriv,
        'cases': len(cases), 'cases_from_tlc': ntlc, 'cases_seeded_random': len(cases) - ntlc,
        'cases_failing': nfail, 'driver_crashes_or_hangs': len(crashes) + len(cr2),
        'cases_where_convex_fast_path_changed_the_triangles': convex_diff,
        'traces_validated_against_impl': tv['accept'],
        'trace_records_rejected_as_required': tv['reject'],
        'placement': {
            'classes': 'scale sn/sd in 1/1000, 1/100, 1, 1000 x offset T in 0, 1e3, 1e5, 3e6 (15 classes + the lattice itself), '
                       'T along +x, +y, (+x,+y), (-x,+y); admissible for a set iff feature size >= 1000 * default epsilon '
                       'and 1/(W+H) >= 10 * epsilon (Poly.tla!ClassOK)',
            'cases_presented_under_placements': sum(1 for r in allres if r.get('placed', 0) > 0),
            'placement_views_executed': sum(r.get('placed', 0) for r in allres),
            'library_calls_under_placements': sum(r.get('placedcalls', 0) for r in allres),
            'views_per_class(sn/sd@T)': dict(sorted(placed_by.items())),
            'valid_cases_by_number_of_admissible_classes': {str(k): v for k, v in sorted(nclasses.items())},
            'cases_with_holes_admitting_a_downscaled_placement_at_T>=1e5': holes_far,
            'trace_records_with_placement_checked_by_TLC': tv.get('placed', 0)},
        'exhaustive': True,
        'rule': 'evaluations = library calls (TriangulateIdx allowConvex true/false, Triangulate, reused PolygonTriangulator x3) '
                'whose output was validated against ValidTriangulation; cases = distinct polygon sets (family S: EVERY simple '
                'lattice polygon of the configured grid/vertex bound up to translation, by TLC BFS); non-trivial = the set has a '
                'hole / several contours or a vertex that is not strictly convex (the ear clipper decides something); '
                'placement: every case is also run under 2 (quick pass A), 6 (quick pass B) / 6 and all (thorough) of its admissible '
                'placements (the first at the least margin the spec admits), validated against the same expected numbers; '
                'traces_validated = recorded (polygons, triangles) pairs on which TLC itself evaluated ValidTriangulation',
        'samples': [s for s in (pick('S'), pick('H1'), pick('H2'), pick('N'), pick('M'), pick('C'), pick('Z'), pick('ZH'), pick('D'), pick('R')) if s]})
    chk.assumptions += [
        'lattice inputs (|coordinate| <= 64) mapped to doubles by exact similarities (rotations by 90 degrees, scale 2^-20..2^30, '
        'translation up to 2^30 lattice units, explicit epsilon 1e-9/1e-3 units); validity "within epsilon" is exact there: a '
        'clockwise lattice triangle is further than 2*epsilon from degenerate, so CCW-within-epsilon == cross product >= 0',
        'placements s*p+t in real units (scale 1e-3..1e3, offset up to 3e6, default epsilon): coordinates are correctly rounded '
        'rationals (rounding <= 1.2e-4 epsilon), used only where the feature size is >= 1000 epsilon and any clockwise lattice '
        'triangle is >= 10 epsilon from degenerate, so the verdict is still the exact lattice predicate',
        'general float polygons (validity only within epsilon) are outside the exact domain',
        'termination = the call returns within the watchdog (60 s per case)',
        'reuse: the triangle list of a reused PolygonTriangulator must equal that of a fresh one (as test TriangulatorReuse demands)']
    chk.finish()


def replay(path):
    j = json.load(open(path))
    rp = j['replay']
    if 'trace_record' in rp:
        work = '%s/work/%s' % (vf.BUILD, PID)
        os.makedirs(work, exist_ok=True)
        p = work + '/trace_replay.ndjson'
        vf.write_ndjson(p, [json.dumps(rp['trace_record'])])
        r = vf.tlc('Poly_Trace', 'Poly_Trace_accept.cfg', workers=2, timeout=600, env={'POLY_TRACE': p})
        bad = bool(r.violation)
    else:
        work = '%s/work/replay' % vf.BUILD
        os.makedirs(work, exist_ok=True)
        vf.write_ndjson(work + '/c10.ndjson', [json.dumps(rp['case'])])
        results, crashes = vf.drive('seq', rp['driver'], work + '/c10.ndjson', work + '/c10.res', timeout=600)
        print(json.dumps(results.get(0), indent=1)[:3000]); print(crashes)
        bad = bool(crashes) or any(f['kind'].startswith(OWNED) for f in results.get(0, {}).get('fail', []))
    if bad:
        print('VIOLATION property=%s replay=%s' % (j['property'], path))
    raise SystemExit(1 if bad else 0)
