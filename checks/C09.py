"""C09 - malformed input gives an error Status, never undefined behaviour; errors are sticky.
MeshGL.tla: an abstract MeshGL is a record of field CLASSES; Validate transcribes the ingest
ladder; TLC enumerates every input with <= 2 malformed fields, checks that the ladder is total and
that every class that would index out of bounds is rejected, and checks the status algebra.  The
driver concretises each abstract input on a valid exported mesh (64- and 32-bit), constructs the
Manifold under ASan/UBSan, and runs ~45 consuming operations on the result: a crash/sanitizer
report/hang, a NoError result that is not a closed 2-manifold with finite numbers, or an error
that turns into NoError downstream is a violation.  The particular error code is compared with
the ladder's prediction as DRIFT only."""
import json, collections
import vf, progfam

OWNED = {'broken-noerror', 'status-lost', 'nonempty-error'}

def sig(f, beh):
    d = f['detail']
    bad = {k: v for k, v in beh['fields'].items() if v != 'ok' and not (k == 'tangents' and v == 'none')}
    return '%s|%s|%s|%s' % (f['kind'], d.get('op', 'ctor'), d.get('why', d.get('input', '')), json.dumps(bad, sort_keys=True))

def main(tier):
    chk = vf.Check('C09', tier, 'model_checking')
    vf.build('seq')
    behs1, r1 = progfam.generate('MeshGL_1.cfg', module='MeshGL', timeout=600)
    behs2, r2 = progfam.generate('MeshGL_2.cfg', module='MeshGL', timeout=900)
    chk.coverage['states'] = r1.distinct + r2.distinct; chk.coverage['transitions'] = r1.generated + r2.generated
    import random
    rnd = random.Random(vf.seed())
    pairs = [b for b in behs2 if b not in set(behs1)]
    if tier == 'quick':
        pairs = rnd.sample(pairs, min(260, len(pairs)))
    cases = behs1 + pairs
    n, nt = progfam.replay(chk, cases, 0, [], OWNED, tag='mesh', mode='meshgl', jobs=14, chunk=12, sig_of=sig)
    drift = collections.Counter()
    for r in chk.last_results.values():
        for d in r.get('drift', []):
            if 'ctor' in d: drift['%s: ladder says %s, code says %s' % (d['ctor'], d['expect'], d['got'])] += 1
    chk.drift = ['%s (x%d)' % kv for kv in drift.most_common(15)]
    chk.coverage.update({
        'traces_validated_against_impl': n,
        'evaluations': n, 'distinct_nontrivial': nt, 'exhaustive': tier == 'thorough',
        'consuming_operations_per_input': 45,
        'rule': 'abstract inputs = all single malformed fields (53) + %s pairs of malformed fields over 11 fields x 3-9 classes '
                '(MeshGL.tla), each concretised for MeshGL64 and MeshGL; every input is non-trivial (differs from the valid mesh '
                'or exercises the nominal path); crashes are attributed per input by the resume protocol' % ('all' if tier == 'thorough' else 'a seeded sample of'),
        'samples': [cases[0][:300], cases[-1][:300]]})
    chk.assumptions += ['memory safety is witnessed by AddressSanitizer/UBSan on the executions TLC enumerates',
                        'polygon / point-set / OBJ / numeric-argument classes: covered by C10/C11/C16/C17 checks, not here']
    chk.finish()

def replay(path):
    progfam.replay_file(path)
