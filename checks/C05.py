"""C05 - Manifolds are values.  Program.tla!ValueStable: an observation of a live handle, once
made, is what every later observation of it (and of its copies) must return.  Observing forces
lazy evaluation, so observations are actions of the TLC-generated history (Force); for handles
that have been observed the driver re-observes after EVERY later action (hash of the full
MeshGL64 export, counts, bbox, tolerance, status, original ID; bit-identity)."""
import json
import vf, progfam

OWNED = {'stability', 'cells', 'volume', 'status', 'winding'}

def main(tier):
    chk = vf.Check('C05', tier, 'model_checking')
    vf.build('seq')
    progfam.model_check(chk)
    # the storage discipline behind value semantics (Cow.tla): shared buffers are never written; the regression class
    # "MakeUnique forgets one of the parallel halfedge arrays" is refuted
    rc = vf.tlc_many([('Cow', 'Cow_all.cfg', {}), ('Cow', 'Cow_forgetPropVert.cfg', {})], parallel=2)
    vf.tlc_ok(rc[0], 'Cow_all')
    if rc[0].violation: raise vf.ToolError('Cow.tla: %s violated in the model' % rc[0].violation)
    if not rc[1].violation: raise vf.ToolError('Cow.tla: the forgetPropVert variant is no longer refuted')
    chk.coverage['states'] += rc[0].distinct; chk.coverage['transitions'] += rc[0].generated
    num = 120 if tier == 'quick' else 2500
    behs, r = progfam.generate('GenC05sim.cfg', simulate=num, timeout=3000)
    n1, nt1 = progfam.replay(chk, behs, 2, ['--rehash'], OWNED, tag='rehash')
    # expressions whose derived root dies unevaluated / is evaluated first: the nodes it was derived from
    # (held sub-expressions, a shared sub-expression under two transforms) must keep their value
    total = n1
    for fam in ['D3', 'T3', 'T4']:
        ebehs, r = progfam.generate('Expr_%s.cfg' % fam, module='Expr', timeout=900)
        if tier == 'quick' and fam != 'D3': ebehs = ebehs[::4]
        n, _ = progfam.replay(chk, ebehs, 4, ['--droproot'], OWNED, tag=fam + 'D', mode='expr', jobs=12)
        total += n
        n, _ = progfam.replay(chk, ebehs, 4, ['--rehash'], OWNED, tag=fam + 'R', mode='expr', jobs=12)
        total += n
        chk.coverage['expr_family_' + fam] = len(ebehs)
    # CrossSection values (lazy transform_, tolerance_): Xsec.tla programs, every earlier object re-observed
    import C11
    xb = C11.gen(chk, 'Xsec_prog4q.cfg') + C11.gen(chk, 'Xsec_sim.cfg', simulate=40 if tier == 'quick' else 1500)
    if tier == 'quick': xb = xb[vf.seed() % 4::4]
    n, _ = progfam.replay(chk, xb, 0, [], {'stability'}, tag='xsec', mode='xsec', jobs=12)
    total += n
    chk.coverage['crosssection_programs'] = n
    n1 = total
    chk.coverage.update({
        'traces_validated_against_impl': n1,
        'evaluations': n1, 'distinct_nontrivial': nt1,
        'rule': 'distinct TLC -simulate histories of Program.tla (all action kinds incl. Same-derivations, Split, plane '
                'cuts, copy/assign/compound-assign/drop, leaves with and without vertex properties, 13 lattice transforms, '
                'depth 12); after every action every already-observed live handle is re-observed and compared bit-for-bit',
        'samples': [progfam.prog_text(json.loads(b)) for b in behs[:3]]})
    chk.finish()

def replay(path):
    progfam.replay_file(path)
