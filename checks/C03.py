"""C03 - a CSG expression denotes one solid however it is built, shared or evaluated.
Expr.tla enumerates annotated expression trees/DAGs exhaustively by family (shape x operators x
non-commuting transforms on leaves/interior nodes x ownership temp/held/pre x sharing) and TLC
checks RewritesSound: a functional transcription of CsgOpNode::ToLeafNode (collapse with transform
push-down, (a-b)-c = a-(b+c), flat batches, cache with node transform) agrees with the set-algebra
denotation on every one of them.  The driver builds each expression with real C++ lifetimes,
forces the root first, then every held node, lazily and eagerly.  Program.tla adds seeded random
DAGs x forcing orders x handle lifetimes (Drop/Copy/compound assignment)."""
import json
import vf, progfam

OWNED = {'cells', 'volume', 'status', 'winding'}

def main(tier):
    chk = vf.Check('C03', tier, 'model_checking')
    vf.build('seq')
    progfam.model_check(chk)
    total = nontriv = 0
    samples = []
    fams = ['T4', 'D3', 'I4', 'T3'] if tier == 'thorough' else ['T4', 'D3', 'I4', 'T3']
    for fam in fams:
        behs, r = progfam.generate('Expr_%s.cfg' % fam, module='Expr', timeout=900)
        chk.coverage['states'] += r.distinct; chk.coverage['transitions'] += r.generated
        chk.coverage['expr_family_' + fam] = len(behs)
        n, nt = progfam.replay(chk, behs, 4, [], OWNED, tag=fam, mode='expr', jobs=12)
        total += n; nontriv += nt
        samples.append(progfam.expr_text(json.loads(behs[len(behs) // 2])))
        sub = behs if tier == 'thorough' else behs[::3]
        n, nt = progfam.replay(chk, sub, 4, ['--eager'], OWNED, tag=fam + 'E', mode='expr', jobs=12)
        total += n
        n, nt = progfam.replay(chk, sub if tier == 'thorough' else sub[::2], 4, ['--heldfirst'], OWNED, tag=fam + 'H', mode='expr', jobs=12)
        total += n
        # general position: the named lattice transforms replaced by generic rotations / translations / scales / mirrors;
        # the lazily and the eagerly built solid must agree (volume, status, winding at sample points away from the surface)
        n, nt = progfam.replay(chk, sub if tier == 'thorough' else sub[::2], 4, ['--generic'], OWNED, tag=fam + 'G', mode='expr', jobs=12)
        total += n
    num = 60 if tier == 'quick' else 2500
    behs, r = progfam.generate('GenC03sim.cfg', simulate=num, timeout=3000)
    n1, nt1 = progfam.replay(chk, behs, 2, [], OWNED, tag='lazy')
    n2, nt2 = progfam.replay(chk, behs, 2, ['--eager'], OWNED, tag='eager')
    n3, nt3 = progfam.replay(chk, behs, 2, ['--matrix'], OWNED, tag='lazyM')
    total += n1 + n2 + n3; nontriv += nt1
    samples.append(progfam.prog_text(json.loads(behs[0])))
    chk.coverage.update({
        'traces_validated_against_impl': total,
        'evaluations': total, 'distinct_nontrivial': nontriv,
        'exhaustive': True,
        'rule': 'Expr.tla families enumerated EXHAUSTIVELY by TLC (T4: 4 leaves x 5 shapes x Add/Subtract per node x '
                '{none,RZ,TXP}^3 interior transforms x temp/held; I4: Intersect/Add; T3: 3 leaves, all ops, transforms on '
                'leaves and nodes, temp/held/pre; D3: shared sub-expression used twice under different transforms), each '
                'executed lazily (root first), eagerly and held-nodes-first; plus seeded Program.tla behaviours. '
                'non-trivial = root solid non-empty',
        'samples': samples})
    chk.assumptions += ['lattice regime; denotation compared at cell centres by the independent winding oracle',
                        'Expr.tla!EvalF is a hand transcription of csg_tree.cpp:711-748 (checked against Den by TLC)']
    chk.finish()

def replay(path):
    progfam.replay_file(path)
