"""C13 - parallel primitives and lock-free containers equal their sequential spec.
TLA+: ParScan.tla / ParReduce.tla are the oneTBB scan / reduce PROTOCOLS (halving tree, body split
only on steal, pre- vs final-scan, reverse_join, assign, join) driving transcriptions of
details::ScanBody, CopyIfScanBody, SortedRange; TLC enumerates every protocol instance and checks
'= sequential algorithm' (non-commutative f), and refutes the regression variants.  UnionFind.tla /
HashTable.tla are step-per-atomic-access models of DisjointSets::unite/find and HashTableD::Insert;
TLC checks all interleavings of 2-3 threads.  Binding: every protocol instance is executed call for
call on the REAL C++ bodies; every (context-switch bounded) schedule TLC enumerates is replayed on
the REAL containers under a deterministic scheduler (MANIFOLD_VERIF_ATOMIC_POINT hook); whole
templates run with ExecutionPolicy::Par against the std algorithms for lengths around the
thresholds and several arena sizes; the parallel reduce result must lie in the set the spec allows."""
import json, random
import vf, progfam

OWNED = {'uf', 'ht', 'scan', 'copyif', 'sortedrange', 'algo'}
MC_OK = [('MCUnionFind', 'UF_race.cfg'), ('MCUnionFind', 'UF_w22.cfg'), ('MCUnionFind', 'UF_w3.cfg'),
         ('MCHashTable', 'HT_a.cfg'), ('MCHashTable', 'HT_b.cfg'), ('MCHashTable', 'HT_full.cfg'),
         ('ParScan', 'PS_scan_code.cfg'), ('ParScan', 'PS_copyif_code.cfg'), ('ParReduce', 'PR_fixed.cfg')]
MC_REFUTED = [('MCUnionFind', 'UF_race_bad.cfg', 'PartitionCorrect'), ('MCHashTable', 'HT_a_bad.cfg', None),
              ('ParScan', 'PS_scan_swapped.cfg', 'EqualsSequential')]
GEN = [('MCUnionFind', 'UF_gen_race.cfg'), ('MCUnionFind', 'UF_gen_w22.cfg'), ('MCUnionFind', 'UF_gen_w21.cfg'),
       ('MCUnionFind', 'UF_gen_w3.cfg'), ('MCHashTable', 'HT_gen_a.cfg'), ('MCHashTable', 'HT_gen_b.cfg'),
       ('MCHashTable', 'HT_gen_full.cfg'), ('ParScan', 'PS_scan_gen.cfg'), ('ParScan', 'PS_copyif_gen.cfg'),
       ('ParReduce', 'PR_gen.cfg')]
ALGOS = ['stable_sort_cmp', 'stable_sort_radix', 'merge_sort_deep', 'merge_rec', 'exclusive_scan', 'inclusive_scan', 'copy_if',
         'remove_if', 'remove', 'unique', 'reduce0', 'reduce', 'transform_reduce', 'count_all', 'maps']

def sig(f, beh):
    d = f['detail']
    if f['kind'] in ('algo:reduce', 'algo:transform_reduce'):
        return '%s|init is not an identity|parallel result differs from std' % f['kind']
    return '%s|%s' % (f['kind'], json.dumps(beh)[:300])

def main(tier):
    chk = vf.Check('C13', tier, 'model_checking')
    vf.build('par')
    jobs = [(m, c, {}) for m, c in MC_OK] + [(m, c, {}) for m, c, _ in MC_REFUTED] + [(m, c, {}) for m, c in GEN] \
        + [('ParReduce', 'PR_code.cfg', {})]
    res = vf.tlc_many(jobs, parallel=8)
    states = trans = 0
    i = 0
    for (m, c) in MC_OK:
        r = res[i]; i += 1
        vf.tlc_ok(r, c)
        if r.violation: raise vf.ToolError('%s: %s violated in the model\n%s' % (c, r.violation, r.out[-1500:]))
        states += r.distinct; trans += r.generated
    for (m, c, inv) in MC_REFUTED:
        r = res[i]; i += 1
        if not r.violation: raise vf.ToolError('%s: the regression variant is no longer refuted (model lost sensitivity)' % c)
    gens = []
    for (m, c) in GEN:
        r = res[i]; i += 1
        if r.violation or not r.behaviours: raise vf.ToolError('%s: generation failed %s\n%s' % (c, r.violation, r.out[-1500:]))
        states += r.distinct; trans += r.generated
        gens.append(r.behaviours)
    rcode = res[i]
    chk.coverage['model_prediction'] = ('ParReduce.tla with IdentityArg="init" (the call in src/parallel.h): TLC %s ReduceOK'
                                        % ('refutes' if rcode.violation else 'accepts'))
    chk.coverage['states'] = states; chk.coverage['transitions'] = trans
    cases = []
    for g in gens: cases += g
    rnd = random.Random(vf.seed())
    sizes = [0, 1, 2, 3, 9999, 10000, 10001, 20011, 30007, 99999, 100000, 100001, 131072, 250007]
    if tier == 'quick':
        combos = [(a, n, t) for a in ALGOS for n in sizes for t in ([16] if n < 9999 else [2, 16])]
        combos = [c for c in combos if not (c[0] in ('merge_rec', 'merge_sort_deep') and c[1] < 2)]
    else:
        combos = [(a, n, t) for a in ALGOS for n in sizes + [400003, 1000003] for t in (1, 2, 3, 7, 16)]
        combos = [c for c in combos if not (c[0] in ('merge_rec', 'merge_sort_deep') and c[1] < 2)]
    for (a, n, t) in combos:
        for nk in ((3,) if tier == 'quick' else (2, 7, 1000)):
            cases.append(json.dumps({'kind': 'algo', 'name': a, 'n': n, 'threads': t, 'seed': rnd.randrange(1 << 30), 'nkeys': nk}))
    for rep in range(6 if tier == 'quick' else 40):   # steals are needed to see an init that is re-added
        for a in ('reduce', 'transform_reduce'):
            cases.append(json.dumps({'kind': 'algo', 'name': a, 'n': 3000017, 'threads': 16, 'seed': rnd.randrange(1 << 30), 'nkeys': 3}))
    for what in ('uf', 'ht'):
        for t in (2, 3):
            cases.append(json.dumps({'kind': 'stress', 'what': what, 'threads': t, 'rounds': 3000 if tier == 'quick' else 60000,
                                     'seed': rnd.randrange(1 << 30)}))
    rnd.shuffle(cases)
    n, nt = progfam.replay(chk, cases, 0, [], OWNED, variant='par', tag='par', mode='par', jobs=12, chunk=40, sig_of=sig)
    nsched = sum(len(g) for g in gens[:7]); nproto = sum(len(g) for g in gens[7:])
    chk.coverage.update({
        'traces_validated_against_impl': nsched + nproto,
        'schedules_replayed': nsched, 'protocol_instances_replayed': nproto, 'template_runs': len(combos),
        'evaluations': n, 'distinct_nontrivial': nt,
        'rule': 'cases = every TLC-enumerated protocol instance of ParScan/ParReduce (N=5 scan, N=4 sort x all key arrays over 3 keys), '
                'every TLC-enumerated schedule with <= 2-3 context switches of UnionFind/HashTable work lists, whole templates x lengths '
                '{0,1,2,3,threshold-1,threshold,threshold+1,...} x arena sizes, racing stress rounds; non-trivial = more than one '
                'operation/step/element',
        'samples': [c[:400] for c in (gens[0][:1] + gens[7][:1] + [cases[0]])]})
    chk.assumptions += ['the scan protocol is the documented Body contract of oneTBB parallel_scan (one legal two-pass scheme), not a transcription of its task graph',
                        'TBB scheduling of whole templates is sampled (arena sizes x seeds), not enumerated']
    chk.finish()

def replay(path):
    j = json.load(open(path)); j['replay']['variant'] = 'par'
    json.dump(j, open(path, 'w'))
    progfam.replay_file(path)
