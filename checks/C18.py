"""C18 - measurements and queries agree with their brute-force definitions (lattice regime).
Every Force of a TLC-generated Program.tla behaviour carries what Lattice.tla demands of the
measurements (cell count, exposed faces, extent; slices/shadow/components derive from the cells);
the driver calls Volume/SurfaceArea/BoundingBox/WindingNumber/Slice/Project/RayCast/Decompose/
IsEmpty/NumVert/NumTri/NumProp and compares with the export and with the specification."""
import json
import vf, progfam

OWNED = {'measure'}

def main(tier):
    chk = vf.Check('C18', tier, 'exploration')
    vf.build('seq')
    progfam.model_check(chk)
    total = nontriv = 0
    behs, r = progfam.generate('GenC02pairs.cfg')
    sub = behs if tier == 'thorough' else behs[vf.seed() % 3::3]
    n, nt = progfam.replay(chk, sub, 1, ['--measure'], OWNED, tag='pairs', jobs=12)
    total += n; nontriv += nt
    num = 60 if tier == 'quick' else 1500
    sbehs, r = progfam.generate('GenC02sim.cfg', simulate=num, timeout=3000)
    n, nt = progfam.replay(chk, sbehs, 2, ['--measure'], OWNED, tag='sim', jobs=12)
    total += n; nontriv += nt
    # general position (GenPos.tla classes, seeded float parameters): MinGap against an independent brute-force
    # triangle-triangle distance, BoundingBox of lazily transformed / composed results against the exported vertices
    gb, r = progfam.generate('GenPos.cfg', module='GenPos')
    n, nt = progfam.replay(chk, gb, 0, ['--seed=%d' % vf.seed(), '--points=20', '--reps=%d' % (1 if tier == 'quick' else 8)], OWNED,
                           tag='genpos', mode='genpos', jobs=12, chunk=30, sig_of=lambda f, beh: '%s|%s|%s' % (f['kind'], f['detail'].get('why', ''), json.dumps(beh)[:200]))
    total += n; nontriv += nt
    chk.coverage['general_position_classes'] = n
    chk.coverage.update({
        'evaluations': total, 'distinct_nontrivial': nontriv,
        'rule': 'every live handle of TLC-generated lattice programs (pairs of the 27 boxes of the 2x2x2 window x 3 ops; '
                'seeded deeper programs on the 4x4x4 window) measured with every query; non-trivial = a non-empty solid '
                'produced by >=1 Boolean. Per DESIGN 3.1 only what the statement says is demanded (area >= exposed faces, '
                'bbox = tight box of vertices and superset of cell extent, ray parity/order/on-segment, decomposition never splits a '
                'face-connected component)',
        'samples': [progfam.prog_text(json.loads(sbehs[0])), progfam.prog_text(json.loads(behs[100]))]})
    chk.assumptions += ['MinGap and general-position queries are checked by the float oracle in thorough tier only (not yet built)']
    chk.finish()

def replay(path):
    progfam.replay_file(path)
