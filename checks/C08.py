"""C08 - MeshGL export and re-import is lossless (lattice programs; canonical triangle sets)."""
import json
import vf, progfam

OWNED = {'roundtrip'}

def sig(f, beh):
    d = f['detail']
    return 'roundtrip|%s|%s|%s' % (d.get('variant', ''), d.get('why', ''), progfam.prog_text(beh))

def main(tier):
    chk = vf.Check('C08', tier, 'exploration')
    vf.build('seq')
    progfam.model_check(chk)
    total = nontriv = 0
    num = 80 if tier == 'quick' else 1500
    sbehs, r = progfam.generate('GenC05sim.cfg', simulate=num, timeout=3000)
    n, nt = progfam.replay(chk, sbehs, 2, ['--roundtrip'], OWNED, tag='sim', jobs=12, sig_of=sig)
    total += n; nontriv += nt
    behs, r = progfam.generate('GenC02pairs.cfg')
    sub = behs if tier == 'thorough' else behs[vf.seed() % 3::3]
    n, nt = progfam.replay(chk, sub, 1, ['--roundtrip'], OWNED, tag='pairs', jobs=12, sig_of=sig)
    total += n; nontriv += nt
    # the ingest path for >= 2^18 property vertices (plain -O2 serial build: the ASan build is too slow for 5e5 triangles)
    vf.build('ser')
    big = [json.dumps({'k': 'roundtripbig', 'n': 210})]
    n, nt = progfam.replay(chk, big, 0, [], OWNED, variant='ser', tag='big', mode='det', jobs=1,
                           sig_of=lambda f, beh: 'roundtrip|big|%s' % f['detail'].get('why', ''))
    total += n; nontriv += nt
    chk.coverage.update({
        'evaluations': total, 'distinct_nontrivial': nontriv,
        'rule': 'Manifold(GetMeshGL64(m)) re-exported and compared as a canonical multiset of triangles over bit-exact corner '
                'property tuples + (originalID, runFlags, runTransform [identity when omitted for originals]); status NoError; '
                'tolerance not smaller (non-empty meshes). m ranges over every live handle of TLC-generated lattice programs incl. '
                'property-carrying leaves, mirrored instances, Split/plane cuts; non-trivial = non-empty result of >=1 Boolean',
        'samples': [progfam.prog_text(json.loads(sbehs[0]))]})
    chk.assumptions += ['tangent round trip and 32-bit/OBJ paths: not yet covered by this check']
    chk.finish()

def replay(path):
    progfam.replay_file(path)
