"""C14 - spatial indices report exactly the overlapping pairs.
spec/RadixTree.tla transcribes src/collider.h (CreateRadixTree: PrefixLength with the index
tie-break, RangeEnd, FindSplit; BuildInternalBoxes with arrival counters; FindCollision's stack
traversal; Box::DoesOverlap / Box::Transform) and states the property by the brute-force
definition (closed intervals share a point; points: XY projection; each pair once; minus self).
TLC checks (i) every sorted Morton multiset of 2..6 leaves over codes 0..7 gives a full binary
tree of contiguous leaf ranges which the children partition, every leaf reachable once, for
kInitialLength 1, 2 and 128; (ii) BuildInternalBoxes under ALL interleavings of the per-leaf
threads gives every internal box = union of its leaves, no unwritten box is ever read;
(iii) the traversal reports exactly the brute-force set on every such tree x every assignment of
the six lattice intervals x every query, also after Transform; (iv) trees of 129..600 leaves with
long runs of equal codes.  TLC also prints the cases (leaves, codes, queries, transform, new boxes
and the EXPECTED sets); drive/collide.cpp runs them on the real Collider (all Collisions overloads,
Transform on a copy, UpdateBoxes forth and back), on boolean2's edge-pair broad phase (sweep and
BVH) and on the polygon k-d tree, and compares pair multisets.  A seeded large run (to 5000 leaves,
duplicated codes, degenerate overall box, Morton codes computed as sort.cpp does; `par` build in
thorough tier) uses the driver's brute-force scan, which is cross-checked against the
specification's expected sets on every TLC case.
"All query boxes/points" includes UNBOUNDED ones: the specification models -Infinity/+Infinity by
sentinels strictly outside every finite coordinate of a case (checked by TLC), its closed-interval
oracle gives the expected sets, the traversal model has the "early exit for empty boxes" guard, and
every Collider case carries 8 unbounded query boxes (whole space, the empty default Box() expecting
nothing, half spaces / slabs / orthants, boxes with one empty or degenerate-at-infinity axis) and 3
unbounded points, asked in every phase (build, Transform, UpdateBoxes forth and back) through every
Collisions overload; the k-d tree gets 13 unbounded query rectangles; the seeded large cases append
such queries too.  They are printed as the tokens "-Infinity"/"Infinity" and mapped to the IEEE
infinities by the driver."""
import json, os, random, threading, time
from concurrent.futures import ThreadPoolExecutor
import vf, progfam

OWNED = ('pairs', 'rects', 'kdtree')
DRIFT = ('drift', 'rootbox')
INF = ('Infinity', '-Infinity')
_lock = threading.Lock()


def unbounded_stats(cases):
    """classify the unbounded query boxes TLC printed (per case: the plain query list), with the size of the expected set"""
    st = {'query_boxes': 0, 'with_nonempty_expected_set': 0, 'whole_space': 0, 'empty_default_box': 0,
          'empty_default_box_expecting_nothing': 0, 'half_infinite_on_some_axis': 0,
          'min_-inf_on_one_axis_max_+inf_on_all': 0, 'dead_axis_not_x_min': 0, 'query_points': 0, 'points_with_nonempty_expected_set': 0,
          'kdtree_query_rects': 0, 'kdtree_rects_with_nonempty_expected_set': 0, 'axis_kind_signatures': set()}
    for c in cases:
        if c['kind'] == 'points':
            for q, e in zip(c['queries'], c['exp']):
                if any(x in INF for x in q):
                    st['kdtree_query_rects'] += 1
                    st['kdtree_rects_with_nonempty_expected_set'] += bool(e)
            continue
        if c['kind'] != 'bvh3':
            continue
        for q, e in zip(c['qboxes'], c['expBox']):
            if not any(x in INF for x in q):
                continue
            ax = []
            for d in range(3):
                lo, hi = q[d], q[d + 3]
                ax.append('line' if (lo, hi) == ('-Infinity', 'Infinity') else 'empty' if (lo, hi) == ('Infinity', '-Infinity')
                          else 'at-inf' if lo == hi and lo in INF else 'left' if lo == '-Infinity' else 'right' if hi == 'Infinity' else 'finite')
            st['query_boxes'] += 1
            st['with_nonempty_expected_set'] += bool(e)
            st['axis_kind_signatures'].add(tuple(ax))
            if ax == ['line'] * 3:
                st['whole_space'] += 1
                if len(e) != c['n']:
                    raise vf.ToolError('the specification does not expect every leaf for the whole-space query: %s' % case_text(c))
            if ax == ['empty'] * 3:
                st['empty_default_box'] += 1
                st['empty_default_box_expecting_nothing'] += not e
            if 'left' in ax or 'right' in ax:
                st['half_infinite_on_some_axis'] += 1
            if all(q[d + 3] == 'Infinity' for d in range(3)) and sum(q[d] == '-Infinity' for d in range(3)) == 1 and 'Infinity' not in q[:3]:
                st['min_-inf_on_one_axis_max_+inf_on_all'] += 1
            if q[0] != 'Infinity' and ('empty' in ax or 'at-inf' in ax):
                st['dead_axis_not_x_min'] += 1
        for q, e in zip(c['qpoints'], c['expPoint']):
            if any(x in INF for x in q):
                st['query_points'] += 1
                st['points_with_nonempty_expected_set'] += bool(e)
    st['axis_kind_signatures'] = len(st['axis_kind_signatures'])
    return st


def _tlc(args):
    name, cfg, workers, timeout, delay = args
    time.sleep(delay)
    t0 = time.time()
    # developer aid for mutation experiments only (TLC's output does not depend on /repo): never set in normal runs
    cache = os.environ.get('C14_TLC_CACHE')
    key = None
    if cache:
        import hashlib, pickle
        h = hashlib.sha1((open(vf.SPEC + '/RadixTree.tla').read() + open(vf.SPEC + '/' + cfg).read()).encode()).hexdigest()[:16]
        key = '%s/%s.%s.pickle' % (cache, cfg, h)
        if os.path.exists(key):
            r = pickle.load(open(key, 'rb'))
            r.wall = 0.0
            return name, cfg, r
    r = vf.tlc('RadixTree', cfg, workers=workers, timeout=timeout)
    r.wall = time.time() - t0
    if key and not r.error and not r.violation:
        os.makedirs(cache, exist_ok=True)
        pickle.dump(r, open(key, 'wb'))
    return name, cfg, r


def run_tlc(chk, jobs):
    """jobs: list of (name, cfg, workers, timeout).  Runs them concurrently; returns {name: result}."""
    out = {}
    with ThreadPoolExecutor(max_workers=4) as ex:
        for name, cfg, r in ex.map(_tlc, [j + (0.15 * i,) for i, j in enumerate(jobs)]):
            vf.tlc_ok(r, 'RadixTree/' + cfg)
            if r.violation:
                raise vf.ToolError('MODEL-VIOLATION: RadixTree.tla/%s: %s is violated IN THE MODEL (the transcription of '
                                   'collider.h or the specification is wrong; no execution of the real code is involved)\n%s'
                                   % (cfg, r.violation, r.out[-2500:]))
            if r.error or r.distinct == 0:
                raise vf.ToolError('RadixTree/%s: TLC did not finish (%s)\n%s' % (cfg, r.error, r.out[-2000:]))
            chk.coverage['states'] = chk.coverage.get('states', 0) + r.distinct
            chk.coverage['transitions'] = chk.coverage.get('transitions', 0) + r.generated
            chk.coverage['tlc_' + name] = {'cfg': cfg, 'distinct_states': r.distinct, 'printed_cases': len(set(r.behaviours))}
            vf.log('[C14] TLC %-6s %-22s %8d states %6d cases %4.0fs' % (name, cfg, r.distinct, len(r.behaviours), r.wall))
            out[name] = r
    return out


def case_text(c):
    k = c['kind']
    if k == 'bvh3':
        return 'Collider n=%d fam=%s/%s morton=%s boxes=%s xf=%s' % (c['n'], c['fam'], c['v'], c['morton'][:12], c['boxes'][:6], c['xf'])
    if k == 'rects':
        return 'edge-pair broad phase rects=%s' % (c['rects'][:8],)
    if k == 'points':
        return 'k-d tree n=%d points=%s' % (c['n'], c['points'][:12])
    return json.dumps(c)


def describe(f, c):
    d = f['detail']
    s = '%s %s' % (f['kind'], json.dumps(d))
    if c['kind'] == 'bvh3' and 'leaf' in d and 'query' in d:
        ph = d.get('phase', '')
        boxes = c['boxesT'] if ph == 'transform' else c['boxes2'] if ph == 'update' else c['boxes']
        qs = {'box': c['qboxesT'] if ph == 'transform' else c['qboxes'],
              'point': c['qpointsT'] if ph == 'transform' else c['qpoints'], 'self': boxes}.get(d.get('queries'), [])
        if d['query'] < len(qs) and d['leaf'] < len(boxes):
            s += ' query=%s leafbox=%s' % (qs[d['query']], boxes[d['leaf']])
    return s + ' :: ' + case_text(c)


def signature(f, c):
    d = f['detail']
    return '%s|%s|%s|%s' % (f['kind'], d.get('phase', d.get('path', '')), d.get('queries', ''), case_text(c)[:300])


def run_cases(chk, cases, tag, variant='seq', jobs=12, timeout=900):
    """cases: list of dicts.  Returns (n_run, n_nontrivial)."""
    work = '%s/work/%s' % (vf.BUILD, chk.pid)
    os.makedirs(work, exist_ok=True)
    args = ['collide']
    texts = [json.dumps(c) for c in cases]
    results, crashes = progfam.pdrive(variant, args, texts, work, tag + variant, timeout, jobs)
    nontrivial = sum(1 for r in results.values() if r.get('nontrivial', 0) > 0)
    with _lock:   # measured by the driver: unbounded queries it asked (per case, each counted once) / with a non-empty expected set
        chk.unbounded[0] += sum(r.get('unbounded', 0) for r in results.values())
        chk.unbounded[1] += sum(r.get('unbounded_hit', 0) for r in results.values())
    if len(results) < len(cases) and not crashes:
        raise vf.ToolError('driver gave no verdict for %d of %d cases (%s)' % (len(cases) - len(results), len(cases), tag))
    failing = []
    for i, r in sorted(results.items()):
        for f in r['fail']:
            if f['kind'].startswith('oracle'):
                raise vf.ToolError('the driver\'s brute-force scan disagrees with the specification\'s expected set '
                                   '(%s) on %s' % (json.dumps(f['detail']), case_text(cases[i])))
            if f['kind'].startswith(DRIFT):
                chk.drift.append('%s %s on %s' % (f['kind'], json.dumps(f['detail']), case_text(cases[i])[:200]))
        fl = [f for f in r['fail'] if f['kind'].startswith(OWNED)]
        if fl:
            failing.append((i, fl))
    # a crash / watchdog kill counts only if the case, re-run ALONE once, crashes or fails again
    confirmed_crashes = 0
    for k, (i, rc, text) in enumerate(crashes):
        if k >= 40 or confirmed_crashes >= 5:
            break
        inpc = '%s/crash%s.%d.ndjson' % (work, tag + variant, i)
        vf.write_ndjson(inpc, [texts[i]])
        res2, cr2 = vf.drive(variant, args, inpc, inpc + '.out', timeout=900)
        r2 = res2.get(0)
        if not cr2 and r2 is not None and not [f for f in r2['fail'] if f['kind'].startswith(OWNED)]:
            vf.log('[C14] unconfirmed crash/timeout (rc=%s) did not repeat: %s' % (rc, case_text(cases[i])[:200]))
            chk.coverage['unconfirmed_crashes'] = chk.coverage.get('unconfirmed_crashes', 0) + 1
            continue
        confirmed_crashes += 1
        if cr2:
            rc, text = cr2[0][1], cr2[0][2]
        chk.violation('crash|' + progfam.crash_site(text) + '|' + cases[i]['kind'],
                      'driver crashed or hung (rc=%s, repeated when re-run alone) on a valid leaf set: %s\n%s' % (rc, case_text(cases[i]), text[-1500:]),
                      {'driver': args, 'variant': variant, 'behaviour': cases[i]})
    if failing:
        failing = failing[:100]
        inp2 = '%s/confirm%s.ndjson' % (work, tag + variant)
        vf.write_ndjson(inp2, [texts[i] for i, _ in failing])
        res2, cr2 = vf.drive(variant, args, inp2, inp2 + '.out', timeout=600)
        confirmed = []
        for n, (i, fl) in enumerate(failing):
            r2 = res2.get(n)
            if r2 is None:
                confirmed.append((i, fl)); continue
            kinds2 = set(f['kind'] for f in r2['fail'])
            fl2 = [f for f in fl if f['kind'] in kinds2]
            if fl2:
                confirmed.append((i, fl2))
        for i, fl in confirmed:
            f = fl[0]
            chk.violation(signature(f, cases[i]), describe(f, cases[i]),
                          {'driver': args, 'variant': variant, 'behaviour': cases[i], 'failure': f})
    return len(results), nontrivial


def rand_cases(tier, variant):
    rnd = random.Random(vf.seed() * 7919 + (1 if variant == 'par' else 0))
    S = lambda: rnd.randrange(1, 2 ** 40)
    out = []
    big = tier == 'thorough'
    sizes = [129, 130, 257, 400, 1000, 2500] + ([3333, 5000] if big else [])
    for n in sizes:
        lat = max(3, int(round((n / 4.0) ** (1 / 3.0))) + 1)
        modes = [dict(codes='given', alphabet=1), dict(codes='given', alphabet=3), dict(codes='given', alphabet=40, spread=1),
                 dict(codes='computed'), dict(codes='computed', flat=rnd.randrange(3))]
        if not big:
            modes = rnd.sample(modes[:3], 2) + modes[3:]
        for m in modes:
            c = dict(kind='rand3', n=n, seed=S(), lat=lat, maxsize=2, nq=600 if n >= 1000 else 64, self=n <= (5000 if big else 1000))
            c.update(m)
            out.append(c)
    if variant == 'par':
        # > 10 000 internal nodes: parallel CreateRadixTree; > 1000: parallel BuildInternalBoxes; > 512 queries: parallel traversal
        for m in (dict(codes='given', alphabet=5), dict(codes='computed')):
            c = dict(kind='rand3', n=12000, seed=S(), lat=16, maxsize=2, nq=1200, self=True)
            c.update(m)
            out.append(c)
    for n in [2, 40, 300, 1100] + ([2000, 4000] if big else []):
        out.append(dict(kind='rand2', n=n, seed=S(), lat=max(4, int(n ** 0.5)), maxsize=3))
        out.append(dict(kind='rand2', n=n, seed=S(), lat=3, maxsize=0))      # only degenerate, heavily repeated boxes
    for n in [9, 17, 50, 500, 3000] + ([20000] if big else []):
        out.append(dict(kind='randpts', n=n, seed=S(), lat=max(3, int(n ** 0.5) // 2), nq=150))
    return out


def main(tier):
    chk = vf.Check('C14', tier, 'model_checking')
    chk.unbounded = [0, 0]
    vf.build('seq')
    thorough = tier == 'thorough'
    jobs = [('genA', 'RadixTree_genA.cfg', 6, 900), ('genB', 'RadixTree_genB.cfg', 6, 900),
            ('trav', 'RadixTree_trav5.cfg' if thorough else 'RadixTree_trav.cfg', 8 if thorough else 6, 7200),
            ('tree', 'RadixTree_tree.cfg', 3, 900), ('big', 'RadixTree_bigT.cfg' if thorough else 'RadixTree_big.cfg', 4, 1500),
            ('2d', 'RadixTree_2dT.cfg' if thorough else 'RadixTree_2d.cfg', 3, 900),
            ('build', 'RadixTree_build6.cfg', 3, 900)]
    if thorough:
        jobs.insert(2, ('genC', 'RadixTree_genC.cfg', 6, 7200))
    # the seeded large cases do not depend on TLC: run them meanwhile (one driver process per group)
    rc = rand_cases(tier, 'seq')
    groups = [rc[i::6] for i in range(6)]
    pool = ThreadPoolExecutor(max_workers=6)
    rand_futs = [pool.submit(run_cases, chk, g, 'rand%d' % i, 'seq', 12, 2400) for i, g in enumerate(groups) if g]
    t0 = time.time()
    res = run_tlc(chk, jobs)
    vf.log('[C14] TLC phase %.0fs' % (time.time() - t0))
    cases = []
    for name in ('genA', 'genB', 'genC', 'big', '2d'):
        if name in res:
            seen = set()
            for b in res[name].behaviours:
                if b not in seen:
                    seen.add(b); cases.append(json.loads(b))
    kinds = {}
    for c in cases:
        kinds[c['kind']] = kinds.get(c['kind'], 0) + 1
    if kinds.get('bvh3', 0) < 1000 or kinds.get('rects', 0) < 500 or kinds.get('points', 0) < 50:
        raise vf.ToolError('vacuity: too few cases were generated: %s' % kinds)
    dup_codes = sum(1 for c in cases if c['kind'] == 'bvh3' and len(set(c['morton'])) < c['n'])
    same_box = sum(1 for c in cases if c['kind'] == 'bvh3' and len(set(map(tuple, c['boxes']))) < c['n'])
    degenerate = sum(1 for c in cases if c['kind'] == 'bvh3' and any(b[0] == b[3] or b[1] == b[4] or b[2] == b[5] for b in c['boxes']))
    over128 = sum(1 for c in cases if c['kind'] == 'bvh3' and c['n'] > 128)
    if min(dup_codes, same_box, degenerate, over128) == 0:
        raise vf.ToolError('vacuity: duplicates/degenerate/large classes missing: %s' % [dup_codes, same_box, degenerate, over128])
    ub = unbounded_stats(cases)
    nb = kinds['bvh3']
    if (ub['whole_space'] < nb or ub['empty_default_box'] < nb or ub['empty_default_box_expecting_nothing'] != ub['empty_default_box']
            or ub['with_nonempty_expected_set'] < 2 * nb or ub['half_infinite_on_some_axis'] < 3 * nb or ub['dead_axis_not_x_min'] < nb
            or ub['min_-inf_on_one_axis_max_+inf_on_all'] < 20 or ub['axis_kind_signatures'] < 100
            or ub['points_with_nonempty_expected_set'] < nb // 4 or ub['kdtree_rects_with_nonempty_expected_set'] < 5 * kinds['points']):
        raise vf.ToolError('vacuity: unbounded query classes missing or the empty default box expects something: %s' % ub)
    t0 = time.time()
    total, nontriv = run_cases(chk, cases, 'tlc')
    for f in rand_futs:
        total += f.result()[0]
    variants = ['seq']
    if thorough:
        vf.build('par')
        variants.append('par')
        n3, nt3 = run_cases(chk, cases, 'tlc', variant='par')
        rcp = rand_cases(tier, 'par')
        futs = [pool.submit(run_cases, chk, g, 'rand%d' % i, 'par', 12, 2400) for i, g in enumerate([rcp[i::4] for i in range(4)]) if g]
        total += n3 + sum(f.result()[0] for f in futs)
        rc = rc + rcp
    vf.log('[C14] driver phase %.0fs' % (time.time() - t0))
    if chk.unbounded[0] < ub['query_boxes'] + ub['query_points'] + ub['kdtree_query_rects'] or chk.unbounded[1] < ub['with_nonempty_expected_set']:
        raise vf.ToolError('vacuity: the driver asked fewer unbounded queries (%s) than TLC printed (%s)' % (chk.unbounded, ub))
    chk.coverage['drift_count'] = len(chk.drift)
    for d in chk.drift[:3]:
        vf.log('DRIFT: (model and implementation differ where the property observable is fine; %d in total) %s' % (len(chk.drift), d[:300]))
    mid = [c for c in cases if c['kind'] == 'bvh3' and c['n'] == 4]
    mc = mid[len(mid) // 2]
    nf = mc['nfinite'][0]
    samples = [case_text(mc) + ' expBox=%s expSelf=%s' % (mc['expBox'][:nf], mc['expSelf']),
               'unbounded queries of that case (asked after build, Transform, UpdateBoxes): ' +
               '; '.join('%s -> %s' % (q, e) for q, e in list(zip(mc['qboxes'], mc['expBox']))[nf:]).replace('"', ''),
               case_text([c for c in cases if c['kind'] == 'rects'][-1]), case_text([c for c in cases if c['kind'] == 'points'][0]),
               json.dumps(rc[0])]
    chk.coverage.update({
        'traces_validated_against_impl': total,
        'evaluations': total, 'distinct_nontrivial': nontriv,
        'exhaustive': True,
        'case_kinds': kinds, 'with_duplicate_codes': dup_codes, 'with_identical_boxes': same_box,
        'with_degenerate_box': degenerate, 'more_than_128_leaves': over128, 'seeded_large_cases': len(rc),
        'unbounded_queries_generated_by_tlc': ub,
        'unbounded_queries_asked_by_driver': {'distinct_queries': chk.unbounded[0], 'with_nonempty_expected_set': chk.unbounded[1],
                                              'note': 'TLC cases + seeded large cases, per build variant; each asked in 5 phases x 3 Collisions overloads'},
        'variants': variants,
        'rule': 'TLC enumerates EXHAUSTIVELY every sorted Morton multiset of 2..6 leaves over codes 0..7 (tree invariants, kInitialLength '
                '1/2/128), every tree they produce x every interleaving of BuildInternalBoxes, every such tree (<=4 leaves quick, <=5 thorough) x every '
                'assignment of the 6 intervals on {0,1,2} x all interval/point/self queries (+Transform); it prints per multiset several '
                'reproducible box assignments from 1-D/2-D/3-D lattice families (identical and zero-size boxes included), 8 box + 9 point '
                'queries + self-collision, an axis-aligned transform and a second box set, each with the expected sets; formula-generated sets '
                'of 129..600 leaves with long runs of equal codes; UNBOUNDED queries in every Collider case: -Infinity/+Infinity are sentinels '
                'outside all finite coordinates (TLC-checked per case), 8 boxes per case = whole space, the empty default Box() '
                '(min=+inf,max=-inf, expecting the empty set), 4 boxes with every axis the whole line / a half-line / a finite interval '
                '(all 62 mixed combinations occur), 2 boxes with one axis empty or degenerate at an infinity, plus 3 points with infinite '
                'coordinates; asked unchanged after build, Transform and UpdateBoxes; 13 unbounded rectangles per k-d tree case; the '
                'exhaustive traversal model (trav) asks 6 unbounded boxes + 2 points on every tree x box assignment and includes the '
                'early-exit guard; all pairs of the 36 lattice rectangles, all triples(+quadruples) of the 9 unit ones, '
                'patterned larger sets; patterned point sets (9..70 points on a 4x4 lattice) x 102 query rectangles. Every case is executed on '
                'the real code through every Collisions overload; evaluations = cases executed (TLC cases + seeded large cases, per build '
                'variant). non-trivial = distinct TLC case with at least one non-empty expected set',
        'samples': samples})
    chk.assumptions += [
        'the seeded large cases (>600 leaves) use the driver\'s own brute-force closed-interval scan as oracle; it is cross-checked against '
        'the specification\'s expected sets on every TLC case (a disagreement is a tool error)',
        'tree-shape and root-box differences between model and implementation are reported as DRIFT, not as violations',
        'RadixTree.tla is a hand transcription of collider.h:76-235 (its own invariants are checked by TLC)',
        'unbounded queries: only QUERY boxes/points/rectangles have infinite bounds, leaf boxes are finite; intervals whose end points are '
        'inverted other than the default empty box (+inf,-inf) are not generated']
    chk.finish()


def replay(path):
    progfam.replay_file(path)
