"""C04 - results are bit-identical across schedules, thread counts and backends.
ForEach.tla: the three output idioms of the library's parallel loops (thread-local stores combined
in arbitrary order then stable-sorted; atomic-cursor slot claiming then canonical sort; atomic
accumulation) under every chunk order / worker assignment / combine order; TLC proves the output
equals the sequential one when the sort key is TOTAL and integer accumulation is used, and refutes
it for a key with ties and for floating-point accumulation (the two regression classes).
Binding: the same case file (Expr.tla expressions over refined leaves above the 1e4/1e5
thresholds, coincident self-overlapping imports with > 128 collisions, > 2^18-vertex imports with
4-fold edges, sphere Booleans, batches, hull/Minkowski/level set/smoothing, CrossSection Booleans
above the BVH threshold, Triangulate) is executed in the serial-backend build and in the TBB
build with arena sizes 1,2,3,7,16, repeatedly; every export hash must be equal everywhere."""
import json, os, random
import vf, progfam

def main(tier):
    chk = vf.Check('C04', tier, 'exploration')
    vf.build('par')
    ok = ['store_total', 'cursor_total', 'accum_int']; bad = ['store_ties', 'cursor_ties', 'accum_float']
    res = vf.tlc_many([('MCForEach', 'FE_%s.cfg' % c, {}) for c in ok + bad], parallel=6)
    for c, r in zip(ok, res[:3]):
        vf.tlc_ok(r, c)
        if r.violation: raise vf.ToolError('ForEach %s: %s violated in the model' % (c, r.violation))
    for c, r in zip(bad, res[3:]):
        if r.violation != 'Deterministic': raise vf.ToolError('ForEach %s: regression variant no longer refuted' % c)
    chk.coverage['states'] = sum(r.distinct for r in res[:3]); chk.coverage['transitions'] = sum(r.generated for r in res[:3])
    rnd = random.Random(vf.seed())
    trees, _ = progfam.generate('Expr_T3.cfg', module='Expr', timeout=600)
    dtrees, _ = progfam.generate('Expr_D3.cfg', module='Expr', timeout=600)
    pick = rnd.sample(trees, 3 if tier == 'quick' else 25) + rnd.sample(dtrees, 2 if tier == 'quick' else 15)
    cases = [{'k': 'expr', 'tree': json.loads(t), 'refine': 32} for t in pick]      # 12*32*32 = 12288 triangles per leaf
    # cases that exposed a defect once stay in every run (F25: serial/TBB DedupeEdges order), + the class they belong to
    cases += json.load(open(os.path.join(os.path.dirname(os.path.abspath(__file__)), 'C04_pinned.json')))
    cases += [{'k': 'touch', 'refine': 32}]
    cases += [{'k': 'coincident', 'pairs': 48}, {'k': 'sphere', 'seg': 128}, {'k': 'batch', 'seg': 64},
              {'k': 'normals', 'seg': 96}, {'k': 'hull', 'seg': 128}, {'k': 'levelset', 'edge': 0.06}, {'k': 'smooth'},
              {'k': 'xsec', 'steps': 700}, {'k': 'curvature', 'seg': 128}]
    big = [{'k': 'bowtie', 'units': 44000}]
    if tier == 'thorough':
        cases += [{'k': 'sphere', 'seg': 512}, {'k': 'coincident', 'pairs': 64}, {'k': 'levelset', 'edge': 0.02}, {'k': 'xsec', 'steps': 3000}]
    work = '%s/work/C04' % vf.BUILD
    os.makedirs(work, exist_ok=True)
    allc = [json.dumps(c) for c in cases + big]
    inp = work + '/cases.ndjson'
    vf.write_ndjson(inp, allc)
    configs = [('par', t, rep) for t in ((1, 3, 16) if tier == 'quick' else (1, 2, 3, 7, 16)) for rep in range(2 if tier == 'quick' else 4)]
    runs = {}
    evals = 0
    for (variant, t, rep) in configs:
        out = '%s/res_%s_%d_%d.ndjson' % (work, variant, t, rep)
        results, crashes = vf.drive(variant, ['det', '--threads=%d' % t], inp, out, timeout=3000)
        if crashes: raise vf.ToolError('det driver crashed: %s' % crashes[0][2][-800:])
        runs[(variant, t, rep)] = {i: r['h'] for i, r in results.items()}
        evals += len(results)
    # the serial backend (variant `ser`: MANIFOLD_PAR=OFF, -O2)
    vf.build('ser')
    results, crashes = vf.drive('ser', ['det'], inp, work + '/res_ser.ndjson', timeout=3000)
    if crashes: raise vf.ToolError('det driver (serial backend) crashed: %s' % crashes[0][2][-800:])
    runs[('ser', 0, 0)] = {i: r['h'] for i, r in results.items()}
    evals += len(results)
    ref_key = ('par', 1, 0)
    distinct = 0
    for i in range(len(allc)):
        ref = runs[ref_key].get(i)
        distinct += 1
        for key, hs in runs.items():
            if i not in hs: continue
            if hs[i] != ref:
                diff = [a for a, b in zip(hs[i], ref) if a != b][:2]
                what = json.loads(allc[i]); kind = what['k']
                tag = diff[0].split(':')[0] if diff else '?'
                axis = 'backend' if key[0] != ref_key[0] else 'threads'
                sigtxt = 'nondeterministic|%s|%s|%s' % (kind, tag, axis)
                chk.violation(sigtxt, 'export differs between configurations %s and %s for case %s: %s vs %s' %
                              (key, ref_key, allc[i][:200], diff, [b for a, b in zip(hs[i], ref) if a != b][:2]),
                              {'case': what, 'configs': [list(key), list(ref_key)]})
    chk.coverage.update({
        'evaluations': evals, 'distinct_nontrivial': distinct,
        'configurations': [list(k) for k in runs],
        'rule': 'each case executed in every configuration (TBB build x arena sizes x repeats, serial-backend build); all hashes of the '
                'full MeshGL64 export (IDs renamed by first occurrence), ToPolygons and Triangulate output must be equal; every case has '
                'meshes above the parallel thresholds (non-trivial by construction)',
        'samples': [c[:300] for c in allc[:2]] + [allc[-1]]})
    chk.assumptions += ['TBB schedules are sampled through arena size and repetition, not enumerated (exhaustive only in ForEach.tla and for the primitives, C13)']
    chk.finish()

def replay(path):
    print('re-run ./check C04 (cases are regenerated deterministically from the seed)'); raise SystemExit(0)
