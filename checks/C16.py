"""C16 - Hull is the convex hull; Minkowski sum/difference are dilation and erosion.
Hull3.tla states the result relation IsHullOf(P, mesh) on integer points with exact orient3d
predicates (closed 2-manifold, vertices are input points, every input point inside-or-on every face
plane, every edge convex, empty iff the points span no volume); TLC enumerates point multisets
(duplicates, collinear, coplanar, clustered) and unit-cube complexes by family, checks that a
brute-force reference hull satisfies the relation, that damaged hulls are rejected, that the printed
extreme set equals an independent Caratheodory definition, and prints every case with the facts that
follow from the statement (spans volume, extreme points, 6*volume).  drive/hull.cpp runs
Manifold::Hull(points) (several orders of the same multiset), Manifold::Hull() and
Hull(vector<Manifold>) on them and evaluates the relation in exact integer arithmetic on the export;
a sample of the meshes the implementation returned goes back to TLC (Hull3_Trace.cfg), which
evaluates the TLA+ predicate itself.  Minkowski: TLC enumerates lattice solids A (unions of boxes,
convex or not) and structuring solids B containing the origin (boxes and L-shapes), checks the
algebra of the statement's inclusions on cells (Lattice.tla) and prints them; the driver runs both
operand orders and classifies cell centres and mesh vertices with the independent winding oracle."""
import json, os, random, time
import vf, progfam

HULL_KINDS = {'hull-status', 'hull-empty', 'hull-manifold', 'hull-vertex', 'hull-contain', 'hull-convex',
              'hull-extreme', 'hull-volume'}
MINK_KINDS = {'mink-status', 'mink-manifold', 'mink-winding', 'mink-sum-lower', 'mink-sum-reach',
              'mink-diff-inside', 'mink-diff-erode'}
F10 = 'hull of points spanning no volume is not empty'
# clause names of Hull3!FailedClauses <-> failure kinds of the driver
CLAUSE_OF = {'hull-manifold': 'manifold', 'hull-vertex': 'vertex-not-input', 'hull-contain': 'input-outside',
             'hull-convex': 'reflex-edge'}


def case_text(c):
    if c['kind'] == 'mink':
        return 'A=%s B=%s(%s)' % (json.dumps(c['A'], separators=(',', ':')), c['bname'], json.dumps(c['B'], separators=(',', ':')))
    if c['kind'] == 'cells':
        return 'cubes at %s' % json.dumps(c['cells'], separators=(',', ':'))
    return 'points %s' % json.dumps(c['pts'], separators=(',', ':'))


def sig_of(f, c, info):
    d = f['detail']
    kind, route, why = f['kind'], d.get('route', ''), d.get('why', '')
    if kind == 'hull-empty' and why == 'not empty':
        return F10                      # one signature for the whole abstract input class (DESIGN section 6)
    if kind in MINK_KINDS and kind not in ('mink-status', 'mink-manifold', 'mink-winding'):
        disp = info.get('dispatch', '??')           # convexity of (A, B) as IsConvex sees them
        first, second = (disp[0], disp[1]) if route.startswith('A.') else (disp[1], disp[0])
        op = 'Sum' if 'Sum' in route else 'Difference'
        if first == 'c' and second == 'n':
            origin_first = c['originA'] if route.startswith('A.') else True
            return 'minkowski|convex first operand, non-convex second|%s|origin in first operand: %s|%s' % (
                op, str(bool(origin_first)).lower(), kind)
        if first == 'n' and second == 'n':
            return 'minkowski|both operands non-convex|B=%s|%s|%s' % (c['bname'], op, kind)
        return '%s|%s|%s|%s' % (kind, route, disp, case_text(c))
    return '%s|%s|%s|%s' % (kind, route, why, case_text(c))


def pdrive(args, cases, work, tag, timeout, jobs, chunk):
    """progfam.pdrive with a caller-chosen chunk size (Minkowski cases take seconds each)"""
    from concurrent.futures import ThreadPoolExecutor
    n = len(cases)
    nch = max(1, (n + chunk - 1) // chunk)
    def one(j):
        lo = j * chunk
        inp = '%s/beh%s.%d.ndjson' % (work, tag, j)
        out = '%s/res%s.%d.ndjson' % (work, tag, j)
        vf.write_ndjson(inp, cases[lo:lo + chunk])
        res, cr = vf.drive('seq', args, inp, out, timeout=timeout)
        return ({lo + i: r for i, r in res.items()}, [(lo + i, rc, t) for (i, rc, t) in cr])
    results, crashes = {}, []
    with ThreadPoolExecutor(max_workers=jobs) as ex:
        for res, cr in ex.map(one, range(nch)):
            for i, r in res.items():
                r['i'] = i
            results.update(res); crashes += cr
    return results, crashes


def run(chk, cases, opts, tag, owned, jobs=12, timeout=3000, confirm=True, chunk=250):
    """cases: JSON strings.  Returns the per-case driver results (with info/obs)."""
    work = '%s/work/%s' % (vf.BUILD, chk.pid)
    os.makedirs(work, exist_ok=True)
    args = ['hull', '--K=4'] + opts
    results, crashes = pdrive(args, cases, work, tag, timeout, jobs, chunk)
    for (i, rc, text) in crashes:
        c = json.loads(cases[i])
        chk.violation('crash|' + progfam.crash_site(text) + '|' + c['kind'],
                      'driver crashed (rc=%s) on %s\n%s' % (rc, case_text(c), text[-1500:]),
                      {'driver': args, 'behaviour': c})
    failing = [(i, [f for f in r['fail'] if f['kind'] in owned]) for i, r in sorted(results.items())]
    failing = [(i, fl) for i, fl in failing if fl]
    # only failures that re-fail when the case is run once more count (one representative per signature)
    bysig, count = {}, {}
    for i, fl in failing:
        c = json.loads(cases[i])
        for f in fl:
            s = sig_of(f, c, results[i].get('info', {}))
            bysig.setdefault(s, (i, f))
            count[s] = count.get(s, 0) + 1
    # at most 40 distinct signatures are reported (a broken hull fails on thousands of inputs)
    import re
    known = [k for k in vf.known_findings() if k.get('property') == chk.pid and k.get('status', 'open') == 'open']
    is_known = lambda s: any(re.fullmatch(k['signature'], s) for k in known)
    order = sorted(bysig.items(), key=lambda kv: (len(cases[kv[1][0]]), kv[0]))
    keep = [kv for kv in order if not is_known(kv[0])][:40] + [kv for kv in order if is_known(kv[0])][:20]
    reps = sorted(set(i for _, (i, _) in keep))
    again = {}
    if reps and confirm:
        inp2 = '%s/beh%s.confirm.ndjson' % (work, tag)
        vf.write_ndjson(inp2, [cases[i] for i in reps])
        res2, cr2 = vf.drive('seq', args, inp2, inp2 + '.res', timeout=900)
        for n, i in enumerate(reps):
            again[i] = None if n not in res2 else set(f['kind'] for f in res2[n]['fail'])
    for sig, (i, f) in keep:
        if confirm and again.get(i) is not None and f['kind'] not in again[i]:
            continue                                   # not repeatable: no verdict
        c = json.loads(cases[i])
        chk.violation(sig, '%s [%s]: %s on %s -- %s (%d case(s) with this signature, %d signatures in this run)' % (
            f['kind'], f['detail'].get('route'), f['detail'].get('why'), case_text(c), json.dumps(f['detail'])[:300],
            count[sig], len(bysig)),
            {'driver': args, 'behaviour': c, 'failure': f})
    return results


def trace_validate(chk, cases, results, limit, rnd):
    """Send meshes returned by the implementation back to TLC: Hull3!IsHullOf evaluated by TLC itself."""
    recs = []
    for i, r in results.items():
        for o in r.get('obs', []):
            recs.append((i, o))
    rnd.shuffle(recs)
    # keep a mix: every kind of input dimension, prefer small meshes (TLC cost ~ triangles^2)
    recs.sort(key=lambda x: len(x[1]['t']) > 40)
    pick, per_dim = [], {}
    for i, o in recs:
        dim = json.loads(cases[i])['dim']
        quota = limit // 2 if dim == 3 else limit // 6
        if per_dim.get(dim, 0) < quota:
            per_dim[dim] = per_dim.get(dim, 0) + 1
            pick.append((i, o))
    path = '%s/work/%s/hull3_trace.ndjson' % (vf.BUILD, chk.pid)
    vf.write_ndjson(path, [dict(id=n + 1, pts=o['pts'], v=o['v'], t=o['t']) for n, (i, o) in enumerate(pick)])
    r = vf.tlc('Hull3', 'Hull3_Trace.cfg', workers=8, timeout=900, env={'HULL3_TRACE': path})
    vf.tlc_ok(r, 'Hull3 trace validation')
    if r.violation:
        raise vf.ToolError('Hull3_Trace: invariant %s violated (the two formulations of the relation disagree)\n%s'
                           % (r.violation, r.out[-2000:]))
    verdicts = {}
    for b in r.behaviours:
        j = json.loads(b)
        verdicts[j['id']] = j
    if len(verdicts) != len(pick):
        raise vf.ToolError('Hull3_Trace: %d verdicts for %d recorded meshes\n%s' % (len(verdicts), len(pick), r.out[-2000:]))
    rejected = 0
    for n, (i, o) in enumerate(pick):
        v = verdicts[n + 1]
        c = json.loads(cases[i])
        drv = set()
        for f in results[i]['fail']:
            if f['detail'].get('route') != o['route']:
                continue
            if f['kind'] == 'hull-empty':
                drv.add('not-empty-but-no-volume' if f['detail']['why'] == 'not empty' else 'empty-but-spans-volume')
            elif f['kind'] in CLAUSE_OF:
                drv.add(CLAUSE_OF[f['kind']])
        tla = set(v['failed'])
        if not c['spans']:
            tla &= {'not-empty-but-no-volume'}      # the driver stops at the first clause for flat input
        if tla != drv:
            # the TLA+ predicate and its C++ transcription disagree about an implementation mesh
            chk.drift.append('trace %d (%s): TLC says %s, driver says %s' % (n + 1, case_text(c), sorted(tla), sorted(drv)))
        if not v['holds']:
            rejected += 1
            for cl in sorted(tla):
                sig = F10 if cl == 'not-empty-but-no-volume' else 'tlc-trace|%s|%s|%s' % (cl, o['route'], case_text(c))
                chk.violation(sig, 'TLC: Hull3!IsHullOf is FALSE (clause %s) on the mesh returned by %s for %s' % (cl, o['route'], case_text(c)),
                              {'driver': ['hull', '--K=4', '--mesh'], 'behaviour': c, 'failure': {'kind': 'tlc-trace', 'clause': cl}})
        elif c['spans'] and v['vol6'] != c['vol6']:
            chk.violation('tlc-trace|volume|%s|%s' % (o['route'], case_text(c)),
                          'TLC: 6*volume of the returned mesh is %s, conv(P) has %s' % (v['vol6'], c['vol6']),
                          {'driver': ['hull', '--K=4', '--mesh'], 'behaviour': c})
    if chk.drift:
        raise vf.ToolError('Hull3_Trace: the TLA+ relation and the driver disagree: %s' % chk.drift[:3])
    return len(pick), rejected, r


def main(tier):
    chk = vf.Check('C16', tier, 'model_checking')
    rnd = random.Random(vf.seed())
    vf.build('seq')
    thorough = tier == 'thorough'
    # ---------------- Hull -------------------------------------------------------------
    cases, r = progfam.generate('Hull3_HullThorough.cfg' if thorough else 'Hull3_HullQuick.cfg',
                                module='Hull3', workers=14, timeout=3000)
    states, transitions = r.distinct, r.generated
    vf.log('[C16] %d hull cases generated and model-checked by TLC (%.0fs)' % (len(cases), time.time() - chk.t0))
    dims = {}
    for b in cases:
        c = json.loads(b)
        dims[c['dim']] = dims.get(c['dim'], 0) + 1
    total = nontriv = 0
    res0 = None
    for perm in ([0, 1, 2, 3, 4, 5] if thorough else [0, 1, 2]):
        res = run(chk, cases, ['--perm=%d' % perm] + (['--mesh'] if perm == 0 else []), 'hull%d' % perm, HULL_KINDS,
                  timeout=3000 if thorough else 300)
        total += len(res)
        nontriv += sum(1 for x in res.values() if x.get('nontrivial'))
        if perm == 0:
            res0 = res
    vf.log('[C16] hull replays done (%.0fs)' % (time.time() - chk.t0))
    nt, rejected, rt = trace_validate(chk, cases, res0, 600 if thorough else 160, rnd)
    states += rt.distinct; transitions += rt.generated
    vf.log('[C16] %d implementation meshes validated by TLC, %d rejected (%.0fs)' % (nt, rejected, time.time() - chk.t0))
    # ---------------- Minkowski --------------------------------------------------------
    mcases, rm = progfam.generate('Hull3_MinkThorough.cfg' if thorough else 'Hull3_MinkQuick.cfg',
                                  module='Hull3', workers=14, timeout=3000)
    states += rm.distinct; transitions += rm.generated
    vf.log('[C16] %d Minkowski pairs generated (%.0fs)' % (len(mcases), time.time() - chk.t0))
    # the non-convex x non-convex branch is the "very slow" one (faces x faces hulls, seconds per case
    # under ASan): a few of those; the rest stratified by structuring solid
    groups, heavy = {}, []
    for b in mcases:
        c = json.loads(b)
        if len(c['A']) > 1 and c['bname'] in ('Lin', 'Lflat', 'Lbig'):
            heavy.append(b)
        else:
            groups.setdefault((c['bname'], c['only']), []).append(b)
    light = []
    for g in groups.values():
        rnd.shuffle(g)
    for n in range(max(len(g) for g in groups.values())):
        for key in sorted(groups):
            if n < len(groups[key]):
                light.append(groups[key][n])
    # convex first / non-convex second is the class of the known findings F16S/F16D: one in three of those is enough
    isL = lambda b: json.loads(b)['bname'] in ('Lin', 'Lflat', 'Lbig')
    if not thorough:
        lrank, thinned = 0, []
        for b in light:
            if isL(b):
                lrank += 1
                if lrank % 4 != 1:
                    continue
            thinned.append(b)
        light = thinned
    rnd.shuffle(heavy)
    # cheapest first within each structuring solid (cost ~ faces(A) x faces(B)); the thick L ("Lbig") is the
    # regime of finding F16N and must be visited; then the flat L, then the L with interior origin
    heavy.sort(key=lambda b: len(json.loads(b)['cA']))
    byB = {n: [b for b in heavy if json.loads(b)['bname'] == n] for n in ('Lbig', 'Lflat', 'Lin')}
    its = {n: iter(v) for n, v in byB.items()}
    heavy, alive = [], True
    while alive:
        alive = False
        for name in ('Lbig', 'Lflat', 'Lflat', 'Lin'):
            b = next(its[name], None)
            if b is not None:
                heavy.append(b)
                alive = True
    nl, nh = (len(light), 80) if thorough else (80, 3)      # quick: Lbig, Lflat, Lflat
    mres = run(chk, light[:nl], [], 'mink', MINK_KINDS, jobs=14, timeout=3000 if thorough else 600, chunk=10)
    vf.log('[C16] light Minkowski pairs done (%.0fs)' % (time.time() - chk.t0))
    hres = run(chk, heavy[:nh], [], 'minkH', MINK_KINDS, jobs=14, timeout=3000 if thorough else 900, chunk=1)
    msel = light[:nl] + heavy[:nh]
    mres = dict(mres)
    for i, x in hres.items():
        mres[nl + i] = x
    disp = {}
    for x in mres.values():
        d = x.get('info', {}).get('dispatch', '?')
        disp[d] = disp.get(d, 0) + 1
    total += len(mres)
    nontriv += sum(1 for x in mres.values() if x.get('nontrivial'))
    exact_sum = sum(x.get('info', {}).get('exactSum', 0) for x in mres.values())
    nonempty_diff = sum(x.get('info', {}).get('nonemptyDiff', 0) for x in mres.values())
    chk.coverage.update({
        'states': states, 'transitions': transitions,
        'traces_validated_against_impl': nt,
        'trace_meshes_rejected_by_TLC': rejected,
        'evaluations': total, 'distinct_nontrivial': nontriv,
        'hull_cases_by_affine_dimension': dims,
        'hull_orders_per_case': 6 if thorough else 3,
        'minkowski_pairs_generated': len(mcases), 'minkowski_pairs_run': len(msel),
        'minkowski_dispatch_convexity_A_B': disp,
        'minkowski_sums_equal_to_exact_dilation': exact_sum,
        'minkowski_nonempty_differences': nonempty_diff,
        'exhaustive': True,
        'rule': 'Hull: every multiset of <=5 (thorough <=7) points of {0,1}^3, every 4..5 (thorough 4..8)-subset of {0,1}^2x{0,1,2}, '
                'pseudo-random 4..8 (thorough 4..10)-subsets of {0,1,2}^3 (thorough: all 4-subsets), 18 named clouds (full grid, shell, '
                'face centres, edge midpoints, octahedron, clustered/duplicated, planar, collinear, single point) and every set of <=3 '
                '(thorough: every set) of unit cubes of a 2x2x2 block, enumerated by TLC with spans/extreme points/6*volume; each run '
                'through Hull(points) in 3 (6) orders, Hull() of the result, Hull({h,h}), union.Hull(), Compose.Hull(), Hull(vector). '
                'Minkowski: A = every cell subset of a 2x2x2 block that is a union of <=2 (thorough <=3) boxes, B in {cube2, cell, slab, '
                'bar, L with interior origin, flat L}; both operand orders of Sum and Difference. non-trivial = hull with volume / '
                'non-empty sum',
        'samples': [case_text(json.loads(cases[len(cases) // 3])), case_text(json.loads(cases[-1])),
                    case_text(json.loads(msel[0])), case_text(json.loads(msel[-1]))]})
    chk.assumptions += [
        'lattice input: "within epsilon" is decided exactly (an integer orient3d of 1 is a distance >= 1/9, far above epsilon)',
        'hull volume and extreme-vertex clauses are consequences of the statement (a convex polytope containing P with vertices in P is conv(P))',
        'Minkowski clauses are decided at cell centres (>= 0.5 from every lattice plane) and at the vertices of the result (1e-9)',
        'B.MinkowskiSum(A) / B.MinkowskiDifference(A) are judged only when the origin is in A (then A is a legal structuring solid)',
        'clustered float clouds (points within epsilon but not equal) are not covered: lattice duplicates only']
    chk.finish()


def replay(path):
    j = json.load(open(path))
    rp = j['replay']
    work = '%s/work/replay' % vf.BUILD
    os.makedirs(work, exist_ok=True)
    vf.write_ndjson(work + '/c16.ndjson', [json.dumps(rp['behaviour'])])
    results, crashes = vf.drive('seq', rp['driver'], work + '/c16.ndjson', work + '/c16.res', timeout=900)
    print(json.dumps(results.get(0), indent=1)[:4000]); print(crashes)
    bad = bool(crashes) or bool(results.get(0, {}).get('fail'))
    if bad:
        print('VIOLATION property=%s replay=%s' % (j['property'], path))
    raise SystemExit(1 if bad else 0)
