"""C06 - shared objects may be used from many threads: no data race, same answers.
Sync.tla: every shared field access of the handle / op-node / leaf machinery as a micro-step
annotated with the locks the code holds; TLC interleaves 2-3 client threads and checks the
lockset discipline (NoDataRace) and deadlock freedom; the 'pinned' variant (NumLeaves and the
cancellation poison loop touching cache_ without the guard) is refuted - finding F5.
Lifetime.tla: OWNERSHIP of the shared lazy sub-node while threads evaluate through copies of the
handles (own handle mutex, shared nodes): TLC checks NoUseAfterFree/FreedIffUnowned/NoLeakAtEnd;
the variant Walk="raw" (NumLeaves queues a raw CsgOpNode*) is refuted - finding F24.
Binding: client programs over the same menu of calls (the projection of Sync.tla behaviours:
who calls what on which shared object) are executed by real threads in a ThreadSanitizer build
of the serial backend (every synchronisation visible to TSan) with seeded start skew; a TSan
report, a deadlock (watchdog) or an answer that differs from the serial run is a violation."""
import json, os, random, glob, re
import vf, progfam

OWNED = {'serial-mismatch'}
MENU_OBJ = ['status', 'numtri', 'volume', 'bbox', 'mesh', 'copy', 'assignfrom', 'derive', 'translate', 'statusctx']
MENU_FREE = ['reserve', 'xsarea', 'xspolys', 'xscopy', 'xsbounds']
OBJS = ['H1', 'H2', 'HL', 'D']

def gen_cases(rnd, n, tier):
    cases = []
    # the MCSync.tla programs, projected
    cases.append({'threads': [[['statusctx', 'H1'], ['copy', 'H1']], [['statusctx', 'H2'], ['mesh', 'H1']], [['copy', 'H2'], ['reserve'], ['assignfrom', 'H2']]]})
    cases.append({'threads': [[['mesh', 'H1'], ['assignfrom', 'H2'], ['mesh', 'HL']], [['mesh', 'H2'], ['translate', 'HL']], [['copy', 'H1'], ['volume', 'HL'], ['translate', 'H2']]]})
    cases.append({'threads': [[['statusshared', 'H1']], [['mesh', 'H2'], ['cancel'], ['progress']]], 'cancels': True})
    # the MCLifetime.tla programs, projected: evaluations through COPIES of the handles (own handle mutex, shared nodes),
    # one of them carrying a context (NumLeaves walk) - the window is narrow, so many repetitions
    lr = 40 if tier == 'quick' else 300
    cases.append({'reps': lr, 'threads': [[['statusctx', 'H1']], [['copy', 'H2'], ['copy', 'H1']]]})
    cases.append({'reps': lr, 'threads': [[['statusctx', 'H1'], ['copy', 'H2']], [['statusctx', 'H2']], [['copy', 'H1'], ['statusctx', 'H2']]]})
    cases.append({'reps': lr, 'threads': [[['statusctx', 'H1']], [['statusctx', 'H1']], [['copy', 'H2'], ['volume', 'H1']], [['copy', 'H1']]]})
    # first lazily evaluating call on the lazily transformed leaf from 4 threads at once
    cases.append({'shared': 'big', 'threads': [[['bbox', 'HL']], [['numtri', 'HL']], [['copy', 'HL']], [['mesh', 'HL']]]})
    # disjoint union (Compose) evaluated while IDs are reserved / other meshes imported
    cases.append({'threads': [[['mesh', 'D']], [['reserve']] * 40, [['reserve']] * 40]})
    cases.append({'threads': [[['mesh', 'D'], ['mesh', 'H1']], [['reservespin', 200000]]]})
    cases.append({'threads': [[['reservespin', 100000]], [['volume', 'D'], ['mesh', 'D']], [['reservespin', 100000]]]})
    cases.append({'threads': [[['mesh', 'D']], [['derive', 'H1'], ['reserve'], ['derive', 'H2']], [['reserve']] * 20]})
    cases.append({'threads': [[['xsarea'], ['xspolys']], [['xscopy'], ['xsbounds']], [['xspolys'], ['xsarea']]]})
    for i in range(n):
        T = rnd.choice([2, 2, 3, 4] if tier == 'quick' else [2, 3, 4, 6, 8])
        th = []
        for t in range(T):
            prog = []
            for k in range(rnd.randint(1, 3)):
                if rnd.random() < 0.8: prog.append([rnd.choice(MENU_OBJ), rnd.choice(OBJS)])
                else: prog.append([rnd.choice(MENU_FREE)])
            th.append(prog)
        cases.append({'threads': th})
    return [json.dumps(c) for c in cases]

def tsan_reports(logprefix):
    reps = []
    for f in glob.glob(logprefix + '*'):
        txt = open(f, errors='replace').read()
        for blk in txt.split('==================')[1:]:
            if 'WARNING: ThreadSanitizer' not in blk: continue
            kind = re.search(r'WARNING: ThreadSanitizer: ([^\(\n]+)', blk).group(1).strip()
            frames = re.findall(r'#\d+ (\S+) .*?(/src/[\w\.]+:\d+|/include/manifold/[\w\.]+:\d+)', blk)
            site = ' <- '.join('%s@%s' % (fn[:60], loc.split('/')[-1]) for fn, loc in frames[:2]) or 'unknown'
            reps.append((kind, site, blk[:3000]))
    return reps

def main(tier):
    chk = vf.Check('C06', tier, 'model_checking')
    vf.build('tsan')
    jobs = [('MCSync', 'Sync_%s.cfg' % c, {}) for c in ('ctx_fixed', 'cancel_fixed', 'plain', 'ctx_pinned', 'cancel_pinned')]
    res = vf.tlc_many(jobs, parallel=5)
    for (m, c, _), r in zip(jobs[:3], res[:3]):
        vf.tlc_ok(r, c)
        if r.violation: raise vf.ToolError('%s: %s violated in the model\n%s' % (c, r.violation, r.out[-1500:]))
    for (m, c, _), r in zip(jobs[3:], res[3:]):
        if r.violation != 'NoDataRace': raise vf.ToolError('%s: the pinned variant is no longer refuted' % c)
    ljobs = [('MCLifetime', 'Lifetime_%s.cfg' % c, {}) for c in ('two_owning', 'three_owning', 'plain_raw', 'two_raw', 'three_raw')]
    lres = vf.tlc_many(ljobs, parallel=5)
    for (m, c, _), r in zip(ljobs[:3], lres[:3]):
        vf.tlc_ok(r, c)
        if r.violation: raise vf.ToolError('%s: %s violated in the model\n%s' % (c, r.violation, r.out[-1500:]))
    for (m, c, _), r in zip(ljobs[3:], lres[3:]):
        if r.violation != 'NoUseAfterFree': raise vf.ToolError('%s: the raw-pointer NumLeaves walk is no longer refuted' % c)
    chk.coverage['lifetime_model'] = {'states': sum(r.distinct for r in lres[:3]),
                                      'prediction': 'Walk="raw" (NumLeaves queues a const CsgOpNode*) refuted by TLC: NoUseAfterFree (F24); Walk="owning" holds; without a context (NumLeaves never runs) even "raw" holds'}
    chk.coverage['states'] = sum(r.distinct for r in res[:3]) + sum(r.distinct for r in lres[:3]); chk.coverage['transitions'] = sum(r.generated for r in res[:3]) + sum(r.generated for r in lres[:3])
    chk.coverage['model_prediction'] = 'Variant="pinned" (unguarded cache_ access in NumLeaves / poison loop) refuted by TLC: NoDataRace (F5)'
    rnd = random.Random(vf.seed())
    cases = gen_cases(rnd, 10 if tier == 'quick' else 150, tier)
    work = '%s/work/C06' % vf.BUILD
    os.makedirs(work, exist_ok=True)
    for f in glob.glob(work + '/tsan.*'): os.remove(f)
    env = {'TSAN_OPTIONS': 'halt_on_error=0 exitcode=0 second_deadlock_stack=1 log_path=%s/tsan history_size=4' % work}
    inp, out = work + '/cases.ndjson', work + '/res.ndjson'
    vf.write_ndjson(inp, cases)
    reps = 4 if tier == 'quick' else 25
    results, crashes = vf.drive('tsan', ['threads', '--reps=%d' % reps, '--seed=%d' % vf.seed()], inp, out, timeout=2400, env=env)
    for (i, rc, text) in crashes:
        chk.violation('deadlock-or-crash|%s' % progfam.crash_site(text), 'threads driver died/hung (rc=%s) on %s\n%s' % (rc, cases[i][:300], text[-800:]),
                      {'driver': ['threads'], 'behaviour': json.loads(cases[i]), 'variant': 'tsan'})
    for i, r in sorted(results.items()):
        for f in r['fail']:
            chk.violation('serial-mismatch|%s' % cases[i][:300], 'a thread observed an answer that differs from the serial run: %s -- %s' % (cases[i][:300], json.dumps(f['detail'])[:500]),
                          {'driver': ['threads', '--reps=%d' % reps], 'behaviour': json.loads(cases[i]), 'variant': 'tsan', 'K': 0})
    seen = set()
    for kind, site, blk in tsan_reports(work + '/tsan'):
        if (kind, site) in seen: continue
        seen.add((kind, site))
        chk.violation('tsan|%s|%s' % (kind, site), 'ThreadSanitizer: %s at %s\n%s' % (kind, site, blk[:1500]), {'report': blk, 'cases': 'all cases of this run'})
    chk.coverage.update({
        'traces_validated_against_impl': sum(json.loads(cases[i]).get('reps', reps) for i in results),
        'evaluations': sum(json.loads(cases[i]).get('reps', reps) for i in results), 'distinct_nontrivial': sum(1 for r in results.values() if r.get('nontrivial')),
        'tsan_reports': len(seen),
        'rule': 'client programs: the MCSync.tla programs projected + seeded random programs (2-8 threads x 1-3 calls from the menu '
                '%s on shared lazy objects H1/H2 (sharing a lazy sub-expression), HL (pending lazy transform), D (bbox-disjoint union), a lazy '
                'CrossSection, a shared context), each run %d times with seeded start skew under ThreadSanitizer; non-trivial = more than one thread' % (MENU_OBJ + MENU_FREE, reps),
        'samples': cases[:2] + cases[-1:]})
    chk.assumptions += ['ThreadSanitizer (clang-14, serial backend build) is the data-race witness; thread timing is sampled, only the model is exhaustive']
    chk.finish()

def replay(path):
    progfam.replay_file(path)
