"""C19 - refinement keeps the surface; simplification only removes redundancy.
Refine.tla (A) states what a valid subdivision pattern of a triangle/quad with given edge divisions is
(ValidPartition: boundary cycle = subdivided boundary, every other edge matched once by its reverse, every
vertex used and a distinct point placed where its role says, V-E+F=1, n*n triangles for the uniform
triple, every triangle positively oriented); TLC enumerates EVERY ordered division triple/quadruple up to
a bound, checks the predicate on an exact-integer reference tiling of each and that damaged tilings are
rejected, and prints each tuple with its cache key, the vertex layout the real pattern must have and the
numberings Reindex is asked for.  drive/refine.cpp obtains the real Partition of every tuple through the
guarded accessor manifold::verif::GetPartition/ReindexPartition and records it; Refine_Trace.tla lets TLC
evaluate the TLA+ predicate on the recorded partitions (the driver's C++ transcription pre-screens all of
them and the two verdicts are compared).  (B/C) TLC enumerates lattice programs solid ; Smooth? ; Refine*
; Simplify/SetTolerance* with what the statement demands of each step (cells, volume, exposed faces,
n*n, tolerance below the feature size) and the driver runs them through the public API and judges the
exported meshes with the independent oracles (winding number at cell centres, closed-2-manifold incl.
"every vertex referenced", exact vertex retention, point-to-surface distance)."""
import json, os, random, re, time
import vf, progfam

PART_KINDS = {'part-'}
PROG_KINDS = {'ref-', 'tref-', 'sm-', 'simp-', 'tol-'}
OWNED = PART_KINDS | PROG_KINDS          # 'pre-*' (the Boolean itself, C02) and 'diag-*' are not C19's
F8 = 'refinement of a tangent-bearing mesh leaves unreferenced (stranded) vertices'


# a small quarantine and no allocation stacks: the driver makes millions of short-lived allocations (3x faster)
ASAN = {'ASAN_OPTIONS': 'detect_leaks=0:abort_on_error=0:halt_on_error=1:allocator_may_return_null=1:quarantine_size_mb=8:malloc_context_size=0'}


def owned(kind):
    return any(kind.startswith(o) for o in OWNED) and kind != 'part-key'


def sig_of(f, c):
    d = f['detail']
    kind = f['kind']
    if (kind == 'tref-manifold' and d.get('clause') == 'unreferenced vertex') or \
            (kind == 'tref-vert-moved' and d.get('stranded', 0) == d.get('count', -1)):
        return F8 + '|' + c['name']
    if kind.startswith('part-'):
        return '%s|%s|%s' % (kind, d.get('sub', ''), c['name'])
    return '%s|%s|%s|%s' % (kind, d.get('why', ''), d.get('clause', ''), c['name'])


def chunks_of(n, jobs):
    jobs = max(1, min(jobs, n))
    size = (n + jobs - 1) // jobs
    return size, (n + size - 1) // size


def pdrive(args, cases, work, tag, timeout, jobs):
    """the cases in contiguous chunks, each its own driver process; '{j}' in an argument is the chunk number"""
    from concurrent.futures import ThreadPoolExecutor
    size, nch = chunks_of(len(cases), jobs)
    def one(j):
        lo = j * size
        inp = '%s/in%s.%d.ndjson' % (work, tag, j)
        out = '%s/res%s.%d.ndjson' % (work, tag, j)
        vf.write_ndjson(inp, cases[lo:lo + size])
        res, cr = vf.drive('seq', [a.replace('{j}', str(j)) for a in args], inp, out, timeout=timeout, env=ASAN)
        return ({lo + i: r for i, r in res.items()}, [(lo + i, rc, t) for (i, rc, t) in cr])
    results, crashes = {}, []
    with ThreadPoolExecutor(max_workers=nch) as ex:
        for res, cr in ex.map(one, range(nch)):
            results.update(res); crashes += cr
    return results, crashes


def confirm(work, tag, size, wanted):
    """Re-run, in a fresh process per chunk, the chunk's cases from its first one through the last suspicious one: the
    library's results depend on what ran before in the process (global mesh IDs), so only the same history can confirm.
    Returns {global index: set of failure kinds, or 'crash'}."""
    from concurrent.futures import ThreadPoolExecutor
    by_chunk = {}
    for i in wanted:
        by_chunk.setdefault(i // size, []).append(i)
    def one(j):
        last = max(by_chunk[j]) - j * size
        inp = '%s/in%s.%d.ndjson' % (work, tag, j)
        out = '%s/confirm%s.%d.ndjson' % (work, tag, j)
        e = dict(ASAN, UBSAN_OPTIONS='print_stacktrace=1:halt_on_error=1')
        vf.run([vf.build('seq'), 'refine', inp, out, '--K=2', '--to=%d' % (last + 1)], timeout=1800, env=e)
        got, begun = {}, None
        for r in vf.read_ndjson(out):
            if 'begin' in r:
                begun = r['begin']
            elif 'i' in r:
                got[r['i']] = set(f['kind'] for f in r['fail']); begun = None
        if begun is not None:
            got[begun] = 'crash'
        return {j * size + i: v for i, v in got.items()}
    out = {}
    with ThreadPoolExecutor(max_workers=max(1, len(by_chunk))) as ex:
        for d in ex.map(one, sorted(by_chunk)):
            out.update(d)
    return out


def run(chk, cases, opts, tag, jobs=12, timeout=3000):
    work = '%s/work/%s' % (vf.BUILD, chk.pid)
    os.makedirs(work, exist_ok=True)
    args = ['refine', '--K=2'] + opts
    size, _ = chunks_of(len(cases), jobs)
    results, crashes = pdrive(args, cases, work, tag, timeout, jobs)
    plain = ['refine', '--K=2']
    bysig, count = {}, {}
    for i, r in sorted(results.items()):
        c = json.loads(cases[i])
        for f in r['fail']:
            if f['kind'] == 'part-key':
                chk.drift.append('cache key of %s is not the one Refine!KeyOf states: %s' % (c['name'], json.dumps(f['detail'])[:200]))
            if not owned(f['kind']):
                continue
            s = sig_of(f, c)
            bysig.setdefault(s, (i, f))
            count[s] = count.get(s, 0) + 1
    known = [k for k in vf.known_findings() if k.get('property') == chk.pid and k.get('status', 'open') == 'open']
    is_known = lambda s: any(re.fullmatch(k['signature'], s) for k in known)
    order = sorted(bysig.items(), key=lambda kv: (len(cases[kv[1][0]]), kv[0]))
    keep = [kv for kv in order if not is_known(kv[0])][:40] + [kv for kv in order if is_known(kv[0])][:10]
    crashes = crashes[:12]
    wanted = sorted(set([i for _, (i, _) in keep] + [i for (i, _, _) in crashes]))
    again = confirm(work, tag, size, wanted) if wanted else {}
    for (i, rc, text) in crashes:
        c = json.loads(cases[i])
        if again.get(i) != 'crash':
            chk.drift.append('crash (rc=%s, %s) on %s did not repeat' % (rc, progfam.crash_site(text), c['name']))
            continue
        chk.violation('crash|' + progfam.crash_site(text) + '|' + c['name'],
                      'driver crashed (rc=%s) on %s\n%s' % (rc, c['name'], text[-1500:]),
                      {'driver': plain, 'behaviour': c, 'history': '%s/in%s.%d.ndjson through case %d' % (work, tag, i // size, i % size)})
    for sig, (i, f) in keep:
        if again.get(i) == 'crash' or (again.get(i) is not None and f['kind'] not in again[i]):
            chk.drift.append('%s on %s did not repeat' % (f['kind'], json.loads(cases[i])['name']))
            continue                                   # not repeatable: no verdict
        c = json.loads(cases[i])
        chk.violation(sig, '%s on %s -- %s (%d case(s) with this signature, %d signatures in this run)' % (
            f['kind'], c['name'], json.dumps(f['detail'])[:400], count[sig], len(bysig)),
            {'driver': plain, 'behaviour': c, 'failure': f})
    return results


def trace_validate(chk, cases, results, work, limit, rnd):
    """TLC evaluates Refine!ValidPartition on partitions the implementation returned."""
    recs = []
    for fn in sorted(os.listdir(work)):
        if fn.startswith('ptrace.') and fn.endswith('.ndjson'):
            recs += vf.read_ndjson('%s/%s' % (work, fn))
    if not recs:
        raise vf.ToolError('no partition records were written by the driver')
    byname = {json.loads(b)['name']: (i, json.loads(b)) for i, b in enumerate(cases)}
    # (a case that crashed the driver half-way has records but no verdicts: it is reported as a crash, not here)
    recs = [r for r in recs if byname[r['id'].split('/')[0]][0] in results and
            r['sub'] in results[byname[r['id'].split('/')[0]][0]]['info'].get('verdicts', {})]
    # all patterns of canonical tuples (the cache key space) first, then a seeded sample of the
    # re-indexed ones and of the patterns reached through non-canonical tuples
    def is_canon(r):
        c = byname[r['id'].split('/')[0]][1]
        return r['sub'] == 'cached' and c['div'] == c['key']
    canon = [r for r in recs if is_canon(r)]
    rest = [r for r in recs if not is_canon(r)]
    rnd.shuffle(rest)
    pick = canon + rest[:max(0, limit - len(canon))] if limit else canon + rest
    path = '%s/refine_trace.ndjson' % work
    vf.write_ndjson(path, pick)
    r = vf.tlc('Refine_Trace', 'Refine_Trace.cfg', workers=6, timeout=2400, env={'REFINE_TRACE': path})
    vf.tlc_ok(r, 'Refine trace validation')
    if r.violation:
        raise vf.ToolError('Refine_Trace: invariant %s violated (the two formulations of the predicate disagree)\n%s' % (r.violation, r.out[-2000:]))
    verdicts = {}
    for b in r.behaviours:
        j = json.loads(b)
        verdicts[j['id']] = j
    if len(verdicts) != len(pick):
        raise vf.ToolError('Refine_Trace: %d verdicts for %d recorded partitions\n%s' % (len(verdicts), len(pick), r.out[-2000:]))
    rejected = 0
    for rec in pick:
        name, sub = rec['id'].split('/')
        i, c = byname[name]
        v = verdicts[rec['id']]
        tla = set(v['failed'])
        drv = set(results[i]['info'].get('verdicts', {}).get(sub, ['?']))
        if tla != drv:
            chk.drift.append('partition %s: TLC says %s, driver says %s' % (rec['id'], sorted(tla), sorted(drv)))
        if not v['holds']:
            rejected += 1
            for cl in sorted(tla):
                chk.violation('tlc-trace|%s|%s|%s' % (cl, 'cached' if sub == 'cached' else 'reindexed', name),
                              'TLC: Refine!ValidPartition is FALSE (clause %s) on the partition the implementation returned for %s (%s)' % (cl, name, sub),
                              {'driver': ['refine', '--K=2'], 'behaviour': c, 'failure': {'kind': 'tlc-trace', 'clause': cl, 'sub': sub}})
    if any(d.startswith('partition ') for d in chk.drift):
        raise vf.ToolError('Refine_Trace: the TLA+ predicate and the driver disagree: %s' % [d for d in chk.drift if d.startswith('partition ')][:3])
    return len(pick), len(canon), rejected, r


def gen(jobs):
    """several TLC generation/model-checking runs concurrently"""
    rs = vf.tlc_many([('Refine', cfg, {'workers': w, 'timeout': 3000, 'heap': '4g'}) for cfg, w in jobs], parallel=len(jobs))
    out = []
    for (cfg, _), r in zip(jobs, rs):
        vf.tlc_ok(r, 'Refine/' + cfg)
        if r.violation:
            raise vf.ToolError('Refine/%s: invariant %s violated in the MODEL (specification bug)\n%s' % (cfg, r.violation, r.out[-2500:]))
        if not r.behaviours:
            raise vf.ToolError('no cases generated from %s\n%s' % (cfg, r.out[-2000:]))
        out.append((sorted(set(r.behaviours)), r))
    return out


def main(tier):
    chk = vf.Check('C19', tier, 'model_checking')
    rnd = random.Random(vf.seed())
    vf.build('seq')
    thorough = tier == 'thorough'
    work = '%s/work/%s' % (vf.BUILD, chk.pid)
    os.makedirs(work, exist_ok=True)
    for fn in os.listdir(work):
        if fn.startswith('ptrace.'):
            os.remove('%s/%s' % (work, fn))
    (pcases, rp), (gcases, rg) = gen([('Refine_PartThorough.cfg' if thorough else 'Refine_PartQuick.cfg', 6),
                                      ('Refine_ProgThorough.cfg' if thorough else 'Refine_ProgQuick.cfg', 4)])
    states, transitions = rp.distinct + rg.distinct, rp.generated + rg.generated
    vf.log('[C19] TLC: %d division tuples and %d lattice programs enumerated and model-checked (%.0fs)' % (len(pcases), len(gcases), time.time() - chk.t0))

    # ---------------- A: subdivision patterns ------------------------------------------
    pres = run(chk, pcases, ['--trace=%s/ptrace.{j}.ndjson' % work], 'part', timeout=3000)
    hook = all('note' not in r.get('info', {}) for r in pres.values()) and len(pres) > 0
    nrec = sum(r.get('info', {}).get('records', 0) for r in pres.values())
    ntv = ncanon = rejected = 0
    from concurrent.futures import ThreadPoolExecutor
    pool = ThreadPoolExecutor(max_workers=1)
    fut = None
    if not hook:
        vf.log('TOOL-NOTE: hook missing - manifold::verif::GetPartition is not in the library built from %s; the %d partition '
               'cases were skipped (apply mutants/C19/HOOK_subdivision.patch)' % (vf.REPO, len(pcases)))
        chk.assumptions.append('PARTITION CASES SKIPPED: the library was built without the verif-hook in src/subdivision.cpp')
    else:
        vf.log('[C19] %d partitions (cached + re-indexed) of %d tuples pre-screened by the driver (%.0fs)' % (nrec, len(pres), time.time() - chk.t0))
        # TLC validates the recorded partitions while the programs are replayed
        fut = pool.submit(trace_validate, chk, pcases, pres, work, 30000 if thorough else 420, rnd)

    # ---------------- B/C: programs ------------------------------------------------------
    gres = run(chk, gcases, [], 'prog', jobs=12 if fut is None else 10, timeout=3000 if thorough else 900)
    vf.log('[C19] %d lattice programs replayed (%.0fs)' % (len(gres), time.time() - chk.t0))
    if fut is not None:
        ntv, ncanon, rejected, rt = fut.result()
        states += rt.distinct; transitions += rt.generated
        vf.log('[C19] %d implementation partitions validated by TLC against Refine!ValidPartition, %d rejected (%.0fs)' % (ntv, rejected, time.time() - chk.t0))
    fam = {}
    for i, r in gres.items():
        c = json.loads(gcases[i])
        k = ('tangents:' + c['sm']['k']) if c['sm']['k'] != 'none' else ('flat:' + c['ref']['k'])
        fam[k] = fam.get(k, 0) + 1
    simp = sum(r['info'].get('simp', 0) for r in gres.values())
    simp_removed = sum(r['info'].get('simpRemoved', 0) for r in gres.values())
    refined_more = sum(1 for r in gres.values() if r['info'].get('tri1', 0) > r['info'].get('tri0', 0))
    pre = sum(1 for r in gres.values() if any(f['kind'].startswith('pre-') for f in r['fail']))
    diag = {}
    for r in gres.values():
        for f in r['fail']:
            if f['kind'].startswith('diag-'):
                diag[f['kind']] = diag.get(f['kind'], 0) + 1
    if refined_more == 0 or simp_removed == 0:
        raise vf.ToolError('vacuous run: %d refinements added triangles, %d simplifications removed some' % (refined_more, simp_removed))
    total = len(gres) + simp + (nrec if hook else 0)
    nontriv = sum(1 for r in gres.values() if r.get('nontrivial')) + sum(1 for r in pres.values() if r.get('nontrivial'))
    pc = [json.loads(b) for b in pcases]
    nsolids = len(set((json.dumps(json.loads(b)['boxes']), json.loads(b)['op']) for b in gcases))
    chk.coverage.update({
        'states': states, 'transitions': transitions,
        'traces_validated_against_impl': ntv,
        'trace_partitions_of_canonical_keys': ncanon,
        'trace_partitions_rejected_by_TLC': rejected,
        'partition_hook_present': hook,
        'division_tuples': len(pcases), 'partitions_prescreened': nrec if hook else 0,
        'programs': len(gres), 'programs_by_family': fam,
        'simplify_settolerance_calls': simp, 'of_which_removed_triangles': simp_removed,
        'refinements_that_added_triangles': refined_more,
        'programs_skipped_boolean_precondition': pre,
        'diagnostics_not_judged': diag,
        'evaluations': total, 'distinct_nontrivial': nontriv,
        'exhaustive': True,
        'rule': 'A: every ordered division triple in 1..%d^3 and quadruple in 1..%d^4 (TLC), each: cached pattern of its key with '
                'classified barycentric points + %s Reindex numberings (edge directions x block orders); TLC validates every pattern of a '
                'canonical key and %s. B/C: %s x {Refine(1..4), RefineToLength(0.3,0.45,0.7,1.1) then Refine(2), RefineToTolerance} without '
                'tangents, each followed by Simplify/SetTolerance(t) for t in {0,1e-13,1e-9,1e-6,0.01,0.2}; the same on the un-refined Boolean '
                'results; 5 smoothings (SmoothOut x3, CalculateNormals+SmoothByNormals, Smooth(mesh, sharpened edges)) x %d refinements then '
                'Refine(2). non-trivial = pattern with more than one triangle / refinement that added triangles or a simplification that ran'
                % ((12, 7, 'all 2^nc', 'a seeded sample of the others (30000 records in all)', 'all %d lattice solids (7 boxes, pairs x Add/Intersect/Subtract)' % nsolids, 6)
                   if thorough else
                   (8, 4, '4', 'a seeded sample of the others', '%d lattice solids (7 boxes; pairs x Add/Intersect/Subtract: overlap, '
                    'containment, face-patch contact, empty intersection)' % nsolids, 4)),
        'samples': [pc[len(pc) // 3]['name'] + ' key ' + str(pc[len(pc) // 3]['key']), pc[-1]['name'] + ' key ' + str(pc[-1]['key']),
                    json.loads(gcases[0])['name'], json.loads(gcases[len(gcases) // 2])['name'], json.loads(gcases[-1])['name']]})
    chk.assumptions += [
        'orientation signs, point identity and placement of the barycentric coordinates are classified by the driver in double '
        'arithmetic (thresholds 1e-9 / 1e-12, smallest true triangle area > 1e-3) and reach TLC as integers',
        'the interior barycentric re-mapping of Subdivide (rIdx) is exercised only through the API programs (area, volume, distance to the surface)',
        '"every new vertex lies on the interpolated surface" (tangents) is not decided: with tangents only vertex retention, closed 2-manifold, '
        'every vertex referenced, finiteness and re-refinability are judged',
        'lattice regime: cells at centres by the independent winding oracle, volume/area to 1e-9 relative; Simplify may drop zero-volume flaps '
        '(area then only bracketed by the exposed lattice faces and the input area)',
        'Simplify places merged vertices by a quadric fit (rounding-level offsets, midpoints): the API comment "subset of the original verts" is '
        'not part of the statement and only logged (diagnostics_not_judged)']
    chk.finish()


def replay(path):
    j = json.load(open(path))
    rp = j['replay']
    work = '%s/work/replay' % vf.BUILD
    os.makedirs(work, exist_ok=True)
    vf.write_ndjson(work + '/c19.ndjson', [json.dumps(rp['behaviour'])])
    results, crashes = vf.drive('seq', rp['driver'], work + '/c19.ndjson', work + '/c19.res', timeout=900)
    print(json.dumps(results.get(0), indent=1)[:4000]); print(crashes)
    bad = bool(crashes) or any(owned(f['kind']) for f in results.get(0, {}).get('fail', []))
    if bad:
        print('VIOLATION property=%s replay=%s' % (j['property'], path))
    raise SystemExit(1 if bad else 0)
