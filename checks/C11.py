"""C11 - CrossSections are regularized and 2-D Booleans compute the set operation.
spec/Xsec.tla states the property on the pixel lattice: the winding number of every pixel centre w.r.t.
arbitrary lattice / half-lattice contours (clockwise, self-intersecting, self-overlapping, pinched, with
spikes) is computed exactly by integer crossing counting; the Positive and EvenOdd fill rules, Boolean /
BatchBoolean (set algebra) and the lattice group (Rotate(90k), Mirror, Scale(-1,1), Transform(mat2x3),
Translate) act on pixel sets; Area = pixel count for lattice-rectilinear values.  TLC checks the oracle
itself (ray independence, reversal, group covariance, no centre on an input edge) and the set laws on every
enumerated state, enumerates every contour set of <= 2 catalogue contours under both rules and every small
program exhaustively, samples deeper programs with -simulate, and prints each program with the demanded pixel
sets.  drive/xsec.cpp executes them through the real CrossSection API and judges every object by an
independent crossing-number oracle on ToPolygons(), Area(), the exact `Regularized` predicate (integer
segment predicates), lattice-ness of the output, and operand-order independence.
spec/XsecPoly.tla (extends Xsec.tla) adds LATTICE POLYGONS WITH DIAGONAL EDGES: scenes of triangles / quadrilaterals
on integer points (fans around a common vertex, coincident tips between two edges that cross to the right of the
tip, triangles on a 3x3 grid, arbitrary lattice points; each also under a D4 element), judged at 8 generic sample
points per pixel computed by the specification (exact integer winding numbers), by exact triangle areas and
inclusion-exclusion relations between step areas, and at 25 points per pixel by the driver's own evaluation of the
set formula on the input contours (validated against the specification's samples on every program)."""
import json, os, time, threading
import vf, progfam

LOCK = threading.Lock()
OWNED = {'pixels', 'winding', 'area', 'regular', 'lattice', 'order', 'finite', 'dense'}


def contour_text(c):
    return '[' + ' '.join('%g,%g' % (v[0] / 2.0, v[1] / 2.0) for v in c) + ']'


def prog_text(beh):
    """canonical readable text of an Xsec.tla program (signatures & samples)"""
    out = []
    for k, a in enumerate(beh['prog']):
        h = 'c%d' % (k + 1)
        if a['a'] == 'Leaf':
            s = '%s=%s(%s)' % (h, a['rule'], ' '.join(contour_text(c) for c in a['cs'])) if \
                sum(len(c) for c in a['cs']) <= 24 else '%s=%s(%d contours, %d vertices: %s)' % (
                    h, a['rule'], len(a['cs']), sum(len(c) for c in a['cs']), a.get('name', '?'))
        elif a['a'] == 'Bool':
            s = '%s=c%d %s c%d' % (h, a['x'], a['op'], a['y'])
        elif a['a'] == 'Batch':
            s = '%s=Batch%s(%s)' % (h, a['op'], ','.join('c%d' % x for x in a['xs']))
        elif a['a'] == 'Xf':
            s = '%s=%s(c%d)%s' % (h, a['g'], a['x'], '' if a.get('o', 1) else '@late')
        else:
            s = a['a']
        out.append(s)
    return '; '.join(out)


def sig_of(f, beh):
    d = f['detail']
    return '%s|%s|%s' % (f['kind'], d.get('why', ''), prog_text(beh))


class Tally:
    def __init__(self):
        self.n = self.nontrivial = self.uncertain = self.inexact = self.densepts = 0
        self.foreign = {}      # failure kinds owned by other properties (C05): counted, not judged


def pdrive(variant, args, behaviours, work, tag, timeout, jobs, per_job=200, env=None):
    """progfam.pdrive with a configurable chunk size (staircase programs are few but heavy)"""
    from concurrent.futures import ThreadPoolExecutor
    n = len(behaviours)
    jobs = max(1, min(jobs, (n + per_job - 1) // per_job))
    size = (n + jobs - 1) // jobs
    def one(j):
        lo = j * size
        inp = '%s/beh%s.%d.ndjson' % (work, tag, j)
        out = '%s/res%s.%d.ndjson' % (work, tag, j)
        vf.write_ndjson(inp, behaviours[lo:lo + size])
        for attempt in range(6):
            try:
                res, cr = vf.drive(variant, args, inp, out, timeout=timeout, env=env)
                break
            except OSError:          # the shared driver binary is being re-linked by a concurrent build
                if attempt == 5:
                    raise
                time.sleep(20)
        return ({lo + i: r for i, r in res.items()}, [(lo + i, rc, t) for (i, rc, t) in cr])
    results, crashes = {}, []
    with ThreadPoolExecutor(max_workers=jobs) as ex:
        for res, cr in ex.map(one, range(jobs)):
            for i, r in res.items():
                r['i'] = i
            results.update(res); crashes += cr
    return results, crashes


def run_programs(chk, tally, behaviours, opts, tag, jobs=12, variant='seq', timeout=3000, per_job=200, env=None):
    """run the programs through mfdrive xsec in parallel chunks; failures of OWNED kinds that repeat when
    re-run become violations"""
    work = '%s/work/%s' % (vf.BUILD, chk.pid)
    os.makedirs(work, exist_ok=True)
    args = ['xsec'] + opts
    t0 = time.time()
    results, crashes = pdrive(variant, args, behaviours, work, tag, timeout, jobs, per_job, env)
    vf.log('[C11] driver %s%s: %d programs in %.0fs' % (tag, ' '.join(opts), len(results), time.time() - t0))
    failing = []
    for i, r in sorted(results.items()):
        tally.n += 1
        tally.nontrivial += 1 if r.get('nontrivial', 0) > 0 else 0
        tally.uncertain += r.get('uncertain', 0)
        tally.inexact += r.get('inexact', 0)
        tally.densepts += r.get('densepts', 0)
        own = []
        for f in r['fail']:
            if f['kind'] == 'oracle':      # the driver's set formula disagrees with the specification: a defect of the CHECK
                raise vf.ToolError('C11: oracle mismatch between drive/xsec.cpp and XsecPoly.tla in: %s -- %s' % (
                    prog_text(json.loads(behaviours[i])), json.dumps(f)[:600]))
            if any(f['kind'] == o for o in OWNED):
                own.append(f)
            else:
                tally.foreign[f['kind']] = tally.foreign.get(f['kind'], 0) + 1
                if len(chk.coverage.setdefault('foreign_samples', [])) < 4:
                    chk.coverage['foreign_samples'].append(
                        '%s (C05) in: %s -- %s' % (f['kind'], prog_text(json.loads(behaviours[i])), json.dumps(f['detail'])[:200]))
        if own:
            failing.append((i, own))
    for (i, rc, text) in crashes:
        beh = json.loads(behaviours[i])
        chk.violation('crash|' + progfam.crash_site(text),
                      'driver crashed (rc=%s) replaying: %s\n%s' % (rc, prog_text(beh), text[-1500:]),
                      {'driver': args, 'K': beh.get('K', 4), 'behaviour': beh})
    if failing:
        failing = failing[:200]
        inp2 = '%s/confirm%s.ndjson' % (work, tag)
        vf.write_ndjson(inp2, [behaviours[i] for i, _ in failing])
        res2, cr2 = vf.drive(variant, args, inp2, inp2 + '.res', timeout=900)
        confirmed = []
        for n, (i, fl) in enumerate(failing):
            r2 = res2.get(n)
            if r2 is None:
                confirmed.append((i, fl)); continue
            kinds2 = set(f['kind'] for f in r2['fail'])
            fl2 = [f for f in fl if f['kind'] in kinds2]
            if fl2:
                confirmed.append((i, fl2))
        for i, fl in confirmed:
            beh = json.loads(behaviours[i])
            for f in fl:
                chk.violation(sig_of(f, beh),
                              '%s at step %d of: %s -- %s' % (f['kind'], f['step'], prog_text(beh), json.dumps(f['detail'])[:500]),
                              {'driver': args, 'K': beh.get('K', 4), 'behaviour': beh, 'failure': f})
    return len(results)


def gen(chk, cfg, simulate=None, timeout=900, fams=None):
    """TLC on Xsec.tla / XsecPoly.tla with one configuration; returns the distinct programs it printed"""
    t0 = time.time()
    module = 'XsecPoly' if cfg.startswith('XsecPoly_') else 'Xsec'
    r = vf.tlc(module, cfg, workers=4 if simulate or module == 'XsecPoly' else 2, simulate=simulate, timeout=timeout,
               env={'JAVA_TOOL_OPTIONS': '-Xss64m -Xmx4g -XX:ParallelGCThreads=2'})
    vf.tlc_ok(r, module + '/' + cfg)
    if r.violation:
        raise vf.ToolError('Xsec/%s: invariant %s violated in the MODEL (specification bug)\n%s' % (cfg, r.violation, r.out[-2500:]))
    behs = list(dict.fromkeys(r.behaviours))
    if not behs:
        raise vf.ToolError('no programs generated from %s\n%s' % (cfg, r.out[-2000:]))
    with LOCK:
        chk.coverage['states'] = chk.coverage.get('states', 0) + r.distinct
        chk.coverage['transitions'] = chk.coverage.get('transitions', 0) + r.generated
        if fams is not None:
            fams[cfg.replace('Xsec_', '').replace('.cfg', '')] = len(behs)
    vf.log('[C11] TLC %s: %d programs, %d states in %.0fs' % (cfg, len(behs), r.distinct, time.time() - t0))
    return behs


def main(tier):
    chk = vf.Check('C11', tier, 'model_checking')
    vf.build('seq')
    quick = tier == 'quick'
    tally = Tally()
    fams = {}
    samples = []
    seed = vf.seed()

    # TLC: all families are generated concurrently (each run is mostly single-threaded)
    plan = [  # name, cfg, simulate, timeout
        # the exact winding oracle itself is model-checked on every catalogue contour (RayIndependent,
        # ReverseNegates, GroupCovariant, CentresOffEdges, FillIsRule); the single-contour fills are replayed
        ('single', 'Xsec_single3.cfg' if quick else 'Xsec_single.cfg', None, 1800),
        # EVERY contour set of <= 2 catalogue contours under both fill rules
        ('fill', 'Xsec_fill3.cfg' if quick else 'Xsec_fill4.cfg', None, 3000),
        # EVERY program of two leaves + one Boolean / transform (small family), + two steps (tiny family)
        ('prog2', 'Xsec_prog2q.cfg' if quick else 'Xsec_prog2.cfg', None, 1800),
        ('prog4', 'Xsec_prog4q.cfg' if quick else 'Xsec_prog4.cfg', None, 1800),
        # EVERY BatchBoolean of 0, 1 or 3 operands over every triple of the four micro-family leaves
        ('batch', 'Xsec_batch.cfg', None, 1800),
        # seeded random deeper programs (3 leaves, Booleans, BatchBooleans, transforms of any earlier step)
        ('sim', 'Xsec_sim.cfg', 60 if quick else 2400, 3000),
        # StairSound: the staircase formula is the fill of the staircase contour (small instances) ...
        ('stairMC', 'Xsec_stairMC.cfg', None, 900),
        # ... and staircase ribbons with > 1024 edges: the BVH broad phase of boolean2.cpp
        ('stair', 'Xsec_stair.cfg', 2 if quick else 12, 2400)]
    # lattice polygons with diagonal edges (XsecPoly.tla): fans, coincident tips + crossing pairs, 3x3-grid triangles,
    # arbitrary lattice triangles / quadrilaterals; PSetLaws, PRays, PCovariant, PShape are checked on every scene
    plan.insert(2, ('poly', 'XsecPoly_q.cfg' if quick else 'XsecPoly_t.cfg', None, 3000))
    if not quick:
        plan.append(('stairL', 'Xsec_stairL.cfg', 12, 3000))
    from concurrent.futures import ThreadPoolExecutor
    def one(job):
        time.sleep(0.3 * plan.index(job))      # distinct TLC metadirs
        return gen(chk, job[1], simulate=job[2], timeout=job[3], fams=fams)
    with ThreadPoolExecutor(max_workers=5 if quick else 3) as ex:
        B = dict(zip([j[0] for j in plan], ex.map(one, plan)))

    run_programs(chk, tally, B['single'], [], 'single')
    run_programs(chk, tally, B['fill'], [], 'fill')
    samples += [prog_text(json.loads(b)) for b in B['fill'][len(B['fill']) // 3::max(1, len(B['fill']) // 4)][:3]]
    if not quick:
        run_programs(chk, tally, B['fill'][seed % 7::7], ['--jitter=13'], 'fillJ')
    run_programs(chk, tally, B['prog2'][seed % 3::3] if quick else B['prog2'], [], 'prog2')
    samples.append(prog_text(json.loads(B['prog2'][len(B['prog2']) // 2])))
    run_programs(chk, tally, B['prog4'][seed % 2::2] if quick else B['prog4'], [], 'prog4')
    # rectangle leaves with an inflated tolerance (SetTolerance(0.75) changes nothing on a rectangle): Booleans must still
    # resolve half-lattice features at epsilon
    run_programs(chk, tally, B['prog2'][seed % 3::3] if quick else B['prog2'], ['--inflate'], 'prog2I')
    run_programs(chk, tally, B['batch'][seed % 3::3] if quick else B['batch'], [], 'batch')
    # lattice polygons: every program printed by XsecPoly.tla
    n0, d0 = tally.n, tally.densepts
    # (12-16 steps and ~40 sample-table allocations per program: a small ASan quarantine avoids most of the mmap traffic)
    penv = {'ASAN_OPTIONS': 'detect_leaks=0:abort_on_error=0:halt_on_error=1:allocator_may_return_null=1:quarantine_size_mb=8'}
    run_programs(chk, tally, B['poly'], [], 'poly', per_job=100, env=penv)
    if not quick:
        run_programs(chk, tally, B['poly'][seed % 5::5], ['--jitter=13'], 'polyJ', per_job=100, env=penv)
    polyfam, nscenes = {}, 0
    for b in B['poly']:
        j = json.loads(b)
        polyfam[j['fam']] = polyfam.get(j['fam'], 0) + 1
        nscenes += 1 if j['g'] == 'ID' else 0
    chk.coverage['lattice_polygons'] = {
        'programs_replayed': tally.n - n0, 'scenes': nscenes, 'programs_by_family': polyfam,
        'spec_sample_points_per_program': 512, 'steps_per_program': '14-16',
        'dense_formula_points_checked': tally.densepts - d0}
    samples.append(prog_text(json.loads([b for b in B['poly'] if '"tipsX"' in b][0])))
    samples.append(prog_text(json.loads(B['prog4'][len(B['prog4']) // 2])))
    run_programs(chk, tally, B['sim'], [], 'sim')
    samples.append(prog_text(json.loads(B['sim'][0])))
    if not quick:
        run_programs(chk, tally, B['sim'][::3], ['--jitter=13'], 'simJ')
    stairs = B['stair'] + B.get('stairL', [])
    run_programs(chk, tally, stairs, [], 'stair', per_job=2)
    samples.append(prog_text(json.loads(stairs[0])))
    run_programs(chk, tally, B['stairMC'], [], 'stairMC')

    chk.coverage.update({
        'traces_validated_against_impl': tally.n,
        'evaluations': tally.n, 'distinct_nontrivial': tally.nontrivial,
        'families': fams,
        'oracle_uncertain_samples': tally.uncertain, 'outputs_not_on_exact_grid': tally.inexact,
        'not_owned_failures_seen': tally.foreign,
        'rule': 'distinct programs printed by TLC from Xsec.tla: (single) every catalogue contour alone x both fill rules with the '
                'oracle invariants; (fill) EVERY set of <= 2 catalogue contours (rectangles of the grid in both orientations, '
                'rectilinear bow-tie, self-overlapping loop, spike, pinch, comb, 45-degree bow-tie/diamonds/triangle and their '
                'reversals) x {Positive, EvenOdd}; (prog2/prog4) EVERY program of 2 leaves + 1 / + 2 steps over the small / tiny '
                'leaf family (quick: a seed-rotated part); (batch) EVERY BatchBoolean of 0/1/3 operands over 3 micro-family leaves; (sim) -simulate programs of 3 leaves + 5 steps; (stair) staircase ribbons > 1024 edges; '
                '(poly, XsecPoly.tla) lattice polygons with diagonal edges: scenes of 3-5 triangles / quadrilaterals on integer points '
                '(fan: common vertex; tipsX: 2-3 coincident lexicographically-largest tips between two edges crossing to the right; '
                'grid3: 3x3 point grid; rand: arbitrary lattice points), each as it is and under one D4 element, as the program '
                'Positive(all), EvenOdd(all), each contour alone, BatchAdd/Subtract/Intersect of the singles, X=Positive(odd contours), '
                'Y=Positive(even contours), X+Y, X^Y, X-Y, Y-X; judged at 8 generic samples per pixel (exact winding in the spec), by exact '
                'triangle areas and inclusion-exclusion relations, and at 25 points per pixel by the driver\'s set formula on the input contours. '
                'Every step object of every program is judged. non-trivial = final value non-empty',
        'samples': samples})
    chk.assumptions += [
        'lattice / half-lattice regime: input vertices have integer or half-integer coordinates; values are compared at pixel '
        'centres (and 4 more interior points per pixel for lattice-rectilinear values) by an independent crossing-number oracle',
        'Area = pixel count and lattice-ness are demanded for lattice-rectilinear values only (the property\'s own clause)',
        'lattice polygons: sample points are off every line through two lattice points of the window (XsecPoly.tla!SamplesGeneric, '
        '>= 0.0013 from every input edge and its extension); dense points closer than 1e-6 to an input edge are skipped; areas to 1e-9',
        'GetTolerance() drift (known candidate F3) and ToPolygons() bit-stability are logged under C05 kinds, not judged here']
    chk.finish()


def replay(path):
    """./check C11 --replay <file> : re-run one saved program; only C11's own failure kinds count"""
    j = json.load(open(path))
    rp = j['replay']
    work = '%s/work/replay' % vf.BUILD
    os.makedirs(work, exist_ok=True)
    vf.write_ndjson(work + '/c11.ndjson', [json.dumps(rp['behaviour'])])
    results, crashes = vf.drive(rp.get('variant', 'seq'), rp['driver'], work + '/c11.ndjson', work + '/c11.res', timeout=900)
    r = results.get(0, {'fail': []})
    own = [f for f in r['fail'] if f['kind'] in OWNED]
    print(prog_text(rp['behaviour']))
    print(json.dumps(own, indent=1)[:4000]); print(crashes)
    if crashes or own:
        print('VIOLATION property=%s replay=%s' % (j['property'], path))
        raise SystemExit(1)
    print('replay passes')
    raise SystemExit(0)
