"""C11 - CrossSections are regularized and 2-D Booleans compute the set operation.
spec/Xsec.tla states the property on the pixel lattice: the winding number of every pixel centre w.r.t.
arbitrary lattice / half-lattice contours (clockwise, self-intersecting, self-overlapping, pinched, with
spikes) is computed exactly by integer crossing counting; the Positive and EvenOdd fill rules, Boolean /
BatchBoolean (set algebra) and the lattice group (Rotate(90k), Mirror, Scale(-1,1), Transform(mat2x3),
Translate) act on pixel sets; Area = pixel count for lattice-rectilinear values.  TLC checks the oracle
itself (ray independence, reversal, group covariance, no centre on an input edge) and the set laws on every
enumerated state, enumerates every contour set of <= 2 catalogue contours under both rules and every small
program exhaustively, samples deeper programs with -simulate, and prints each program with the demanded pixel
sets.  drive/xsec.cpp executes them through the real CrossSection API and judges every object by an
independent crossing-number oracle on ToPolygons(), Area(), the exact `Regularized` predicate (integer
segment predicates), lattice-ness of the output, and operand-order independence."""
import json, os
import vf, progfam

OWNED = {'pixels', 'winding', 'area', 'regular', 'lattice', 'order', 'finite'}


def contour_text(c):
    return '[' + ' '.join('%g,%g' % (v[0] / 2.0, v[1] / 2.0) for v in c) + ']'


def prog_text(beh):
    """canonical readable text of an Xsec.tla program (signatures & samples)"""
    out = []
    for k, a in enumerate(beh['prog']):
        h = 'c%d' % (k + 1)
        if a['a'] == 'Leaf':
            s = '%s=%s(%s)' % (h, a['rule'], ' '.join(contour_text(c) for c in a['cs'])) if len(a['cs']) < 3 and \
                sum(len(c) for c in a['cs']) <= 24 else '%s=%s(%d contours, %d vertices: %s)' % (
                    h, a['rule'], len(a['cs']), sum(len(c) for c in a['cs']), a.get('name', '?'))
        elif a['a'] == 'Bool':
            s = '%s=c%d %s c%d' % (h, a['x'], a['op'], a['y'])
        elif a['a'] == 'Batch':
            s = '%s=Batch%s(%s)' % (h, a['op'], ','.join('c%d' % x for x in a['xs']))
        elif a['a'] == 'Xf':
            s = '%s=%s(c%d)%s' % (h, a['g'], a['x'], '' if a.get('o', 1) else '@late')
        else:
            s = a['a']
        out.append(s)
    return '; '.join(out)


def sig_of(f, beh):
    d = f['detail']
    return '%s|%s|%s' % (f['kind'], d.get('why', ''), prog_text(beh))


class Tally:
    def __init__(self):
        self.n = self.nontrivial = self.uncertain = self.inexact = 0
        self.foreign = {}      # failure kinds owned by other properties (C05): counted, not judged


def run_programs(chk, tally, behaviours, opts, tag, jobs=12, variant='seq', timeout=3000):
    """run the programs through mfdrive xsec in parallel chunks; failures of OWNED kinds that repeat when
    re-run become violations"""
    work = '%s/work/%s' % (vf.BUILD, chk.pid)
    os.makedirs(work, exist_ok=True)
    args = ['xsec'] + opts
    results, crashes = progfam.pdrive(variant, args, behaviours, work, tag, timeout, jobs)
    failing = []
    for i, r in sorted(results.items()):
        tally.n += 1
        tally.nontrivial += 1 if r.get('nontrivial', 0) > 0 else 0
        tally.uncertain += r.get('uncertain', 0)
        tally.inexact += r.get('inexact', 0)
        own = []
        for f in r['fail']:
            if any(f['kind'] == o for o in OWNED):
                own.append(f)
            else:
                tally.foreign[f['kind']] = tally.foreign.get(f['kind'], 0) + 1
                if len(chk.coverage.setdefault('foreign_samples', [])) < 4:
                    chk.coverage['foreign_samples'].append(
                        '%s (C05) in: %s -- %s' % (f['kind'], prog_text(json.loads(behaviours[i])), json.dumps(f['detail'])[:200]))
        if own:
            failing.append((i, own))
    for (i, rc, text) in crashes:
        beh = json.loads(behaviours[i])
        chk.violation('crash|' + progfam.crash_site(text),
                      'driver crashed (rc=%s) replaying: %s\n%s' % (rc, prog_text(beh), text[-1500:]),
                      {'driver': args, 'K': beh.get('K', 4), 'behaviour': beh})
    if failing:
        failing = failing[:200]
        inp2 = '%s/confirm%s.ndjson' % (work, tag)
        vf.write_ndjson(inp2, [behaviours[i] for i, _ in failing])
        res2, cr2 = vf.drive(variant, args, inp2, inp2 + '.res', timeout=900)
        confirmed = []
        for n, (i, fl) in enumerate(failing):
            r2 = res2.get(n)
            if r2 is None:
                confirmed.append((i, fl)); continue
            kinds2 = set(f['kind'] for f in r2['fail'])
            fl2 = [f for f in fl if f['kind'] in kinds2]
            if fl2:
                confirmed.append((i, fl2))
        for i, fl in confirmed:
            beh = json.loads(behaviours[i])
            for f in fl:
                chk.violation(sig_of(f, beh),
                              '%s at step %d of: %s -- %s' % (f['kind'], f['step'], prog_text(beh), json.dumps(f['detail'])[:500]),
                              {'driver': args, 'K': beh.get('K', 4), 'behaviour': beh, 'failure': f})
    return len(results)


def gen(chk, cfg, simulate=None, timeout=900, fams=None):
    behs, r = progfam.generate(cfg, module='Xsec', simulate=simulate, timeout=timeout)
    chk.coverage['states'] = chk.coverage.get('states', 0) + r.distinct
    chk.coverage['transitions'] = chk.coverage.get('transitions', 0) + r.generated
    if fams is not None:
        fams[cfg.replace('Xsec_', '').replace('.cfg', '')] = len(behs)
    return behs


def main(tier):
    chk = vf.Check('C11', tier, 'model_checking')
    vf.build('seq')
    quick = tier == 'quick'
    tally = Tally()
    fams = {}
    samples = []
    seed = vf.seed()

    # 1. the exact winding oracle itself is model-checked on every catalogue contour (RayIndependent,
    #    ReverseNegates, GroupCovariant, CentresOffEdges, FillIsRule); the single-contour fills are replayed
    behs = gen(chk, 'Xsec_single3.cfg' if quick else 'Xsec_single.cfg', fams=fams)
    run_programs(chk, tally, behs, [], 'single')
    # 2. EVERY contour set of <= 2 catalogue contours under both fill rules
    behs = gen(chk, 'Xsec_fill3.cfg' if quick else 'Xsec_fill4.cfg', timeout=1800, fams=fams)
    run_programs(chk, tally, behs, [], 'fill')
    samples += [prog_text(json.loads(b)) for b in behs[len(behs) // 3::max(1, len(behs) // 4)][:3]]
    if not quick:
        run_programs(chk, tally, behs[seed % 7::7], ['--jitter=13'], 'fillJ')
    # 3. EVERY program of two leaves + one Boolean / transform (small family), + two steps (tiny family)
    behs = gen(chk, 'Xsec_prog2.cfg', fams=fams)
    sub = behs[seed % 2::2] if quick else behs
    run_programs(chk, tally, sub, [], 'prog2')
    samples.append(prog_text(json.loads(behs[len(behs) // 2])))
    behs = gen(chk, 'Xsec_prog4.cfg', fams=fams)
    sub = behs[seed % 12::12] if quick else behs
    run_programs(chk, tally, sub, [], 'prog4')
    samples.append(prog_text(json.loads(behs[len(behs) // 2])))
    # 4. seeded random deeper programs (3 leaves, Booleans, BatchBooleans, transforms of any earlier step)
    behs = gen(chk, 'Xsec_sim.cfg', simulate=60 if quick else 1200, timeout=3000, fams=fams)
    run_programs(chk, tally, behs, [], 'sim')
    samples.append(prog_text(json.loads(behs[0])))
    if not quick:
        run_programs(chk, tally, behs[::3], ['--jitter=13'], 'simJ')
    # 5. staircase ribbons with > 1024 edges: the BVH broad phase of boolean2.cpp
    gen(chk, 'Xsec_stairMC.cfg', fams=fams)     # StairSound: the staircase formula is the fill of the staircase contour
    behs = gen(chk, 'Xsec_stair.cfg', simulate=2 if quick else 6, timeout=1800, fams=fams)
    if not quick:
        behs += gen(chk, 'Xsec_stairL.cfg', simulate=6, timeout=2400, fams=fams)
    run_programs(chk, tally, behs, [], 'stair', jobs=min(12, len(behs)))
    samples.append(prog_text(json.loads(behs[0])))

    chk.coverage.update({
        'traces_validated_against_impl': tally.n,
        'evaluations': tally.n, 'distinct_nontrivial': tally.nontrivial,
        'families': fams,
        'oracle_uncertain_samples': tally.uncertain, 'outputs_not_on_exact_grid': tally.inexact,
        'not_owned_failures_seen': tally.foreign,
        'rule': 'distinct programs printed by TLC from Xsec.tla: (single) every catalogue contour alone x both fill rules with the '
                'oracle invariants; (fill) EVERY set of <= 2 catalogue contours (rectangles of the grid in both orientations, '
                'rectilinear bow-tie, self-overlapping loop, spike, pinch, comb, 45-degree bow-tie/diamonds/triangle and their '
                'reversals) x {Positive, EvenOdd}; (prog2/prog4) EVERY program of 2 leaves + 1 / + 2 steps over the small / tiny '
                'leaf family; (sim) -simulate programs of 3 leaves + 5 steps; (stair) staircase ribbons > 1024 edges. Every step '
                'object of every program is judged. non-trivial = final value non-empty',
        'samples': samples})
    chk.assumptions += [
        'lattice / half-lattice regime: input vertices have integer or half-integer coordinates; values are compared at pixel '
        'centres (and 4 more interior points per pixel for lattice-rectilinear values) by an independent crossing-number oracle',
        'Area = pixel count and lattice-ness are demanded for lattice-rectilinear values only (the property\'s own clause)',
        'GetTolerance() drift (known candidate F3) and ToPolygons() bit-stability are logged under C05 kinds, not judged here']
    chk.finish()


def replay(path):
    """./check C11 --replay <file>"""
    progfam.replay_file(path)
