"""C17 - constructors and transforms produce the solid their parameters define.
Ctor.tla gives every argument tuple of Cube/Cylinder/Sphere/Tetrahedron/Extrude/Revolve/LevelSet and of
Translate/Rotate/Scale/Mirror/Transform/Warp a three-valued meaning on the integer lattice, in exact
integer arithmetic on doubled coordinates: cell centres that MUST be inside, centres that MUST be outside,
and a band about which nothing is demanded (on the analytic surface, or inside the faceting band of a
circle/sphere, bounded by rational lower bounds of cos^2 and, for Sphere, by R^2 m^2/(m^2+2)); the expected
Status from decision tables transcribed from the doc comments; vertex/triangle counts; volumes where the
solid is exact; a model of Quality (setter sequences, GetCircularSegments between integer bounds of pi).
TLC enumerates the tuples by family, checks the invariants DenSane / ExactSolids / Refines / GroupSound /
QualityDoc / LevelSetSane on every one of them and prints them; drive/ctor.cpp calls the public API and
classifies the cell centres with the independent winding oracle."""
import json, os, re, time
import vf, progfam

FAMILIES = ['cube', 'cyl', 'sphere', 'tetra', 'extrude', 'revolve', 'xform', 'affine', 'levelset', 'quality', 'qctor']
OWNED = {'status', 'cells', 'winding', 'orient', 'volume', 'count', 'exact', 'quality', 'lstol'}
INVARIANTS = ['DenSane', 'ExactSolids', 'Refines', 'GroupSound', 'QualityDoc', 'LevelSetSane']


def op_text(o):
    if o['op'] in ('Transform', 'Warp'):
        return '%s(%s|%s)' % (o['op'], json.dumps(o['m'], separators=(',', ':')), json.dumps(o['v'], separators=(',', ':')))
    return '%s(%s)' % (o['op'], ','.join(str(x) for x in o['v']))


def ctor_text(c):
    k = c['kind']
    if k == 'cube': return 'Cube((%d,%d,%d),center=%s)' % (c['s'][0], c['s'][1], c['s'][2], str(c['cen']).lower())
    if k == 'cyl': return 'Cylinder(h=%d,rLow=%d,rHigh=%d,segments=%d,center=%s)' % (c['h'], c['rl'], c['rh'], c['n'], str(c['cen']).lower())
    if k == 'sphere': return 'Sphere(%d,%d)' % (c['R'], c['n'])
    if k == 'tetra': return 'Tetrahedron().Scale(%d)' % c['k']
    if k == 'extrude': return 'Extrude(%s,h=%d,nDivisions=%d,scaleTop=(%d,%d))' % (c['poly'], c['h'], c['nd'], c['sc'][0], c['sc'][1])
    if k == 'revolve': return 'Revolve(%s,segments=%d,degrees=%d)' % (c['prof'], c['n'], c['deg'])
    if k == 'levelset': return 'LevelSet(%s,bounds=%s,edge=%s,level=%d,tol=%s)' % (
        c['sdf'], json.dumps(c['bnd'], separators=(',', ':')), c['e2'] / 2.0, c['lev'], c['tol'] / 16.0 if c['tol'] else 'none')
    if k in ('xform', 'affine'): return '%s.%s' % (c['base'], '.'.join(op_text(o) for o in c['ops']))
    if k == 'quality': return 'Quality[%s].GetCircularSegments' % ';'.join('%s%d' % (o[0], o[1]) for o in c['ops'])
    if k == 'qctor': return 'Quality[%s];%s' % (';'.join('%s%d' % (o[0], o[1]) for o in c['ops']), ctor_text(c['ctor']))
    return json.dumps(c)[:200]


def case_text(cs):
    return ctor_text(cs['c'])


def sig_of(kind, why, cs):
    """Canonical signatures: one per abstract input class where the same defect is reached by many tuples."""
    c = cs['c']
    k = c['kind']
    if k == 'levelset' and c['e2'] <= 0 and kind in ('crash', 'status'):
        return 'LevelSet|edgeLength<=0|%s' % kind
    if k == 'extrude' and c['poly'] in ('emptyc', 'onept', 'twopt') and kind == 'crash':
        return 'Extrude|contour with fewer than 3 vertices|crash'
    if k == 'revolve' and c['deg'] < 0 and kind == 'orient':
        return 'Revolve|revolveDegrees<0|orient'
    if k == 'qctor' and c['ops'] and c['ops'][-1][0] == 'S':
        s = c['ops'][-1][1]
        ck = c['ctor']['kind']
        if ck == 'sphere' and s == 3 and kind == 'crash':
            return 'Quality|SetCircularSegments(3);Sphere|crash'
        if ck == 'sphere' and s % 4 != 0 and kind in ('cells', 'count'):
            return 'Quality|SetCircularSegments(n%%4!=0);Sphere rounds down|%s' % kind
        if ck == 'revolve' and kind == 'cells' and s * c['ctor']['deg'] < 360:
            return 'Quality|Revolve default segment count truncates to 0 divisions|cells'
    return '%s|%s|%s' % (kind, why, case_text(cs))


def generate(chk, tier):
    big = tier == 'thorough'
    # development aid for mutation runs only: the cases do not depend on /repo, so a mutation campaign may
    # reuse one generation (C17_REUSE_CASES=<dir>); never set in normal runs, where everything is regenerated
    cache = os.environ.get('C17_REUSE_CASES')
    cfile = cache and '%s/cases_%s.json' % (cache, tier)
    if cfile and os.path.exists(cfile):
        j = json.load(open(cfile))
        chk.coverage.update(j['cov']); chk.coverage['cases_reused_from_cache'] = True
        return j['cases'], j['fam_of'], j['states'], j['trans']
    jobs = [('Ctor', 'Ctor_%s%s.cfg' % (f, '_big' if big else ''),
             dict(workers=4 if big else 2, timeout=3000 if big else 900, heap='4g')) for f in FAMILIES]
    res = vf.tlc_many(jobs, parallel=6)
    cases, fam_of, states, trans = [], [], 0, 0
    for f, r in zip(FAMILIES, res):
        vf.tlc_ok(r, 'Ctor.tla family ' + f)
        if r.violation:
            raise vf.ToolError('Ctor.tla (%s): %s violated in the MODEL (specification bug)\n%s' % (f, r.violation, r.out[-2500:]))
        if r.error or 'Model checking completed. No error has been found.' not in r.out:
            raise vf.ToolError('Ctor.tla (%s): TLC did not complete (%s)\n%s' % (f, r.error, r.out[-2500:]))
        seen = set()
        n = 0
        for b in r.behaviours:
            if b in seen: continue
            seen.add(b); cases.append(b); fam_of.append(f); n += 1
        if n == 0:
            raise vf.ToolError('Ctor.tla (%s): no cases generated\n%s' % (f, r.out[-2000:]))
        chk.coverage['cases_' + f] = n
        states += r.distinct; trans += r.generated
    if cfile:
        os.makedirs(cache, exist_ok=True)
        json.dump({'cases': cases, 'fam_of': fam_of, 'states': states, 'trans': trans,
                   'cov': {k: v for k, v in chk.coverage.items() if k.startswith('cases_')}}, open(cfile, 'w'))
    return cases, fam_of, states, trans


def pdrive(args, cases, work, tag, timeout, jobs, chunk):
    from concurrent.futures import ThreadPoolExecutor
    n = len(cases)
    nch = max(1, (n + chunk - 1) // chunk)
    def one(j):
        lo = j * chunk
        inp = '%s/case%s.%d.ndjson' % (work, tag, j)
        out = '%s/res%s.%d.ndjson' % (work, tag, j)
        vf.write_ndjson(inp, cases[lo:lo + chunk])
        res, cr = vf.drive('seq', args, inp, out, timeout=timeout)
        return ({lo + i: r for i, r in res.items()}, [(lo + i, rc, t) for (i, rc, t) in cr])
    results, crashes = {}, []
    with ThreadPoolExecutor(max_workers=jobs) as ex:
        for res, cr in ex.map(one, range(nch)):
            for i, r in res.items():
                r['i'] = i
            results.update(res); crashes += cr
    return results, crashes


def run(chk, cases, tag, jobs=12, timeout=3000, chunk=120):
    work = '%s/work/%s' % (vf.BUILD, chk.pid)
    os.makedirs(work, exist_ok=True)
    args = ['ctor', '--K=4']
    results, crashes = pdrive(args, cases, work, tag, timeout, jobs, chunk)
    crashed = set()
    for (i, rc, text) in crashes:
        cs = json.loads(cases[i])
        crashed.add(i)
        # a crash counts only if it repeats when the case is run alone
        inp2 = '%s/crash%s.%d.ndjson' % (work, tag, i)
        vf.write_ndjson(inp2, [cases[i]])
        res2, cr2 = vf.drive('seq', args, inp2, inp2 + '.res', timeout=600)
        if not cr2:
            continue
        chk.violation(sig_of('crash', progfam.crash_site(text), cs),
                      'the call crashed (rc=%s, %s): %s\n%s' % (rc, progfam.crash_site(text), case_text(cs), text[-1200:]),
                      {'driver': args, 'behaviour': cs})
    bysig, count = {}, {}
    for i, r in sorted(results.items()):
        cs = None
        for f in r['fail']:
            if f['kind'] not in OWNED: continue
            cs = cs or json.loads(cases[i])
            s = sig_of(f['kind'], f['detail'].get('why', ''), cs)
            bysig.setdefault(s, (i, f))
            count[s] = count.get(s, 0) + 1
    known = [k for k in vf.known_findings() if k.get('property') == chk.pid and k.get('status', 'open') == 'open']
    is_known = lambda s: any(re.fullmatch(k['signature'], s) for k in known)
    order = sorted(bysig.items(), key=lambda kv: (len(cases[kv[1][0]]), kv[0]))
    keep = [kv for kv in order if not is_known(kv[0])][:40] + [kv for kv in order if is_known(kv[0])][:20]
    reps = sorted(set(i for _, (i, _) in keep))
    again = {}
    if reps:
        inp2 = '%s/case%s.confirm.ndjson' % (work, tag)
        vf.write_ndjson(inp2, [cases[i] for i in reps])
        res2, cr2 = vf.drive('seq', args, inp2, inp2 + '.res', timeout=900)
        for n, i in enumerate(reps):
            again[i] = None if n not in res2 else set(f['kind'] for f in res2[n]['fail'])
    for sig, (i, f) in keep:
        if again.get(i) is not None and f['kind'] not in again[i]:
            continue                                   # not repeatable: no verdict
        cs = json.loads(cases[i])
        chk.violation(sig, '%s: %s -- expected status %s; %s (%d case(s) with this signature, %d signatures in this run)' % (
            f['kind'], case_text(cs), cs['st'], json.dumps(f['detail'])[:400], count[sig], len(bysig)),
            {'driver': args, 'behaviour': cs, 'failure': f})
    return results, crashed


def main(tier):
    chk = vf.Check('C17', tier, 'model_checking')
    vf.build('seq')
    cases, fam_of, states, trans = generate(chk, tier)
    vf.log('[C17] %d cases generated and model-checked by TLC in %d families (%.0fs)' % (len(cases), len(FAMILIES), time.time() - chk.t0))
    # interleave the families so that the chunks have similar cost
    order = sorted(range(len(cases)), key=lambda i: (i % 97, i))
    cases = [cases[i] for i in order]; fam_of = [fam_of[i] for i in order]
    results, crashed = run(chk, cases, 'q' if tier == 'quick' else 't', jobs=12, timeout=3000 if tier == 'thorough' else 900)
    base_bad = sum(1 for r in results.values() if any(f['kind'] == 'base' for f in r['fail']))
    if base_bad:
        raise vf.ToolError('%d transform cases: the base solid built from boxes is not the cell set of the spec' % base_bad)
    nontriv = sum(1 for r in results.values() if r.get('nontrivial', 0) > 0)
    undecided_q = 0
    demanded_in = sum(r.get('info', {}).get('nIn', 0) for r in results.values())
    per_fam = {}
    for i, r in results.items():
        d = per_fam.setdefault(fam_of[i], {'run': 0, 'nontrivial': 0})
        d['run'] += 1; d['nontrivial'] += 1 if r.get('nontrivial', 0) > 0 else 0
    for i, b in enumerate(cases):
        if fam_of[i] == 'quality':
            undecided_q += sum(1 for s in json.loads(b)['x']['segs'] if s < 0)
    status_cases = sum(1 for b in cases if '"st":"InvalidConstruction"' in b)
    picks = []
    for f in FAMILIES:
        idx = [i for i in range(len(cases)) if fam_of[i] == f]
        cs = json.loads(cases[idx[len(idx) // 2]])
        picks.append('%s -> %s, %d cells demanded inside, %d undecided' % (case_text(cs), cs['st'], len(cs['in']), len(cs['band'])))
    chk.coverage.update({
        'states': states, 'transitions': trans,
        'invariants_checked_by_TLC': INVARIANTS,
        'traces_validated_against_impl': len(results) + len(crashed),
        'evaluations': len(results) + len(crashed), 'distinct_nontrivial': nontriv,
        'cases_expecting_InvalidConstruction': status_cases,
        'cell_centres_demanded_inside': demanded_in,
        'quality_values_not_decided_by_pi_bounds': undecided_q,
        'per_family': per_fam,
        'exhaustive': True,
        'rule': 'TLC enumerates, per family, ALL argument tuples of the small integer domains of Ctor.tla (quick: Big=FALSE, thorough: '
                'Big=TRUE): Cube sizes -1..3(4)^3 x center; Cylinder height x radiusLow x radiusHigh (incl. 0, negative, default) x '
                'segments {0,3,4,8,..} x center; Sphere radius -1..4 x segments; Extrude of 7 lattice polygon sets (holes, two '
                'contours, non-rectilinear) + empty/degenerate contours x height x nDivisions x scaleTop {(1,1),(0,0),(2,2),(2,1),(0,1)}; '
                'Revolve of 8 profiles (on / crossing / left of the axis) x segments x degrees {90,180,270,360,400,-90,0}; transforms: '
                'all 64 Euler triples of quarter turns + out-of-range angles, all axis and diagonal Mirror normals with entries in '
                '-2..2, Scale {-2,-1,1,2}^3, the 48 signed permutation matrices through Transform, the 24 rotations through Warp, all '
                'pairs of 10 generators, on a chiral 5-cell solid and on Cube(1,2,3); integer matrices with entries in {-1,0,1} and '
                'non-zero determinant (a residue class; shears, |det| up to 4) by the exact preimage test; LevelSet of 6 SDF terms '
                '(box, sphere, max, min, neg) x 3 bounds x edge {1/2,1} x level {-1,0,1} x tolerance; every sequence of <=2 (thorough 3) '
                'Quality setter calls from 19 x GetCircularSegments(0..8,-3); Quality settings followed by Sphere/Cylinder/Revolve. '
                'non-trivial = at least one cell centre demanded inside, or InvalidConstruction demanded, or a decided Quality value',
        'samples': picks})
    chk.assumptions += [
        'centres of unit cells only (doubled coordinates are odd integers): a point on the analytic surface or in the faceting band is never judged',
        'Sphere: every face plane of the subdivided octahedron is at distance >= R*m/sqrt(m^2+2) (measured for m = 1..12, equality at m = 1, 2)',
        'LevelSet: "within one grid cell" is read as 2*edgeLength (>= the diagonal of a BCC cell); the SDF terms are 1-Lipschitz',
        'Warp is judged for orientation-preserving lattice maps only (Warp cannot flip triangles; its comment leaves validity to the caller)',
        'twist != 0 and non-integer parameters are not covered; general (non-lattice) affine matrices only through integer matrices with |det| <= 4',
        'vertex/triangle counts are consequences of the documented construction (copies of the cross-section, slices of the revolve, 8 m^2 faces)']
    # Extrude with twist AND top scale against the documented point map ("scale is applied after twist"), on sample points
    # (GenPos.tla extrude classes; float oracle with a 0.04 undecided margin around the analytic surface)
    import progfam as _pf
    eb, _r = _pf.generate('GenPos_extrude.cfg', module='GenPos')
    n_e, nt_e = _pf.replay(chk, eb, 0, ['--seed=%d' % vf.seed(), '--points=%d' % (80 if tier == 'quick' else 400)], {'extrude'},
                           tag='extrude', mode='genpos', jobs=8, chunk=12,
                           sig_of=lambda f, beh: '%s|%s' % (f['kind'], json.dumps(beh)))
    chk.coverage['extrude_twist_scale_classes'] = n_e
    chk.coverage['extrude_points_judged'] = sum(x.get('judged', 0) for x in chk.last_results.values())
    chk.finish()


def replay(path):
    j = json.load(open(path))
    rp = j['replay']
    work = '%s/work/replay' % vf.BUILD
    os.makedirs(work, exist_ok=True)
    vf.write_ndjson(work + '/c17.ndjson', [json.dumps(rp['behaviour'])])
    results, crashes = vf.drive('seq', rp['driver'], work + '/c17.ndjson', work + '/c17.res', timeout=900)
    print(json.dumps(results.get(0), indent=1)[:4000]); print(crashes)
    bad = bool(crashes) or bool([f for f in results.get(0, {}).get('fail', []) if f['kind'] in OWNED])
    if bad:
        print('VIOLATION property=%s replay=%s' % (j['property'], path))
    raise SystemExit(1 if bad else 0)
