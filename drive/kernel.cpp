// C01: the topological kernel under stress (spec/Kernel.tla).
//   mfdrive kernel <cases.ndjson> <out.ndjson>
// collapse cases: a closed triangulation with a designated edge a-b; embedded with
// |ab| ~ 1e-13 (and other lengths), stacked vertices flat or slightly raised;
// imported, then simplified / re-toleranced / combined.  hull cases: point
// sequences spanning no volume, in a given order.  Every result must be an
// empty error or a closed oriented 2-manifold whose counts agree.
#include <unistd.h>

#include "common.h"

namespace vf {
namespace {

const double kPi = 3.14159265358979323846;
std::vector<vec3> SeedPos(int seed) {
  auto ring = [](int n, double z) {
    std::vector<vec3> v;
    for (int i = 0; i < n; i++) v.push_back({std::cos(2 * kPi * i / n), std::sin(2 * kPi * i / n), z});
    return v;
  };
  if (seed == 1) return {{0, 0, 0}, {1, 0, 0}, {0, 1, 0}, {0, 0, 1}};
  if (seed == 2) return {{1, 0, 0}, {-1, 0, 0}, {0, 1, 0}, {0, -1, 0}, {0, 0, 1}, {0, 0, -1}};
  if (seed == 3) { auto v = ring(3, 0); v.push_back({0, 0, 1}); v.push_back({0, 0, -1}); return v; }
  if (seed == 4) { auto v = ring(3, 0); auto w = ring(3, 1); v.insert(v.end(), w.begin(), w.end()); return v; }
  auto v = ring(5, 0); v.push_back({0, 0, 1}); v.push_back({0, 0, -1}); return v;
}

struct Runner {
  json fails = json::array();
  int nontrivial = 0;
  void fail(const std::string& kind, const json& d) { if (fails.size() < 8) fails.push_back({{"kind", kind}, {"step", 0}, {"detail", d}}); }

  void judge(const Manifold& m, const std::string& what) {
    const auto st = m.Status();
    if (st != Manifold::Error::NoError) {
      if (!m.IsEmpty()) fail("manifold", {{"op", what}, {"why", "error status but not empty"}, {"status", ErrName(st)}});
      return;
    }
    MeshGL64 g = m.GetMeshGL64();
    std::string why = Closed2Manifold(g);
    if (!why.empty()) { fail("manifold", {{"op", what}, {"why", why}, {"nv", m.NumVert()}, {"nt", m.NumTri()}}); return; }
    const size_t nv = MergedVertCount(g);
    const int chi = (int)nv - (int)(3 * g.NumTri() / 2) + (int)g.NumTri();
    if (m.NumVert() != nv || m.NumTri() != (size_t)g.NumTri() || m.NumEdge() * 2 != 3 * m.NumTri() || m.Genus() != 1 - chi / 2)
      fail("counts", {{"op", what}, {"NumVert", m.NumVert()}, {"vertsInMesh", nv}, {"NumTri", m.NumTri()}, {"genus", m.Genus()}, {"chi", chi}});
    std::string why32 = Closed2Manifold(m.GetMeshGL());
    if (!why32.empty()) fail("manifold", {{"op", what + "(32-bit export)"}, {"why", why32}});
  }

  void runCollapse(const json& c) {
    const int seed = c["seed"], a = c["a"], b = c["b"], nv = c["nv"];
    std::vector<std::array<int, 3>> tris;
    for (auto& t : c["tris"]) tris.push_back({t[0].get<int>(), t[1].get<int>(), t[2].get<int>()});
    for (double h : {0.0, 0.05})
      for (double shortLen : {1e-13, 1e-3, -1.0}) {
        std::vector<vec3> pos = SeedPos(seed);
        // orientation: make the signed volume of the seed positive
        {
          double vol = 0;
          for (auto& t : tris)
            if (t[0] < (int)pos.size() && t[1] < (int)pos.size() && t[2] < (int)pos.size())
              vol += la::dot(pos[t[0]], la::cross(pos[t[1]], pos[t[2]]));
          // (stacking keeps orientation; the seed faces that survive are enough to see the sign for flat stacks)
          if (vol < 0) for (auto& p : pos) p.z = -p.z;
        }
        vec3 centre(0.0);
        for (auto& p : pos) centre += p / (double)pos.size();
        for (int v = (int)pos.size(); v < nv; v++) {
          // a stacked vertex: centroid of its (already placed) neighbours, raised by h
          vec3 s(0.0);
          int n = 0;
          for (auto& t : tris)
            for (int k = 0; k < 3; k++)
              if (t[k] == v)
                for (int q = 1; q < 3; q++) {
                  const int w = t[(k + q) % 3];
                  if (w < v) { s += pos[w]; n++; }
                }
          vec3 p = s / (double)std::max(n, 1);
          p += h * la::normalize(p - centre + vec3(1e-9));
          pos.push_back(p);
        }
        if (shortLen > 0) pos[a] = pos[b] + (pos[a] - pos[b]) * (shortLen / la::length(pos[a] - pos[b]));
        MeshGL64 g;
        g.numProp = 3;
        for (auto& p : pos) { g.vertProperties.push_back(p.x); g.vertProperties.push_back(p.y); g.vertProperties.push_back(p.z); }
        for (auto& t : tris) for (int k = 0; k < 3; k++) g.triVerts.push_back(t[k]);
        const std::string tag = "h=" + std::to_string(h) + ",short=" + std::to_string(shortLen);
        Manifold m(g);
        judge(m, "import[" + tag + "]");
        judge(m.Simplify(0.01), "Simplify(0.01)[" + tag + "]");
        judge(m.Simplify(0.5), "Simplify(0.5)[" + tag + "]");
        judge(m.SetTolerance(0.01), "SetTolerance(0.01)[" + tag + "]");
        judge(m.SetTolerance(1e-6).Simplify(), "SetTolerance(1e-6).Simplify()[" + tag + "]");
        judge(m.AsOriginal().Simplify(0.1), "AsOriginal.Simplify(0.1)[" + tag + "]");
        judge(m + Manifold::Cube(vec3(1.0)).Translate({5, 5, 5}), "m + far cube[" + tag + "]");
        judge(m - Manifold::Cube(vec3(4.0), true).Translate({4.3, 0, 0}), "m - half space box[" + tag + "]");
        judge(m.Refine(2).Simplify(0.02), "Refine(2).Simplify(0.02)[" + tag + "]");
        judge(m.Warp([](vec3& p) { p.z *= 1e-9; }).Simplify(0.01), "flatten.Simplify[" + tag + "]");
      }
    nontrivial = !c["linkok"].get<bool>();
  }

  void runHull(const json& c) {
    std::vector<vec3> pts;
    for (auto& p : c["pts"]) pts.push_back({p[0].get<double>(), p[1].get<double>(), p[2].get<double>()});
    judge(Manifold::Hull(pts), "Hull(points)");
    std::vector<vec3> dup = pts;
    dup.insert(dup.end(), pts.begin(), pts.end());
    judge(Manifold::Hull(dup), "Hull(points twice)");
    std::vector<vec3> scaled = pts;
    for (auto& p : scaled) p = p * 1e-3 + vec3(100.0, -50.0, 25.0);
    judge(Manifold::Hull(scaled), "Hull(scaled+translated points)");
    judge(Manifold::Hull(pts).Hull(), "Hull(points).Hull()");
    judge(Manifold::Hull(pts) + Manifold::Cube(vec3(1.0)), "Hull(points) + cube");
    nontrivial = 1;
  }
};

int KernelMain(int argc, char** argv) {
  Args args(argc, argv, 2);
  if (args.pos.size() < 2) {
    fprintf(stderr, "usage: mfdrive kernel <in> <out>\n");
    return 2;
  }
  auto cases = ReadNdjson(args.pos[0]);
  Out out(args.pos[1]);
  const long from = args.num("from", 0);
  long nfail = 0, nontrivial = 0;
  for (long i = from; i < (long)cases.size(); i++) {
    out.line({{"begin", i}});
    Runner r;
    alarm(300);   // a kernel operator that loops forever is attributed to this case (SIGALRM kills the process)
    if (cases[i]["k"] == "collapse") r.runCollapse(cases[i]);
    else r.runHull(cases[i]);
    alarm(0);
    if (!r.fails.empty()) nfail++;
    nontrivial += r.nontrivial;
    out.line({{"i", i}, {"fail", r.fails}, {"nontrivial", r.nontrivial}});
  }
  out.line({{"done", true}, {"n", (long)cases.size() - from}, {"failed", nfail}, {"nontrivial", nontrivial}});
  return 0;
}
static Register regKernel("kernel", KernelMain);
}  // namespace
}  // namespace vf
