// C06: shared objects may be used from many threads: no data race, same answers.
//   mfdrive threads <cases.ndjson> <out.ndjson> [--reps=N]
// A case is a client program: {"shared": <kind>, "threads": [[call,...],...]}
// (the projection of a Sync.tla behaviour: who calls what on which shared
// object).  Each case is first executed serially (thread programs one after
// another on a fresh copy of the shared objects) to obtain the reference
// answers, then `reps` times concurrently with a start barrier and a seeded
// start skew.  Every thread's answers must equal the serial answers.  Built in
// the `tsan` variant, ThreadSanitizer is the data-race witness (its reports
// are collected by the orchestrator from TSAN_OPTIONS log_path).
#include <atomic>
#include <random>
#include <thread>

#include "common.h"

namespace vf {
namespace {

struct Shared {
  Manifold h1, h2, hl, disj;
  CrossSection xs;
  ExecutionContext ctx;
  std::vector<Manifold> parts;
};

// a shared lazy sub-expression S used by two lazy roots, a lazily transformed
// leaf, a lazy union of bbox-disjoint parts (Compose path), a lazy CrossSection
void Setup(Shared& s, const std::string& kind) {
  const int seg = kind == "big" ? 96 : 16;
  Manifold a = Manifold::Sphere(1.0, seg), b = Manifold::Cube(vec3(1.2), true).Translate({0.4, 0.1, 0});
  Manifold S = a - b;  // unevaluated op node
  s.h1 = S ^ Manifold::Cube(vec3(1.5), true).Translate({0, 0.3, 0});
  s.h2 = S.Translate({0, 0, 0.25}) + Manifold::Cube(vec3(0.5));
  s.hl = Manifold::Sphere(1.0, kind == "big" ? 256 : 24).Translate({10, -4, 2.5}).Rotate(0, 0, 30);
  std::vector<Manifold> parts;
  for (int i = 0; i < 6; i++) parts.push_back(Manifold::Sphere(0.4, 12).Translate({2.0 * i, 0, 0}));
  s.parts = parts;
  s.disj = Manifold::BatchBoolean(parts, OpType::Add);
  s.xs = CrossSection::Circle(1.0, 32).Translate({0.5, 0}) - CrossSection::Square({1, 1}).Rotate(15);
}

struct Ans {
  std::vector<std::string> v;
  void add(const std::string& k, uint64_t h) { v.push_back(k + "=" + Hex(h)); }
  void addd(const std::string& k, double d) { Hasher H; H.pod(d); v.push_back(k + "=" + Hex(H.h)); }
};

uint64_t RunsOK(const MeshGL64& g) {
  // structural facts that do not depend on the global ID counter
  Hasher H;
  H.pod(g.runOriginalID.size());
  std::map<uint32_t, int> cnt;
  for (auto id : g.runOriginalID) cnt[id]++;
  for (auto& kv : cnt) H.pod(kv.second);
  for (size_t r = 0; r + 1 < g.runIndex.size(); r++) H.pod(g.runIndex[r + 1] - g.runIndex[r]);
  return H.h;
}

Manifold& Obj(Shared& s, const std::string& o) {
  if (o == "H1") return s.h1;
  if (o == "H2") return s.h2;
  if (o == "HL") return s.hl;
  return s.disj;
}

void DoCall(Shared& s, const json& c, Ans& a) {
  const std::string k = c[0];
  if (k == "reserve") { (void)Manifold::ReserveIDs(1); return; }
  if (k == "reservespin") {   // keeps allocating IDs while other threads evaluate
    for (long i = 0, n = c[1].get<long>(); i < n; i++) (void)Manifold::ReserveIDs(1);
    return;
  }
  if (k == "cancel") { s.ctx.Cancel(); return; }
  if (k == "progress") { const double p = s.ctx.Progress(); if (p < 0 || p > 1.0000001) a.v.push_back("progress-out-of-range"); return; }
  if (k == "xsarea") { a.addd("xsarea", s.xs.Area()); return; }
  if (k == "xspolys") { Hasher H; for (auto& p : s.xs.ToPolygons()) for (auto& q : p) { H.pod(q.x); H.pod(q.y); } a.add("xspolys", H.h); return; }
  if (k == "xscopy") { CrossSection c2 = s.xs; a.addd("xscopy.numvert", (double)c2.NumVert()); return; }
  if (k == "xsbounds") { Rect r = s.xs.Bounds(); a.addd("xsb", r.min.x + 3 * r.max.y); return; }
  Manifold& m = Obj(s, c[1]);
  if (k == "status") a.addd("status", (double)(int)m.Status());
  else if (k == "numtri") a.addd("numtri", (double)m.NumTri());
  else if (k == "volume") a.addd("volume", m.Volume());
  else if (k == "bbox") { Box b = m.BoundingBox(); a.addd("bbox", b.min.x + 3 * b.max.y + 7 * b.min.z); }
  else if (k == "mesh") { MeshGL64 g = m.GetMeshGL64(); a.add("mesh", HashMeshModIDs(g)); a.add("runs", RunsOK(g)); }
  else if (k == "copy") { Manifold c2 = m; a.addd("copy.numvert", (double)c2.NumVert()); }
  else if (k == "assignfrom") { Manifold loc; loc = m; a.addd("assign.volume", loc.Volume()); }
  else if (k == "derive") { Manifold d = m + Manifold::Cube(vec3(0.3)).Translate({0.2, 0.2, 0.2}); a.addd("derive.volume", d.Volume()); }
  else if (k == "translate") { Manifold d = m.Translate({1, 2, 3}); a.addd("translate.volume", d.Volume()); }
  else if (k == "statusctx") { ExecutionContext c2; a.addd("statusctx", (double)(int)m.WithContext(c2).Status()); if (std::fabs(c2.Progress() - 1.0) > 1e-12) a.v.push_back("progress-not-1"); }
  else if (k == "statusshared") { (void)m.WithContext(s.ctx).Status(); }
  else { fprintf(stderr, "unknown call %s\n", k.c_str()); exit(2); }
}

struct Runner {
  json fails = json::array();
  int reps;
  void fail(const std::string& kind, const json& d) { fails.push_back({{"kind", kind}, {"step", 0}, {"detail", d}}); }

  void run(const json& c, uint32_t seed) {
    const std::string kind = c.value("shared", "small");
    const auto& progs = c["threads"];
    const int T = (int)progs.size();
    // serial reference: every thread's program on its own fresh world (answers
    // of const queries do not depend on what other threads did)
    std::vector<Ans> ref(T);
    for (int t = 0; t < T; t++) {
      Shared s;
      Setup(s, kind);
      for (auto& call : progs[t]) DoCall(s, call, ref[t]);
    }
    std::mt19937 rng(seed);
    for (int r = 0; r < reps; r++) {
      Shared s;
      Setup(s, kind);
      std::vector<Ans> got(T);
      std::atomic<int> ready{0};
      std::vector<int> skew(T);
      for (auto& x : skew) x = rng() % 2000;
      std::vector<std::thread> th;
      for (int t = 0; t < T; t++)
        th.emplace_back([&, t] {
          ready.fetch_add(1);
          while (ready.load() < T) {}
          for (volatile int i = 0; i < skew[t]; i++) {}
          for (auto& call : progs[t]) DoCall(s, call, got[t]);
        });
      for (auto& x : th) x.join();
      const bool cancelInvolved = c.value("cancels", false);
      for (int t = 0; t < T && !cancelInvolved; t++)
        if (got[t].v != ref[t].v) {
          fail("serial-mismatch", {{"thread", t}, {"rep", r}, {"got", got[t].v}, {"want", ref[t].v}});
          return;
        }
    }
  }
};

int ThreadsMain(int argc, char** argv) {
  Args args(argc, argv, 2);
  if (args.pos.size() < 2) {
    fprintf(stderr, "usage: mfdrive threads <in> <out> [--reps=N]\n");
    return 2;
  }
  auto cases = ReadNdjson(args.pos[0]);
  Out out(args.pos[1]);
  const long from = args.num("from", 0);
  long nfail = 0;
  for (long i = from; i < (long)cases.size(); i++) {
    out.line({{"begin", i}});
    Runner r;
    r.reps = cases[i].value("reps", (int)args.num("reps", 5));   // a case may ask for more repetitions (narrow windows)
    r.run(cases[i], (uint32_t)args.num("seed", 1) + (uint32_t)i);
    if (!r.fails.empty()) nfail++;
    out.line({{"i", i}, {"fail", r.fails}, {"nontrivial", cases[i]["threads"].size() > 1 ? 1 : 0}});
  }
  out.line({{"done", true}, {"n", (long)cases.size() - from}, {"failed", nfail}});
  return 0;
}
static Register regThreads("threads", ThreadsMain);
}  // namespace
}  // namespace vf
