// Replay of Ctor.tla cases (C17): every case is an argument tuple of a public
// constructor / transform together with what the specification demands:
//   st    expected Status ("NoError" | "InvalidConstruction" | "any")
//   in    encoded cells whose centre must be INSIDE the result
//   band  encoded cells about which nothing is demanded (on the analytic
//         surface / inside the faceting band); every other cell of the window
//         must be OUTSIDE
//   cnt   expected NumVert/NumTri (0 = not stated), vol12 = 12*volume (-1 = not
//         stated), x = inputs prepared by the spec (polygons, boxes, sdf tree,
//         expected GetCircularSegments values ...)
// The driver calls the public API and classifies the cell centres with the
// independent winding oracle of common.h.  It never computes an expectation.
//   mfdrive ctor <cases.ndjson> <out.ndjson> --K=4 [--from=i]
#include "common.h"

namespace vf {
namespace {

static vec3 V3(const json& j) { return vec3(j[0].get<double>(), j[1].get<double>(), j[2].get<double>()); }

static Polygons PolysOf(const json& j) {
  Polygons ps;
  for (auto& p : j) {
    SimplePolygon sp;
    for (auto& v : p) sp.push_back({v[0].get<double>(), v[1].get<double>()});
    ps.push_back(sp);
  }
  return ps;
}

static void ApplyQuality(const json& ops) {
  Quality::ResetToDefaults();
  for (auto& o : ops) {
    const std::string k = o[0];
    const int x = o[1].get<int>();
    if (k == "A") Quality::SetMinCircularAngle(x);
    if (k == "L") Quality::SetMinCircularEdgeLength(x);
    if (k == "S") Quality::SetCircularSegments(x);
    if (k == "R") Quality::ResetToDefaults();
  }
}

static std::function<double(vec3)> SdfOf(const json& t) {
  const std::string f = t["f"];
  if (f == "box") {
    vec3 lo = V3(t["lo"]), hi = V3(t["hi"]);
    return [lo, hi](vec3 p) {
      return std::min({p.x - lo.x, hi.x - p.x, p.y - lo.y, hi.y - p.y, p.z - lo.z, hi.z - p.z});
    };
  }
  if (f == "sphere") {
    vec3 c = V3(t["c"]);
    double R = t["R"].get<double>();
    return [c, R](vec3 p) { return R - la::length(p - c); };
  }
  if (f == "neg") {
    auto a = SdfOf(t["a"]);
    return [a](vec3 p) { return -a(p); };
  }
  auto a = SdfOf(t["a"]), b = SdfOf(t["b"]);
  if (f == "max") return [a, b](vec3 p) { return std::max(a(p), b(p)); };
  return [a, b](vec3 p) { return std::min(a(p), b(p)); };
}

static mat3x4 MatOf(const json& rows, const json& t) {
  mat3x4 m;
  for (int r = 0; r < 3; r++)
    for (int c = 0; c < 3; c++) m[c][r] = rows[r][c].get<double>();
  m[3] = V3(t);
  return m;
}

struct Runner {
  Window w;
  json fails = json::array();
  json info = json::object();
  void fail(const std::string& kind, const json& d) { fails.push_back({{"kind", kind}, {"step", 0}, {"detail", d}}); }

  // one constructor call described by the spec's record c (x: prepared inputs)
  Manifold construct(const json& c, const json& x) {
    const std::string kind = c["kind"];
    if (kind == "cube") return Manifold::Cube(V3(c["s"]), c["cen"].get<bool>());
    if (kind == "cyl")
      return Manifold::Cylinder(c["h"].get<double>(), c["rl"].get<double>(), c["rh"].get<double>(), c["n"].get<int>(),
                                c["cen"].get<bool>());
    if (kind == "sphere") return Manifold::Sphere(c["R"].get<double>(), c["n"].get<int>());
    if (kind == "tetra") {
      const double k = c["k"].get<double>();
      Manifold t = Manifold::Tetrahedron();
      return k == 1 ? t : t.Scale(vec3(k));
    }
    if (kind == "extrude") {
      auto sc = c["sc"];
      return Manifold::Extrude(PolysOf(x["polys"]), c["h"].get<double>(), c["nd"].get<int>(), 0.0,
                               vec2(sc[0].get<double>(), sc[1].get<double>()));
    }
    if (kind == "revolve") return Manifold::Revolve(PolysOf(x["polys"]), c["n"].get<int>(), c["deg"].get<double>());
    if (kind == "levelset") {
      auto sdf = SdfOf(x["tree"]);
      Box b(V3(c["bnd"][0]), V3(c["bnd"][1]));
      const int tol = c["tol"].get<int>();  // in sixteenths; 0 = not given
      return Manifold::LevelSet(sdf, b, c["e2"].get<double>() / 2.0, c["lev"].get<double>(), tol > 0 ? tol / 16.0 : -1.0);
    }
    if (kind == "xform" || kind == "affine") {
      std::vector<Manifold> parts;
      for (auto& b : x["boxes"]) {
        vec3 lo = V3(b[0]), hi = V3(b[1]);
        Manifold cube = Manifold::Cube(hi - lo);
        parts.push_back(lo == vec3(0.0) ? cube : cube.Translate(lo));
      }
      Manifold m = parts.size() == 1 ? parts[0] : Manifold::BatchBoolean(parts, OpType::Add);
      {  // the base itself must be what the spec thinks it is (not a verdict of this property)
        CellResult cr = CellsOf(m.GetMeshGL64(), w);
        std::vector<int> want;
        for (auto& e : x["basecells"]) want.push_back(e.get<int>());
        std::sort(want.begin(), want.end());
        if (cr.cells != want) fail("base", {{"why", "base solid differs"}, {"got", cr.cells}});
      }
      for (auto& o : c["ops"]) {
        const std::string op = o["op"];
        if (op == "Rotate") {
          vec3 a = V3(o["v"]);
          m = m.Rotate(a.x, a.y, a.z);
        } else if (op == "Translate")
          m = m.Translate(V3(o["v"]));
        else if (op == "Scale")
          m = m.Scale(V3(o["v"]));
        else if (op == "Mirror")
          m = m.Mirror(V3(o["v"]));
        else if (op == "Transform")
          m = m.Transform(MatOf(o["m"], o["v"]));
        else if (op == "Warp") {
          mat3x4 M = MatOf(o["m"], o["v"]);
          m = m.Warp([M](vec3& p) { p = M * vec4(p, 1.0); });
        }
      }
      return m;
    }
    fprintf(stderr, "unknown kind %s\n", kind.c_str());
    exit(2);
  }

  int run(const json& cs) {
    const json& c = cs["c"];
    const json& x = cs["x"];
    const std::string kind = c["kind"];
    Quality::ResetToDefaults();
    if (kind == "quality") {
      ApplyQuality(c["ops"]);
      int decided = 0;
      json bad = json::array();
      for (size_t i = 0; i < x["radii"].size(); i++) {
        const int want = x["segs"][i].get<int>();
        const int got = Quality::GetCircularSegments(x["radii"][i].get<double>());
        if (want < 0) continue;  // the integer bounds of pi do not decide this one
        decided++;
        if (got != want) bad.push_back({{"radius", x["radii"][i]}, {"want", want}, {"got", got}});
      }
      if (!bad.empty()) fail("quality", {{"why", "GetCircularSegments"}, {"bad", bad}});
      info["decided"] = decided;
      Quality::ResetToDefaults();
      return decided > 0;
    }
    const json* cc = &c;
    if (kind == "qctor") {
      ApplyQuality(c["ops"]);
      cc = &c["ctor"];
    }
    Manifold m = construct(*cc, x);
    const auto st = m.Status();
    Quality::ResetToDefaults();
    const std::string want = cs["st"];
    const std::string got = ErrName(st);
    if (want != "any" && got != want) fail("status", {{"why", "status"}, {"want", want}, {"got", got}});
    if (want == "any" && got != "NoError" && got != "InvalidConstruction")
      fail("status", {{"why", "status"}, {"want", "NoError or InvalidConstruction"}, {"got", got}});
    if (st != Manifold::Error::NoError) {
      if (!m.IsEmpty()) fail("status", {{"why", "error status but not empty"}, {"got", got}});
      return want == "InvalidConstruction";
    }
    MeshGL64 g = m.GetMeshGL64();
    // ---- classification of the cell centres ---------------------------------
    std::vector<char> cls(w.N(), 0);  // 0 = must be outside, 1 = must be inside, 2 = nothing demanded
    for (auto& e : cs["in"]) cls[e.get<int>()] = 1;
    for (auto& e : cs["band"]) cls[e.get<int>()] = 2;
    json missing = json::array(), extra = json::array(), odd = json::array();
    bool inverted = false;
    int nIn = 0;
    for (int e = 0; e < w.N(); e++) {
      if (cls[e] == 2 && want != "any") continue;
      const double wn = WindingAt(g, w.centre(e));
      const double rn = std::round(wn);
      if (want == "any") {  // only: the result is a solid (winding 0/1)
        if (std::fabs(wn - rn) > 1e-6 || (rn != 0 && rn != 1)) {
          if (odd.size() < 8) odd.push_back({e, wn});
          if (rn < 0) inverted = true;
        }
        continue;
      }
      if (std::fabs(wn - rn) > 1e-6 || (rn != 0 && rn != 1)) {
        if (odd.size() < 8) odd.push_back({e, wn});
        if (rn < 0) inverted = true;
      } else if (cls[e] == 1 && rn != 1) {
        if (missing.size() < 12) missing.push_back(e);
      } else if (cls[e] == 0 && rn != 0) {
        if (extra.size() < 12) extra.push_back(e);
      }
      if (cls[e] == 1) nIn++;
    }
    if (!odd.empty())
      fail(inverted ? "orient" : "winding",
           {{"why", inverted ? "negative winding number (inside-out)" : "winding number not 0/1"}, {"cells", odd}});
    if (!missing.empty() || !extra.empty())
      fail("cells", {{"why", !missing.empty() && !extra.empty() ? "missing+extra" : !missing.empty() ? "missing" : "extra"},
                     {"missing", missing}, {"extra", extra}});
    // ---- volume, counts, exactness --------------------------------------------
    const long vol12 = cs["vol12"].get<long>();
    if (vol12 >= 0) {
      const double wantV = vol12 / 12.0, v = m.Volume();
      if (std::fabs(v - wantV) > 1e-9 * std::max(1.0, wantV)) fail("volume", {{"why", "volume"}, {"want", wantV}, {"got", v}});
    }
    const long nv = cs["cnt"]["nv"].get<long>(), nt = cs["cnt"]["nt"].get<long>();
    if (nv > 0 && ((long)m.NumVert() != nv || (long)m.NumTri() != nt))
      fail("count", {{"why", "vertex/triangle count"}, {"want", {nv, nt}}, {"got", {m.NumVert(), m.NumTri()}}});
    if (x.contains("exact") && x["exact"].get<bool>()) {
      json off = json::array();
      const size_t n = g.vertProperties.size() / g.numProp;
      for (size_t i = 0; i < n && off.size() < 4; i++) {
        vec3 p = g.GetVertPos(i);
        if (p.x != std::rint(p.x) || p.y != std::rint(p.y) || p.z != std::rint(p.z)) off.push_back({p.x, p.y, p.z});
      }
      if (!off.empty()) fail("exact", {{"why", "Rotate by multiples of 90 degrees left non-integer coordinates"}, {"verts", off}});
    }
    if (kind == "levelset" && c["tol"].get<int>() > 0 && x["clear"].get<bool>()) {
      auto sdf = SdfOf(x["tree"]);
      const double tol = c["tol"].get<int>() / 16.0, lev = c["lev"].get<double>();
      double worst = 0;
      const size_t n = g.vertProperties.size() / g.numProp;
      for (size_t i = 0; i < n; i++) worst = std::max(worst, std::fabs(sdf(vec3(g.GetVertPos(i))) - lev));
      info["lsWorst"] = worst;
      if (worst > tol * (1 + 1e-9)) fail("lstol", {{"why", "vertex farther than tolerance from the level set"}, {"tol", tol}, {"worst", worst}});
    }
    std::string why = Closed2Manifold(g);
    if (!why.empty() && !(g.NumTri() == 0)) info["manifold"] = why;
    info["nIn"] = nIn;
    info["nv"] = m.NumVert();
    info["nt"] = m.NumTri();
    return nIn > 0 ? 1 : 0;
  }
};

}  // namespace

int CtorMain(int argc, char** argv) {
  Args args(argc, argv, 2);
  if (args.pos.size() < 2) {
    fprintf(stderr, "usage: mfdrive ctor <in> <out> [--K=4] [--from=i]\n");
    return 2;
  }
  auto cases = ReadNdjson(args.pos[0]);
  Out out(args.pos[1]);
  const long from = args.num("from", 0);
  long nfail = 0, nontrivial = 0;
  for (long i = from; i < (long)cases.size(); i++) {
    out.line({{"begin", i}});
    Runner r{Window{(int)args.num("K", 4)}};
    const int nt = r.run(cases[i]);
    if (!r.fails.empty()) nfail++;
    nontrivial += nt;
    out.line({{"i", i}, {"fail", r.fails}, {"nontrivial", nt}, {"info", r.info}});
  }
  out.line({{"done", true}, {"n", (long)cases.size() - from}, {"failed", nfail}, {"nontrivial", nontrivial}});
  return 0;
}
static Register regCtor("ctor", CtorMain);
}  // namespace vf
