// Replay of spec/Xoff.tla cases on the real CrossSection API (C12).
//   mfdrive xoff <cases.ndjson> <out.ndjson> [--from=i]
// A case is one JSON object printed by TLC (Xoff.tla!Emitted); everything that is DEMANDED comes from the
// specification (pixel sets `in` / `maybe`, hull cycles, components, tolerances); this file only executes the
// API and measures (winding numbers of sample points, exact integer predicates on output vertices, distances).
//   kind "off"   {K, add:[[x0,y0,x1,y1]..], sub:[..], A:[pix..], vars:[{jt, ml10, seg, ds:[{d, in:[..], maybe:[..]}..]}..]}
//   kind "sharp" {K, c:[[X,Y]..] (doubled coordinates), A, vars}
//   kind "dec"   {K, add, sub, isl (added after the subtraction), sub2 (subtracted last), A, comps:[[pix..]..], n}
//   kind "hull"  {pts:[[x,y]..], hull:[[x,y]..] (counter-clockwise cycle or []), area2}
//   kind "hullx" {rects:[[x0,y0,x1,y1]..], pts, hull, area2}
//   kind "simp"  {ring:[[x,y]..], tn, td, ref:[[x,y]..], nrem}
//   kind "corner" {name, c:[[x,y]..] (integers, counter-clockwise), rot:[a,b,s] (rotation (a -b; b a)/s), mirror, hole,
//                  box:[x0,y0,x1,y1], cls:[class of every corner], vars:[{jt, ml10, seg, n, cos4, dn, dd}..], rays, epts, mppm}
//                 the polygon (mirrored, rotated; as the solid or as a hole in `box`) is offset by dn/dd.  The rule is
//                 the specification's: S = the region (delta > 0) or its complement (delta < 0); a probe closer to S than
//                 |delta|*cos4/10000 (Round; other joins: a probe in S or beside an edge of S, closer than |delta|) is
//                 in the dilation of S, a probe farther than |delta| (other joins: miterLimit*|delta|) is not; probes in
//                 between are not judged.  Probes: `rays` directions around every vertex and `epts` points on both sides
//                 of every edge, at the two radii just outside that band (relative margin mppm/10^6).  This file only
//                 measures the distance of a probe to the input polygon (long double) and its winding in the result.
// Failure kinds (all owned by C12 unless marked):
//   off:pixels    a pixel centre demanded inside is outside / demanded outside is inside / lies on the result's
//                 boundary; for Miter on the lattice also "a pixel is only partly covered"
//   off:bound     an output vertex is farther from the input's boundary than limit*|delta|
//                 (limit = miter limit; 1 for Round)
//   off:monotone  a sample point inside Offset(d1) is outside Offset(d2), d1 < d2
//   off:regular   the result is not `Regularized` (xsec.h) or a sample has winding number outside {0,1}
//   off:finite    non-finite output
//   off:corner    (corner family) a probe that the rule puts into / out of the dilation is on the wrong side of the result
//   dec:partition / dec:outline / dec:hole / dec:area / dec:contours
//   hull:empty / hull:rings / hull:subset / hull:contains / hull:convex / hull:extreme / hull:area
//   simp:subseq / simp:close
//   precond       (not owned) the input could not be built as intended (C11's business)
//   note:*        (not owned) diagnostics: hull with collinear vertices, simplify result differs from the reference
#include "xsec.h"

namespace vf {
namespace {
using namespace xs;
typedef long double LD;

struct Fails {
  json list = json::array();
  void add(const std::string& kind, int step, const json& d) {
    if (list.size() < 30) list.push_back({{"kind", kind}, {"step", step}, {"detail", d}});
  }
};

// winding numbers of sample points with a per-sample "on the boundary / undecidable" flag
struct WF {
  std::vector<int> w;
  std::vector<char> onb;
};
WF WindFlags(const Polygons& ps, const std::vector<Sample>& pts) {
  WF R;
  R.w.assign(pts.size(), 0);
  R.onb.assign(pts.size(), 0);
  for (size_t s = 0; s < pts.size(); s++) {
    const double x = pts[s].x, y = pts[s].y;
    int w = 0;
    for (auto& p : ps) {
      const size_t n = p.size();
      for (size_t i = 0; i < n; i++) {
        const vec2 a = p[i], b = p[(i + 1) % n];
        // on a horizontal edge?
        if (a.y == y && b.y == y && std::min(a.x, b.x) <= x && x <= std::max(a.x, b.x)) R.onb[s] = 1;
        if ((a.y <= y) == (b.y <= y)) continue;
        const LD dx = (LD)b.x - a.x, dy = (LD)b.y - a.y, px = (LD)x - a.x, py = (LD)y - a.y;
        const LD cr = dx * py - dy * px;
        if (std::fabs(cr) <= 1e-17L * (std::fabs(dx * py) + std::fabs(dy * px))) {
          R.onb[s] = 1;
          continue;
        }
        const bool up = b.y > a.y;
        if (up && cr > 0) w++;
        if (!up && cr < 0) w--;
      }
    }
    R.w[s] = w;
  }
  return R;
}

LD SegDist(LD px, LD py, vec2 a, vec2 b) {
  const LD dx = (LD)b.x - a.x, dy = (LD)b.y - a.y;
  const LD L = dx * dx + dy * dy;
  LD t = L > 0 ? ((px - a.x) * dx + (py - a.y) * dy) / L : 0;
  t = std::max((LD)0, std::min((LD)1, t));
  const LD qx = a.x + t * dx - px, qy = a.y + t * dy - py;
  return std::sqrt(qx * qx + qy * qy);
}
LD BoundaryDist(const Polygons& ps, vec2 v) {
  LD best = 1e300L;
  for (auto& p : ps)
    for (size_t i = 0; i < p.size(); i++) best = std::min(best, SegDist(v.x, v.y, p[i], p[(i + 1) % p.size()]));
  return best;
}
bool AllFinite(const Polygons& P) {
  for (auto& r : P)
    for (auto& v : r)
      if (!std::isfinite(v.x) || !std::isfinite(v.y)) return false;
  return true;
}

CrossSection::JoinType JoinOf(const std::string& s) {
  if (s == "Miter") return CrossSection::JoinType::Miter;
  if (s == "Round") return CrossSection::JoinType::Round;
  if (s == "Square") return CrossSection::JoinType::Square;
  return CrossSection::JoinType::Bevel;
}

SimplePolygon RectRing(const json& r) {
  const double x0 = r[0], y0 = r[1], x1 = r[2], y1 = r[3];
  return {{x0, y0}, {x1, y0}, {x1, y1}, {x0, y1}};
}
// the region  (union of add) minus (union of sub); two spellings, chosen by the case number
CrossSection BuildRegion(const json& cs, long i) {
  Polygons add, sub;
  for (auto& r : cs["add"]) add.push_back(RectRing(r));
  for (auto& r : cs["sub"]) sub.push_back(RectRing(r));
  CrossSection a;
  if (i % 2 == 0) {
    a = CrossSection(add);
  } else {
    for (auto& r : cs["add"]) a += CrossSection(Rect({r[0].get<double>(), r[1].get<double>()}, {r[2].get<double>(), r[3].get<double>()}));
  }
  if (!sub.empty()) a = a - CrossSection(sub);
  if (cs.contains("isl") && !cs["isl"].empty()) {  // islands added after the subtraction (nested outlines)
    Polygons isl;
    for (auto& r : cs["isl"]) isl.push_back(RectRing(r));
    a = a + CrossSection(isl);
  }
  if (cs.contains("sub2") && !cs["sub2"].empty()) {  // ... and holes cut into the islands
    Polygons s2;
    for (auto& r : cs["sub2"]) s2.push_back(RectRing(r));
    a = a - CrossSection(s2);
  }
  return a;
}

struct Sampler {
  Window2 w;
  std::vector<Sample> centres, generic;  // tag = pixel code (centres), 4*code+k (generic)
  explicit Sampler(int K) : w{K} {
    static const double off[4][2] = {{0.21, 0.23}, {0.77, 0.19}, {0.27, 0.81}, {0.83, 0.79}};
    for (int e = 0; e < w.N(); e++) {
      int x, y;
      w.dec(e, x, y);
      centres.push_back({x + 0.5, y + 0.5, e});
      for (int k = 0; k < 4; k++) generic.push_back({x + off[k][0], y + off[k][1], e * 4 + k});
    }
  }
  std::vector<int> pixelSet(const Polygons& P, int* bad = nullptr) const {
    WF f = WindFlags(P, centres);
    std::vector<int> out;
    for (size_t i = 0; i < centres.size(); i++) {
      if (f.w[i] > 0) out.push_back(centres[i].tag);
      if (bad && (f.w[i] < 0 || f.w[i] > 1)) (*bad)++;
    }
    return out;
  }
};

// ---------------- Offset ------------------------------------------------------
void RunOffset(const json& cs, const CrossSection& base, Fails& F, long& evals) {
  const int K = cs["K"];
  Sampler S(K);
  const Polygons inP = base.ToPolygons();
  const std::vector<int> A = SortedInts(cs["A"]);
  if (S.pixelSet(inP) != A) {
    F.add("precond", 0, {{"why", "the input region does not have the pixel set of the case"}, {"polys", PolysJson(inP)}});
    return;
  }
  const bool lattice = cs["kind"] == "off";
  int vi = 0;
  for (auto& v : cs["vars"]) {
    vi++;
    const std::string jt = v["jt"];
    const double ml = v["ml10"].get<double>() / 10.0;
    const int seg = v["seg"];
    std::vector<std::vector<char>> insideGeneric;  // per delta
    std::vector<double> deltas;
    bool anyOnb = false;
    for (auto& dd : v["ds"]) {
      const double d = dd["d"].get<double>();
      const int step = vi * 100 + (int)d + 50;  // variant number and delta, readable in reports
      const CrossSection R = base.Offset(d, JoinOf(jt), ml, seg);
      evals++;
      const Polygons P = R.ToPolygons();
      json ctx = {{"jt", jt}, {"miterLimit", ml}, {"segments", seg}, {"delta", d}};
      deltas.push_back(d);
      if (!AllFinite(P) || !std::isfinite(R.Area())) {
        ctx["why"] = "non-finite output";
        F.add("off:finite", step, ctx);
        insideGeneric.emplace_back();
        continue;
      }
      // --- demanded pixels
      std::vector<char> want(S.w.N(), 1);  // 1 = must be outside, 2 = must be inside, 0 = not decided
      for (auto& e : dd["maybe"]) want[e.get<int>()] = 0;
      for (auto& e : dd["in"]) want[e.get<int>()] = 2;
      WF fc = WindFlags(P, S.centres);
      int nbad = 0, nw = 0;
      json first, badPix = json::array();
      for (int e = 0; e < S.w.N(); e++) {
        if (fc.w[e] < 0 || fc.w[e] > 1) nw++;
        if (want[e] == 0) continue;
        const bool in = fc.w[e] > 0;
        std::string why;
        if (fc.onb[e]) why = "demanded pixel centre lies on the boundary of the result";
        else if (want[e] == 2 && !in) why = "pixel centre demanded inside is outside";
        else if (want[e] == 1 && in) why = "pixel centre demanded outside is inside";
        if (!why.empty()) {
          if (!nbad) first = {{"why", why}, {"x", S.centres[e].x}, {"y", S.centres[e].y}};
          if (badPix.size() < 100) badPix.push_back(e);
          nbad++;
        }
      }
      if (nbad) {
        ctx["why"] = first["why"];
        ctx["first"] = first;
        ctx["count"] = nbad;
        ctx["bad"] = badPix;
        ctx["polys"] = PolysJson(P);
        F.add("off:pixels", step, ctx);
      }
      // --- generic points: winding sanity, monotonicity, exactness of Miter on the lattice
      WF fg = WindFlags(P, S.generic);
      std::vector<char> ins(S.generic.size(), 0);
      int partial = 0;
      for (size_t g = 0; g < S.generic.size(); g++) {
        if (fg.onb[g]) anyOnb = true;
        if (fg.w[g] < 0 || fg.w[g] > 1) nw++;
        ins[g] = fg.w[g] > 0;
        const int e = S.generic[g].tag / 4;
        if (lattice && jt == "Miter" && want[e] != 0 && !fg.onb[g] && (ins[g] != 0) != (want[e] == 2)) partial++;
      }
      insideGeneric.push_back(ins);
      if (partial && !nbad) {
        ctx["why"] = "a pixel is only partly covered (Miter on the lattice is the Chebyshev dilation/erosion)";
        ctx["count"] = partial;
        ctx["polys"] = PolysJson(P);
        F.add("off:pixels", step, ctx);
      }
      if (nw) {
        ctx["why"] = "sample points with winding number outside {0,1}";
        ctx["count"] = nw;
        ctx["polys"] = PolysJson(P);
        F.add("off:regular", step, ctx);
      }
      RegularReport rr = Regularized(P);
      if (!rr.why.empty()) {
        ctx["why"] = rr.why;
        ctx["where"] = rr.where;
        ctx["polys"] = PolysJson(P);
        F.add("off:regular", step, ctx);
      }
      // --- every output vertex within limit*|delta| of the input's boundary
      const LD limit = (jt == "Round" ? 1.0L : (LD)ml) * std::fabs((LD)d);
      LD worst = 0;
      vec2 wv(0, 0);
      for (auto& ring : P)
        for (auto& q : ring) {
          const LD dist = BoundaryDist(inP, q);
          if (dist > worst) {
            worst = dist;
            wv = q;
          }
        }
      if (worst > limit * (1 + 1e-9L) + 1e-12L) {
        ctx["why"] = "output vertex farther from the input than limit*|delta|";
        ctx["vertex"] = {wv.x, wv.y};
        ctx["distance"] = (double)worst;
        ctx["limit"] = (double)limit;
        F.add("off:bound", step, ctx);
      }
    }
    // --- monotone in delta
    if (!anyOnb) {
      for (size_t k = 0; k + 1 < deltas.size(); k++) {
        if (insideGeneric[k].empty() || insideGeneric[k + 1].empty()) continue;
        for (size_t g = 0; g < S.generic.size(); g++)
          if (insideGeneric[k][g] && !insideGeneric[k + 1][g]) {
            F.add("off:monotone", vi * 100,
                  {{"why", "point inside Offset(d1) is outside Offset(d2), d1 < d2"}, {"jt", jt}, {"miterLimit", ml},
                   {"segments", seg}, {"d1", deltas[k]}, {"d2", deltas[k + 1]}, {"x", S.generic[g].x}, {"y", S.generic[g].y}});
            break;
          }
      }
    }
  }
}

// ---------------- Decompose ---------------------------------------------------
double SignedArea2(const SimplePolygon& r) {
  LD a = 0;
  for (size_t i = 0; i < r.size(); i++) {
    const vec2 p = r[i], q = r[(i + 1) % r.size()];
    a += (LD)p.x * q.y - (LD)q.x * p.y;
  }
  return (double)a;
}
void RunDecompose(const json& cs, const CrossSection& base, Fails& F, long& evals) {
  Sampler S(cs["K"]);
  const Polygons inP = base.ToPolygons();
  if (S.pixelSet(inP) != SortedInts(cs["A"])) {
    F.add("precond", 0, {{"why", "the input region does not have the pixel set of the case"}});
    return;
  }
  std::vector<CrossSection> parts = base.Decompose();
  evals++;
  std::set<std::vector<int>> want, got;
  for (auto& c : cs["comps"]) want.insert(SortedInts(c));
  std::vector<uint64_t> ringsIn, ringsOut;
  for (auto& r : inP) ringsIn.push_back(HashPolys({r}));
  double areaSum = 0;
  int k = 0;
  for (auto& part : parts) {
    k++;
    const Polygons P = part.ToPolygons();
    areaSum += part.Area();
    for (auto& r : P) ringsOut.push_back(HashPolys({r}));
    int bad = 0;
    std::vector<int> px = S.pixelSet(P, &bad);
    if (bad) F.add("dec:hole", k, {{"why", "a component has sample points with winding number outside {0,1} (hole attached to the wrong outline)"}, {"polys", PolysJson(P)}});
    if (px.empty() && P.empty()) continue;  // (an empty region decomposes into one empty component)
    if (!got.insert(px).second) F.add("dec:partition", k, {{"why", "two components have the same pixel set"}});
    int outlines = 0;
    for (auto& r : P) outlines += SignedArea2(r) > 0;
    if (outlines != 1) F.add("dec:outline", k, {{"why", "a component does not have exactly one outline"}, {"outlines", outlines}, {"polys", PolysJson(P)}});
  }
  if (got != want) {
    json g = json::array(), w = json::array();
    for (auto& s : got) g.push_back(s);
    for (auto& s : want) w.push_back(s);
    F.add("dec:partition", 0, {{"why", "the components' pixel sets are not the connected components of the region"}, {"want", w}, {"got", g}, {"polys", PolysJson(inP)}});
  }
  const double a = base.Area();
  if (!(std::fabs(areaSum - a) <= 1e-9 * std::max(1.0, std::fabs(a))))
    F.add("dec:area", 0, {{"why", "areas of the components do not sum to the whole"}, {"sum", areaSum}, {"whole", a}});
  std::sort(ringsIn.begin(), ringsIn.end());
  std::sort(ringsOut.begin(), ringsOut.end());
  if (ringsIn != ringsOut)
    F.add("dec:contours", 0, {{"why", "the components' contours are not a partition of the input's contours"}, {"in", ringsIn.size()}, {"out", ringsOut.size()}});
}

// ---------------- Hull --------------------------------------------------------
struct P2 {
  long x, y;
  bool operator<(const P2& o) const { return x < o.x || (x == o.x && y < o.y); }
  bool operator==(const P2& o) const { return x == o.x && y == o.y; }
};
long Cross(const P2& a, const P2& b, const P2& c) { return (b.x - a.x) * (c.y - a.y) - (b.y - a.y) * (c.x - a.x); }
void JudgeHull(const json& cs, const CrossSection& H, const std::string& via, int step, Fails& F) {
  std::vector<P2> pts, want;
  for (auto& p : cs["pts"]) pts.push_back({p[0].get<long>(), p[1].get<long>()});
  for (auto& p : cs["hull"]) want.push_back({p[0].get<long>(), p[1].get<long>()});
  const Polygons P = H.ToPolygons();
  json ctx = {{"via", via}, {"polys", PolysJson(P)}};
  auto fail = [&](const std::string& kind, const std::string& why) {
    json c = ctx;
    c["why"] = why;
    F.add(kind, step, c);
  };
  if (want.empty()) {
    if (!P.empty() || !H.IsEmpty()) fail("hull:empty", "points that span no area must give an empty hull");
    return;
  }
  if (P.size() != 1) return fail("hull:rings", "hull is not a single contour");
  std::vector<P2> h;
  for (auto& v : P[0]) {
    if (v.x != std::nearbyint(v.x) || v.y != std::nearbyint(v.y)) return fail("hull:subset", "hull vertex is not an input point");
    h.push_back({(long)v.x, (long)v.y});
  }
  std::set<P2> pset(pts.begin(), pts.end()), hset(h.begin(), h.end());
  for (auto& v : h)
    if (!pset.count(v)) return fail("hull:subset", "hull vertex is not an input point");
  const size_t n = h.size();
  if (n < 3 || hset.size() != n) return fail("hull:convex", "hull has fewer than 3 vertices or repeats a vertex");
  long area2 = 0;
  bool collinear = false;
  for (size_t i = 0; i < n; i++) {
    const P2 &a = h[i], &b = h[(i + 1) % n], &c = h[(i + 2) % n];
    area2 += a.x * b.y - b.x * a.y;
    const long cr = Cross(a, b, c);
    if (cr < 0) return fail("hull:convex", "hull has a reflex or clockwise corner");
    if (cr == 0) collinear = true;
    for (auto& p : pts)
      if (Cross(a, b, p) < 0) return fail("hull:contains", "an input point is strictly right of a hull edge");
  }
  if (area2 <= 0) return fail("hull:convex", "hull is not counter-clockwise with positive area");
  for (auto& v : want)
    if (!hset.count(v)) return fail("hull:extreme", "an extreme input point is not a hull vertex");
  const double a2 = 2 * H.Area();
  if (!(std::fabs(a2 - cs["area2"].get<double>()) <= 1e-9 * std::max(1.0, a2))) fail("hull:area", "Area() is not the area of the convex hull");
  if (collinear || n != want.size()) fail("note:hull-collinear", "hull keeps collinear vertices");
}
void RunHull(const json& cs, Fails& F, long& evals) {
  SimplePolygon pts;
  for (auto& p : cs["pts"]) pts.push_back({p[0].get<double>(), p[1].get<double>()});
  if (cs["kind"] == "hull") {
    JudgeHull(cs, CrossSection::Hull(pts), "Hull(SimplePolygon)", 1, F);
    SimplePolygon rev(pts.rbegin(), pts.rend());
    JudgeHull(cs, CrossSection::Hull(rev), "Hull(SimplePolygon reversed)", 2, F);
    SimplePolygon dup = pts;
    if (!pts.empty()) {
      dup.push_back(pts.front());
      dup.insert(dup.begin(), pts.back());
      dup.push_back(pts[pts.size() / 2]);
    }
    JudgeHull(cs, CrossSection::Hull(dup), "Hull(SimplePolygon with repeated points)", 3, F);
    // interleaved order, split over two contours
    Polygons two(2);
    for (size_t i = 0; i < pts.size(); i++) two[i % 2].push_back(pts[(i * 7) % pts.size()]);
    bool perm = true;  // (i*7 mod n is a permutation unless 7 | n)
    if (pts.size() % 7 == 0) perm = false;
    if (perm) JudgeHull(cs, CrossSection::Hull(two), "Hull(Polygons)", 4, F);
    evals += 3 + perm;
  } else {
    std::vector<CrossSection> xs;
    CrossSection u;
    for (auto& r : cs["rects"]) {
      xs.push_back(CrossSection(Rect({r[0].get<double>(), r[1].get<double>()}, {r[2].get<double>(), r[3].get<double>()})));
      u += xs.back();
    }
    JudgeHull(cs, CrossSection::Hull(xs), "Hull(vector<CrossSection>)", 1, F);
    JudgeHull(cs, u.Hull(), "union.Hull()", 2, F);
    JudgeHull(cs, CrossSection::Hull(u.ToPolygons()), "Hull(union.ToPolygons())", 3, F);
    evals += 3;
  }
}

// ---------------- Simplify ----------------------------------------------------
bool SameV(vec2 a, vec2 b) { return a.x == b.x && a.y == b.y; }
bool CyclicSubseq(const SimplePolygon& in, const SimplePolygon& out) {
  if (out.empty()) return true;
  const size_t n = in.size();
  for (size_t k = 0; k < n; k++) {
    size_t j = 0;
    for (size_t i = 0; i < n && j < out.size(); i++)
      if (SameV(in[(k + i) % n], out[j])) j++;
    if (j == out.size()) return true;
  }
  return false;
}
bool SameCycle(const SimplePolygon& a, const SimplePolygon& b) { return a.size() == b.size() && CyclicSubseq(a, b); }
// is vertex i of ring closer than tn/td to the line through its neighbours?  exact for integral coordinates
int CloserThanTol(const SimplePolygon& r, size_t i, long tn, long td) {
  const size_t n = r.size();
  const vec2 P = r[(i + n - 1) % n], V = r[i], N = r[(i + 1) % n];
  for (const vec2& q : {P, V, N})
    if (q.x != std::nearbyint(q.x) || q.y != std::nearbyint(q.y) || std::fabs(q.x) > 1e6 || std::fabs(q.y) > 1e6) return -1;
  const I128 dx = (long)N.x - (long)P.x, dy = (long)N.y - (long)P.y;
  const I128 cr = ((long)V.x - (long)P.x) * dy - ((long)V.y - (long)P.y) * dx;
  const I128 L = dx * dx + dy * dy;
  if (L == 0) return 1;  // neighbours coincide: deviation 0
  return cr * cr * td * td < (I128)tn * tn * L ? 1 : 0;
}
void JudgeSimplify(const json& cs, const Polygons& input, const std::string& via, int step, Fails& F, long& evals,
                   bool compareRef) {
  const long tn = cs["tn"], td = cs["td"];
  const double tol = (double)tn / (double)td;
  const CrossSection base(input);
  const Polygons inP = base.ToPolygons();
  // the constructor keeps every vertex of simple, non-overlapping input rings (possibly rotated)
  bool kept = inP.size() == input.size();
  for (auto& r : input) {
    bool found = false;
    for (auto& q : inP) found = found || SameCycle(q, r);
    kept = kept && found;
  }
  if (!kept) {
    F.add("precond", step, {{"why", "the constructor did not keep the input rings"}, {"via", via}, {"polys", PolysJson(inP)}});
    return;
  }
  const Polygons out = base.Simplify(tol).ToPolygons();
  evals++;
  json ctx = {{"via", via}, {"tol", tol}, {"in", PolysJson(inP)}, {"out", PolysJson(out)}};
  // every output ring is an in-order subset of a distinct input ring
  std::vector<char> used(inP.size(), 0);
  for (auto& o : out) {
    bool ok = false;
    for (size_t k = 0; k < inP.size() && !ok; k++)
      if (!used[k] && CyclicSubseq(inP[k], o)) {
        used[k] = 1;
        ok = true;
      }
    if (!ok) {
      ctx["why"] = "an output ring is not an in-order subset of the vertices of an input ring";
      F.add("simp:subseq", step, ctx);
      return;
    }
  }
  for (auto& o : out) {
    if (o.size() <= 3) continue;
    for (size_t i = 0; i < o.size(); i++) {
      const int c = CloserThanTol(o, i, tn, td);
      if (c == 1) {
        ctx["why"] = "a remaining vertex of a ring with more than 3 vertices is closer than the tolerance to the line through its neighbours";
        ctx["vertex"] = {o[i].x, o[i].y};
        F.add("simp:close", step, ctx);
        return;
      }
    }
  }
  if (compareRef) {
    SimplePolygon ref;
    for (auto& p : cs["ref"]) ref.push_back({p[0].get<double>(), p[1].get<double>()});
    if (out.size() == 1 && !SameCycle(out[0], ref)) {
      ctx["why"] = "result differs from the reference simplifier";
      F.add("note:simp-ref", step, ctx);
    }
  }
}
void RunSimplify(const json& cs, Fails& F, long& evals) {
  SimplePolygon ring, shifted, hole;
  for (auto& p : cs["ring"]) ring.push_back({p[0].get<double>(), p[1].get<double>()});
  for (auto& v : ring) shifted.push_back({v.x + 20, v.y});
  hole.assign(ring.rbegin(), ring.rend());
  JudgeSimplify(cs, {ring}, "one ring", 1, F, evals, true);
  JudgeSimplify(cs, {ring, shifted}, "two rings", 2, F, evals, false);
  JudgeSimplify(cs, {{{-10, -10}, {30, -10}, {30, 30}, {-10, 30}}, hole}, "ring as a hole", 3, F, evals, false);
}

// ---------------- corner-angle family ------------------------------------------
struct Probe {
  double x, y;
  int vert;  // index of the corner the ray starts from, or -1 for a probe beside an edge
  int ring;
};
void RunCorner(const json& cs, Fails& F, long& evals, long& probes) {
  const double ra = cs["rot"][0], rb = cs["rot"][1], rs = cs["rot"][2];
  const bool mirror = cs["mirror"].get<int>() != 0, hole = cs["hole"].get<int>() != 0;
  auto T = [&](double x, double y) {
    if (mirror) x = -x;
    return vec2((ra * x - rb * y) / rs, (rb * x + ra * y) / rs);
  };
  // the polygon counter-clockwise after the transformation; cls follows the vertices
  SimplePolygon ring;
  std::vector<std::string> cls;
  for (size_t i = 0; i < cs["c"].size(); i++) {
    ring.push_back(T(cs["c"][i][0].get<double>(), cs["c"][i][1].get<double>()));
    cls.push_back(cs["cls"][i]);
  }
  if (mirror) {
    std::reverse(ring.begin(), ring.end());
    std::reverse(cls.begin(), cls.end());
  }
  Polygons in;
  std::vector<std::vector<std::string>> clsOf;
  if (hole) {
    const double x0 = cs["box"][0], y0 = cs["box"][1], x1 = cs["box"][2], y1 = cs["box"][3];
    SimplePolygon box = {T(x0, y0), T(x1, y0), T(x1, y1), T(x0, y1)};
    if (mirror) std::reverse(box.begin(), box.end());
    in.push_back(box);
    clsOf.push_back(std::vector<std::string>(4, "box"));
    in.push_back(SimplePolygon(ring.rbegin(), ring.rend()));
    clsOf.push_back(std::vector<std::string>(cls.rbegin(), cls.rend()));
  } else {
    in.push_back(ring);
    clsOf.push_back(cls);
  }
  const CrossSection base(in);
  {  // the constructor must keep the rings as they are (C11's business otherwise)
    const Polygons inP = base.ToPolygons();
    bool kept = inP.size() == in.size();
    for (auto& r : in) {
      bool found = false;
      for (auto& q : inP) found = found || SameCycle(q, r);
      kept = kept && found;
    }
    if (!kept) {
      F.add("precond", 0, {{"why", "the constructor did not keep the input rings"}, {"polys", PolysJson(inP)}});
      return;
    }
  }
  const int rays = cs["rays"], epts = cs["epts"];
  const LD m = cs["mppm"].get<double>() * 1e-6L;
  const LD kTwoPi = 6.283185307179586476925286766559L;
  size_t nvert = 0;
  for (auto& r : in) nvert += r.size();
  std::vector<Probe> pr;
  std::vector<Sample> pts;
  pr.reserve(nvert * (2 * rays + 4 * epts));
  pts.reserve(nvert * (2 * rays + 4 * epts));
  int vi = 0;
  for (auto& v : cs["vars"]) {
    vi++;
    const std::string jt = v["jt"];
    const bool round = jt == "Round";
    const double ml = v["ml10"].get<double>() / 10.0;
    const int seg = v["seg"];
    const double d = v["dn"].get<double>() / v["dd"].get<double>();
    const LD ad = std::fabs((LD)d);
    const int step = vi;
    json ctx = {{"jt", jt}, {"miterLimit", ml}, {"segments", seg}, {"delta", d}};
    if (round && seg < 3 && Quality::GetCircularSegments(std::fabs(d)) != v["n"].get<int>()) {
      ctx["why"] = "the default segment count is not the one the specification assumes";
      ctx["n"] = Quality::GetCircularSegments(std::fabs(d));
      F.add("note:defseg", step, ctx);
      continue;
    }
    const LD cosq = round ? (LD)v["cos4"].get<double>() / 10000.0L : 1.0L;
    const LD nearR = ad * cosq;                    // closer than this to S: in the dilation (Round)
    const LD farR = ad * (round ? 1.0L : (LD)ml);  // farther than this from S: not in the dilation
    // ---- probes
    pr.clear();
    pts.clear();
    const LD radii[2] = {nearR * (1 - 2 * m), farR * (1 + 2 * m)};
    for (size_t r = 0; r < in.size(); r++) {
      const size_t n = in[r].size();
      for (size_t i = 0; i < n; i++) {
        const vec2 V = in[r][i], N = in[r][(i + 1) % n];
        for (int k = 0; k < rays; k++) {
          const LD th = kTwoPi * (k + 0.37L) / rays;
          for (LD rad : radii) pr.push_back({(double)(V.x + rad * std::cos(th)), (double)(V.y + rad * std::sin(th)), (int)i, (int)r});
        }
        const LD ex = (LD)N.x - V.x, ey = (LD)N.y - V.y, el = std::sqrt(ex * ex + ey * ey);
        for (int k = 0; k < epts; k++) {
          const LD t = (k + 0.5L) / epts;
          for (LD rad : {ad * (1 - 2 * m) * (round ? cosq : 1.0L), radii[1]})
            for (int side = -1; side <= 1; side += 2)
              pr.push_back({(double)(V.x + t * ex + side * rad * ey / el), (double)(V.y + t * ey - side * rad * ex / el), -1, (int)r});
        }
      }
    }
    for (size_t k = 0; k < pr.size(); k++) pts.push_back({pr[k].x, pr[k].y, (int)k});
    // ---- the rule: 2 = in the dilation of S, 1 = not in it, 0 = not judged
    const WF fin = WindFlags(in, pts);
    std::vector<char> rule(pr.size(), 0);
    std::vector<double> dist(pr.size(), 0);
    for (size_t k = 0; k < pr.size(); k++) {
      if (fin.onb[k]) continue;
      const bool inS = (fin.w[k] > 0) == (d > 0);
      const LD ds = inS ? 0 : BoundaryDist(in, vec2(pr[k].x, pr[k].y));
      dist[k] = (double)ds;
      if (round) {
        if (ds < nearR * (1 - m)) rule[k] = 2;
      } else {
        bool beside = inS;  // in S, or swept by an edge of S moving |delta| along its normal away from S
        for (size_t r = 0; r < in.size() && !beside; r++)
          for (size_t i = 0; i < in[r].size() && !beside; i++) {
            const vec2 a = in[r][i], b = in[r][(i + 1) % in[r].size()];
            const LD ex = (LD)b.x - a.x, ey = (LD)b.y - a.y, L2 = ex * ex + ey * ey, L = std::sqrt(L2);
            const LD t = ((pr[k].x - a.x) * ex + (pr[k].y - a.y) * ey) / L2;
            // the solid is on the left of its edges: away from S is the right side for delta > 0, the left side for delta < 0
            const LD h = ((pr[k].x - a.x) * ey - (pr[k].y - a.y) * ex) / L * (d > 0 ? 1 : -1);
            if (t > m && t < 1 - m && h > 0 && h < ad * (1 - m)) beside = true;
          }
        if (beside) rule[k] = 2;
      }
      if (ds > farR * (1 + m)) rule[k] = 1;
    }
    // ---- the result
    const CrossSection R = base.Offset(d, JoinOf(jt), ml, seg);
    evals++;
    const Polygons P = R.ToPolygons();
    if (!AllFinite(P) || !std::isfinite(R.Area())) {
      ctx["why"] = "non-finite output";
      F.add("off:finite", step, ctx);
      continue;
    }
    const WF fo = WindFlags(P, pts);
    int nbad = 0, nw = 0, njudged = 0;
    json first;
    std::set<std::string> badCls;
    for (size_t k = 0; k < pr.size(); k++) {
      if (fo.w[k] < 0 || fo.w[k] > 1) nw++;
      if (!rule[k]) continue;
      njudged++;
      const bool wantIn = (rule[k] == 2) == (d > 0);  // dilation of S = the result (delta > 0) or its complement (delta < 0)
      const bool isIn = fo.w[k] > 0;
      std::string why;
      if (fo.onb[k]) why = "a judged probe lies on the boundary of the result";
      else if (wantIn && !isIn) why = d > 0 ? "probe within delta (less the chordal error) of the region is outside the result"
                                            : "probe farther than |delta| from the complement is outside the result";
      else if (!wantIn && isIn) why = d > 0 ? "probe farther than the limit from the region is inside the result"
                                            : "probe within |delta| (less the chordal error) of the complement is inside the result";
      if (why.empty()) continue;
      const std::string at = pr[k].vert < 0 ? "edge" : clsOf[pr[k].ring][pr[k].vert];
      if (!nbad) first = {{"why", why}, {"x", pr[k].x}, {"y", pr[k].y}, {"distance", dist[k]}, {"at", at}};
      badCls.insert(at);
      nbad++;
    }
    probes += njudged;
    if (nbad) {
      ctx["why"] = first["why"];
      ctx["first"] = first;
      ctx["count"] = nbad;
      ctx["judged"] = njudged;
      ctx["n"] = v["n"];
      ctx["via"] = badCls;
      ctx["in"] = PolysJson(in);
      ctx["polys"] = PolysJson(P, 96);
      F.add("off:corner", step, ctx);
    }
    if (nw) {
      json c2 = ctx;
      c2["why"] = "sample points with winding number outside {0,1}";
      c2["count"] = nw;
      F.add("off:regular", step, c2);
    }
    RegularReport rr = Regularized(P);
    if (!rr.why.empty()) {
      json c2 = ctx;
      c2["why"] = rr.why;
      c2["where"] = rr.where;
      c2["polys"] = PolysJson(P, 96);
      F.add("off:regular", step, c2);
    }
    // every output vertex within limit*|delta| of the input's boundary
    LD worst = 0;
    vec2 wv(0, 0);
    for (auto& rg : P)
      for (auto& q : rg) {
        const LD dq = BoundaryDist(in, q);
        if (dq > worst) {
          worst = dq;
          wv = q;
        }
      }
    if (worst > farR * (1 + 1e-9L) + 1e-12L) {
      json c2 = ctx;
      c2["why"] = "output vertex farther from the input than limit*|delta|";
      c2["vertex"] = {wv.x, wv.y};
      c2["distance"] = (double)worst;
      c2["limit"] = (double)farR;
      F.add("off:bound", step, c2);
    }
  }
}

int XoffMain(int argc, char** argv) {
  Args args(argc, argv, 2);
  if (args.pos.size() < 2) {
    fprintf(stderr, "usage: mfdrive xoff <in> <out> [--from=i]\n");
    return 2;
  }
  auto cases = ReadNdjson(args.pos[0]);
  Out out(args.pos[1]);
  const long from = args.num("from", 0);
  long nfail = 0, nontrivial = 0, evalsAll = 0;
  for (long i = from; i < (long)cases.size(); i++) {
    out.line({{"begin", i}});
    const json& cs = cases[i];
    const std::string kind = cs["kind"];
    Fails F;
    long evals = 0, probes = 0;
    int nt = 0;
    if (kind == "off") {
      RunOffset(cs, BuildRegion(cs, i), F, evals);
      nt = cs["A"].size() > 0;
    } else if (kind == "sharp") {
      RunOffset(cs, CrossSection(ContoursOf(json::array({cs["c"]}))), F, evals);
      nt = 1;
    } else if (kind == "dec") {
      RunDecompose(cs, BuildRegion(cs, i), F, evals);
      nt = cs["n"].get<int>() > 1 || cs["sub"].size() > 0;
    } else if (kind == "hull" || kind == "hullx") {
      RunHull(cs, F, evals);
      nt = cs["hull"].size() > 0;
    } else if (kind == "simp") {
      RunSimplify(cs, F, evals);
      nt = cs["nrem"].get<int>() > 0;
    } else if (kind == "corner") {
      RunCorner(cs, F, evals, probes);
      nt = 1;
    } else {
      fprintf(stderr, "unknown case kind %s\n", kind.c_str());
      return 2;
    }
    if (!F.list.empty()) nfail++;
    nontrivial += nt;
    evalsAll += evals;
    json res = {{"i", i}, {"fail", F.list}, {"nontrivial", nt}, {"evals", evals}};
    if (probes) res["probes"] = probes;
    out.line(res);
  }
  out.line({{"done", true}, {"n", (long)cases.size() - from}, {"failed", nfail}, {"nontrivial", nontrivial}, {"evals", evalsAll}});
  return 0;
}
static Register regXoff("xoff", XoffMain);
}  // namespace
}  // namespace vf
