// C09: malformed MeshGL input -> error Status, never undefined behaviour; a
// non-NoError Status survives every consuming operation.
//   mfdrive meshgl <cases.ndjson> <out.ndjson>
// A case is {"fields":{field:class,...},"expect":Error|"Any"} enumerated by TLC
// from spec/MeshGL.tla.  The driver concretises the classes on a valid exported
// mesh, constructs Manifold(MeshGL64) and Manifold(MeshGL), and runs the
// consuming operations.  Memory errors are caught by ASan/UBSan (the process
// dies; the orchestrator attributes the crash to the case and resumes).
#include <unistd.h>

#include "common.h"

namespace vf {
namespace {

MeshGL64 BaseMesh() {
  Manifold a = Manifold::Cube(vec3(2.0)).SetProperties(1, [](double* o, vec3 p, const double*) { o[0] = p.x + 2 * p.y; });
  Manifold b = Manifold::Cube(vec3(2.0)).Translate({1, 1, 1});
  Manifold u = a + b;
  MeshGL64 g = u.GetMeshGL64();
  if (g.mergeFromVert.empty()) {
    // make sure merge vectors are exercised: duplicate vertex 0 as a property vertex
    const size_t nv = g.NumVert();
    for (size_t p = 0; p < (size_t)g.numProp; p++) g.vertProperties.push_back(g.vertProperties[p]);
    for (auto& v : g.triVerts)
      if (v == 0) { v = nv; break; }
    g.mergeFromVert.push_back(nv);
    g.mergeToVert.push_back(0);
  }
  return g;
}

const double kNaN = std::numeric_limits<double>::quiet_NaN();
const double kInf = std::numeric_limits<double>::infinity();

void Apply(MeshGL64& g, const json& f) {
  const uint64_t nv = g.NumVert(), nt = g.NumTri(), np = g.numProp;
  const uint64_t HUGE_IDX = 1ull << 40;
  auto cls = [&](const char* k) { return f[k].get<std::string>(); };
  std::string c;
  c = cls("tangents");
  if (c != "none") {
    g.halfedgeTangent.assign(12 * nt, 0.25);
    if (c == "short") g.halfedgeTangent.resize(8);
    if (c == "long") g.halfedgeTangent.resize(12 * nt + 8, 0.25);
    if (c == "nan") g.halfedgeTangent[5] = kNaN;
    if (c == "notMult4") g.halfedgeTangent.push_back(0.25);
    if (c == "quadmark1") g.halfedgeTangent[4 * 4 + 3] = -1;   // interior-of-quad mark on halfedge 4 only, not on its pair
  }
  c = cls("faceID");
  if (c == "none") g.faceID.clear();
  if (c == "short") g.faceID.pop_back();
  if (c == "long") g.faceID.push_back(0);
  if (c == "huge") g.faceID[0] = HUGE_IDX;
  c = cls("runFlags");
  if (c == "none") g.runFlags.clear();
  if (c == "short" && !g.runFlags.empty()) g.runFlags.pop_back();
  if (c == "long") g.runFlags.push_back(1);
  if (c == "allbits") for (auto& x : g.runFlags) x = 255;
  c = cls("runXf");
  if (c == "none") g.runTransform.clear();
  if (c == "short") g.runTransform.pop_back();
  if (c == "nan") g.runTransform[0] = kNaN;
  if (c == "singular") for (size_t i = 0; i < 12 && i < g.runTransform.size(); i++) g.runTransform[i] = 0;
  c = cls("runIndex");
  if (c == "none") g.runIndex.clear();
  if (c == "noEnd") g.runIndex.pop_back();
  if (c == "single") g.runIndex.resize(1);
  if (c == "tooLong") g.runIndex.push_back(3 * nt);
  if (c == "beyond") g.runIndex.back() = 3 * nt + 3000;
  if (c == "nonMonotone" && g.runIndex.size() >= 2) std::swap(g.runIndex[0], g.runIndex[1]);
  if (c == "notMult3" && g.runIndex.size() >= 2) g.runIndex[1] += 1;
  if (c == "huge" && g.runIndex.size() >= 2) g.runIndex[1] = HUGE_IDX;
  c = cls("runID");
  if (c == "none") g.runOriginalID.clear();
  if (c == "one") g.runOriginalID.resize(1);
  c = cls("merge");
  if (c == "none") { g.mergeFromVert.clear(); g.mergeToVert.clear(); }
  if (c == "lenDiff") g.mergeToVert.pop_back();
  if (c == "fromOOB") g.mergeFromVert[0] = nv;
  if (c == "toEqN") g.mergeToVert[0] = nv;
  if (c == "toEqNall") {
    // EVERY property vertex of one geometric vertex is merged onto the first index
    // past the end: the merged topology stays manifold, so only the bounds check
    // stands between this input and an out-of-bounds vertex access
    const uint64_t v = g.mergeToVert[0];
    for (auto& t : g.mergeToVert)
      if (t == v) t = nv;
    g.mergeFromVert.push_back(v);
    g.mergeToVert.push_back(nv);
  }
  if (c == "toHuge") g.mergeToVert[0] = HUGE_IDX;
  if (c == "selfLoop") g.mergeToVert[0] = g.mergeFromVert[0];
  c = cls("tris");
  if (c == "ragged") g.triVerts.push_back(0);
  if (c == "empty") g.triVerts.clear();
  if (c == "idxEqN") g.triVerts[5] = nv;
  if (c == "idxHuge") g.triVerts[5] = HUGE_IDX;
  if (c == "degenerate") g.triVerts[1] = g.triVerts[0];
  if (c == "flipped") std::swap(g.triVerts[0], g.triVerts[1]);
  if (c == "dup") for (int k = 0; k < 3; k++) g.triVerts.push_back(g.triVerts[k]);
  c = cls("verts");
  if (c == "ragged") g.vertProperties.push_back(0.5);
  if (c == "empty") g.vertProperties.clear();
  if (c == "nanpos") g.vertProperties[0] = kNaN;
  if (c == "infpos") g.vertProperties[np + 1] = kInf;
  if (c == "nanprop") g.vertProperties[np - 1] = kNaN;
  if (c == "few") g.vertProperties.resize(3 * np);
  c = cls("numProp");
  if (c == "two") g.numProp = 2;
  if (c == "zero") g.numProp = 0;
  c = cls("tolerance");
  if (c == "negative") g.tolerance = -1;
  if (c == "nan") g.tolerance = kNaN;
  if (c == "inf") g.tolerance = kInf;
  if (c == "huge") g.tolerance = 1e300;
}

MeshGL To32(const MeshGL64& g) {
  MeshGL m;
  auto idx = [](uint64_t v) { return v > 0xFFFFFFF0ull ? 0xFFFFFFF0u : (uint32_t)v; };
  m.numProp = (uint32_t)g.numProp;
  for (double x : g.vertProperties) m.vertProperties.push_back((float)x);
  for (auto v : g.triVerts) m.triVerts.push_back(idx(v));
  for (auto v : g.mergeFromVert) m.mergeFromVert.push_back(idx(v));
  for (auto v : g.mergeToVert) m.mergeToVert.push_back(idx(v));
  for (auto v : g.runIndex) m.runIndex.push_back(idx(v));
  m.runOriginalID = g.runOriginalID;
  for (double x : g.runTransform) m.runTransform.push_back((float)x);
  m.runFlags = g.runFlags;
  for (auto v : g.faceID) m.faceID.push_back(idx(v));
  for (double x : g.halfedgeTangent) m.halfedgeTangent.push_back((float)x);
  m.tolerance = (float)g.tolerance;
  return m;
}

struct Runner {
  json fails = json::array();
  json drift = json::array();
  int nontrivial = 0;
  void fail(const std::string& kind, const json& d) { fails.push_back({{"kind", kind}, {"step", 0}, {"detail", d}}); }

  void consume(const Manifold& e, const char* tag) {
    const auto es = e.Status();
    const Manifold good = Manifold::Cube(vec3(1.5)).Translate({0.25, 0.25, 0.25});
    std::vector<std::pair<std::string, Manifold>> rs;
    static const bool dbg = getenv("MFDEBUG") != nullptr;
    auto add = [&](const char* n, Manifold m) {
      if (dbg) fprintf(stderr, "[%s] %s nt=%zu\n", tag, n, m.NumTri());
      rs.emplace_back(n, std::move(m));
    };
    add("AddL", e + good); add("AddR", good + e); add("SubL", e - good); add("SubR", good - e);
    add("IntL", e ^ good); add("IntR", good ^ e);
    add("Batch3", Manifold::BatchBoolean({good, e, good.Translate({0.1, 0, 0})}, OpType::Add));
    add("BatchSubR", Manifold::BatchBoolean({good, e}, OpType::Subtract));
    add("BatchIntR", Manifold::BatchBoolean({good, good, e}, OpType::Intersect));
    { auto p = e.Split(good); add("SplitL.first", p.first); add("SplitL.second", p.second); }
    { auto p = good.Split(e); add("SplitR.first", p.first); add("SplitR.second", p.second); }
    { auto p = e.SplitByPlane({0, 0, 1}, 0.5); add("Plane.first", p.first); add("Plane.second", p.second); }
    add("Trim", e.TrimByPlane({1, 0, 0}, 0.5));
    add("Translate", e.Translate({1, 2, 3})); add("Rotate", e.Rotate(10, 20, 30)); add("Mirror", e.Mirror({1, 1, 0}));
    add("Scale", e.Scale({2, 1, 1})); add("Warp", e.Warp([](vec3& p) { p.x += 1; }));
    add("SetProps", e.SetProperties(2, [](double* o, vec3 p, const double*) { o[0] = p.x; o[1] = p.y; }));
    add("Normals", e.CalculateNormals(0)); add("Curvature", e.CalculateCurvature(0, 1));
    add("NormalsThenProps1", e.CalculateNormals(0, 60).Translate({1, 0, 0}).SetProperties(1, [](double* o, vec3 p, const double*) { o[0] = p.x; }));
    add("NormalsThenProps0", e.CalculateNormals(0).SetProperties(0, nullptr).Rotate(0, 0, 45));
    add("NormalsThenBoolean", e.CalculateNormals(0, 30) - good);
    add("Refine", e.Refine(2)); add("RefineLen", e.RefineToLength(0.7)); add("RefineTol", e.RefineToTolerance(0.1));
    add("SmoothOut", e.SmoothOut()); add("SmoothNormals", e.CalculateNormals(0).SmoothByNormals(0));
    add("Simplify", e.Simplify(0.01)); add("SetTol", e.SetTolerance(0.01)); add("AsOriginal", e.AsOriginal());
    add("Hull", e.Hull()); add("HullMany", Manifold::Hull({good, e}));
    add("MinkSumL", e.MinkowskiSum(Manifold::Cube(vec3(0.1)))); add("MinkSumR", good.MinkowskiSum(e));
    add("MinkDiffL", e.MinkowskiDifference(Manifold::Cube(vec3(0.1))));
    add("Copy", Manifold(e)); add("Then2", ((good - e) + good).Translate({1, 0, 0}));
    add("Reimport", Manifold(e.GetMeshGL64()));
    for (auto& kv : rs) {
      const auto st = kv.second.Status();
      if (es != Manifold::Error::NoError && kv.first != "Reimport") {
        if (st == Manifold::Error::NoError) fail("status-lost", {{"op", kv.first}, {"input", ErrName(es)}, {"ctor", tag}, {"empty", kv.second.IsEmpty()}});
        else if (!kv.second.IsEmpty()) fail("nonempty-error", {{"op", kv.first}, {"status", ErrName(st)}, {"ctor", tag}});
        else if (st != es) drift.push_back({{"op", kv.first}, {"in", ErrName(es)}, {"out", ErrName(st)}});
      } else if (st == Manifold::Error::NoError) {
        std::string why = Closed2Manifold(kv.second.GetMeshGL64());
        if (why.empty()) why = Closed2Manifold(kv.second.GetMeshGL());   // the 32-bit export reads the same rows
        if (!why.empty()) fail("broken-noerror", {{"op", kv.first}, {"why", why}, {"ctor", tag}});
      } else if (!kv.second.IsEmpty())
        fail("nonempty-error", {{"op", kv.first}, {"status", ErrName(st)}, {"ctor", tag}});
    }
    auto parts = e.Decompose();
    if (es != Manifold::Error::NoError)
      for (auto& p : parts)
        if (p.Status() == Manifold::Error::NoError && !p.IsEmpty()) fail("status-lost", {{"op", "Decompose"}, {"ctor", tag}});
    // queries on an errored/empty object return normally
    (void)e.Volume(); (void)e.SurfaceArea(); (void)e.BoundingBox(); (void)e.Genus(); (void)e.NumEdge();
    (void)e.MinGap(good, 1.0); (void)e.RayCast({-5, 0.5, 0.5}, {5, 0.5, 0.5}); (void)e.WindingNumber({vec3(0.5)});
    (void)e.Slice(0.5); (void)e.Project(); (void)e.GetMeshGL(); (void)e.OriginalID(); (void)e.GetTolerance();
  }

  template <typename M>
  void one(const M& g, const json& c, const char* tag) {
    Manifold m(g);
    const auto st = m.Status();
    const std::string expect = c["expect"];
    if (st != Manifold::Error::NoError) {
      if (!m.IsEmpty() || m.NumTri() != 0 || m.NumVert() != 0) fail("nonempty-error", {{"ctor", tag}, {"status", ErrName(st)}});
      if (expect != "Any" && expect != ErrName(st)) drift.push_back({{"ctor", tag}, {"expect", expect}, {"got", ErrName(st)}});
    } else {
      std::string why = Closed2Manifold(m.GetMeshGL64());
      if (!why.empty()) fail("broken-noerror", {{"ctor", tag}, {"why", why}});
      if (expect != "Any" && expect != "NoError") drift.push_back({{"ctor", tag}, {"expect", expect}, {"got", "NoError"}});
    }
    consume(m, tag);
    // MeshGL::Merge() on the raw input must also return normally
    M copy = g;
    (void)copy.Merge();
  }

  void run(const json& c) {
    MeshGL64 g = BaseMesh();
    Apply(g, c["fields"]);
    alarm(900);  // "never loops forever": a hang kills the process (SIGALRM), attributed to this case
    one(g, c, "MeshGL64");
    one(To32(g), c, "MeshGL");
    alarm(0);
    nontrivial = 1;
  }
};

int MeshGLMain(int argc, char** argv) {
  Args args(argc, argv, 2);
  if (args.pos.size() < 2) {
    fprintf(stderr, "usage: mfdrive meshgl <in> <out>\n");
    return 2;
  }
  auto cases = ReadNdjson(args.pos[0]);
  Out out(args.pos[1]);
  const long from = args.num("from", 0);
  long nfail = 0, nontrivial = 0;
  for (long i = from; i < (long)cases.size(); i++) {
    out.line({{"begin", i}});
    Runner r;
    r.run(cases[i]);
    if (!r.fails.empty()) nfail++;
    nontrivial += r.nontrivial;
    out.line({{"i", i}, {"fail", r.fails}, {"nontrivial", r.nontrivial}, {"drift", r.drift}});
  }
  out.line({{"done", true}, {"n", (long)cases.size() - from}, {"failed", nfail}, {"nontrivial", nontrivial}});
  return 0;
}
static Register regMeshGL("meshgl", MeshGLMain);
}  // namespace
}  // namespace vf
