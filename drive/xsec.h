// 2-D helpers of the conformance driver for CrossSection (C11, C12): the pixel
// window of spec/Xsec.tla, an independent winding-number oracle on
// ToPolygons(), the exact `Regularized` predicate, hashing, and the binding of
// Xsec.tla's generators / leaves to the public CrossSection API.
// Nothing in here calls the library's Boolean / fill-rule / offset code: the
// oracles work on plain Polygons only.
#pragma once
#include "common.h"

namespace vf {
namespace xs {

// ---------- pixel window, encoding shared with Xsec.tla!PixEnc ---------------
struct Window2 {
  int K;
  int W() const { return 2 * K; }
  int N() const { return W() * W(); }
  int enc(int x, int y) const { return (x + K) + W() * (y + K); }
  void dec(int e, int& x, int& y) const {
    x = e % W() - K;
    y = e / W() - K;
  }
};

inline uint64_t HashPolys(const Polygons& ps) {
  Hasher H;
  uint64_t n = ps.size();
  H.pod(n);
  for (auto& p : ps) {
    uint64_t m = p.size();
    H.pod(m);
    for (auto& v : p) {
      H.pod(v.x);
      H.pod(v.y);
    }
  }
  return H.h;
}

inline json PolysJson(const Polygons& ps, size_t maxVerts = 64) {
  json out = json::array();
  size_t tot = 0;
  for (auto& p : ps) {
    json r = json::array();
    for (auto& v : p) {
      if (++tot > maxVerts) break;
      r.push_back({v.x, v.y});
    }
    out.push_back(r);
    if (tot > maxVerts) {
      out.push_back("...");
      break;
    }
  }
  return out;
}

// ---------- independent winding-number oracle --------------------------------
// Winding numbers of many sample points w.r.t. closed polygons by crossing
// counting (ray towards +x, half-open rule in y).  Sample points are grouped by
// their y so that every row looks at the edges straddling it only.  The side of
// a point relative to an edge is decided by a cross product in long double with
// a relative forward error bound; a value that cannot be trusted is reported
// (`uncertain`), never guessed.  Sample points used by the checks are >= 0.01
// away from every lattice / half-lattice line, so this does not happen there.
struct Sample {
  double x, y;
  int tag;  // caller's id
};
struct WindingResult {
  std::vector<int> w;  // per sample
  int uncertain = 0;
};
inline WindingResult Windings(const Polygons& ps, const std::vector<Sample>& pts) {
  WindingResult R;
  R.w.assign(pts.size(), 0);
  std::map<double, std::vector<size_t>> rows;
  for (size_t i = 0; i < pts.size(); i++) rows[pts[i].y].push_back(i);
  struct E {
    vec2 a, b;
  };
  std::vector<E> edges;
  for (auto& p : ps) {
    const size_t n = p.size();
    for (size_t i = 0; i < n; i++) edges.push_back({p[i], p[(i + 1) % n]});
  }
  // sort edges by min y to cut rows quickly
  std::vector<E> strad;
  for (auto& row : rows) {
    const double y = row.first;
    strad.clear();
    for (auto& e : edges)
      if ((e.a.y <= y) != (e.b.y <= y)) strad.push_back(e);
    for (size_t idx : row.second) {
      const double x = pts[idx].x;
      int w = 0;
      for (auto& e : strad) {
        // sign of (b-a) x (p-a) in long double with a forward error bound: the differences are exact or
        // correctly rounded, each product and the final subtraction add a relative 2^-64
        const long double dx = (long double)e.b.x - e.a.x, dy = (long double)e.b.y - e.a.y;
        const long double px = (long double)x - e.a.x, py = (long double)y - e.a.y;
        const long double cr = dx * py - dy * px;
        if (std::fabs(cr) <= 1e-17L * (std::fabs(dx * py) + std::fabs(dy * px))) {
          R.uncertain++;
          continue;
        }
        const bool up = e.b.y > e.a.y;
        if (up && cr > 0) w += 1;        // point strictly left of an upward edge
        if (!up && cr < 0) w -= 1;       // point strictly left (in x) of a downward edge
      }
      R.w[idx] = w;
    }
  }
  return R;
}

// ---------- exact segment predicates -----------------------------------------
// All coordinates of a polygon set are scaled by one power of two 2^k chosen so that every one becomes
// an integer (doubles are dyadic rationals; k = 0 for lattice output, 1 for half-lattice, ~53 for a
// rounded crossing point near 1).  When the scaled magnitudes stay below 2^57 every cross product fits
// __int128 exactly; otherwise (e.g. a coordinate like 8e-15 next to coordinates near 1) the set is
// `inexact` and only the certain part of the predicates is decided (RegularizedFloat).
typedef __int128 I128;
struct IPt {
  int64_t x, y;
  bool operator==(const IPt& o) const { return x == o.x && y == o.y; }
};
// smallest k >= 0 with v * 2^k integral; -1 if v is not finite
inline int DyadicBits(double v) {
  if (!std::isfinite(v)) return -1;
  if (v == 0) return 0;
  int e;
  const double m = std::frexp(std::fabs(v), &e);          // v = m * 2^e, m in [0.5,1)
  uint64_t M = (uint64_t)std::ldexp(m, 53);                 // 53-bit integer mantissa
  int tz = 0;
  while ((M & 1) == 0) {
    M >>= 1;
    tz++;
  }
  const int k = 53 - e - tz;                                // v = M * 2^(-k)
  return k < 0 ? 0 : k;
}
struct Grid {
  int k = 0;
  bool ok = true;
};
inline Grid GridOf(const Polygons& ps) {
  Grid g;
  double mx = 0;
  for (auto& p : ps)
    for (auto& v : p) {
      const int kx = DyadicBits(v.x), ky = DyadicBits(v.y);
      if (kx < 0 || ky < 0) {
        g.ok = false;
        return g;
      }
      g.k = std::max(g.k, std::max(kx, ky));
      mx = std::max(mx, std::max(std::fabs(v.x), std::fabs(v.y)));
    }
  if (g.k > 200 || std::ldexp(mx, g.k) >= std::ldexp(1.0, 57)) g.ok = false;
  return g;
}
inline int64_t OnGrid(double v, const Grid& g) { return (int64_t)std::ldexp(v, g.k); }
inline int Sgn(I128 v) { return v > 0 ? 1 : (v < 0 ? -1 : 0); }
inline int Orient(const IPt& a, const IPt& b, const IPt& c) {
  return Sgn(((I128)b.x - a.x) * ((I128)c.y - a.y) - ((I128)b.y - a.y) * ((I128)c.x - a.x));
}
inline bool InBox(const IPt& a, const IPt& b, const IPt& p) {
  return std::min(a.x, b.x) <= p.x && p.x <= std::max(a.x, b.x) && std::min(a.y, b.y) <= p.y &&
         p.y <= std::max(a.y, b.y);
}
// how two closed segments meet
enum class Meet { None, Proper, Touch, Overlap };
inline Meet SegMeet(const IPt& a, const IPt& b, const IPt& c, const IPt& d) {
  const int o1 = Orient(a, b, c), o2 = Orient(a, b, d), o3 = Orient(c, d, a), o4 = Orient(c, d, b);
  if (o1 == 0 && o2 == 0 && o3 == 0 && o4 == 0) {
    // collinear: overlap of positive length, a shared point, or nothing
    auto key = [&](const IPt& p) { return (a.x != b.x || c.x != d.x) ? p.x : p.y; };
    int64_t lo1 = std::min(key(a), key(b)), hi1 = std::max(key(a), key(b));
    int64_t lo2 = std::min(key(c), key(d)), hi2 = std::max(key(c), key(d));
    const int64_t lo = std::max(lo1, lo2), hi = std::min(hi1, hi2);
    if (lo > hi) return Meet::None;
    if (lo == hi) return Meet::Touch;
    return Meet::Overlap;
  }
  if (o1 * o2 < 0 && o3 * o4 < 0) return Meet::Proper;
  if ((o1 == 0 && InBox(a, b, c)) || (o2 == 0 && InBox(a, b, d)) || (o3 == 0 && InBox(c, d, a)) ||
      (o4 == 0 && InBox(c, d, b)))
    return Meet::Touch;
  return Meet::None;
}

// Is direction d strictly inside the sector swept counter-clockwise from
// direction u to direction w (all relative to a common apex)?  +1 inside, -1
// strictly outside, 0 on the boundary or undecidable (u and w the same ray).
inline int InCcwSector(const IPt& apex, const IPt& u, const IPt& w, const IPt& d) {
  const int uw = Orient(apex, u, w), ud = Orient(apex, u, d), dw = Orient(apex, d, w);
  auto dot = [&](const IPt& p, const IPt& q) {
    return Sgn(((I128)p.x - apex.x) * ((I128)q.x - apex.x) + ((I128)p.y - apex.y) * ((I128)q.y - apex.y));
  };
  const bool onU = ud == 0 && dot(u, d) > 0, onW = dw == 0 && dot(w, d) > 0;
  if (onU || onW) return 0;
  if (uw > 0) return (ud > 0 && dw > 0) ? 1 : -1;
  if (uw < 0) return (ud < 0 && dw < 0) ? -1 : 1;  // reflex sector: outside = inside the convex sector w -> u
  if (dot(u, w) < 0) return ud > 0 ? 1 : -1;       // straight angle
  return 0;                                         // u and w are the same ray (spike)
}

// The `Regularized` predicate of C11 on an output polygon set, exact:
//   every ring has >= 3 vertices, no zero-length edge and non-zero area;
//   ring simple: adjacent edges meet only in their common vertex (no
//   fold-back), non-adjacent edges of a ring do not meet at all;
//   different rings do not cross and do not overlap along a segment
//   (point contacts between different rings are allowed and counted).
// Returns "" or the first violated clause; `inexact` is set when a coordinate
// set has no common exact grid (then only the certain part is decided: RegularizedFloat).
struct RegularReport {
  std::string why;
  json where;
  bool inexact = false;
  int touches = 0;  // point contacts between different rings (allowed)
};
// Fallback for outputs whose coordinates are not on the exact grid (inputs displaced by --jitter):
// orientation signs in long double with a forward error bound; only what is CERTAIN is reported:
// rings with < 3 vertices, exactly repeated consecutive vertices, and proper crossings (all four
// orientation signs certain and strictly opposite).  Point contacts / overlaps are not decided.
inline int OrientLD(vec2 a, vec2 b, vec2 c) {
  const long double dx = (long double)b.x - a.x, dy = (long double)b.y - a.y;
  const long double px = (long double)c.x - a.x, py = (long double)c.y - a.y;
  const long double cr = dx * py - dy * px;
  if (std::fabs(cr) <= 1e-17L * (std::fabs(dx * py) + std::fabs(dy * px))) return 0;
  return cr > 0 ? 1 : -1;
}
inline void RegularizedFloat(const Polygons& ps, std::string& why, json& where) {
  struct Edge {
    vec2 a, b;
    int ring, idx, n;
  };
  std::vector<Edge> edges;
  for (size_t r = 0; r < ps.size(); r++) {
    const size_t n = ps[r].size();
    if (n < 3) {
      why = "ring with fewer than 3 vertices";
      where = {{"ring", r}};
      return;
    }
    for (size_t i = 0; i < n; i++) {
      const vec2 a = ps[r][i], b = ps[r][(i + 1) % n];
      if (a.x == b.x && a.y == b.y) {
        why = "zero-length edge";
        where = {{"ring", r}, {"vertex", i}};
        return;
      }
      edges.push_back({a, b, (int)r, (int)i, (int)n});
    }
  }
  std::vector<size_t> order(edges.size());
  for (size_t i = 0; i < order.size(); i++) order[i] = i;
  auto minx = [&](size_t i) { return std::min(edges[i].a.x, edges[i].b.x); };
  auto maxx = [&](size_t i) { return std::max(edges[i].a.x, edges[i].b.x); };
  std::sort(order.begin(), order.end(), [&](size_t p, size_t q) { return minx(p) < minx(q); });
  for (size_t oi = 0; oi < order.size(); oi++) {
    const Edge& e = edges[order[oi]];
    const double ex = maxx(order[oi]);
    for (size_t oj = oi + 1; oj < order.size() && minx(order[oj]) <= ex; oj++) {
      const Edge& f = edges[order[oj]];
      if (std::max(e.a.y, e.b.y) < std::min(f.a.y, f.b.y) || std::max(f.a.y, f.b.y) < std::min(e.a.y, e.b.y))
        continue;
      const int o1 = OrientLD(e.a, e.b, f.a), o2 = OrientLD(e.a, e.b, f.b);
      const int o3 = OrientLD(f.a, f.b, e.a), o4 = OrientLD(f.a, f.b, e.b);
      if (o1 * o2 < 0 && o3 * o4 < 0) {
        why = e.ring == f.ring ? "ring crosses itself" : "two contours cross";
        where = {{"ringA", e.ring}, {"edgeA", e.idx}, {"ringB", f.ring}, {"edgeB", f.idx}, {"approx", true}};
        return;
      }
    }
  }
}

inline RegularReport Regularized(const Polygons& ps) {
  RegularReport R;
  struct Edge {
    IPt a, b;
    int ring, idx, n;
  };
  std::vector<Edge> edges;
  std::vector<std::vector<IPt>> rings(ps.size());
  const Grid grid = GridOf(ps);
  if (!grid.ok) {
    R.inexact = true;
    RegularizedFloat(ps, R.why, R.where);
    return R;
  }
  for (size_t r = 0; r < ps.size(); r++) {
    const size_t n = ps[r].size();
    if (n < 3) {
      R.why = "ring with fewer than 3 vertices";
      R.where = {{"ring", r}};
      return R;
    }
    std::vector<IPt> v(n);
    for (size_t i = 0; i < n; i++) v[i] = {OnGrid(ps[r][i].x, grid), OnGrid(ps[r][i].y, grid)};
    I128 area2 = 0;
    for (size_t i = 0; i < n; i++) {
      const IPt &a = v[i], &b = v[(i + 1) % n];
      if (a == b) {
        R.why = "zero-length edge";
        R.where = {{"ring", r}, {"vertex", i}};
        return R;
      }
      area2 += ((I128)a.x - v[0].x) * ((I128)b.y - v[0].y) - ((I128)a.y - v[0].y) * ((I128)b.x - v[0].x);
      edges.push_back({a, b, (int)r, (int)i, (int)n});
    }
    if (area2 == 0) {
      R.why = "zero-area ring";
      R.where = {{"ring", r}};
      return R;
    }
    rings[r] = v;
  }
  // sweep over x-sorted edge boxes to avoid the full quadratic pair loop
  std::vector<size_t> order(edges.size());
  for (size_t i = 0; i < order.size(); i++) order[i] = i;
  auto minx = [&](size_t i) { return std::min(edges[i].a.x, edges[i].b.x); };
  auto maxx = [&](size_t i) { return std::max(edges[i].a.x, edges[i].b.x); };
  std::sort(order.begin(), order.end(), [&](size_t p, size_t q) { return minx(p) < minx(q); });
  for (size_t oi = 0; oi < order.size(); oi++) {
    const Edge& e = edges[order[oi]];
    const int64_t ex = maxx(order[oi]);
    for (size_t oj = oi + 1; oj < order.size() && minx(order[oj]) <= ex; oj++) {
      const Edge& f = edges[order[oj]];
      if (std::max(e.a.y, e.b.y) < std::min(f.a.y, f.b.y) || std::max(f.a.y, f.b.y) < std::min(e.a.y, e.b.y))
        continue;
      const Meet m = SegMeet(e.a, e.b, f.a, f.b);
      if (m == Meet::None) continue;
      json wh = {{"ringA", e.ring}, {"edgeA", e.idx}, {"ringB", f.ring}, {"edgeB", f.idx}};
      if (e.ring == f.ring) {
        const bool adjacent = (e.idx + 1) % e.n == f.idx || (f.idx + 1) % f.n == e.idx;
        if (adjacent) {
          if (m == Meet::Overlap) {
            R.why = "ring folds back on itself (adjacent edges overlap)";
            R.where = wh;
            return R;
          }
          // adjacent edges of a triangle share both... no: n >= 3, two adjacent edges share one vertex
          continue;
        }
        R.why = m == Meet::Proper ? "ring crosses itself"
                                  : (m == Meet::Overlap ? "ring overlaps itself" : "ring touches itself");
        R.where = wh;
        return R;
      }
      if (m == Meet::Proper) {
        R.why = "two contours cross";
        R.where = wh;
        return R;
      }
      if (m == Meet::Overlap) {
        R.why = "two contours overlap along a segment";
        R.where = wh;
        return R;
      }
      R.touches++;
      // a point contact between two rings: do they cross THROUGH a shared vertex?  (the head vertices of
      // both edges coincide: every shared vertex is the head of exactly one edge of each ring)
      if (e.b == f.b) {
        const std::vector<IPt>&A = rings[e.ring], &B = rings[f.ring];
        const IPt &v = e.b, &a0 = e.a, &a1 = A[(e.idx + 2) % e.n], &b0 = f.a, &b1 = B[(f.idx + 2) % f.n];
        // left side of ring A at v = sector counter-clockwise from (v->a1) to (v->a0)
        const int s0 = InCcwSector(v, a1, a0, b0), s1 = InCcwSector(v, a1, a0, b1);
        if (s0 * s1 < 0) {
          R.why = "two contours cross through a shared vertex";
          R.where = wh;
          return R;
        }
      }
    }
  }
  return R;
}

// ---------- binding of Xsec.tla to the API -----------------------------------
inline OpType OpOf(const std::string& s) {
  if (s == "Add") return OpType::Add;
  if (s == "Subtract") return OpType::Subtract;
  return OpType::Intersect;
}

// Xsec.tla!Gen2
inline CrossSection ApplyGen(const CrossSection& c, const std::string& g) {
  if (g == "R90") return c.Rotate(90);
  if (g == "R180") return c.Rotate(180);
  if (g == "R270") return c.Rotate(-90);
  if (g == "MX") return c.Mirror({1, 0});
  if (g == "MY") return c.Mirror({0, 1});
  if (g == "SXN") return c.Scale({-1, 1});
  if (g == "SYN") return c.Scale({1, -1});
  if (g == "SWAP") return c.Transform(mat2x3({0, 1}, {1, 0}, {0, 0}));
  if (g == "ASWAP") return c.Transform(mat2x3({0, -1}, {-1, 0}, {0, 0}));
  if (g == "TXP") return c.Translate({1, 0});
  if (g == "TXM") return c.Translate({-1, 0});
  if (g == "TYP") return c.Translate({0, 1});
  if (g == "TYM") return c.Translate({0, -1});
  if (g == "TPM") return c.Transform(mat2x3({1, 0}, {0, 1}, {1, -1}));
  if (g == "REPOS") return CrossSection(c.ToPolygons());
  if (g == "REEO") return CrossSection::EvenOdd(c.ToPolygons());
  if (g == "WARPID") return c.Warp([](vec2&) {});
  if (g == "WARPX") return c.Warp([](vec2& v) { v.x += 1; });
  fprintf(stderr, "unknown 2-D generator %s\n", g.c_str());
  exit(2);
}

// contours are printed by the specification in DOUBLED integer coordinates
inline Polygons ContoursOf(const json& cs) {
  Polygons out;
  for (auto& c : cs) {
    SimplePolygon p;
    for (auto& v : c) p.push_back({v[0].get<double>() / 2.0, v[1].get<double>() / 2.0});
    out.push_back(p);
  }
  return out;
}

inline std::vector<int> SortedInts(const json& j) {
  std::vector<int> v;
  for (auto& x : j) v.push_back(x.get<int>());
  std::sort(v.begin(), v.end());
  return v;
}

}  // namespace xs
}  // namespace vf
