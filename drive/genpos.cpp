// General-position Booleans (spec/GenPos.tla): sample-point classification.
//   mfdrive genpos <classes.ndjson> <out.ndjson> --seed=S --reps=R --points=N
#include <random>

#include "common.h"

namespace vf {
namespace {

// independent segment-segment squared distance (Ericson 5.1.9)
double SegSegDist2(vec3 p1, vec3 q1, vec3 p2, vec3 q2) {
  vec3 d1 = q1 - p1, d2 = q2 - p2, r = p1 - p2;
  double a = la::dot(d1, d1), e = la::dot(d2, d2), f = la::dot(d2, r), s, t;
  if (a <= 1e-300 && e <= 1e-300) return la::dot(r, r);
  if (a <= 1e-300) { s = 0; t = std::clamp(f / e, 0.0, 1.0); }
  else {
    double c = la::dot(d1, r);
    if (e <= 1e-300) { t = 0; s = std::clamp(-c / a, 0.0, 1.0); }
    else {
      double b = la::dot(d1, d2), denom = a * e - b * b;
      s = denom > 1e-300 ? std::clamp((b * f - c * e) / denom, 0.0, 1.0) : 0.0;
      t = (b * s + f) / e;
      if (t < 0) { t = 0; s = std::clamp(-c / a, 0.0, 1.0); }
      else if (t > 1) { t = 1; s = std::clamp((b - c) / a, 0.0, 1.0); }
    }
  }
  vec3 d = (p1 + d1 * s) - (p2 + d2 * t);
  return la::dot(d, d);
}
// brute-force minimum distance between two DISJOINT triangle meshes: the minimum is attained
// vertex-to-triangle or edge-to-edge
double MeshMeshDist(const MeshGL64& A, const MeshGL64& B) {
  double best = 1e300;
  for (size_t i = 0; i < (size_t)A.NumTri(); i++) {
    auto ta = A.GetTriVerts(i);
    vec3 a[3] = {A.GetVertPos(ta[0]), A.GetVertPos(ta[1]), A.GetVertPos(ta[2])};
    for (size_t j = 0; j < (size_t)B.NumTri(); j++) {
      auto tb = B.GetTriVerts(j);
      vec3 b[3] = {B.GetVertPos(tb[0]), B.GetVertPos(tb[1]), B.GetVertPos(tb[2])};
      for (int k = 0; k < 3; k++) {
        best = std::min(best, PointTriDist2(a[k], b[0], b[1], b[2]));
        best = std::min(best, PointTriDist2(b[k], a[0], a[1], a[2]));
        for (int l = 0; l < 3; l++) best = std::min(best, SegSegDist2(a[k], a[(k + 1) % 3], b[l], b[(l + 1) % 3]));
      }
    }
  }
  return std::sqrt(best);
}
bool TightBox(const Manifold& m, const MeshGL64& g) {
  if (g.NumTri() == 0) return true;
  vec3 lo(1e300), hi(-1e300);
  for (size_t v = 0; v < (size_t)g.NumVert(); v++) { vec3 p = g.GetVertPos(v); lo = la::min(lo, p); hi = la::max(hi, p); }
  Box b = m.BoundingBox();
  return b.min == lo && b.max == hi;
}

Manifold Prim(const std::string& k, std::mt19937& rng) {
  std::uniform_real_distribution<double> U(0.6, 1.4);
  if (k == "cube") return Manifold::Cube({U(rng), U(rng), U(rng)}, true);
  if (k == "sphere") return Manifold::Sphere(0.7 * U(rng), 4 * (3 + rng() % 6)).Scale({1, U(rng), 1});
  if (k == "tet") return Manifold::Tetrahedron().Scale(vec3(0.8 * U(rng)));
  if (k == "cyl") return Manifold::Cylinder(1.2 * U(rng), 0.5 * U(rng), 0.4 * U(rng), 4 * (2 + rng() % 5), true);
  // L-shape: non-convex
  return Manifold::Cube({1.2, 1.2, 0.8}, true) - Manifold::Cube({1.0, 1.0, 1.0}).Translate({0.05 * U(rng), 0.07, -0.5});
}

struct Runner {
  json fails = json::array();
  int nontrivial = 0, masked = 0, judged = 0;
  void fail(const std::string& kind, const json& d) { if (fails.size() < 6) fails.push_back({{"kind", kind}, {"step", 0}, {"detail", d}}); }

  // C17: Extrude(polygon, height, nDivisions, twist, scaleTop): p is inside iff 0 < z < height and the layer map
  // "twist, then scale" pulled back lands inside the polygon
  void runExtrude(const json& c, uint32_t seed, int npoints) {
    std::mt19937 rng(seed);
    const double twist = c["twist"].get<double>(), sx = c["scale"][0].get<double>() / 10, sy = c["scale"][1].get<double>() / 10;
    const std::string shape = c["shape"];
    SimplePolygon poly;
    if (shape == "rect") poly = {{-2, -0.5}, {2, -0.5}, {2, 0.5}, {-2, 0.5}};
    else if (shape == "lshape") poly = {{-1, -1}, {1.5, -1}, {1.5, 0}, {0, 0}, {0, 1.2}, {-1, 1.2}};
    else poly = {{1, 0.5}, {3, 0.5}, {3, 1.5}, {1, 1.5}};
    const double H = 2.0;
    const int nDiv = 96;
    Manifold m = Manifold::Extrude({poly}, H, nDiv, twist, {sx, sy});
    if (m.Status() != Manifold::Error::NoError) { fail("extrude:status", {{"status", ErrName(m.Status())}}); return; }
    const MeshGL64 g = m.GetMeshGL64();
    auto inPoly = [&](vec2 q) {
      bool in = false;
      for (size_t i = 0, j = poly.size() - 1; i < poly.size(); j = i++)
        if ((poly[i].y > q.y) != (poly[j].y > q.y) && q.x < (poly[j].x - poly[i].x) * (q.y - poly[i].y) / (poly[j].y - poly[i].y) + poly[i].x) in = !in;
      return in;
    };
    auto analytic = [&](vec3 p) -> int {   // 1 inside, 0 outside, -1 undecided (too close to the boundary)
      const double margin = 0.04;
      int votes = 0, n = 0;
      for (double dz : {-margin, 0.0, margin})
        for (double dx : {-margin, 0.0, margin})
          for (double dy : {-margin, 0.0, margin}) {
            const double z = p.z + dz;
            bool in = false;
            if (z > 0 && z < H) {
              const double a = z / H, phi = a * twist * 3.14159265358979323846 / 180.0;
              const double kx = 1 + (sx - 1) * a, ky = 1 + (sy - 1) * a;
              if (kx > 1e-9 && ky > 1e-9) {
                // layer map: q = S * R(phi) * p0  =>  p0 = R(-phi) * S^-1 * q
                const double ux = (p.x + dx) / kx, uy = (p.y + dy) / ky;
                in = inPoly({std::cos(phi) * ux + std::sin(phi) * uy, -std::sin(phi) * ux + std::cos(phi) * uy});
              }
            }
            votes += in;
            n++;
          }
      return votes == n ? 1 : votes == 0 ? 0 : -1;
    };
    std::uniform_real_distribution<double> X(-4.5, 4.5), Z(-0.3, H + 0.3);
    for (int i = 0; i < npoints; i++) {
      vec3 p(X(rng), X(rng), Z(rng));
      const int want = analytic(p);
      if (want < 0) { masked++; continue; }
      judged++;
      const double w = WindingAt(g, p);
      if (std::lround(w) != want || std::fabs(w - std::round(w)) > 1e-6)
        fail("extrude:classification", {{"p", {p.x, p.y, p.z}}, {"winding", w}, {"want", want}, {"twist", twist}, {"scaleTop", {sx, sy}}, {"shape", shape}});
    }
    nontrivial = 1;
  }

  void run(const json& c, uint32_t seed, int npoints) {
    if (c.contains("k") && c["k"] == "extrude") { runExtrude(c, seed, npoints * 3); return; }
    std::mt19937 rng(seed);
    std::uniform_real_distribution<double> A(0, 360), S(-1, 1);
    const std::string pose = c["pose"];
    Manifold P = Prim(c["p"], rng).Rotate(A(rng), A(rng), A(rng));
    Manifold Q = Prim(c["q"], rng).Rotate(A(rng), A(rng), A(rng));
    if (pose == "overlap") Q = Q.Translate({0.45 * S(rng), 0.45 * S(rng), 0.45 * S(rng)});
    else if (pose == "nested") Q = Q.Scale(vec3(0.35)).Translate({0.1 * S(rng), 0.1 * S(rng), 0.1 * S(rng)});
    else if (pose == "disjoint") Q = Q.Translate({3.0 + S(rng), 0.3 * S(rng), 0.2});
    else if (pose == "shifted") Q = Q.Translate({0.9 + 0.2 * S(rng), 0.6 * S(rng), 0.5 * S(rng)});
    else Q = Q.Rotate(A(rng), 0, A(rng)).Translate({0.3 * S(rng), 0.2, -0.3 * S(rng)});
    const std::string opn = c["op"];
    const OpType op = opn == "Add" ? OpType::Add : opn == "Subtract" ? OpType::Subtract : OpType::Intersect;
    Manifold R = P.Boolean(Q, op);
    if (R.Status() != Manifold::Error::NoError) { fail("genpos:status", {{"status", ErrName(R.Status())}}); return; }
    // C18 in general position, BEFORE anything forces the operands: the lazily transformed result's BoundingBox must be
    // the tight box of its exported vertices (bbox-disjoint unions are composed with pending transforms)
    {
      Manifold L = P.Boolean(Q, op);
      const Box lb = L.BoundingBox();
      const MeshGL64 gl = L.GetMeshGL64();
      if (!TightBox(L, gl)) fail("measure:bbox", {{"why", "BoundingBox of a lazily evaluated result is not the tight box of its vertices"}, {"seed", seed},
                                                   {"bbox", {lb.min.x, lb.min.y, lb.min.z, lb.max.x, lb.max.y, lb.max.z}}});
    }
    const MeshGL64 gp = P.GetMeshGL64(), gq = Q.GetMeshGL64(), gr = R.GetMeshGL64();
    if (!TightBox(P, gp) || !TightBox(Q, gq) || !TightBox(R, gr)) fail("measure:bbox", {{"why", "BoundingBox is not the tight box of the vertices"}, {"seed", seed}});
    // MinGap = minimum triangle-to-triangle distance clamped to the search length (0 when the solids intersect)
    // extra separated placements: vertex-to-face, edge-to-edge and vertex-to-vertex closest features all occur
    if (gp.NumTri() * gq.NumTri() < 100000)
      for (int rep = 0; rep < 3; rep++) {
        vec3 dir = la::normalize(vec3(S(rng), S(rng), S(rng) + 0.05));
        Manifold Q2 = Q.Translate(-Q.BoundingBox().Center()).Rotate(A(rng), A(rng), 0).Translate(P.BoundingBox().Center() + dir * (5.0 + S(rng)));  // farther apart than the sum of the radii: certainly disjoint
        const MeshGL64 g2 = Q2.GetMeshGL64();
        const double brute = MeshMeshDist(gp, g2);
        const double g1 = P.MinGap(Q2, 100.0), gr2 = Q2.MinGap(P, 100.0);
        if (std::fabs(g1 - brute) > 1e-9 || std::fabs(gr2 - brute) > 1e-9)
          fail("measure:mingap", {{"why", "separated placement"}, {"want", brute}, {"got", g1}, {"gotReversed", gr2}, {"seed", seed}});
      }
    // the posed pair itself, only when the bounding boxes are disjoint (certainly non-intersecting solids)
    if (gp.NumTri() * gq.NumTri() < 400000 && !P.BoundingBox().DoesOverlap(Q.BoundingBox())) {
      const double brute = MeshMeshDist(gp, gq);
      for (double L : {0.25, 100.0}) {
        const double want = std::min(L, brute), g1 = P.MinGap(Q, L), g2 = Q.MinGap(P, L);
        if (std::fabs(g1 - want) > 1e-9 || std::fabs(g2 - want) > 1e-9)
          fail("measure:mingap", {{"L", L}, {"want", want}, {"got", g1}, {"gotReversed", g2}, {"seed", seed}});
      }
    }
    const double tol = std::max({R.GetTolerance(), P.GetTolerance(), Q.GetTolerance(), 1e-9}) * 4 + 1e-9;
    Box bb = P.BoundingBox().Union(Q.BoundingBox());
    std::uniform_real_distribution<double> X(bb.min.x - 0.2, bb.max.x + 0.2), Y(bb.min.y - 0.2, bb.max.y + 0.2), Z(bb.min.z - 0.2, bb.max.z + 0.2);
    const auto& tt = c["tt"];
    for (int i = 0; i < npoints; i++) {
      vec3 p(X(rng), Y(rng), Z(rng));
      if (DistToMesh(gp, p) < tol || DistToMesh(gq, p) < tol) { masked++; continue; }   // the property's own exclusion
      const double wa = WindingAt(gp, p), wb = WindingAt(gq, p), wr = WindingAt(gr, p);
      const bool a = std::lround(wa) == 1, b = std::lround(wb) == 1;
      const bool want = tt[(a ? 2 : 0) + (b ? 1 : 0)].get<bool>();
      judged++;
      if (std::fabs(wr - std::round(wr)) > 1e-6 || (std::lround(wr) == 1) != want || (std::lround(wr) != 0 && std::lround(wr) != 1))
        fail("genpos:classification", {{"p", {p.x, p.y, p.z}}, {"insideA", a}, {"insideB", b}, {"winding", wr}, {"want", want}, {"seed", seed}});
    }
    // inclusion-exclusion and commutativity as solids (volumes), Split
    const double vA = P.Volume(), vB = Q.Volume(), vU = (P + Q).Volume(), vI = (P ^ Q).Volume(), vD = (P - Q).Volume();
    const double slack = 1e-7 * std::max(1.0, vA + vB);
    if (std::fabs(vU + vI - vA - vB) > slack) fail("genpos:inclusion-exclusion", {{"vA", vA}, {"vB", vB}, {"vU", vU}, {"vI", vI}, {"seed", seed}});
    if (std::fabs(vD + vI - vA) > slack) fail("genpos:inclusion-exclusion", {{"vA", vA}, {"vD", vD}, {"vI", vI}, {"seed", seed}});
    if (std::fabs((Q + P).Volume() - vU) > slack || std::fabs((Q ^ P).Volume() - vI) > slack) fail("genpos:commutativity", {{"seed", seed}});
    auto sp = P.Split(Q);
    if (std::fabs(sp.first.Volume() - vI) > slack || std::fabs(sp.second.Volume() - vD) > slack) fail("genpos:split", {{"seed", seed}});
    vec3 n = la::normalize(vec3(S(rng), S(rng), S(rng) + 0.1));
    const double off = 0.2 * S(rng);
    auto pl = P.SplitByPlane(n, off);
    if (std::fabs(pl.first.Volume() + pl.second.Volume() - vA) > slack) fail("genpos:plane", {{"seed", seed}, {"why", "halves do not add up"}});
    if (std::fabs(P.TrimByPlane(n, off).Volume() - pl.first.Volume()) > slack) fail("genpos:plane", {{"seed", seed}, {"why", "Trim differs from Split.first"}});
    for (int i = 0; i < 40; i++) {
      vec3 p(X(rng), Y(rng), Z(rng));
      const double side = la::dot(p, n) - off;
      if (std::fabs(side) < 1e-6 || DistToMesh(gp, p) < tol) continue;
      const bool inA = std::lround(WindingAt(gp, p)) == 1;
      const bool in1 = std::lround(WindingAt(pl.first.GetMeshGL64(), p)) == 1, in2 = std::lround(WindingAt(pl.second.GetMeshGL64(), p)) == 1;
      if (in1 != (inA && side > 0) || in2 != (inA && side < 0)) fail("genpos:plane", {{"seed", seed}, {"p", {p.x, p.y, p.z}}, {"side", side}});
    }
    nontrivial = vI > 1e-6 ? 1 : 0;
  }
};

int GenPosMain(int argc, char** argv) {
  Args args(argc, argv, 2);
  if (args.pos.size() < 2) {
    fprintf(stderr, "usage: mfdrive genpos <in> <out> [--seed=S] [--reps=R] [--points=N]\n");
    return 2;
  }
  auto cases = ReadNdjson(args.pos[0]);
  Out out(args.pos[1]);
  const long from = args.num("from", 0), reps = args.num("reps", 1), npts = args.num("points", 150);
  long nfail = 0, nontrivial = 0, judged = 0, masked = 0;
  for (long i = from; i < (long)cases.size(); i++) {
    out.line({{"begin", i}});
    Runner r;
    // the per-case seed depends on the case itself, not on its position in the file (a confirmation re-run of one case must see the same parameters)
    const uint32_t ch = (uint32_t)std::hash<std::string>{}(cases[i].dump());
    for (long k = 0; k < reps; k++) r.run(cases[i], (uint32_t)(args.num("seed", 1) * 7919 + ch * 31 + k), (int)npts);
    if (!r.fails.empty()) nfail++;
    nontrivial += r.nontrivial > 0;
    judged += r.judged;
    masked += r.masked;
    out.line({{"i", i}, {"fail", r.fails}, {"nontrivial", r.nontrivial > 0 ? 1 : 0}, {"judged", r.judged}, {"masked", r.masked}});
  }
  out.line({{"done", true}, {"n", (long)cases.size() - from}, {"failed", nfail}, {"judged", judged}, {"masked", masked}});
  return 0;
}
static Register regGenPos("genpos", GenPosMain);
}  // namespace
}  // namespace vf
