// Replay of Refine.tla cases (property C19).
//   mfdrive refine <cases.ndjson> <out.ndjson> --K=2 [--trace=<partitions.ndjson>] [--from=i] [--to=j]
//
// kind "part": the division tuple of one triangle/quad.  The real Partition
//   (src/subdivision.cpp, anonymous namespace) is obtained through the guarded
//   accessor manifold::verif::GetPartition / ReindexPartition.  The boundary
//   layout the tiling has to have comes from the specification (fields corner,
//   edge, io of the case); the driver adds what only the implementation knows
//   (triangles, barycentric points classified by position, orientation signs)
//   and writes one record per partition to --trace for TLC (Refine_Trace.cfg
//   evaluates Refine!ValidPartition on it).  PartFailed() below is the same
//   predicate in C++ (pre-screen; checks/C19.py compares both verdicts).
// kind "prog": lattice solid ; Smooth? ; Refine* ; Simplify/SetTolerance*,
//   observed through the public API and judged on the exported MeshGL64 with
//   the independent oracles of common.h.
#include <array>

#include "common.h"

namespace manifold {
namespace verif {
// defined at the end of src/subdivision.cpp when the library carries the C19
// hook; weak so that the driver links (and skips "part" cases) without it
__attribute__((weak)) void GetPartition(ivec4 divisions, ivec4& idx,
                                        ivec4& sortedDivisions,
                                        std::vector<ivec3>& triVert,
                                        std::vector<vec4>& vertBary);
__attribute__((weak)) void ReindexPartition(ivec4 divisions, ivec4 triVerts,
                                            ivec4 edgeOffsets, bvec4 edgeFwd,
                                            int interiorOffset,
                                            std::vector<ivec3>& triVert);
}  // namespace verif
}  // namespace manifold

namespace vf {
namespace {

typedef void (*GetPartitionFn)(ivec4, ivec4&, ivec4&, std::vector<ivec3>&,
                               std::vector<vec4>&);
typedef void (*ReindexFn)(ivec4, ivec4, ivec4, bvec4, int,
                          std::vector<ivec3>&);
// taken through volatile pointers so that the null test is not folded away
static bool HookPresent() {
  volatile GetPartitionFn a = &manifold::verif::GetPartition;
  volatile ReindexFn b = &manifold::verif::ReindexPartition;
  return a != nullptr && b != nullptr;
}

// ------------------------------------------------------------------ partitions
struct PartRec {       // what Refine!ValidPartition is evaluated on
  int nc = 3;          // 3 triangle, 4 quad
  std::vector<int> div;                 // divisions of edge i (corner i -> corner i+1)
  std::vector<int> corner;              // vertex id of corner i
  std::vector<std::vector<int>> edge;   // interior verts of edge i, in order
  int io = 0, ninter = 0;               // interior verts are io .. io+ninter-1
  std::vector<std::array<int, 3>> tris;
  int geo = 0;                          // 1: loc/tok/sgn are meaningful
  std::vector<int> verts;               // ids of all verts (geo only)
  std::vector<std::array<int, 3>> loc;  // per vert: {0,i,0} corner i, {1,i,j} j-th of edge i, {2,0,0} strictly inside, {3,0,0} elsewhere
  std::vector<int> tok;                 // per vert: token of its point
  std::vector<int> sgn;                 // per tri: orientation sign
  int want = 0;                         // demanded triangle count, 0 = none
};

static json ToJ(const PartRec& p, const std::string& id, long cs, const std::string& sub) {
  json j = {{"id", id}, {"cs", cs}, {"sub", sub}, {"nc", p.nc}, {"div", p.div}, {"corner", p.corner},
            {"edge", p.edge}, {"io", p.io}, {"ninter", p.ninter}, {"tris", p.tris}, {"geo", p.geo},
            {"verts", p.verts}, {"loc", p.loc}, {"tok", p.tok}, {"sgn", p.sgn}, {"want", p.want}};
  return j;
}

// The clauses of Refine!ValidPartition that do not hold (same names as
// Refine!FailedClauses).
static std::vector<std::string> PartFailed(const PartRec& p) {
  std::set<std::string> bad;
  const int nc = p.nc;
  // shape: edge i carries div[i]-1 verts
  bool shape = (int)p.div.size() == nc && (int)p.corner.size() == nc && (int)p.edge.size() == nc;
  if (shape)
    for (int i = 0; i < nc; i++)
      if (p.div[i] < 1 || (int)p.edge[i].size() != p.div[i] - 1) shape = false;
  if (!shape) {
    bad.insert("shape");
    return {bad.begin(), bad.end()};
  }
  std::vector<int> bnd;   // boundary cycle
  for (int i = 0; i < nc; i++) {
    bnd.push_back(p.corner[i]);
    for (int v : p.edge[i]) bnd.push_back(v);
  }
  std::set<int> all(bnd.begin(), bnd.end());
  for (int k = 0; k < p.ninter; k++) all.insert(p.io + k);
  const size_t V = bnd.size() + p.ninter;
  if (all.size() != V) bad.insert("distinct-ids");
  // triangles
  std::set<int> used;
  std::map<std::pair<int, int>, int> de;
  for (auto& t : p.tris) {
    for (int k = 0; k < 3; k++) {
      if (!all.count(t[k])) bad.insert("range");
      used.insert(t[k]);
      de[{t[k], t[(k + 1) % 3]}]++;
    }
    if (t[0] == t[1] || t[1] == t[2] || t[2] == t[0]) bad.insert("degenerate");
  }
  for (int v : all)
    if (!used.count(v)) bad.insert("unused");
  std::set<std::pair<int, int>> be;
  for (size_t k = 0; k < bnd.size(); k++) be.insert({bnd[k], bnd[(k + 1) % bnd.size()]});
  for (auto& kv : de) {
    if (kv.second != 1) bad.insert("edge-twice");
    const bool rev = de.count({kv.first.second, kv.first.first}) > 0;
    if (be.count(kv.first)) {
      if (rev) bad.insert("boundary");
    } else if (!rev)
      bad.insert("unmatched");
  }
  for (auto& e : be)
    if (!de.count(e)) bad.insert("boundary");
  // Euler characteristic of a disk
  const long F = p.tris.size();
  const long twoE = 3 * F + (long)be.size();
  if (twoE % 2 != 0 || (long)V - twoE / 2 + F != 1) bad.insert("euler");
  if (p.want > 0 && F != p.want) bad.insert("count");
  if (p.geo) {
    bool ok = p.verts.size() == V && p.loc.size() == V && p.tok.size() == V && p.sgn.size() == p.tris.size();
    if (!ok)
      bad.insert("geo-shape");
    else {
      std::map<int, size_t> at;
      for (size_t k = 0; k < V; k++) at[p.verts[k]] = k;
      std::set<int> toks(p.tok.begin(), p.tok.end());
      if (toks.size() != V) bad.insert("same-point");
      auto L = [&](int v) -> std::array<int, 3> {
        auto it = at.find(v);
        return it == at.end() ? std::array<int, 3>{3, 0, 0} : p.loc[it->second];
      };
      bool placed = true;
      for (int i = 0; i < nc; i++) {
        if (L(p.corner[i]) != std::array<int, 3>{0, i, 0}) placed = false;
        for (int j = 0; j < (int)p.edge[i].size(); j++)
          if (L(p.edge[i][j]) != std::array<int, 3>{1, i, j + 1}) placed = false;
      }
      for (int k = 0; k < p.ninter; k++)
        if (L(p.io + k) != std::array<int, 3>{2, 0, 0}) placed = false;
      if (!placed) bad.insert("placement");
      for (int s : p.sgn)
        if (s != 1) bad.insert("orientation");
    }
  }
  return {bad.begin(), bad.end()};
}

// 2-D image of a barycentric point: triangle corners (0,0),(1,0),(0,1); quad
// corners (0,0),(1,0),(1,1),(0,1) (the x,y of smoothing.cpp InterpTri)
static std::array<double, 2> Flat(int nc, vec4 b) {
  if (nc == 3) return {b[1], b[2]};
  return {b[1] + b[2], b[2] + b[3]};
}

static std::array<int, 3> Locate(int nc, const std::vector<int>& div, vec4 b) {
  const double eps = 1e-12;
  double sum = b[0] + b[1] + b[2] + b[3];
  if (!(std::fabs(sum - 1) <= eps)) return {3, 0, 0};
  for (int k = 0; k < 4; k++)
    if (!(b[k] >= -eps)) return {3, 0, 0};
  if (nc == 3 && std::fabs(b[3]) > 0) return {3, 0, 0};
  for (int i = 0; i < nc; i++) {
    if (b[i] == 1) {
      bool rest = true;
      for (int k = 0; k < 4; k++)
        if (k != i && b[k] != 0) rest = false;
      return rest ? std::array<int, 3>{0, i, 0} : std::array<int, 3>{3, 0, 0};
    }
  }
  for (int i = 0; i < nc; i++) {
    const int n = (i + 1) % nc;
    bool on = true;
    for (int k = 0; k < 4; k++)
      if (k != i && k != n && std::fabs(b[k]) > eps) on = false;
    if (!on) continue;
    // on edge i: parameter b[n] must be j/div[i] for an integer 0<j<div[i]
    const double x = b[n] * div[i];
    const double j = std::round(x);
    if (std::fabs(x - j) <= 1e-9 && j >= 1 && j <= div[i] - 1) return {1, i, (int)j};
    return {3, 0, 0};
  }
  const double in = 1e-9;
  if (nc == 3) {
    if (b[0] > in && b[1] > in && b[2] > in) return {2, 0, 0};
    return {3, 0, 0};
  }
  auto f = Flat(4, b);
  if (f[0] > in && f[0] < 1 - in && f[1] > in && f[1] < 1 - in) return {2, 0, 0};
  return {3, 0, 0};
}

static std::vector<int> IntVec(const json& j) {
  std::vector<int> v;
  for (auto& x : j) v.push_back(x.get<int>());
  return v;
}

struct Fails {
  json list = json::array();
  void add(const std::string& kind, int step, const json& d) { list.push_back({{"kind", kind}, {"step", step}, {"detail", d}}); }
};

static int RunPart(const json& c, long ci, Fails& F, Out* trace, json& info) {
  if (!HookPresent()) {
    info["note"] = "hook missing: manifold::verif::GetPartition is not in this library build";
    return 0;
  }
  const int nc = c["nc"].get<int>();
  std::vector<int> d = IntVec(c["div"]), key = IntVec(c["key"]);
  ivec4 div4(d[0], d[1], d[2], nc == 4 ? d[3] : 0);
  ivec4 idx(-1), sorted(-1);
  std::vector<ivec3> tri;
  std::vector<vec4> bary;
  manifold::verif::GetPartition(div4, idx, sorted, tri, bary);
  const std::string name = c["name"].get<std::string>();
  // (1) the cache key: the pattern is stored for the canonical divisions the
  // specification computes, idx maps its edges back to the caller's
  bool keyOK = true;
  for (int i = 0; i < 4; i++) {
    const int k = i < nc ? key[i] : 0;
    if (sorted[i] != k) keyOK = false;
    if (i < nc && (idx[i] < 0 || idx[i] >= nc || d[idx[i]] != sorted[i])) keyOK = false;
  }
  if (keyOK) {
    std::set<int> s;
    for (int i = 0; i < nc; i++) s.insert(idx[i]);
    if ((int)s.size() != nc) keyOK = false;
  }
  if (!keyOK)
    F.add("part-key", 0, {{"case", name}, {"why", "key"}, {"sorted", {sorted[0], sorted[1], sorted[2], sorted[3]}},
                          {"idx", {idx[0], idx[1], idx[2], idx[3]}}, {"want", key}});
  // (2) the cached pattern itself, in the frame of the key
  PartRec p;
  p.nc = nc;
  p.div.assign(key.begin(), key.begin() + nc);
  p.corner = IntVec(c["cached"]["corner"]);
  for (auto& e : c["cached"]["edge"]) p.edge.push_back(IntVec(e));
  p.io = c["cached"]["io"].get<int>();
  p.ninter = (int)bary.size() - p.io;
  for (auto& t : tri) p.tris.push_back({t[0], t[1], t[2]});
  p.geo = 1;
  p.want = c["want"].get<int>();
  std::map<std::pair<long long, long long>, int> interned;
  std::vector<std::array<double, 2>> flat;
  for (size_t v = 0; v < bary.size(); v++) {
    p.verts.push_back((int)v);
    p.loc.push_back(Locate(nc, p.div, bary[v]));
    auto f = Flat(nc, bary[v]);
    flat.push_back(f);
    const double S = 1099511627776.0;  // 2^40
    std::pair<long long, long long> k{std::llround(f[0] * S), std::llround(f[1] * S)};
    auto it = interned.find(k);
    if (it == interned.end()) it = interned.emplace(k, (int)interned.size()).first;
    p.tok.push_back(it->second);
  }
  for (auto& t : tri) {
    int s = 0;
    bool in = true;
    for (int k = 0; k < 3; k++)
      if (t[k] < 0 || t[k] >= (int)bary.size()) in = false;
    if (in) {
      auto A = flat[t[0]], B = flat[t[1]], C = flat[t[2]];
      const double cr = (B[0] - A[0]) * (C[1] - A[1]) - (B[1] - A[1]) * (C[0] - A[0]);
      s = cr > 1e-9 ? 1 : (cr < -1e-9 ? -1 : 0);
    }
    p.sgn.push_back(s);
  }
  int records = 0;
  auto judge = [&](const PartRec& q, const std::string& sub) {
    auto bad = PartFailed(q);
    const std::string id = name + "/" + sub;
    info["verdicts"][sub] = bad;
    for (auto& cl : bad)
      F.add("part-" + cl, 0, {{"case", name}, {"why", cl}, {"sub", sub == "cached" ? "cached" : "reindexed"}, {"id", id}});
    if (trace) trace->line(ToJ(q, id, ci, sub));
    records++;
  };
  judge(p, "cached");
  // (3) Reindex into the caller's numbering: ids and the boundary they must
  // produce are chosen by the specification
  int r = 0;
  for (auto& rq : c["re"]) {
    std::vector<int> corner = IntVec(rq["corner"]), off = IntVec(rq["off"]), fwd = IntVec(rq["fwd"]);
    ivec4 tv(corner[0], corner[1], corner[2], nc == 4 ? corner[3] : -1);
    ivec4 eo(off[0], off[1], off[2], nc == 4 ? off[3] : 0);
    bvec4 ef(fwd[0] != 0, fwd[1] != 0, fwd[2] != 0, nc == 4 ? fwd[3] != 0 : false);
    std::vector<ivec3> out;
    manifold::verif::ReindexPartition(div4, tv, eo, ef, rq["io"].get<int>(), out);
    PartRec q;
    q.nc = nc;
    q.div.assign(d.begin(), d.begin() + nc);
    q.corner = corner;
    for (auto& e : rq["edge"]) q.edge.push_back(IntVec(e));
    q.io = rq["io"].get<int>();
    q.ninter = p.ninter;
    for (auto& t : out) q.tris.push_back({t[0], t[1], t[2]});
    q.geo = 0;
    q.want = p.want;
    judge(q, "re" + std::to_string(r++));
  }
  info["ntri"] = (long)tri.size();
  info["ninter"] = p.ninter;
  info["records"] = records;
  return tri.size() > 1 ? 1 : 0;
}

// ------------------------------------------------------------------ programs
static double Num(const json& j) { return std::strtod(j.get<std::string>().c_str(), nullptr); }

typedef std::array<double, 3> P3;
// positions of the vertices that triangles refer to (referenced = true) or of
// all exported vertices
static std::set<P3> PosSet(const MeshGL64& g, bool referenced = true) {
  std::set<P3> s;
  const size_t nv = g.NumVert();
  std::vector<char> used(nv, referenced ? 0 : 1);
  if (referenced)
    for (auto v : g.triVerts)
      if (v < nv) used[v] = 1;
  for (size_t v = 0; v < nv; v++) {
    if (!used[v]) continue;
    auto p = g.GetVertPos(v);
    s.insert({p[0] + 0.0, p[1] + 0.0, p[2] + 0.0});  // -0 -> +0
  }
  return s;
}
static long Missing(const std::set<P3>& need, const std::set<P3>& have, json* first) {
  long n = 0;
  for (auto& p : need)
    if (!have.count(p)) {
      if (n == 0 && first) *first = {p[0], p[1], p[2]};
      n++;
    }
  return n;
}
static bool RelEq(double a, double b, double rel = 1e-9) { return std::fabs(a - b) <= rel * std::max({1.0, std::fabs(a), std::fabs(b)}); }

// ---- point-to-surface distance oracle (closest point on a triangle, Ericson) --
static double DistPointTri(vec3 p, vec3 a, vec3 b, vec3 c) {
  const vec3 ab = b - a, ac = c - a, ap = p - a;
  const double d1 = la::dot(ab, ap), d2 = la::dot(ac, ap);
  if (d1 <= 0 && d2 <= 0) return la::length(ap);
  const vec3 bp = p - b;
  const double d3 = la::dot(ab, bp), d4 = la::dot(ac, bp);
  if (d3 >= 0 && d4 <= d3) return la::length(bp);
  const double vc = d1 * d4 - d3 * d2;
  if (vc <= 0 && d1 >= 0 && d3 <= 0) return la::length(ap - ab * (d1 / (d1 - d3)));
  const vec3 cp = p - c;
  const double d5 = la::dot(ab, cp), d6 = la::dot(ac, cp);
  if (d6 >= 0 && d5 <= d6) return la::length(cp);
  const double vb = d5 * d2 - d1 * d6;
  if (vb <= 0 && d2 >= 0 && d6 <= 0) return la::length(ap - ac * (d2 / (d2 - d6)));
  const double va = d3 * d6 - d5 * d4;
  if (va <= 0 && (d4 - d3) >= 0 && (d5 - d6) >= 0) {
    const double w = (d4 - d3) / ((d4 - d3) + (d5 - d6));
    return la::length(p - (b + (c - b) * w));
  }
  const double den = 1.0 / (va + vb + vc);
  return la::length(p - (a + ab * (vb * den) + ac * (vc * den)));
}
// largest distance of a vertex of `from` to the surface of `to`
static double MaxVertDist(const MeshGL64& from, const MeshGL64& to, json* worst) {
  double m = 0;
  const size_t nv = from.NumVert(), nt = to.NumTri();
  if (nt == 0) return nv == 0 ? 0 : INFINITY;
  for (size_t v = 0; v < nv; v++) {
    const vec3 p = from.GetVertPos(v);
    double best = INFINITY;
    for (size_t t = 0; t < nt && best > 0; t++) {
      auto tv = to.GetTriVerts(t);
      best = std::min(best, DistPointTri(p, to.GetVertPos(tv[0]), to.GetVertPos(tv[1]), to.GetVertPos(tv[2])));
    }
    if (!(best <= m)) {
      m = best;
      if (worst) *worst = {p[0], p[1], p[2]};
    }
  }
  return m;
}

struct ProgRunner {
  Window w;
  Fails& F;
  json& info;
  std::string name;
  int step = 0;

  json D(const std::string& why, json extra = json::object()) {
    extra["case"] = name;
    extra["why"] = why;
    return extra;
  }

  // tolerance never drops below epsilon (every Manifold the program makes)
  void Floor(const Manifold& m, const std::string& what) {
    if (m.Status() != Manifold::Error::NoError) return;
    const double t = m.GetTolerance(), e = m.GetEpsilon();
    if (!(t >= e)) F.add("tol-floor", step, D(what, {{"tolerance", t}, {"epsilon", e}}));
  }

  Manifold Solid(const json& c) {
    std::vector<Manifold> bx;
    for (auto& b : c["boxes"]) {
      vec3 lo(b[0].get<double>(), b[1].get<double>(), b[2].get<double>());
      vec3 hi(b[3].get<double>(), b[4].get<double>(), b[5].get<double>());
      bx.push_back(Manifold::Cube(hi - lo).Translate(lo));
    }
    const std::string op = c["op"];
    if (bx.size() == 1) return bx[0];
    return bx[0].Boolean(bx[1], op == "Add" ? OpType::Add : op == "Subtract" ? OpType::Subtract : OpType::Intersect);
  }

  Manifold Smoothed(const Manifold& m0, const MeshGL64& g0, const json& sm) {
    const std::string k = sm["k"];
    if (k == "out") return m0.SmoothOut(Num(sm["angle"]), Num(sm["smooth"]));
    if (k == "normals") return m0.CalculateNormals(0, Num(sm["angle"])).SmoothByNormals(0);
    // "sharp": the Smooth constructor with sharpened edges picked by halfedge number
    std::vector<Smoothness> sh;
    const size_t nh = g0.triVerts.size();
    for (auto& e : sm["edges"])
      if (nh > 0) sh.push_back({(size_t)e["h"].get<long>() % nh, Num(e["s"])});
    return Manifold::Smooth(g0, sh);
  }

  Manifold Refined(const Manifold& m, const json& ref) {
    const std::string k = ref["k"];
    if (k == "n") return m.Refine(ref["n"].get<int>());
    if (k == "len") return m.RefineToLength(Num(ref["x"]));
    return m.RefineToTolerance(Num(ref["x"]));
  }

  // Simplify(t) / SetTolerance(t) of a piecewise-planar lattice solid X
  void Simp(const Manifold& X, const MeshGL64& gX, const json& c, const json& s, const std::string& on) {
    step++;
    const std::string k = s["k"];
    const double t = Num(s["t"]);
    const std::string what = on + "." + k + "(" + s["t"].get<std::string>() + ")";
    Manifold r = k == "simplify" ? X.Simplify(t) : X.SetTolerance(t);
    MeshGL64 g = r.GetMeshGL64();
    if (r.Status() != Manifold::Error::NoError) {
      F.add("simp-status", step, D(what, {{"status", ErrName(r.Status())}}));
      return;
    }
    Floor(r, what);
    if (k == "settol") {
      const double got = r.GetTolerance();
      const double a = std::max(t, r.GetEpsilon()), b = std::max(t, X.GetEpsilon());
      if (got != a && got != b) F.add("tol-report", step, D(what, {{"got", got}, {"t", t}, {"epsilon", r.GetEpsilon()}, {"epsilonBefore", X.GetEpsilon()}}));
    } else if (r.GetTolerance() != X.GetTolerance()) {
      F.add("diag-simplify-tolerance", step, D(what, {{"got", r.GetTolerance()}, {"before", X.GetTolerance()}}));
    }
    std::string why = Closed2Manifold(g);
    if (!why.empty()) F.add("simp-manifold", step, D(what, {{"clause", why}}));
    if ((long)g.NumTri() > (long)gX.NumTri()) F.add("simp-grow", step, D(what, {{"before", (long)gX.NumTri()}, {"after", (long)g.NumTri()}}));
    json first;
    // "the surface moves by no more than t (in fact only by rounding)": every vertex that
    // remains lies on the surface it came from, and no vertex of that surface is left behind
    const double bound = std::max(t, 1e-9);
    const double dOut = MaxVertDist(g, gX, &first);
    if (!(dOut <= bound)) F.add("simp-vert-off", step, D(what, {{"distance", dOut}, {"bound", bound}, {"vertex", first}}));
    // (zero-volume flaps of a Boolean result are not surface of the solid and may go away:
    // the converse is demanded only when the input has exactly the exposed lattice faces)
    const bool noFlap = RelEq(MeshArea(gX), c["exposed"].get<double>());
    const double dIn = noFlap ? MaxVertDist(gX, g, &first) : 0;
    if (!(dIn <= bound)) F.add("simp-surface-moved", step, D(what, {{"distance", dIn}, {"bound", bound}, {"vertex", first}}));
    if (std::isfinite(dOut) && std::isfinite(dIn)) info["simpMaxDist"] = std::max({info.value("simpMaxDist", 0.0), dOut, dIn});
    // (the API comment promises a subset of the original vertices; the statement does not)
    const long nnew = Missing(PosSet(g), PosSet(gX), &first);
    if (nnew) F.add("diag-vert-new", step, D(what, {{"count", nnew}, {"first", first}}));
    if (s["below"].get<bool>()) {   // t below the feature size: the surface does not move
      CellResult cr = CellsOf(g, w);
      if (!cr.integral || !cr.zeroOne || cr.cells != IntVec(c["cells"])) F.add("simp-cells", step, D(what, {{"got", cr.cells}, {"want", c["cells"]}}));
      const double vol = c["vol"].get<double>();
      if (!RelEq(r.Volume(), vol) || !RelEq(MeshVolume(g), vol)) F.add("simp-volume", step, D(what, {{"got", r.Volume()}, {"oracle", MeshVolume(g)}, {"want", vol}}));
      // area: zero-volume flaps of a Boolean result may legitimately go away;
      // what the solid demands is: not larger than before, not smaller than
      // the exposed lattice faces, equal when the input had exactly those
      const double a0 = MeshArea(gX), a1 = MeshArea(g), ex = c["exposed"].get<double>();
      const bool okA = RelEq(a0, ex) ? RelEq(a1, ex) : (a1 <= a0 * (1 + 1e-9) + 1e-9 && a1 >= ex * (1 - 1e-9) - 1e-9);
      if (!okA || !RelEq(r.SurfaceArea(), a1)) F.add("simp-area", step, D(what, {{"before", a0}, {"after", a1}, {"exposed", ex}, {"api", r.SurfaceArea()}}));
    }
    info["simp"] = info.value("simp", 0) + 1;
    if (g.NumTri() < gX.NumTri()) info["simpRemoved"] = info.value("simpRemoved", 0) + 1;
  }

  int Run(const json& c) {
    name = c["name"].get<std::string>();
    Manifold m0 = Solid(c);
    MeshGL64 g0 = m0.GetMeshGL64();
    if (m0.Status() != Manifold::Error::NoError) {
      F.add("pre-status", 0, D("solid", {{"status", ErrName(m0.Status())}}));
      return 0;
    }
    Floor(m0, "solid");
    const std::vector<int> cells = IntVec(c["cells"]);
    {
      CellResult cr = CellsOf(g0, w);
      if (cr.cells != cells) {   // C02's business; without it nothing below is meaningful
        F.add("pre-cells", 0, D("solid", {{"got", cr.cells}, {"want", cells}}));
        return 0;
      }
    }
    const std::set<P3> pos0 = PosSet(g0);
    info["tri0"] = (long)g0.NumTri();
    const bool tangents = c["sm"]["k"] != "none";
    Manifold ms = m0;
    if (tangents) {
      step++;
      ms = Smoothed(m0, g0, c["sm"]);
      MeshGL64 gs = ms.GetMeshGL64();
      if (ms.Status() != Manifold::Error::NoError) {
        F.add("sm-status", step, D("smooth", {{"status", ErrName(ms.Status())}}));
        return 0;
      }
      Floor(ms, "smooth");
      std::string why = Closed2Manifold(gs);
      if (!why.empty()) F.add("sm-manifold", step, D("smooth", {{"clause", why}}));
      json first;
      // smoothing only adds tangents: the geometry is unchanged until Refine
      if (Missing(pos0, PosSet(gs), &first) || gs.NumTri() != g0.NumTri()) F.add("sm-moved", step, D("smooth", {{"first", first}}));
      info["tangentFloats"] = (long)gs.halfedgeTangent.size();
    }
    int nontrivial = 0;
    Manifold mr = ms;
    MeshGL64 gr = g0;
    bool haveRef = c["ref"]["k"] != "none";
    if (haveRef) {
      step++;
      mr = Refined(ms, c["ref"]);
      gr = mr.GetMeshGL64();
      const std::string pre = tangents ? "tref-" : "ref-";
      if (mr.Status() != Manifold::Error::NoError) {
        F.add(pre + "status", step, D("refine", {{"status", ErrName(mr.Status())}}));
        return 0;
      }
      Floor(mr, "refine");
      info["tri1"] = (long)gr.NumTri();
      if (gr.NumTri() > g0.NumTri()) nontrivial = 1;
      std::string why = Closed2Manifold(gr);
      // an export with properties lists only referenced vertices: stranded ones then show as NumVert() > vertices in use
      if (why.empty() && (long)mr.NumVert() != (long)MergedVertCount(gr)) why = "unreferenced vertex";
      if (!why.empty())
        F.add(pre + "manifold", step, D("refine", {{"clause", why}, {"tri", (long)gr.NumTri()}, {"exportVert", (long)gr.NumVert()}, {"NumVert", (long)mr.NumVert()}, {"inUse", (long)MergedVertCount(gr)}}));
      const bool sound = why.empty();
      if ((long)mr.NumTri() != (long)gr.NumTri()) F.add(pre + "numtri", step, D("refine", {{"NumTri", (long)mr.NumTri()}, {"export", (long)gr.NumTri()}}));
      // original vertices retained / not moved: exact positions, of vertices the surface uses
      json first;
      const long lost = Missing(pos0, PosSet(gr), &first);
      if (lost) {
        const long present = lost - Missing(pos0, PosSet(gr, false), nullptr);   // ... still listed, but stranded
        F.add(tangents ? "tref-vert-moved" : "ref-vert-lost", step, D("refine", {{"count", lost}, {"first", first}, {"stranded", present}}));
      }
      if (!tangents) {
        CellResult cr = CellsOf(gr, w);
        if (!cr.integral || !cr.zeroOne || cr.cells != cells) F.add("ref-cells", step, D("refine", {{"got", cr.cells}, {"want", cells}, {"worst", cr.worst}}));
        const double vol = c["vol"].get<double>();
        if (!RelEq(mr.Volume(), m0.Volume()) || !RelEq(MeshVolume(gr), vol))
          F.add("ref-volume", step, D("refine", {{"before", m0.Volume()}, {"after", mr.Volume()}, {"oracle", MeshVolume(gr)}, {"want", vol}}));
        if (!RelEq(mr.SurfaceArea(), m0.SurfaceArea()) || !RelEq(MeshArea(gr), MeshArea(g0)))
          F.add("ref-area", step, D("refine", {{"before", m0.SurfaceArea()}, {"after", mr.SurfaceArea()}, {"oracleBefore", MeshArea(g0)}, {"oracleAfter", MeshArea(gr)}}));
        // "tiles its triangle exactly": no piece of a proper triangle is degenerate
        auto minArea = [](const MeshGL64& g) {
          double m = INFINITY;
          for (size_t t = 0; t < (size_t)g.NumTri(); t++) {
            auto tv = g.GetTriVerts(t);
            const vec3 a = g.GetVertPos(tv[0]), b = g.GetVertPos(tv[1]), cc = g.GetVertPos(tv[2]);
            m = std::min(m, la::length(la::cross(b - a, cc - a)) / 2.0);
          }
          return m;
        };
        if (minArea(g0) > 1e-9 && !(minArea(gr) > 1e-12)) F.add("ref-degenerate", step, D("refine", {{"minAreaBefore", minArea(g0)}, {"minAreaAfter", minArea(gr)}}));
        json wv;
        const double dOn = MaxVertDist(gr, g0, &wv);
        if (!(dOn <= 1e-9)) F.add("ref-vert-off", step, D("refine", {{"distance", dOn}, {"vertex", wv}}));
        const long factor = c["factor"].get<long>();
        if (factor > 0 && (long)gr.NumTri() != factor * (long)g0.NumTri())
          F.add("ref-count", step, D("refine", {{"before", (long)g0.NumTri()}, {"after", (long)gr.NumTri()}, {"factor", factor}}));
      }
      // a refined mesh can be refined again (stranded vertices would make this read out of bounds)
      // (not attempted on a result already found unsound above)
      if (sound && c.contains("again") && c["again"].get<int>() > 1 && gr.NumTri() < 20000) {
        step++;
        Manifold m2 = mr.Refine(c["again"].get<int>());
        MeshGL64 g2 = m2.GetMeshGL64();
        if (m2.Status() != Manifold::Error::NoError)
          F.add(pre + "status", step, D("refine-again", {{"status", ErrName(m2.Status())}}));
        else {
          std::string why2 = Closed2Manifold(g2);
          if (!why2.empty()) F.add(pre + "manifold", step, D("refine-again", {{"clause", why2}}));
          const long lost2 = Missing(pos0, PosSet(g2), &first);
          if (lost2) F.add(tangents ? "tref-vert-moved" : "ref-vert-lost", step, D("refine-again", {{"count", lost2}, {"first", first}}));
          if (!tangents) {
            const long n2 = c["again"].get<long>();
            if ((long)g2.NumTri() != n2 * n2 * (long)gr.NumTri()) F.add("ref-count", step, D("refine-again", {{"before", (long)gr.NumTri()}, {"after", (long)g2.NumTri()}}));
          }
        }
      }
    }
    // simplification of the redundantly tessellated planar solids
    if (!tangents && c.contains("simp")) {
      for (auto& s : c["simp"]) {
        if (haveRef) Simp(mr, gr, c, s, "refined");
        if (!haveRef) Simp(m0, g0, c, s, "solid");
      }
      if (info.value("simp", 0) > 0) nontrivial = 1;
    }
    return nontrivial;
  }
};

}  // namespace

int RefineMain(int argc, char** argv) {
  Args args(argc, argv, 2);
  if (args.pos.size() < 2) {
    fprintf(stderr, "usage: mfdrive refine <in> <out> [--K=2] [--trace=file] [--from=i] [--to=j]\n");
    return 2;
  }
  auto cases = ReadNdjson(args.pos[0]);
  Out out(args.pos[1]);
  const long from = args.num("from", 0);
  std::unique_ptr<Out> trace;
  if (args.has("trace")) {
    // appended to across resumed runs: open in append mode
    trace.reset(new Out("/dev/null"));
    fclose(trace->f);
    trace->f = fopen(args.str("trace").c_str(), from > 0 ? "a" : "w");
  }
  long nfail = 0, nontrivial = 0;
  const long to = std::min<long>(args.num("to", (long)cases.size()), (long)cases.size());
  for (long i = from; i < to; i++) {
    out.line({{"begin", i}});
    Fails F;
    json info = json::object();
    int nt = 0;
    const std::string kind = cases[i]["kind"];
    if (kind == "part")
      nt = RunPart(cases[i], i, F, trace.get(), info);
    else {
      ProgRunner r{Window{(int)args.num("K", 2)}, F, info};
      nt = r.Run(cases[i]);
    }
    if (!F.list.empty()) nfail++;
    nontrivial += nt;
    out.line({{"i", i}, {"fail", F.list}, {"nontrivial", nt}, {"info", info}});
  }
  out.line({{"done", true}, {"n", (long)cases.size() - from}, {"failed", nfail}, {"nontrivial", nontrivial}, {"hook", HookPresent()}});
  return 0;
}
static Register regRefine("refine", RefineMain);
}  // namespace vf
