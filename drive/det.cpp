// C04: results are bit-identical across schedules, thread counts and backends.
//   mfdrive det <cases.ndjson> <out.ndjson> [--threads=N]
// For each case the result is computed and its export hashed (all MeshGL64
// fields, original IDs renamed by first occurrence because the global ID
// counter depends on process history; ToPolygons / Triangulate output hashed
// raw).  The orchestrator runs the same case file in several configurations
// (serial backend; TBB backend with arena sizes 1,2,3,7,16; repeated) and
// demands equal hashes everywhere.
#include "common.h"
#if MANIFOLD_PAR == 1
#include <tbb/global_control.h>
#endif

namespace vf {
namespace {

OpType OpOf(const std::string& s) {
  if (s == "Add") return OpType::Add;
  if (s == "Subtract") return OpType::Subtract;
  return OpType::Intersect;
}
Manifold ApplyT(const Manifold& m, const std::string& g) {
  if (g == "none") return m;
  if (g == "RZ") return m.Rotate(0, 0, 90);
  if (g == "RX") return m.Rotate(90, 0, 0);
  if (g == "MX") return m.Mirror({1, 0, 0});
  if (g == "TXP") return m.Translate({1, 0, 0});
  return m;
}
Manifold Build(const json& n, int refine, const Manifold* shared) {
  const std::string k = n["k"];
  if (k == "leaf") {
    auto b = n["box"];
    vec3 lo(b[0].get<double>(), b[1].get<double>(), b[2].get<double>());
    vec3 hi(b[3].get<double>(), b[4].get<double>(), b[5].get<double>());
    Manifold m = Manifold::Cube(hi - lo).Translate(lo);
    if (refine > 1) m = m.Refine(refine);
    return ApplyT(m, n["t"]);
  }
  if (k == "ref") return ApplyT(*shared, n["t"]);
  if (k == "let") {
    Manifold s = Build(n["def"], refine, nullptr);
    return Build(n["body"], refine, &s);
  }
  std::vector<Manifold> ch;
  for (auto& c : n["ch"]) ch.push_back(Build(c, refine, shared));
  return ApplyT(ch[0].Boolean(ch[1], OpOf(n["op"])), n["t"]);
}

MeshGL64 Concat(const std::vector<Manifold>& parts) {
  MeshGL64 out;
  out.numProp = 3;
  for (auto& p : parts) {
    MeshGL64 g = p.GetMeshGL64();
    const uint64_t off = out.vertProperties.size() / 3;
    for (size_t v = 0; v < (size_t)g.NumVert(); v++)
      for (int k = 0; k < 3; k++) out.vertProperties.push_back(g.vertProperties[v * g.numProp + k]);
    for (auto t : g.triVerts) out.triVerts.push_back(t + off);
  }
  return out;
}

uint64_t HashPolys(const Polygons& ps) {
  Hasher H;
  H.pod(ps.size());
  for (auto& p : ps) {
    H.pod(p.size());
    for (auto& q : p) { H.pod(q.x); H.pod(q.y); }
  }
  return H.h;
}

Polygons Staircase(int steps, double dx, double ox, double oy) {
  SimplePolygon p;
  for (int i = 0; i < steps; i++) {
    p.push_back({ox + i * dx, oy + i * dx});
    p.push_back({ox + (i + 1) * dx, oy + i * dx});
  }
  p.push_back({ox + steps * dx, oy + steps * dx + 5});
  p.push_back({ox - 5, oy + steps * dx + 5});
  p.push_back({ox - 5, oy});
  return {p};
}

json gFails = json::array();
std::vector<std::string> RunCase(const json& c) {
  std::vector<std::string> h;
  gFails = json::array();
  auto addMesh = [&](const char* tag, const Manifold& m) {
    MeshGL64 g = m.GetMeshGL64();
    h.push_back(std::string(tag) + ":" + Hex(HashMeshModIDs(g)) + ":" + std::to_string(g.NumTri()) + ":" + ErrName(m.Status()));
    if (const char* d = getenv("VERIF_DUMP")) {   // diagnosis of a mismatch: the full export, one file per mesh
      FILE* f = fopen((std::string(d) + "." + tag).c_str(), "w");
      fprintf(f, "numProp %d tol %.17g\n", (int)g.numProp, (double)g.tolerance);
      for (size_t i = 0; i < g.vertProperties.size(); i++) fprintf(f, "%.17g%c", g.vertProperties[i], (i + 1) % g.numProp ? ' ' : '\n');
      fprintf(f, "tris\n");
      for (size_t i = 0; i < g.triVerts.size(); i += 3) fprintf(f, "%lu %lu %lu\n", (unsigned long)g.triVerts[i], (unsigned long)g.triVerts[i + 1], (unsigned long)g.triVerts[i + 2]);
      fprintf(f, "merge\n");
      for (size_t i = 0; i < g.mergeFromVert.size(); i++) fprintf(f, "%lu %lu\n", (unsigned long)g.mergeFromVert[i], (unsigned long)g.mergeToVert[i]);
      fprintf(f, "runs\n");
      for (size_t i = 0; i < g.runIndex.size(); i++) fprintf(f, "%lu\n", (unsigned long)g.runIndex[i]);
      fprintf(f, "faceID\n");
      for (auto x : g.faceID) fprintf(f, "%lu\n", (unsigned long)x);
      fprintf(f, "xf\n");
      for (auto x : g.runTransform) fprintf(f, "%.17g\n", (double)x);
      fclose(f);
    }
  };
  const std::string k = c["k"];
  if (k == "expr") {
    addMesh("expr", Build(c["tree"], c["refine"].get<int>(), nullptr));
  } else if (k == "coincident") {
    // one mesh made of `pairs` pairs of coincident boxes, pierced by thin bars
    const int pairs = c["pairs"];
    std::vector<Manifold> parts;
    for (int i = 0; i < pairs; i++) {
      Manifold b = Manifold::Cube(vec3(1.0)).Translate({2.0 * (i % 8), 2.0 * (i / 8), 0});
      parts.push_back(b);
      parts.push_back(b);
    }
    Manifold Q(Concat(parts));
    Manifold P;
    for (int j = 0; j < 6; j++) P += Manifold::Cube({16.5, 0.1, 0.1}).Translate({-0.25, 2.0 * j + 0.3, 0.2 + 0.1 * j});
    addMesh("Q", Q);
    addMesh("P-Q", P - Q);
    addMesh("P+Q", P + Q);
    addMesh("P^Q", P ^ Q);
  } else if (k == "bowtie") {
    // `units` bow-ties: two tetrahedra sharing an EDGE (shared vertex indices):
    // edges used by 4 triangles; above 2^18 vertices the bucketed pairing path runs
    const int units = c["units"];
    MeshGL64 g;
    g.numProp = 3;
    std::vector<uint64_t> second;
    for (int u = 0; u < units; u++) {
      const double x = 3.0 * (u % 512), y = 3.0 * (u / 512);
      const uint64_t o = g.vertProperties.size() / 3;
      const double P[6][3] = {{x, y, 0}, {x, y, 1}, {x + 1, y, 0.5}, {x + 0.5, y + 1, 0.5}, {x - 1, y, 0.5}, {x - 0.5, y - 1, 0.5}};
      for (auto& p : P) for (double v : p) g.vertProperties.push_back(v);
      const int T1[4][3] = {{0, 1, 2}, {1, 0, 3}, {0, 2, 3}, {2, 1, 3}};   // tet (0,1,2,3)
      const int T2[4][3] = {{1, 0, 4}, {0, 1, 5}, {0, 5, 4}, {5, 1, 4}};   // tet (0,1,4,5) shares edge 0-1
      for (auto& t : T1) for (int v : t) g.triVerts.push_back(o + v);
      for (auto& t : T2) for (int v : t) second.push_back(o + v);
    }
    for (auto v : second) g.triVerts.push_back(v);
    Manifold m(g);
    addMesh("bowtie", m);
  } else if (k == "roundtripbig") {
    // C08 above the 2^18-vertex ingest path: properties + merge vectors on a big mesh
    Manifold m = Manifold::Cube(vec3(1.0)).Refine(c["n"].get<int>()).CalculateNormals(0);
    MeshGL64 g = m.GetMeshGL64();
    Manifold back(g);
    if (back.Status() != Manifold::Error::NoError)
      gFails.push_back({{"kind", "roundtrip"}, {"step", 0}, {"detail", {{"why", std::string("re-import status ") + ErrName(back.Status())}, {"verts", (long)g.NumVert()}, {"merges", g.mergeFromVert.size()}}}});
    else {
      MeshGL64 g2 = back.GetMeshGL64();
      if (g2.NumTri() != g.NumTri() || std::fabs(back.Volume() - m.Volume()) > 1e-9 || back.NumVert() != m.NumVert())
        gFails.push_back({{"kind", "roundtrip"}, {"step", 0}, {"detail", {{"why", "big mesh changed in the round trip"}, {"nt", (long)g.NumTri()}, {"nt2", (long)g2.NumTri()}}}});
    }
    h.push_back("roundtripbig:" + std::to_string(g.NumVert()) + ":" + std::to_string(g.mergeFromVert.size()));
  } else if (k == "touch") {
    // refined boxes that touch along edges and at corners: the results have 4-fold edges and pinched
    // vertices that DedupeEdges / SplitPinchedVerts split, above 1e4 halfedges (their parallel paths)
    const int n = c["refine"];
    auto B = [&](vec3 lo, vec3 size) { return Manifold::Cube(size).Refine(n).Translate(lo); };
    Manifold a = B({0, 0, 0}, {1, 1, 1}), b = B({1, 1, 0}, {1, 1, 1}), cc = B({1, 1, 1}, {1, 1, 1}), d = B({0, 1, 1}, {1, 1, 1});
    addMesh("edge", a + b);
    addMesh("corner", a + cc);
    addMesh("ring", (a + b) + (cc + d));
    addMesh("cut", ((a + b) + d) - B({0.5, 0.5, -0.5}, {1, 1, 3}));
    Manifold s = B({0, -1, -1}, {1, 2, 1});                         // the shape of finding F25
    addMesh("shared", (s + B({-1, 0, 0}, {2, 1, 1})) - s.Translate({1, 0, 0}));
  } else if (k == "sphere") {
    const int seg = c["seg"];
    Manifold a = Manifold::Sphere(1.0, seg), b = Manifold::Sphere(1.0, seg).Translate({0.6, 0.2, 0.1});
    addMesh("a-b", a - b);
    addMesh("a+b", a + b);
    addMesh("split", a.Split(b).first);
    addMesh("simplify", (a - b).Simplify(0.01));
    addMesh("refine", (a ^ b).Refine(2));
  } else if (k == "batch") {
    const int seg = c["seg"];
    std::vector<Manifold> v;
    for (int i = 0; i < 9; i++) v.push_back(Manifold::Sphere(0.7, seg).Translate({0.5 * (i % 3), 0.5 * (i / 3), 0.1 * i}));
    addMesh("batchAdd", Manifold::BatchBoolean(v, OpType::Add));
    addMesh("batchInt", Manifold::BatchBoolean({v[0], v[1], v[3], v[4]}, OpType::Intersect));
    Manifold acc = Manifold::Cube(vec3(3.0), true);
    for (auto& s : v) acc -= s;
    addMesh("chainSub", acc);
  } else if (k == "curvature") {
    addMesh("curvature", Manifold::Sphere(1.0, c["seg"].get<int>()).CalculateCurvature(0, 1));
  } else if (k == "normals") {
    addMesh("normals", (Manifold::Sphere(1.0, c["seg"].get<int>()) - Manifold::Cube(vec3(1.0))).CalculateNormals(0, 40));
  } else if (k == "hull") {
    const int seg = c["seg"];
    addMesh("hull", (Manifold::Sphere(1.0, seg) + Manifold::Cube(vec3(1.5))).Hull());
    addMesh("mink", Manifold::Sphere(0.5, 24).MinkowskiSum(Manifold::Cube(vec3(0.3), true)));
  } else if (k == "levelset") {
    addMesh("levelset", Manifold::LevelSet([](vec3 p) { return 1.0 - la::length(p) + 0.2 * std::sin(5 * p.x); }, Box(vec3(-1.6), vec3(1.6)), c["edge"].get<double>()));
  } else if (k == "smooth") {
    Manifold m = (Manifold::Cube(vec3(2.0), true) - Manifold::Sphere(1.2, 32)).SmoothOut(60).RefineToLength(0.05);
    addMesh("smooth", m);
  } else if (k == "xsec") {
    const int steps = c["steps"];
    CrossSection a(Staircase(steps, 0.01, 0, 0)), b(Staircase(steps, 0.01, 0.005, -0.0025));
    h.push_back("xs-:" + Hex(HashPolys((a - b).ToPolygons())));
    h.push_back("xs+:" + Hex(HashPolys((a + b).ToPolygons())));
    h.push_back("xs^:" + Hex(HashPolys((a ^ b).ToPolygons())));
    h.push_back("xsoff:" + Hex(HashPolys(a.Offset(0.02, JoinType::Round).ToPolygons())));
    Polygons polys = (a - b).ToPolygons();
    std::vector<ivec3> tris = Triangulate(polys);
    Hasher H;
    for (auto& t : tris) { H.pod(t.x); H.pod(t.y); H.pod(t.z); }
    h.push_back("tri:" + Hex(H.h) + ":" + std::to_string(tris.size()));
  } else {
    fprintf(stderr, "unknown det case %s\n", k.c_str());
    exit(2);
  }
  return h;
}

int DetMain(int argc, char** argv) {
  Args args(argc, argv, 2);
  if (args.pos.size() < 2) {
    fprintf(stderr, "usage: mfdrive det <in> <out> [--threads=N]\n");
    return 2;
  }
  auto cases = ReadNdjson(args.pos[0]);
  Out out(args.pos[1]);
  const long from = args.num("from", 0);
#if MANIFOLD_PAR == 1
  tbb::global_control gc(tbb::global_control::max_allowed_parallelism, (size_t)args.num("threads", 16));
#endif
  for (long i = from; i < (long)cases.size(); i++) {
    out.line({{"begin", i}});
    auto h = RunCase(cases[i]);
    out.line({{"i", i}, {"fail", gFails}, {"nontrivial", 1}, {"h", h}});
  }
  out.line({{"done", true}, {"n", (long)cases.size() - from}});
  return 0;
}
static Register regDet("det", DetMain);
}  // namespace
}  // namespace vf
