// Replay of Expr.tla expressions: builds each annotated expression with real
// C++ object lifetimes (temporaries die before the root is forced; "held"
// nodes keep a live user handle; "pre" nodes are forced before use), forces
// the root FIRST and only then every held node, and compares each with the
// cells the specification demands.
//   mfdrive expr <trees.ndjson> <out.ndjson> --K=4 [--eager] [--rehash] [--heldfirst]
#include "common.h"

namespace vf {
namespace {

struct Held {
  Manifold m;
  std::vector<int> cells;
  double vol;
  std::string what;
};

static OpType OpOf(const std::string& s) {
  if (s == "Add") return OpType::Add;
  if (s == "Subtract") return OpType::Subtract;
  return OpType::Intersect;
}

static bool gGeneric = false;   // --generic: the named lattice transforms are replaced by generic (irrational) ones
static Manifold ApplyT(const Manifold& m, const std::string& g) {
  if (g == "none") return m;
  if (gGeneric) {
    if (g == "RZ") return m.Rotate(17.3, -8.9, 41.7);
    if (g == "RX") return m.Rotate(-23.1, 5.3, 12.9);
    if (g == "MX") return m.Mirror({0.8, 0.36, -0.48});
    if (g == "TXP") return m.Translate({0.37, -0.21, 0.13}).Scale({1.0, 1.1, 0.95});
  }
  if (g == "RZ") return m.Rotate(0, 0, 90);
  if (g == "RX") return m.Rotate(90, 0, 0);
  if (g == "RY") return m.Rotate(0, 90, 0);
  if (g == "MX") return m.Mirror({1, 0, 0});
  if (g == "MY") return m.Mirror({0, 1, 0});
  if (g == "TXP") return m.Translate({1, 0, 0});
  if (g == "TYM") return m.Translate({0, -1, 0});
  fprintf(stderr, "unknown transform %s\n", g.c_str());
  exit(2);
}

static std::vector<int> AsVec(const json& j) {
  std::vector<int> v;
  for (auto& x : j) v.push_back(x.get<int>());
  std::sort(v.begin(), v.end());
  return v;
}

struct Builder {
  bool eager;
  std::vector<Held> held;
  const Manifold* shared = nullptr;

  Manifold build(const json& n, bool isRoot) {
    const std::string k = n["k"];
    if (k == "leaf") {
      auto b = n["box"];
      vec3 lo(b[0].get<double>(), b[1].get<double>(), b[2].get<double>());
      vec3 hi(b[3].get<double>(), b[4].get<double>(), b[5].get<double>());
      Manifold m = Manifold::Cube(hi - lo).Translate(lo);
      if (eager) (void)m.NumTri();
      m = ApplyT(m, n["t"]);
      if (eager) (void)m.NumTri();
      return m;
    }
    if (k == "ref") {
      Manifold m = ApplyT(*shared, n["t"]);  // copy of the shared handle, transformed
      if (eager) (void)m.NumTri();
      return m;
    }
    // op node: children are locals of this frame -> dead when we return
    std::vector<Manifold> ch;
    for (auto& c : n["ch"]) ch.push_back(build(c, false));
    Manifold m = ch.size() == 2 ? ch[0].Boolean(ch[1], OpOf(n["op"]))
                                : Manifold::BatchBoolean(ch, OpOf(n["op"]));
    if (eager) (void)m.NumTri();
    if (n["t"] != "none") {
      m = ApplyT(m, n["t"]);  // the untransformed node survives only inside m
      if (eager) (void)m.NumTri();
    }
    const std::string own = n["own"];
    if (!isRoot && own != "temp") {
      if (own == "pre") (void)m.NumTri();  // forced before it is used
      held.push_back({m, AsVec(n["cells"]), n["vol"].get<double>(), own});
    }
    return m;
  }
};

struct ExprRunner {
  Window w;
  bool eager, rehash, heldfirst, droproot = false;
  json fails = json::array();
  void fail(const std::string& kind, const json& d) { fails.push_back({{"kind", kind}, {"step", 0}, {"detail", d}}); }

  void check(const Manifold& m, const std::vector<int>& want, double vol, const std::string& what) {
    MeshGL64 g = m.GetMeshGL64();
    auto st = m.Status();
    if (st != Manifold::Error::NoError) fail("status", {{"node", what}, {"status", ErrName(st)}});
    CellResult cr = CellsOf(g, w);
    if (!cr.integral || !cr.zeroOne) fail("winding", {{"node", what}, {"worst", cr.worst}, {"zeroOne", cr.zeroOne}});
    if (cr.cells != want) fail("cells", {{"node", what}, {"want", want}, {"got", cr.cells}});
    const double v = m.Volume();
    if (std::fabs(v - vol) > 1e-9 * std::max(1.0, vol)) fail("volume", {{"node", what}, {"want", vol}, {"got", v}});
    std::string why = Closed2Manifold(g);
    if (!why.empty() && why != "non-finite tolerance") fail("manifold", {{"node", what}, {"why", why}});
  }

  // general position: the same expression built lazily and eagerly must denote the same solid
  void runGeneric(const json& t) {
    auto eval = [&](bool eagerly, MeshGL64& g, double& vol, Manifold::Error& st) {
      Builder b{eagerly};
      std::optional<Manifold> sharedM;
      const json* body = &t;
      if (t["k"] == "let") {
        sharedM.emplace(b.build(t["def"], true));
        b.shared = &*sharedM;
        body = &t["body"];
      }
      Manifold root = b.build(*body, true);
      g = root.GetMeshGL64();
      vol = root.Volume();
      st = root.Status();
    };
    MeshGL64 g1, g2;
    double v1, v2;
    Manifold::Error s1, s2;
    eval(false, g1, v1, s1);
    eval(true, g2, v2, s2);
    if (s1 != s2) fail("status", {{"lazy", ErrName(s1)}, {"eager", ErrName(s2)}});
    if (std::fabs(v1 - v2) > 1e-8 * std::max(1.0, std::fabs(v1))) fail("volume", {{"lazy", v1}, {"eager", v2}, {"why", "lazy and eager volumes differ"}});
    uint32_t seed = 12345;
    auto rnd = [&]() { seed = seed * 1664525u + 1013904223u; return (seed >> 8) / double(1 << 24); };
    for (int i = 0; i < 60; i++) {
      vec3 p(6 * rnd() - 3, 6 * rnd() - 3, 6 * rnd() - 3);
      if (DistToMesh(g1, p) < 1e-6 || DistToMesh(g2, p) < 1e-6) continue;
      const double w1 = WindingAt(g1, p), w2 = WindingAt(g2, p);
      if (std::lround(w1) != std::lround(w2) || std::fabs(w1 - std::round(w1)) > 1e-6)
        fail("cells", {{"p", {p.x, p.y, p.z}}, {"lazy", w1}, {"eager", w2}, {"why", "point classified differently by the lazily and the eagerly built solid"}});
    }
  }

  void run(const json& t) {
    if (gGeneric) { runGeneric(t); return; }
    Builder b{eager};
    std::optional<Manifold> sharedM;
    const json* body = &t;
    std::vector<int> defCells;
    double defVol = 0;
    std::string defOwn = "temp";
    if (t["k"] == "let") {
      sharedM.emplace(b.build(t["def"], true));
      defCells = AsVec(t["def"]["cells"]);
      defVol = t["def"]["vol"].get<double>();
      defOwn = t["def"]["own"].get<std::string>();
      if (defOwn == "pre") (void)sharedM->NumTri();
      b.shared = &*sharedM;
      body = &t["body"];
    }
    Manifold root = b.build(*body, true);
    uint64_t sharedHash = 0;
    if (droproot) {
      // the derived expression dies WITHOUT ever being evaluated; everything
      // it was derived from must still have its own value (C05)
      root = Manifold();
      for (auto& h : b.held) check(h.m, h.cells, h.vol, h.what + "(root dropped)");
      if (sharedM) check(*sharedM, defCells, defVol, "shared(root dropped)");
      return;
    }
    if (sharedM && defOwn == "temp") sharedM.reset();  // the user's handle to the shared node dies
    if (heldfirst)
      for (auto& h : b.held) check(h.m, h.cells, h.vol, h.what + "(first)");
    if ((*body)["k"] == "leaf") return;
    check(root, AsVec((*body)["cells"]), (*body)["vol"].get<double>(), "root");
    std::vector<uint64_t> hashes;
    for (auto& h : b.held) {
      check(h.m, h.cells, h.vol, h.what);
      hashes.push_back(HashMesh(h.m.GetMeshGL64()));
    }
    if (sharedM) {
      check(*sharedM, defCells, defVol, "shared");
      sharedHash = HashMesh(sharedM->GetMeshGL64());
    }
    if (rehash) {
      // value stability: everything observed above is observed again after the
      // root (and all other handles) were evaluated and after the root died
      const uint64_t rootHash = HashMesh(root.GetMeshGL64());
      Manifold rootCopy = root;
      root = Manifold();
      if (HashMesh(rootCopy.GetMeshGL64()) != rootHash) fail("stability", {{"node", "root-copy"}});
      for (size_t i = 0; i < b.held.size(); i++)
        if (HashMesh(b.held[i].m.GetMeshGL64()) != hashes[i]) fail("stability", {{"node", b.held[i].what}});
      if (sharedM && HashMesh(sharedM->GetMeshGL64()) != sharedHash) fail("stability", {{"node", "shared"}});
    }
  }
};

}  // namespace

int ExprMain(int argc, char** argv) {
  Args args(argc, argv, 2);
  if (args.pos.size() < 2) {
    fprintf(stderr, "usage: mfdrive expr <in> <out> [opts]\n");
    return 2;
  }
  auto trees = ReadNdjson(args.pos[0]);
  Out out(args.pos[1]);
  const long from = args.num("from", 0);
  gGeneric = args.has("generic");
  long nfail = 0, nontrivial = 0;
  for (long i = from; i < (long)trees.size(); i++) {
    out.line({{"begin", i}});
    ExprRunner r{Window{(int)args.num("K", 4)}, args.has("eager"), args.has("rehash"), args.has("heldfirst"), args.has("droproot")};
    r.run(trees[i]);
    if (!r.fails.empty()) nfail++;
    const json& body = trees[i]["k"] == "let" ? trees[i]["body"] : trees[i];
    const int nt = body.contains("vol") && body["vol"].get<double>() > 0 ? 1 : 0;
    nontrivial += nt;
    out.line({{"i", i}, {"fail", r.fails}, {"nontrivial", nt}});
  }
  out.line({{"done", true}, {"n", (long)trees.size() - from}, {"failed", nfail}, {"nontrivial", nontrivial}});
  return 0;
}
static Register regExpr("expr", ExprMain);
}  // namespace vf
