// Replay of Program.tla behaviours against the real public API (binding B1).
//   mfdrive prog <behaviours.ndjson> <out.ndjson> --K=2 [--eager] [--rehash]
//                [--manifold] [--measure] [--roundtrip] [--matrix] [--from=i]
// Every behaviour is {"prog":[action...], "final":[{"h":..,"cells":[..],"vol":n}..]}.
// For each behaviour one result line {"i":idx,"fail":[...],"flags":{...}} is
// written; a line {"begin":idx} precedes it so that a crash is attributable.
#include "common.h"

namespace vf {

struct Obs {
  uint64_t hash = 0;
  size_t nv = 0, nt = 0, ne = 0, np = 0;
  double bb[6] = {0, 0, 0, 0, 0, 0};
  double tol = 0, eps = 0;
  int status = 0, origID = 0, genus = 0;
  bool operator==(const Obs& o) const {
    return hash == o.hash && nv == o.nv && nt == o.nt && ne == o.ne &&
           np == o.np && std::memcmp(bb, o.bb, sizeof bb) == 0 &&
           std::memcmp(&tol, &o.tol, sizeof tol) == 0 && status == o.status &&
           origID == o.origID && genus == o.genus;
  }
  json j() const {
    return {{"hash", Hex(hash)}, {"nv", nv},         {"nt", nt},
            {"tol", tol},        {"status", status}, {"origID", origID}};
  }
};

inline Obs Observe(const Manifold& m) {
  Obs o;
  MeshGL64 g = m.GetMeshGL64();
  o.hash = HashMesh(g);
  o.nv = m.NumVert();
  o.nt = m.NumTri();
  o.ne = m.NumEdge();
  o.np = m.NumProp();
  Box b = m.BoundingBox();
  o.bb[0] = b.min.x; o.bb[1] = b.min.y; o.bb[2] = b.min.z;
  o.bb[3] = b.max.x; o.bb[4] = b.max.y; o.bb[5] = b.max.z;
  o.tol = m.GetTolerance();
  o.status = (int)m.Status();
  o.origID = m.OriginalID();
  o.genus = m.Genus();
  return o;
}

struct Handle {
  std::optional<Manifold> m;
  int value = -1;   // identity of the VALUE (copies share it)
  int nops = 0;     // op nodes in the expression (non-triviality)
  bool forced = false;
};

FILE* gMeshTrace = nullptr;
// record a small exported mesh for validation by Halfedge_Trace.tla
static void TraceMesh(const Manifold& m, const MeshGL64& g) {
  if (!gMeshTrace || g.NumTri() > 120) return;
  json tris = json::array();
  for (size_t t = 0; t < (size_t)g.NumTri(); t++) tris.push_back({g.triVerts[3 * t], g.triVerts[3 * t + 1], g.triVerts[3 * t + 2]});
  bool finite = std::isfinite(g.tolerance);
  for (auto x : g.vertProperties) finite &= std::isfinite(x);
  for (auto x : g.halfedgeTangent) finite &= std::isfinite(x);
  for (auto x : g.runTransform) finite &= std::isfinite(x);
  json r = {{"tris", tris}, {"nv", (long)g.NumVert()}, {"mfrom", g.mergeFromVert}, {"mto", g.mergeToVert},
            {"numVert", m.NumVert()}, {"numEdge", m.NumEdge()}, {"numTri", m.NumTri()}, {"genus", m.Genus()},
            {"status", ErrName(m.Status())}, {"finite", finite}};
  std::string str = r.dump();
  fprintf(gMeshTrace, "%s\n", str.c_str());
}

struct Opts {
  Window w{2};
  bool eager = false, rehash = false, manifold = false, measure = false,
       roundtrip = false, matrix = false;
};

static OpType OpOf(const std::string& s) {
  if (s == "Add") return OpType::Add;
  if (s == "Subtract") return OpType::Subtract;
  return OpType::Intersect;
}

static Manifold ApplyGen(const Manifold& m, const std::string& g, bool matrix) {
  auto T = [&](vec3 v) {
    if (!matrix) return m.Translate(v);
    mat3x4 t = la::identity;
    t[3] = v;
    return m.Transform(t);
  };
  auto M3 = [&](mat3 r) { return m.Transform(mat3x4(r, vec3(0.0))); };
  if (g == "RZ") return matrix ? M3(mat3({0, 1, 0}, {-1, 0, 0}, {0, 0, 1})) : m.Rotate(0, 0, 90);
  if (g == "RX") return matrix ? M3(mat3({1, 0, 0}, {0, 0, 1}, {0, -1, 0})) : m.Rotate(90, 0, 0);
  if (g == "RY") return matrix ? M3(mat3({0, 0, -1}, {0, 1, 0}, {1, 0, 0})) : m.Rotate(0, 90, 0);
  if (g == "MX") return m.Mirror({1, 0, 0});
  if (g == "MY") return m.Mirror({0, 1, 0});
  if (g == "MZ") return m.Mirror({0, 0, 1});
  if (g == "SXN") return m.Scale({-1, 1, 1});
  if (g == "TXP") return T({1, 0, 0});
  if (g == "TXM") return T({-1, 0, 0});
  if (g == "TYP") return T({0, 1, 0});
  if (g == "TYM") return T({0, -1, 0});
  if (g == "TZP") return T({0, 0, 1});
  if (g == "TZM") return T({0, 0, -1});
  fprintf(stderr, "unknown generator %s\n", g.c_str());
  exit(2);
}

static Manifold ApplySame(const Manifold& m, const std::string& s) {
  if (s == "Simplify") return m.Simplify();
  if (s == "AsOriginal") return m.AsOriginal();
  if (s == "Refine2") return m.Refine(2);
  if (s == "SetTol") return m.SetTolerance(1e-6);
  if (s == "Normals") return m.CalculateNormals(0);
  if (s == "Reimport") return Manifold(m.GetMeshGL64());
  if (s == "SetProps")
    return m.SetProperties(3, [](double* o, vec3 p, const double*) {
      o[0] = 2 * p.x + 1;
      o[1] = p.y - p.z;
      o[2] = 3 * p.z + p.x;
    });
  fprintf(stderr, "unknown same-kind %s\n", s.c_str());
  exit(2);
}

static std::vector<int> AsVec(const json& j) {
  std::vector<int> v;
  for (auto& x : j) v.push_back(x.get<int>());
  std::sort(v.begin(), v.end());
  return v;
}

// 2-D crossing-number oracle on Polygons (positive fill = nonzero winding)
static int Winding2D(const Polygons& ps, vec2 p) {
  int w = 0;
  for (auto& poly : ps) {
    const size_t n = poly.size();
    for (size_t i = 0; i < n; i++) {
      vec2 a = poly[i], b = poly[(i + 1) % n];
      if ((a.y <= p.y) != (b.y <= p.y)) {
        const double x = a.x + (p.y - a.y) * (b.x - a.x) / (b.y - a.y);
        if (x > p.x) w += (b.y > a.y) ? 1 : -1;
      }
    }
  }
  return w;
}

struct Runner {
  const Opts& o;
  std::vector<Handle> h;
  std::map<int, Obs> obsOfValue;
  int nextValue = 0;
  json fails = json::array();
  int step = 0;
  int forcedNontrivial = 0;

  explicit Runner(const Opts& o) : o(o), h(16) {}

  void fail(const std::string& kind, const json& detail) {
    fails.push_back({{"kind", kind}, {"step", step}, {"detail", detail}});
  }

  void put(int hi, Manifold m, int nops) {
    h[hi].m.emplace(std::move(m));
    h[hi].value = nextValue++;
    h[hi].nops = nops;
    h[hi].forced = false;
    if (o.eager) {
      (void)h[hi].m->NumTri();
      h[hi].forced = true;
    }
  }

  void observeStable(int hi, const char* when) {
    Obs ob = Observe(*h[hi].m);
    h[hi].forced = true;
    auto it = obsOfValue.find(h[hi].value);
    if (it == obsOfValue.end())
      obsOfValue[h[hi].value] = ob;
    else if (!(it->second == ob))
      fail("stability", {{"h", hi}, {"when", when}, {"first", it->second.j()}, {"now", ob.j()}});
  }

  void checkCells(int hi, const json& rec, const char* when) {
    const Manifold& m = *h[hi].m;
    const std::vector<int> want = AsVec(rec["cells"]);
    MeshGL64 g = m.GetMeshGL64();
    h[hi].forced = true;
    auto st = m.Status();
    if (st != Manifold::Error::NoError)
      fail("status", {{"h", hi}, {"when", when}, {"status", ErrName(st)}});
    CellResult cr = CellsOf(g, o.w);
    if (!cr.integral || !cr.zeroOne)
      fail("winding", {{"h", hi}, {"when", when}, {"worst", cr.worst}, {"zeroOne", cr.zeroOne}});
    if (cr.cells != want)
      fail("cells", {{"h", hi}, {"when", when}, {"want", want}, {"got", cr.cells}});
    const double vol = m.Volume();
    if (std::fabs(vol - (double)want.size()) > 1e-9 * std::max(1.0, (double)want.size()))
      fail("volume", {{"h", hi}, {"when", when}, {"want", want.size()}, {"got", vol}});
    if (h[hi].nops > 0 && !want.empty()) forcedNontrivial++;
    if (o.manifold) {
      TraceMesh(m, g);
      std::string why = Closed2Manifold(g);
      if (!why.empty()) fail("manifold", {{"h", hi}, {"when", when}, {"why", why}});
      const size_t nv = MergedVertCount(g);
      if (m.NumVert() != nv || m.NumTri() != (size_t)g.NumTri() ||
          m.NumEdge() * 2 != 3 * m.NumTri())
        fail("counts", {{"h", hi}, {"nv", m.NumVert()}, {"merged", nv}, {"nt", m.NumTri()}, {"ne", m.NumEdge()}});
      const int chi = (int)nv - (int)(3 * g.NumTri() / 2) + (int)g.NumTri();
      if (m.Genus() != 1 - chi / 2) fail("counts", {{"h", hi}, {"genus", m.Genus()}, {"chi", chi}});
      MeshGL g32 = m.GetMeshGL();
      std::string why32 = Closed2Manifold(g32);
      if (!why32.empty()) fail("manifold", {{"h", hi}, {"when", when}, {"why32", why32}});
    }
    if (o.roundtrip) roundtrip(hi, g);
    if (o.measure) measure(hi, g, want, rec);
  }

  // C08 on lattice meshes: canonical triangle multiset over positions
  void roundtrip(int hi, const MeshGL64& g0) {
    roundtrip1(hi, g0, "as-is");
    const Manifold& m = *h[hi].m;
    if (m.NumTri() == 0 || m.NumTri() > 400) return;
    // derived variants: normals (runFlags bit 1, with back-side runs: flags 3), property channels, tangents
    roundtrip1(hi, m.CalculateNormals(0).GetMeshGL64(), "normals");
    roundtrip1(hi, m.SetProperties(2, [](double* o, vec3 p, const double*) { o[0] = p.x - p.z; o[1] = 0.5 * p.y; }).CalculateNormals(2).GetMeshGL64(), "props+normals@2");
    roundtrip1(hi, m.SmoothOut(30).GetMeshGL64(), "tangents");
    roundtrip1(hi, m.Refine(2).GetMeshGL64(), "refined");
  }
  void roundtrip1(int hi, const MeshGL64& g, const char* variant) {
    Manifold back(g);
    if (back.Status() != Manifold::Error::NoError) {
      fail("roundtrip", {{"h", hi}, {"variant", variant}, {"why", std::string("re-import status ") + ErrName(back.Status())}});
      return;
    }
    MeshGL64 g2 = back.GetMeshGL64();
    auto canon = [](const MeshGL64& m) {
      std::multiset<std::vector<double>> s;
      std::vector<int> runOf(m.NumTri(), -1);
      for (size_t r = 0; r + 1 < m.runIndex.size(); r++)
        for (size_t t = m.runIndex[r] / 3; t < m.runIndex[r + 1] / 3; t++) runOf[t] = (int)r;
      for (size_t t = 0; t < (size_t)m.NumTri(); t++) {
        // rotate so that the lexicographically smallest corner comes first
        std::vector<std::vector<double>> c(3);
        const int rr = runOf[t];
        const bool hasN = rr >= 0 && (size_t)rr < m.runFlags.size() && (m.runFlags[rr] & 2) && m.numProp >= 6;
        for (int k = 0; k < 3; k++) {
          size_t v = m.triVerts[3 * t + k];
          for (size_t p = 0; p < (size_t)m.numProp; p++) {
            double x = m.vertProperties[v * m.numProp + p];
            // channels flagged as normals may differ by renormalisation rounding: compare them to 1e-9
            if (hasN && p >= 3 && p < 6) x = std::round(x * 1e9) / 1e9 + 0.0;
            c[k].push_back(x);
          }
        }
        int best = 0;
        for (int k = 1; k < 3; k++)
          if (c[k] < c[best]) best = k;
        std::vector<double> key;
        for (int k = 0; k < 3; k++)
          for (double x : c[(best + k) % 3]) key.push_back(x);
        const int r = runOf[t];
        key.push_back(r >= 0 ? (double)m.runOriginalID[r] : -1);
        key.push_back(r >= 0 && (size_t)r < m.runFlags.size() ? (double)m.runFlags[r] : 0);
        // an original exports no runTransform: that means identity
        static const double ident[12] = {1, 0, 0, 0, 1, 0, 0, 0, 1, 0, 0, 0};
        const bool hasT = r >= 0 && m.runTransform.size() >= 12 * (size_t)(r + 1);
        for (int q = 0; q < 12; q++) key.push_back(hasT ? m.runTransform[12 * r + q] : ident[q]);
        // the tangent of every directed edge of the triangle, in the same rotation
        if (m.halfedgeTangent.size() == 4 * m.triVerts.size())
          for (int k = 0; k < 3; k++)
            for (int q = 0; q < 4; q++) key.push_back(m.halfedgeTangent[4 * (3 * t + (best + k) % 3) + q]);
        s.insert(key);
      }
      return s;
    };
    if (canon(g) != canon(g2)) fail("roundtrip", {{"h", hi}, {"variant", variant}, {"why", "canonical triangle sets differ"}, {"nt", g.NumTri()}, {"nt2", g2.NumTri()}});
    // an empty mesh has no surface: its tolerance is not compared
    if (g.NumTri() > 0 && g2.tolerance < g.tolerance) fail("roundtrip", {{"h", hi}, {"variant", variant}, {"why", "tolerance shrank"}});
  }

  // C18 on the lattice (DESIGN 3.1: only what the statement demands)
  void measure(int hi, const MeshGL64& g, const std::vector<int>& want, const json& rec) {
    const Manifold& m = *h[hi].m;
    const Window& w = o.w;
    std::vector<char> in(w.N(), 0);
    for (int e : want) in[e] = 1;
    auto rel = [](double a, double b) { return std::fabs(a - b) <= 1e-9 * std::max({1.0, std::fabs(a), std::fabs(b)}); };
    if (!rel(m.Volume(), MeshVolume(g))) fail("measure:volume", {{"h", hi}, {"api", m.Volume()}, {"mesh", MeshVolume(g)}});
    const double area = m.SurfaceArea();
    if (!rel(area, MeshArea(g))) fail("measure:area", {{"h", hi}, {"api", area}, {"mesh", MeshArea(g)}});
    if (rec.contains("faces") && area < rec["faces"].get<double>() - 1e-9)
      fail("measure:area", {{"h", hi}, {"api", area}, {"exposed", rec["faces"]}});
    const bool noFlaps = rec.contains("faces") && rel(area, rec["faces"].get<double>());
    // bounding box: tight box of the vertices, superset of the cell extent
    Box bb = m.BoundingBox();
    if (g.NumTri() > 0) {
      vec3 lo(1e300), hi3(-1e300);
      const size_t nv = g.vertProperties.size() / g.numProp;
      for (size_t v = 0; v < nv; v++) {
        vec3 p = g.GetVertPos(v);
        lo = la::min(lo, p);
        hi3 = la::max(hi3, p);
      }
      if (!(bb.min == lo) || !(bb.max == hi3))
        fail("measure:bbox", {{"h", hi}, {"api", {bb.min.x, bb.min.y, bb.min.z, bb.max.x, bb.max.y, bb.max.z}}, {"mesh", {lo.x, lo.y, lo.z, hi3.x, hi3.y, hi3.z}}});
      if (rec.contains("ext") && !want.empty()) {
        auto e = rec["ext"];
        for (int i = 0; i < 3; i++)
          if (bb.min[i] > e[0][i].get<double>() + 1e-12 || bb.max[i] < e[1][i].get<double>() - 1e-12)
            fail("measure:bbox", {{"h", hi}, {"why", "does not contain the cell extent"}});
      }
    }
    // winding number query at all centres
    std::vector<vec3> pts;
    for (int e = 0; e < w.N(); e++) pts.push_back(w.centre(e));
    std::vector<int> wn = m.WindingNumber(pts);
    for (int e = 0; e < w.N(); e++)
      if (wn[e] != (int)in[e]) {
        fail("measure:winding", {{"h", hi}, {"cell", e}, {"api", wn[e]}, {"want", (int)in[e]}});
        break;
      }
    // slices and shadow
    std::vector<char> shadow(w.W() * w.W(), 0);
    for (int z = -w.K; z < w.K; z++) {
      Polygons sl = m.Slice(z + 0.5);
      int npx = 0;
      for (int y = -w.K; y < w.K; y++)
        for (int x = -w.K; x < w.K; x++) {
          const bool want1 = in[w.enc(x, y, z)];
          if (want1) {
            npx++;
            shadow[(x + w.K) + w.W() * (y + w.K)] = 1;
          }
          const int wd = Winding2D(sl, vec2(x + 0.5, y + 0.5));
          if (wd != (want1 ? 1 : 0)) {
            fail("measure:slice", {{"h", hi}, {"z", z}, {"x", x}, {"y", y}, {"winding", wd}, {"want", want1}});
            y = w.K;
            break;
          }
        }
      const double a = CrossSection(sl).Area();
      if (!rel(a, npx)) fail("measure:slice", {{"h", hi}, {"z", z}, {"area", a}, {"pixels", npx}});
    }
    {
      Polygons pr = m.Project();
      int npx = 0;
      for (int y = -w.K; y < w.K; y++)
        for (int x = -w.K; x < w.K; x++) {
          const bool want1 = shadow[(x + w.K) + w.W() * (y + w.K)];
          npx += want1;
          const int wd = Winding2D(pr, vec2(x + 0.5, y + 0.5));
          // zero-volume flaps (DESIGN 3.1) have a shadow of their own: the
          // "nothing outside the shadow" half is only demanded without them
          if (want1 ? !(wd > 0) : (noFlaps && wd > 0)) {
            fail("measure:project", {{"h", hi}, {"x", x}, {"y", y}, {"winding", wd}, {"want", want1}});
            y = w.K;
            break;
          }
        }
      const double a = CrossSection(pr).Area();
      if (noFlaps ? !rel(a, npx) : a < npx - 1e-9) fail("measure:project", {{"h", hi}, {"area", a}, {"pixels", npx}});
    }
    // ray casts along the three axes through rows of cell centres
    for (int axis = 0; axis < 3; axis++)
      for (int u = -w.K; u < w.K; u++)
        for (int v = -w.K; v < w.K; v++) {
          vec3 a, b;
          a[axis] = -w.K - 0.5;
          b[axis] = w.K + 0.5;
          a[(axis + 1) % 3] = b[(axis + 1) % 3] = u + 0.5;
          a[(axis + 2) % 3] = b[(axis + 2) % 3] = v + 0.5;
          std::vector<RayHit> hits = m.RayCast(a, b);
          const double L = b[axis] - a[axis];
          double last = -1;
          bool ok = true;
          std::vector<double> ts;
          for (auto& ht : hits) {
            if (ht.distance < last - 1e-12) ok = false;  // sorted
            last = ht.distance;
            const double t = ht.position[axis] - a[axis];
            if (t < -1e-9 || t > L + 1e-9) ok = false;  // on the segment
            if (std::fabs(ht.position[(axis + 1) % 3] - (u + 0.5)) > 1e-9 ||
                std::fabs(ht.position[(axis + 2) % 3] - (v + 0.5)) > 1e-9)
              ok = false;
            ts.push_back(t);
          }
          // parity between consecutive centres (outside, c_-K, ..., c_K-1, outside)
          for (int i = -w.K - 1; i < w.K && ok; i++) {
            auto memb = [&](int c) {
              if (c < -w.K || c >= w.K) return 0;
              int cc[3];
              cc[axis] = c; cc[(axis + 1) % 3] = u; cc[(axis + 2) % 3] = v;
              return (int)in[w.enc(cc[0], cc[1], cc[2])];
            };
            const double t0 = (i + 0.5) - a[axis], t1 = (i + 1.5) - a[axis];
            int n = 0;
            for (double t : ts) n += (t > t0 && t < t1);
            if ((n % 2 != 0) != (memb(i) != memb(i + 1))) ok = false;
          }
          if (!ok) {
            json hj = json::array();
            for (auto& ht : hits) hj.push_back({ht.distance, ht.position.x, ht.position.y, ht.position.z});
            fail("measure:raycast", {{"h", hi}, {"axis", axis}, {"u", u}, {"v", v}, {"hits", hj}});
            axis = 3; u = w.K;
            break;
          }
        }
    // decompose: a partition that never splits a face-connected component
    {
      std::vector<Manifold> parts = m.Decompose();
      double vsum = 0;
      std::vector<int> owner(w.N(), -1);
      bool ok = true;
      for (size_t p = 0; p < parts.size(); p++) {
        vsum += parts[p].Volume();
        CellResult cr = CellsOf(parts[p].GetMeshGL64(), w);
        for (int e : cr.cells) {
          if (owner[e] != -1 || !in[e]) ok = false;
          owner[e] = (int)p;
        }
      }
      for (int e = 0; e < w.N(); e++)
        if (in[e] && owner[e] == -1) ok = false;
      // face adjacency never crosses parts
      for (int e = 0; e < w.N() && ok; e++) {
        if (!in[e]) continue;
        int x, y, z;
        w.dec(e, x, y, z);
        const int nb[3][3] = {{1, 0, 0}, {0, 1, 0}, {0, 0, 1}};
        for (auto& d : nb) {
          const int X = x + d[0], Y = y + d[1], Z = z + d[2];
          if (X >= w.K || Y >= w.K || Z >= w.K) continue;
          const int f = w.enc(X, Y, Z);
          if (in[f] && owner[f] != owner[e]) ok = false;
        }
      }
      if (!ok || !rel(vsum, (double)want.size()))
        fail("measure:decompose", {{"h", hi}, {"parts", parts.size()}, {"vsum", vsum}, {"want", want.size()}});
      if (want.empty() && !m.IsEmpty() == false && parts.size() != 0)
        fail("measure:decompose", {{"h", hi}, {"why", "empty manifold has components"}});
    }
    if (m.IsEmpty() != (g.NumTri() == 0) || m.NumProp() != (size_t)g.numProp - 3)
      fail("measure:counts", {{"h", hi}});
  }

  void after(const char* when) {
    if (!o.rehash) return;
    for (size_t i = 1; i < h.size(); i++)
      if (h[i].m && h[i].forced) observeStable((int)i, when);
  }

  void run(const json& beh) {
    const json& prog = beh["prog"];
    for (step = 0; step < (int)prog.size(); step++) {
      const json& a = prog[step];
      const std::string k = a["a"];
      if (k == "Leaf") {
        auto b = a["box"];
        vec3 lo(b[0].get<double>(), b[1].get<double>(), b[2].get<double>());
        vec3 hi(b[3].get<double>(), b[4].get<double>(), b[5].get<double>());
        Manifold leaf = Manifold::Cube(hi - lo).Translate(lo);
        if (a.contains("p") && a["p"].get<int>() == 1) leaf = ApplySame(leaf, "SetProps");
        put(a["h"], leaf, 0);
      } else if (k == "Bool") {
        const Handle &x = h[a["x"].get<int>()], &y = h[a["y"].get<int>()];
        put(a["h"], x.m->Boolean(*y.m, OpOf(a["op"])), x.nops + y.nops + 1);
      } else if (k == "BoolAssign") {
        Handle& x = h[a["x"].get<int>()];
        const Handle& y = h[a["y"].get<int>()];
        const int nops = x.nops + y.nops + 1;
        const std::string op = a["op"];
        if (op == "Add") *x.m += *y.m;
        else if (op == "Subtract") *x.m -= *y.m;
        else *x.m ^= *y.m;
        x.value = nextValue++;
        x.nops = nops;
        x.forced = false;
        if (o.eager) { (void)x.m->NumTri(); x.forced = true; }
      } else if (k == "Batch") {
        std::vector<Manifold> v;
        int nops = 1;
        for (auto& xi : a["xs"]) {
          v.push_back(*h[xi.get<int>()].m);
          nops += h[xi.get<int>()].nops;
        }
        put(a["h"], Manifold::BatchBoolean(v, OpOf(a["op"])), nops);
      } else if (k == "Xf") {
        const Handle& x = h[a["x"].get<int>()];
        put(a["h"], ApplyGen(*x.m, a["g"], o.matrix), x.nops);
      } else if (k == "XfAssign") {
        Handle& x = h[a["x"].get<int>()];
        *x.m = ApplyGen(*x.m, a["g"], o.matrix);
        x.value = nextValue++;
        x.forced = false;
        if (o.eager) { (void)x.m->NumTri(); x.forced = true; }
      } else if (k == "Same") {
        const Handle& x = h[a["x"].get<int>()];
        const bool wasForced = x.forced;
        put(a["h"], ApplySame(*x.m, a["s"]), x.nops);
        // these derivations evaluate their operand
        h[a["x"].get<int>()].forced = true;
        (void)wasForced;
      } else if (k == "Split") {
        const Handle &x = h[a["x"].get<int>()], &y = h[a["y"].get<int>()];
        auto pr = x.m->Split(*y.m);
        const int n = x.nops + y.nops + 1;
        put(a["h"], pr.first, n);
        put(a["h2"], pr.second, n);
      } else if (k == "Plane") {
        const Handle& x = h[a["x"].get<int>()];
        vec3 nrm(0.0);
        nrm[a["axis"].get<int>() - 1] = 1;
        auto pr = x.m->SplitByPlane(nrm, a["off"].get<double>());
        put(a["h"], pr.first, x.nops + 1);
        put(a["h2"], pr.second, x.nops + 1);
        h[a["x"].get<int>()].forced = true;
        Manifold tr = x.m->TrimByPlane(nrm, a["off"].get<double>());
        if (std::fabs(tr.Volume() - pr.first.Volume()) > 1e-9)
          fail("cells", {{"why", "TrimByPlane volume differs from SplitByPlane.first"}});
      } else if (k == "Copy") {
        const int x = a["x"], t = a["h"];
        h[t].m.emplace(*h[x].m);  // copy constructor
        h[t].value = h[x].value;
        h[t].nops = h[x].nops;
        h[t].forced = false;  // the copy holds its own pNode_
      } else if (k == "Assign") {
        const int x = a["x"], t = a["h"];
        *h[t].m = *h[x].m;  // copy assignment onto a live object
        h[t].value = h[x].value;
        h[t].nops = h[x].nops;
        h[t].forced = false;
      } else if (k == "Drop") {
        h[a["h"].get<int>()].m.reset();
        h[a["h"].get<int>()].forced = false;
      } else if (k == "Force") {
        const int x = a["h"];
        const std::string q = a["q"];
        if (q == "mesh") {
          checkCells(x, a, "force");
          observeStable(x, "force");
        } else if (q == "status") {
          auto st = h[x].m->Status();
          h[x].forced = true;
          if (st != Manifold::Error::NoError) fail("status", {{"h", x}, {"status", ErrName(st)}});
        } else {
          const double v = h[x].m->Volume();
          h[x].forced = true;
          if (std::fabs(v - a["vol"].get<double>()) > 1e-9 * std::max(1.0, a["vol"].get<double>()))
            fail("volume", {{"h", x}, {"want", a["vol"]}, {"got", v}});
        }
      } else {
        fprintf(stderr, "unknown action %s\n", k.c_str());
        exit(2);
      }
      after(k.c_str());
    }
    step = (int)prog.size();
    for (auto& f : beh["final"]) {
      const int x = f["h"];
      checkCells(x, f, "final");
      observeStable(x, "final");
    }
    after("final");
    if (o.measure) mingap(beh["final"]);
  }

  // C18 MinGap on the lattice: the minimum distance between the two cell sets, clamped to the
  // search length, 0 when they intersect or touch.  Only for solids without zero-volume flaps
  // (SurfaceArea = exposed faces), whose surface is exactly the cell boundary.
  void mingap(const json& fin) {
    std::vector<const json*> ok;
    for (auto& f : fin) {
      const Manifold& m = *h[f["h"].get<int>()].m;
      if (f["cells"].empty()) continue;
      if (std::fabs(m.SurfaceArea() - f["faces"].get<double>()) > 1e-9) continue;
      ok.push_back(&f);
      if (ok.size() == 3) break;
    }
    for (size_t i = 0; i < ok.size(); i++)
      for (size_t j = i + 1; j < ok.size(); j++) {
        long best = -1;
        for (auto& ca : (*ok[i])["cells"])
          for (auto& cb : (*ok[j])["cells"]) {
            int a[3], b[3];
            o.w.dec(ca.get<int>(), a[0], a[1], a[2]);
            o.w.dec(cb.get<int>(), b[0], b[1], b[2]);
            long d2 = 0;
            for (int k = 0; k < 3; k++) {
              const long g = std::max(0, std::abs(a[k] - b[k]) - 1);
              d2 += g * g;
            }
            if (best < 0 || d2 < best) best = d2;
          }
        for (double L : {0.75, 10.0, std::numeric_limits<double>::infinity()}) {
          const double want = std::min(L, std::sqrt((double)best));
          const Manifold &A = *h[(*ok[i])["h"].get<int>()].m, &B = *h[(*ok[j])["h"].get<int>()].m;
          const double g1 = A.MinGap(B, L), g2 = B.MinGap(A, L);
          if (std::fabs(g1 - want) > 1e-9 || std::fabs(g2 - want) > 1e-9)
            fail("measure:mingap", {{"a", (*ok[i])["h"]}, {"b", (*ok[j])["h"]}, {"L", L}, {"want", want}, {"got", g1}, {"gotReversed", g2}});
        }
      }
  }
};

int ProgMain(int argc, char** argv) {
  Args args(argc, argv, 2);
  if (args.pos.size() < 2) {
    fprintf(stderr, "usage: mfdrive prog <in> <out> [opts]\n");
    return 2;
  }
  Opts o;
  o.w.K = (int)args.num("K", 2);
  o.eager = args.has("eager");
  o.rehash = args.has("rehash");
  o.manifold = args.has("manifold");
  o.measure = args.has("measure");
  o.roundtrip = args.has("roundtrip");
  o.matrix = args.has("matrix");
  const long from = args.num("from", 0);
  if (args.has("trace")) gMeshTrace = fopen(args.str("trace").c_str(), from > 0 ? "a" : "w");
  auto behs = ReadNdjson(args.pos[0]);
  Out out(args.pos[1]);
  long nfail = 0, nontrivial = 0;
  for (long i = from; i < (long)behs.size(); i++) {
    out.line({{"begin", i}});
    Runner r(o);
    r.run(behs[i]);
    if (!r.fails.empty()) nfail++;
    if (r.forcedNontrivial > 0) nontrivial++;
    out.line({{"i", i}, {"fail", r.fails}, {"nontrivial", r.forcedNontrivial}});
  }
  if (gMeshTrace) fclose(gMeshTrace);
  out.line({{"done", true}, {"n", (long)behs.size() - from}, {"failed", nfail}, {"nontrivial", nontrivial}});
  return 0;
}

static Register regProg("prog", ProgMain);
}  // namespace vf
