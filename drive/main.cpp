// mfdrive: conformance driver binding the TLA+ specifications in /verif/spec to
// the implementation built from /repo's working tree. One sub-command per
// family of specification (each drive/*.cpp registers its own); see the files.
#include <unistd.h>

#include <cstdio>
#include <cstring>
#include <exception>

#include "common.h"

static void OnTerminate() {
  // a C++ exception escaping the library is itself an observation (C09)
  fprintf(stderr, "MFDRIVE-TERMINATE: uncaught exception\n");
  fflush(stderr);
  _exit(70);
}

int main(int argc, char** argv) {
  std::set_terminate(OnTerminate);
  if (argc < 2 || !vf::Registry().count(argv[1])) {
    fprintf(stderr, "usage: mfdrive <sub-command> args; sub-commands:");
    for (auto& kv : vf::Registry()) fprintf(stderr, " %s", kv.first.c_str());
    fprintf(stderr, "\n");
    return 2;
  }
  return vf::Registry()[argv[1]](argc, argv);
}
