// mfdrive: conformance driver binding the TLA+ specifications in /verif/spec to
// the implementation built from /repo's working tree. One sub-command per
// family of specification; see the individual files.
#include <cstdio>
#include <cstring>
#include <exception>
#include <unistd.h>

namespace vf {
int ProgMain(int, char**);
int ExprMain(int, char**);
}

static void OnTerminate() {
  // a C++ exception escaping the library is itself an observation (C09)
  fprintf(stderr, "MFDRIVE-TERMINATE: uncaught exception\n");
  fflush(stderr);
  _exit(70);
}

int main(int argc, char** argv) {
  std::set_terminate(OnTerminate);
  if (argc < 2) {
    fprintf(stderr, "usage: mfdrive <prog|...> args\n");
    return 2;
  }
  if (!strcmp(argv[1], "prog")) return vf::ProgMain(argc, argv);
  if (!strcmp(argv[1], "expr")) return vf::ExprMain(argc, argv);
  fprintf(stderr, "unknown sub-command %s\n", argv[1]);
  return 2;
}
