// Replay of spec/Xsec.tla programs on the real CrossSection API (C11).
//   mfdrive xsec <programs.ndjson> <out.ndjson> [--K=k] [--jitter=e] [--from=i]
// --jitter=e displaces every input vertex pseudo-randomly by less than 10^-e (far below the operation's
// epsilon, ~1e-11 here): C11 demands the same values at every point farther than epsilon from the input
// edges, so the demanded pixel sets and areas (to 1e-9) are unchanged; only the `lattice` clause is dropped.
// A program is {"K":k,"prog":[step...]}; a step is
//   {"a":"Leaf","rule":"Positive"|"EvenOdd","cs":[[[X,Y]..]..],"via":..}   (doubled integer coordinates;
//        via = which constructor: "polys" | "simple" | "rect" | "square", see Xsec.tla!LeafVia)
//   {"a":"Bool","op":..,"x":i,"y":j,"sym":b,"form":"method"|"operator"|"assign"}
//   {"a":"Batch","op":..,"xs":[..],"sym":b} | {"a":"Xf","g":..,"x":i}   (g: Xsec.tla!Gen2)
// (x, y, xs are 1-based indices of earlier steps) and carries what the
// specification demands of its value: "pix" (encoded pixels whose centre is
// inside), "n" = |pix|, "lat" (value is lattice-rectilinear: region = union of
// whole pixels, Area = n), "o" (1: observe the object as soon as it exists).
//
// Checked for every step's object (in a final sweep, after everything else
// has been executed), kinds of failure:
//   pixels   pixel centres inside (independent crossing-number oracle on
//            ToPolygons()) differ from pix; for lat values also 4 more
//            sample points per pixel ("exactly the pixel-set result")
//   winding  a sample point has winding number outside {0,1}
//   area     lat: |Area() - n| > 1e-9 max(1,n)
//   regular  `Regularized(ToPolygons())` (xsec.h) fails: exact predicates
//   lattice  lat: an output vertex is not a lattice point / an output edge is
//            not axis-parallel
//   order    sym: the operation with operands in the opposite order gives a
//            different pixel set or area
//   finite   non-finite output coordinate or area
// LATTICE-POLYGON programs (spec/XsecPoly.tla; the program carries "S" and "offs"): a value is judged at the
// specification's sample points (pixel corner + 1/2 + offs[k]/S, k = 0..7; "pix" holds PixEnc*256 + bit mask of the
// samples inside) instead of pixel centres, and additionally
//   area     "area2": |Area() - area2/2| > 1e-9; "arel" [[coef,step]..]: the areas of the steps do not satisfy
//            the linear relation that the set formulas imply (inclusion-exclusion)
//   dense    the output differs from the set formula at a point of a 25-per-pixel grid; the formula (fill rule
//            of the winding number w.r.t. the INPUT contours, Boolean / BatchBoolean as set operations) is
//            evaluated by this driver's own winding oracle and is first validated against the specification's
//            demands at the specification's samples (a disagreement is reported as kind `oracle`: a defect of
//            the check, not of the library); points closer than 1e-6 to an input edge are skipped
// and, owned by C05 (reported, not judged here):
//   stability            ToPolygons() of an object observed earlier changed
//                        bit-wise after later operations, or a copy taken at
//                        creation differs from the original
//   stability:tolerance  GetTolerance() of an object changed across const calls
#include "xsec.h"

#include <array>

namespace vf {
namespace {
using namespace xs;

// "pix" of a lattice-polygon program: PixEnc * 256 + bit mask of the samples of that pixel that are inside
// (XsecPoly.tla!MaskEnc) -> sorted sample tags PixEnc * nOff + k
inline std::vector<int> MaskedSamples(const json& j, int nOff) {
  std::vector<int> v;
  for (auto& x : j) {
    const int m = x.get<int>();
    for (int k = 0; k < nOff; k++)
      if ((m % 256) >> k & 1) v.push_back((m / 256) * nOff + k);
  }
  std::sort(v.begin(), v.end());
  return v;
}

// Windings (xsec.h) with the grouping of the sample points by their y computed once (the lattice-polygon checks
// evaluate many polygon sets on the same points); same arithmetic: sign of the cross product in long double
// with a forward error bound, an untrustworthy value is reported as `uncertain`
struct RowIdx {
  std::vector<double> ys;
  std::vector<std::vector<size_t>> idx;
};
inline RowIdx MakeRows(const std::vector<Sample>& pts) {
  std::map<double, std::vector<size_t>> rows;
  for (size_t i = 0; i < pts.size(); i++) rows[pts[i].y].push_back(i);
  RowIdx R;
  for (auto& r : rows) {
    R.ys.push_back(r.first);
    R.idx.push_back(r.second);
  }
  return R;
}
inline WindingResult WindingsRows(const Polygons& ps, const std::vector<Sample>& pts, const RowIdx& rows) {
  WindingResult R;
  R.w.assign(pts.size(), 0);
  std::vector<std::pair<vec2, vec2>> edges, strad;
  for (auto& p : ps)
    for (size_t i = 0; i < p.size(); i++) edges.push_back({p[i], p[(i + 1) % p.size()]});
  for (size_t r = 0; r < rows.ys.size(); r++) {
    const double y = rows.ys[r];
    strad.clear();
    for (auto& e : edges)
      if ((e.first.y <= y) != (e.second.y <= y)) strad.push_back(e);
    if (strad.empty()) continue;
    for (size_t idx : rows.idx[r]) {
      const double x = pts[idx].x;
      int w = 0;
      for (auto& e : strad) {
        const long double dx = (long double)e.second.x - e.first.x, dy = (long double)e.second.y - e.first.y;
        const long double px = (long double)x - e.first.x, py = (long double)y - e.first.y;
        const long double cr = dx * py - dy * px;
        if (std::fabs(cr) <= 1e-17L * (std::fabs(dx * py) + std::fabs(dy * px))) {
          R.uncertain++;
          continue;
        }
        const bool up = e.second.y > e.first.y;
        if (up && cr > 0) w += 1;
        if (!up && cr < 0) w -= 1;
      }
      R.w[idx] = w;
    }
  }
  return R;
}
// the driver-side dense points of a window: 25 per pixel, off every lattice, half- and fifth-lattice line
struct DenseGrid {
  std::vector<Sample> pts;
  RowIdx rows;
};
inline const DenseGrid& DenseFor(const Window2& w) {
  static std::map<int, DenseGrid> cache;
  auto it = cache.find(w.K);
  if (it != cache.end()) return it->second;
  DenseGrid& g = cache[w.K];
  for (int e = 0; e < w.N(); e++) {
    int x, y;
    w.dec(e, x, y);
    for (int a = 0; a < 5; a++)
      for (int b = 0; b < 5; b++)
        g.pts.push_back({x + (2 * a + 1) / 10.0 + 0.0073113, y + (2 * b + 1) / 10.0 + 0.0041907, (int)g.pts.size()});
  }
  g.rows = MakeRows(g.pts);
  return g;
}

inline double DistToSegment(double px, double py, vec2 a, vec2 b) {
  const double dx = b.x - a.x, dy = b.y - a.y, l2 = dx * dx + dy * dy;
  double t = l2 > 0 ? ((px - a.x) * dx + (py - a.y) * dy) / l2 : 0.0;
  t = std::max(0.0, std::min(1.0, t));
  return std::hypot(px - (a.x + t * dx), py - (a.y + t * dy));
}

struct Obj {
  CrossSection cs;
  CrossSection copy;  // copy-constructed at creation, before any observation
  bool observed = false;
  uint64_t hash = 0;
  double tol = 0;
};

struct XRunner {
  Window2 w;
  double jitter;  // 0 or the magnitude of the pseudo-random displacement of input vertices
  bool inflate = false;
  std::vector<Obj> objs;
  std::vector<Sample> samples;  // per pixel: centre first, then 4 generic points
  json fails = json::array();
  long uncertain = 0, inexact = 0, touches = 0;
  uint64_t rng = 0x9E3779B97F4A7C15ull;

  // lattice-polygon programs (XsecPoly.tla): nOff samples per pixel given by the program, all of them demanded
  bool poly = false;
  int nOff = 5;
  const DenseGrid* dense = nullptr;      // driver-side dense points (poly programs)
  std::vector<char> denseSkip;           // dense point closer than 1e-6 to an input edge: not judged
  long denseUsed = 0;
  RowIdx sampleRows;
  std::vector<std::vector<char>> memS;   // set formula at the spec samples, per step (poly programs)
  std::vector<std::vector<char>> memD;   // set formula at the dense points, per step
  bool denseOk = false;

  XRunner(Window2 w_, double j, const json* prog = nullptr) : w(w_), jitter(j) {
    static const double off[5][2] = {{0.5, 0.5}, {0.21, 0.23}, {0.77, 0.19}, {0.27, 0.81}, {0.83, 0.79}};
    if (prog && prog->contains("offs")) {
      poly = true;
      const double S = (*prog)["S"].get<double>();
      const json& offs = (*prog)["offs"];
      nOff = (int)offs.size();
      for (int e = 0; e < w.N(); e++) {
        int x, y;
        w.dec(e, x, y);
        for (int k = 0; k < nOff; k++)
          samples.push_back({x + 0.5 + offs[k][0].get<double>() / S, y + 0.5 + offs[k][1].get<double>() / S, e * nOff + k});
      }
      sampleRows = MakeRows(samples);
      return;
    }
    for (int e = 0; e < w.N(); e++) {
      int x, y;
      w.dec(e, x, y);
      for (int k = 0; k < 5; k++) samples.push_back({x + off[k][0], y + off[k][1], e * 5 + k});
    }
  }
  void fail(const std::string& kind, int step, const json& d) {
    if (fails.size() < 40) fails.push_back({{"kind", kind}, {"step", step}, {"detail", d}});
  }
  double rnd() {  // xorshift, in [-1,1]
    rng ^= rng << 13;
    rng ^= rng >> 7;
    rng ^= rng << 17;
    return (double)(rng >> 11) / 9007199254740992.0 * 2.0 - 1.0;
  }

  // pixel set (by centres) of a polygon set; also winding sanity of all samples
  struct Pix {
    std::vector<int> centres;          // encoded pixels whose centre has winding 1
    std::vector<int> extraIn;          // sample tags (non-centre) with winding 1
    int badWinding = 0;                // samples with winding outside {0,1}
    json firstBad;
  };
  Pix pixelsOf(const Polygons& P) {
    Pix r;
    WindingResult wr = poly ? WindingsRows(P, samples, sampleRows) : Windings(P, samples);
    uncertain += wr.uncertain;
    for (size_t i = 0; i < samples.size(); i++) {
      const int wn = wr.w[i];
      if (wn != 0 && wn != 1) {
        if (!r.badWinding) r.firstBad = {{"x", samples[i].x}, {"y", samples[i].y}, {"winding", wn}};
        r.badWinding++;
      }
      if (wn == 1) {
        if (poly)
          r.centres.push_back(samples[i].tag);
        else if (samples[i].tag % 5 == 0)
          r.centres.push_back(samples[i].tag / 5);
        else
          r.extraIn.push_back(samples[i].tag);
      }
    }
    std::sort(r.centres.begin(), r.centres.end());
    std::sort(r.extraIn.begin(), r.extraIn.end());
    return r;
  }

  void observe(int k, int atStep) {
    Obj& o = objs[k];
    const double t0 = o.cs.GetTolerance();
    const uint64_t h = HashPolys(o.cs.ToPolygons());
    const double t1 = o.cs.GetTolerance();
    if (std::memcmp(&t0, &t1, sizeof t0) != 0)
      fail("stability:tolerance", atStep, {{"object", k + 1}, {"before", t0}, {"after", t1}, {"across", "ToPolygons"}});
    if (o.observed) {
      if (h != o.hash) fail("stability", atStep, {{"object", k + 1}, {"why", "ToPolygons changed after later operations"}});
      if (std::memcmp(&o.tol, &t0, sizeof t0) != 0)
        fail("stability:tolerance", atStep, {{"object", k + 1}, {"before", o.tol}, {"after", t0}, {"across", "later operations"}});
    }
    o.observed = true;
    o.hash = h;
    o.tol = t1;
  }

  void check(int k, const json& st) {
    const int step = k + 1;
    const Polygons P = objs[k].cs.ToPolygons();
    const std::vector<int> want = poly ? MaskedSamples(st["pix"], nOff) : SortedInts(st["pix"]);
    const double n = st["n"].get<double>();
    if (poly && (double)want.size() != n) fail("oracle", step, {{"why", "n differs from the decoded sample set"}});
    const bool lat = st["lat"].get<bool>();
    for (auto& ring : P)
      for (auto& v : ring)
        if (!std::isfinite(v.x) || !std::isfinite(v.y)) {
          fail("finite", step, {{"why", "non-finite output vertex"}});
          return;
        }
    Pix px = pixelsOf(P);
    if (px.badWinding)
      fail("winding", step, {{"samples", px.badWinding}, {"first", px.firstBad}, {"polys", PolysJson(P)}});
    if (px.centres != want) fail("pixels", step, {{"want", want}, {"got", px.centres}, {"polys", PolysJson(P)}});
    if (lat) {
      // exactly the pixel-set result: every interior sample of a pixel agrees with the pixel
      std::vector<int> wantExtra;
      for (int e : want)
        for (int q = 1; q < 5; q++) wantExtra.push_back(e * 5 + q);
      if (px.extraIn != wantExtra && px.centres == want)
        fail("pixels", step, {{"why", "a pixel is only partly covered"}, {"polys", PolysJson(P)}});
      const double a = objs[k].cs.Area();
      if (!(std::fabs(a - n) <= 1e-9 * std::max(1.0, n))) fail("area", step, {{"want", n}, {"got", a}, {"polys", PolysJson(P)}});
      // (inputs displaced by --jitter are no longer lattice: the clause does not apply to them)
      for (auto& ring : P) {
        bool bad = jitter > 0;
        for (size_t i = 0; i < ring.size() && !bad; i++) {
          const vec2 a0 = ring[i], b0 = ring[(i + 1) % ring.size()];
          if (a0.x != std::nearbyint(a0.x) || a0.y != std::nearbyint(a0.y)) {
            fail("lattice", step, {{"why", "output vertex is not a lattice point"}, {"x", a0.x}, {"y", a0.y}});
            bad = true;
          } else if (a0.x != b0.x && a0.y != b0.y) {
            fail("lattice", step, {{"why", "output edge is not axis-parallel"}, {"from", {a0.x, a0.y}}, {"to", {b0.x, b0.y}}});
            bad = true;
          }
        }
        if (bad) break;
      }
    } else {
      const double a = objs[k].cs.Area();
      if (!std::isfinite(a)) fail("finite", step, {{"why", "non-finite Area"}});
      if (st.contains("area2")) {  // exact doubled area from the specification (shoelace of a lattice triangle)
        const double wantA = st["area2"].get<double>() / 2.0;
        if (!(std::fabs(a - wantA) <= 1e-9 * std::max(1.0, wantA)))
          fail("area", step, {{"want", wantA}, {"got", a}, {"polys", PolysJson(P)}});
      }
    }
    if (poly) polyChecks(k, st, P);
    RegularReport rr = Regularized(P);
    if (rr.inexact) inexact++;  // (then only the certain part of the predicate was decided)
    if (!rr.why.empty())
      fail("regular", step, {{"why", rr.why}, {"where", rr.where}, {"polys", PolysJson(P)}});
    touches += rr.touches;
    // the copy taken at creation is the same value
    if (HashPolys(objs[k].copy.ToPolygons()) != HashPolys(P))
      fail("stability", step, {{"object", step}, {"why", "copy taken at creation differs from the original"}});
  }

  // ---- lattice-polygon programs: the set formula evaluated by this driver's own winding oracle -------------
  // membership of every point of `pts` in every step's value; false if a step kind is not supported
  bool formula(const json& steps, const std::vector<Sample>& pts, const RowIdx& rows, std::vector<std::vector<char>>& mem) {
    mem.assign(steps.size(), std::vector<char>(pts.size(), 0));
    for (size_t k = 0; k < steps.size(); k++) {
      const json& st = steps[k];
      const std::string a = st["a"];
      std::vector<char>& m = mem[k];
      if (a == "Leaf") {
        WindingResult wr = WindingsRows(ContoursOf(st["cs"]), pts, rows);   // the INPUT contours (not displaced)
        if (wr.uncertain) return false;
        const bool eo = st["rule"] == "EvenOdd";
        for (size_t i = 0; i < pts.size(); i++) m[i] = eo ? (wr.w[i] % 2 != 0) : (wr.w[i] > 0);
      } else if (a == "Bool") {
        const std::vector<char>&x = mem[st["x"].get<int>() - 1], &y = mem[st["y"].get<int>() - 1];
        const OpType op = OpOf(st["op"]);
        for (size_t i = 0; i < pts.size(); i++)
          m[i] = op == OpType::Add ? (x[i] || y[i]) : (op == OpType::Subtract ? (x[i] && !y[i]) : (x[i] && y[i]));
      } else if (a == "Batch") {
        std::vector<int> xs;
        for (auto& i : st["xs"]) xs.push_back(i.get<int>() - 1);
        const OpType op = OpOf(st["op"]);
        if (xs.empty()) continue;   // empty batch = empty
        for (size_t i = 0; i < pts.size(); i++) {
          bool v = mem[xs[0]][i];
          for (size_t q = 1; q < xs.size(); q++) {
            const bool u = mem[xs[q]][i];
            v = op == OpType::Add ? (v || u) : (op == OpType::Subtract ? (v && !u) : (v && u));
          }
          m[i] = v;
        }
      } else {
        return false;
      }
    }
    return true;
  }
  void prepareFormula(const json& steps) {
    std::set<std::array<double, 4>> edges;   // distinct input edges
    for (auto& st : steps)
      if (st["a"] == "Leaf")
        for (auto& c : ContoursOf(st["cs"]))
          for (size_t i = 0; i < c.size(); i++) {
            const vec2 a = c[i], b = c[(i + 1) % c.size()];
            edges.insert({a.x, a.y, b.x, b.y});
          }
    dense = &DenseFor(w);
    denseSkip.assign(dense->pts.size(), 0);
    for (size_t i = 0; i < dense->pts.size(); i++)
      for (auto& ed : edges)
        if (DistToSegment(dense->pts[i].x, dense->pts[i].y, vec2(ed[0], ed[1]), vec2(ed[2], ed[3])) < 1e-6) {
          denseSkip[i] = 1;
          break;
        }
    denseUsed = (long)std::count(denseSkip.begin(), denseSkip.end(), 0);
    denseOk = formula(steps, samples, sampleRows, memS) && formula(steps, dense->pts, dense->rows, memD);
  }
  void polyChecks(int k, const json& st, const Polygons& P) {
    if (!denseOk) return;
    const int step = k + 1;
    // the driver's evaluation of the set formula agrees with the specification at the specification's samples
    std::vector<int> mine;
    for (size_t i = 0; i < samples.size(); i++)
      if (memS[k][i]) mine.push_back(samples[i].tag);
    std::sort(mine.begin(), mine.end());
    if (mine != MaskedSamples(st["pix"], nOff)) {
      fail("oracle", step, {{"why", "driver's set formula differs from the specification's demand"}, {"driver", mine}});
      return;
    }
    const std::vector<Sample>& dp = dense->pts;
    WindingResult wr = WindingsRows(P, dp, dense->rows);
    uncertain += wr.uncertain;
    int bad = 0, badW = 0;
    json first, firstW;
    for (size_t i = 0; i < dp.size(); i++) {
      if (denseSkip[i]) continue;
      const int wn = wr.w[i];
      if (wn != 0 && wn != 1) {
        if (!badW++) firstW = {{"x", dp[i].x}, {"y", dp[i].y}, {"winding", wn}};
        continue;
      }
      if ((wn == 1) != (memD[k][i] != 0))
        if (!bad++) first = {{"x", dp[i].x}, {"y", dp[i].y}, {"formula", (int)memD[k][i]}, {"result", wn}};
    }
    if (badW) fail("winding", step, {{"samples", badW}, {"first", firstW}, {"polys", PolysJson(P)}});
    if (bad)
      fail("dense", step, {{"why", "result differs from the set formula"}, {"points", bad}, {"of", denseUsed},
                           {"first", first}, {"polys", PolysJson(P)}});
  }

  // sym: the same operation with the operands in the opposite order
  void orderCheck(int k, const CrossSection& swapped) {
    const Polygons P = objs[k].cs.ToPolygons(), Q = swapped.ToPolygons();
    Pix a = pixelsOf(P), b = pixelsOf(Q);
    if (a.centres != b.centres)
      fail("order", k + 1, {{"why", "pixel sets differ"}, {"forward", a.centres}, {"swapped", b.centres}});
    const double aa = objs[k].cs.Area(), ab = swapped.Area();
    if (!(std::fabs(aa - ab) <= 1e-9 * std::max(1.0, std::fabs(aa))))
      fail("order", k + 1, {{"why", "areas differ"}, {"forward", aa}, {"swapped", ab}});
  }

  void run(const json& prog) {
    const json& steps = prog["prog"];
    objs.reserve(steps.size());
    for (size_t k = 0; k < steps.size(); k++) {
      const json& st = steps[k];
      const std::string a = st["a"];
      Obj o;
      std::optional<CrossSection> swapped;
      if (a == "Leaf") {
        Polygons cs = ContoursOf(st["cs"]);
        if (jitter > 0)
          for (auto& c : cs)
            for (auto& v : c) {
              v.x += jitter * rnd();
              v.y += jitter * rnd();
            }
        const std::string via = jitter > 0 ? "polys" : st.value("via", "polys");
        const bool eo = st["rule"] == "EvenOdd";
        if (via == "rect" || via == "square") {
          // a counter-clockwise lattice rectangle under the Positive rule (Xsec.tla!LeafVia)
          Rect r;
          for (auto& v : cs[0]) r.Union(v);
          o.cs = via == "rect" ? CrossSection(r) : CrossSection::Square(r.Size()).Translate(r.min);
          // --inflate: a rectangle has nothing to decimate, so raising its tolerance does not change the
          // region it denotes; later Booleans must still resolve features at EPSILON, not at this tolerance
          if (inflate) o.cs = o.cs.SetTolerance(0.75);
        } else if (via == "simple") {
          o.cs = eo ? CrossSection::EvenOdd(cs[0]) : CrossSection(cs[0]);
        } else {
          o.cs = eo ? CrossSection::EvenOdd(cs) : CrossSection(cs);
        }
      } else if (a == "Bool") {
        const CrossSection& x = objs[st["x"].get<int>() - 1].cs;
        const CrossSection& y = objs[st["y"].get<int>() - 1].cs;
        const OpType op = OpOf(st["op"]);
        const std::string form = st.value("form", "method");
        if (form == "operator") {
          o.cs = op == OpType::Add ? x + y : (op == OpType::Subtract ? x - y : x ^ y);
        } else if (form == "assign") {
          CrossSection t = x;
          if (op == OpType::Add) t += y;
          else if (op == OpType::Subtract) t -= y;
          else t ^= y;
          o.cs = t;
        } else {
          o.cs = x.Boolean(y, op);
        }
        if (st["sym"].get<bool>()) swapped = y.Boolean(x, op);
      } else if (a == "Batch") {
        std::vector<CrossSection> xs, rev;
        for (auto& i : st["xs"]) xs.push_back(objs[i.get<int>() - 1].cs);
        o.cs = CrossSection::BatchBoolean(xs, OpOf(st["op"]));
        if (st["sym"].get<bool>() && xs.size() > 1) {
          rev.assign(xs.rbegin(), xs.rend());
          swapped = CrossSection::BatchBoolean(rev, OpOf(st["op"]));
        }
      } else if (a == "Xf") {
        o.cs = ApplyGen(objs[st["x"].get<int>() - 1].cs, st["g"]);
      } else {
        fprintf(stderr, "unknown step kind %s\n", a.c_str());
        exit(2);
      }
      o.copy = o.cs;
      objs.push_back(std::move(o));
      if (st.value("o", 1) == 1) observe((int)k, (int)k + 1);
      if (swapped) orderCheck((int)k, *swapped);
      // value semantics: everything observed so far still has its value
      for (size_t j = 0; j < k; j++)
        if (objs[j].observed) observe((int)j, (int)k + 1);
    }
    if (poly) prepareFormula(steps);
    for (size_t k = 0; k < steps.size(); k++) check((int)k, steps[k]);
    // arel: linear relations between the areas of steps implied by the set formulas (inclusion-exclusion)
    for (size_t k = 0; k < steps.size(); k++)
      if (steps[k].contains("arel") && !steps[k]["arel"].empty()) {
        double sum = 0, mag = 0;
        for (auto& t : steps[k]["arel"]) {
          const double a = t[0].get<double>() * objs[t[1].get<int>() - 1].cs.Area();
          sum += a;
          mag += std::fabs(a);
        }
        if (!(std::fabs(sum) <= 1e-9 * std::max(1.0, mag)))
          fail("area", (int)k + 1, {{"why", "areas violate inclusion-exclusion"}, {"relation", steps[k]["arel"]}, {"residual", sum}});
      }
    for (size_t k = 0; k < steps.size(); k++) observe((int)k, (int)steps.size() + 1);
  }
};

int XsecMain(int argc, char** argv) {
  Args args(argc, argv, 2);
  if (args.pos.size() < 2) {
    fprintf(stderr, "usage: mfdrive xsec <in> <out> [--K=k] [--jitter=e] [--from=i]\n");
    return 2;
  }
  auto progs = ReadNdjson(args.pos[0]);
  Out out(args.pos[1]);
  const long from = args.num("from", 0);
  const double jitter = args.has("jitter") ? std::pow(10.0, -(double)args.num("jitter", 13)) : 0.0;
  long nfail = 0, nontrivial = 0, uncertain = 0, inexact = 0, touches = 0;
  for (long i = from; i < (long)progs.size(); i++) {
    out.line({{"begin", i}});
    const int K = progs[i].contains("K") ? progs[i]["K"].get<int>() : (int)args.num("K", 4);
    XRunner r(Window2{K}, jitter, &progs[i]);
    r.inflate = args.has("inflate");
    r.rng ^= (uint64_t)(i + 1) * 0x2545F4914F6CDD1Dull;
    r.run(progs[i]);
    if (!r.fails.empty()) nfail++;
    const json& last = progs[i]["prog"].back();
    const int nt = last["n"].get<double>() > 0 ? 1 : 0;
    nontrivial += nt;
    uncertain += r.uncertain;
    inexact += r.inexact;
    touches += r.touches;
    out.line({{"i", i}, {"fail", r.fails}, {"nontrivial", nt}, {"uncertain", r.uncertain}, {"inexact", r.inexact},
              {"densepts", r.denseOk ? r.denseUsed * (long)progs[i]["prog"].size() : 0L}});
  }
  out.line({{"done", true},       {"n", (long)progs.size() - from}, {"failed", nfail}, {"nontrivial", nontrivial},
            {"uncertain", uncertain}, {"inexact", inexact},         {"touches", touches}});
  return 0;
}
static Register regXsec("xsec", XsecMain);
}  // namespace
}  // namespace vf
