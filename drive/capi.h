// Framework of the C20 driver (drive/capi.cpp): blocks of caller memory with
// guard bytes, dual-world registers (C handle + C++ object), comparators that
// read every C object back through the exported accessor functions.
#pragma once
#include <sstream>

#include "common.h"
#include "manifold/manifoldc.h"

#if defined(__SANITIZE_ADDRESS__)
#define VF_ASAN 1
extern "C" {
size_t __sanitizer_get_current_allocated_bytes();
size_t __sanitizer_get_allocated_size(const volatile void*);
int __lsan_do_recoverable_leak_check();
void __sanitizer_set_death_callback(void (*)(void));
}
#else
#define VF_ASAN 0
#include <malloc.h>
#endif

namespace vf {
namespace capi {

enum Kind { kM, kMV, kCS, kCV, kRH, kSP, kPG, kMG, kMG64, kBX, kRC, kTR, kEC, kCount };
inline const char* KindName(Kind k) {
  static const char* n[] = {"M", "MV", "CS", "CV", "RH", "SP", "PG", "MG", "MG64", "BX", "RC", "TR", "EC"};
  return n[k];
}
inline Kind KindOf(const std::string& s) {
  for (int k = 0; k < kCount; k++)
    if (s == KindName((Kind)k)) return (Kind)k;
  fprintf(stderr, "unknown kind %s\n", s.c_str());
  exit(2);
}

using RayHitVec = std::vector<RayHit>;
using TriVec = std::vector<ivec3>;

// ---- which exported functions were really called in this process ----------
inline std::map<std::string, long>& Hits() {
  static std::map<std::string, long> h;
  return h;
}
inline std::vector<std::string>& NewFns() {
  static std::vector<std::string> v;
  return v;
}
inline void H(const char* name) {
  long& n = Hits()[name];
  if (n++ == 0) NewFns().push_back(name);
}

// ---- phase marker printed when a sanitizer kills the process ---------------
inline std::string& Phase() {
  static std::string p = "idle";
  return p;
}
inline void SetPhase(const char* world, const std::string& fn) {
  std::string& p = Phase();
  p.assign(world);
  p += ' ';
  p += fn;
}

struct TypeOps {
  const char* name;
  size_t (*size)();
  void* (*alloc)();
  void (*destruct)(void*);
  void (*del)(void*);
  size_t cppSize;
};
#define VF_TYPE(cname, CT, CPPT)                                                    \
  TypeOps {                                                                         \
    #cname, [] { H("manifold_" #cname "_size"); return manifold_##cname##_size(); }, \
        []() -> void* { H("manifold_alloc_" #cname); return manifold_alloc_##cname(); }, \
        [](void* p) { H("manifold_destruct_" #cname); manifold_destruct_##cname((CT*)p); }, \
        [](void* p) { H("manifold_delete_" #cname); manifold_delete_##cname((CT*)p); }, sizeof(CPPT) \
  }
inline const TypeOps& T(Kind k) {
  static const TypeOps t[kCount] = {
      VF_TYPE(manifold, ManifoldManifold, Manifold),
      VF_TYPE(manifold_vec, ManifoldManifoldVec, std::vector<Manifold>),
      VF_TYPE(cross_section, ManifoldCrossSection, CrossSection),
      VF_TYPE(cross_section_vec, ManifoldCrossSectionVec, std::vector<CrossSection>),
      VF_TYPE(ray_hit_vec, ManifoldRayHitVec, RayHitVec),
      VF_TYPE(simple_polygon, ManifoldSimplePolygon, SimplePolygon),
      VF_TYPE(polygons, ManifoldPolygons, Polygons),
      VF_TYPE(meshgl, ManifoldMeshGL, MeshGL),
      VF_TYPE(meshgl64, ManifoldMeshGL64, MeshGL64),
      VF_TYPE(box, ManifoldBox, Box),
      VF_TYPE(rect, ManifoldRect, Rect),
      VF_TYPE(triangulation, ManifoldTriangulation, TriVec),
      VF_TYPE(execution_context, ManifoldExecutionContext, ExecutionContext)};
  return t[k];
}

// ---- failures ---------------------------------------------------------------
struct Fails {
  json list = json::array();
  int step = 0;
  std::string fn;
  void add(const std::string& kind, const json& detail) {
    if (list.size() < 12) {
      json d = detail;
      if (d.is_object() && !d.contains("fn")) d["fn"] = fn;
      list.push_back({{"kind", kind}, {"step", step}, {"detail", d}});
    }
  }
};

// ---- caller memory ------------------------------------------------------------
static const size_t kGuard = 32;
struct Block {
  void* p = nullptr;
  bool fromAlloc = false;
  Kind k = kM;
  size_t size = 0;
};
inline unsigned char GuardByte(size_t i) { return (unsigned char)(0xA5 ^ (i * 37)); }

inline size_t AllocBytes() {
#if VF_ASAN
  return __sanitizer_get_current_allocated_bytes();
#else
  struct mallinfo2 mi = mallinfo2();
  return mi.uordblks + mi.hblkhd;
#endif
}

inline Block Acquire(Kind k, bool useAlloc, Fails& F) {
  Block b;
  b.k = k;
  b.fromAlloc = useAlloc;
  SetPhase("c", std::string("acquire ") + T(k).name);
  b.size = T(k).size();
  if (b.size != T(k).cppSize)
    F.add("size", {{"fn", std::string("manifold_") + T(k).name + "_size"}, {"returned", b.size}, {"sizeof_cpp_type", T(k).cppSize}});
  if (useAlloc) {
    b.p = T(k).alloc();
    if (!b.p) F.add("ptr", {{"fn", std::string("manifold_alloc_") + T(k).name}, {"why", "returned null"}});
#if VF_ASAN
    else if (__sanitizer_get_allocated_size(b.p) < T(k).cppSize) {
      F.add("size", {{"fn", std::string("manifold_alloc_") + T(k).name},
                     {"allocated", __sanitizer_get_allocated_size(b.p)},
                     {"sizeof_cpp_type", T(k).cppSize}});
      // reported; do not construct into the short block (that would only stop the process): carry on in caller memory
      b.fromAlloc = false;
      b.size = T(k).cppSize;
    }
#endif
  }
  if (!b.fromAlloc) {
    unsigned char* p = (unsigned char*)malloc(b.size + kGuard);
    memset(p, 0xEE, b.size);
    for (size_t i = 0; i < kGuard; i++) p[b.size + i] = GuardByte(i);
    b.p = p;
  }
  return b;
}
inline bool GuardOK(const Block& b) {
  if (b.fromAlloc || !b.p) return true;
  const unsigned char* p = (const unsigned char*)b.p;
  for (size_t i = 0; i < kGuard; i++)
    if (p[b.size + i] != GuardByte(i)) return false;
  return true;
}
inline void CheckGuard(const Block& b, Fails& F, const char* when) {
  if (!GuardOK(b))
    F.add("guard", {{"type", T(b.k).name}, {"when", when}, {"why", "bytes after manifold_<type>_size() bytes of caller memory were overwritten"}});
}

// ---- names of the C enum constants (from types.h) ----------------------------
inline const std::vector<std::pair<std::string, int>>& CEnum(const std::string& which) {
  static const std::vector<std::pair<std::string, int>> err = {
      {"MANIFOLD_NO_ERROR", MANIFOLD_NO_ERROR},
      {"MANIFOLD_NON_FINITE_VERTEX", MANIFOLD_NON_FINITE_VERTEX},
      {"MANIFOLD_NOT_MANIFOLD", MANIFOLD_NOT_MANIFOLD},
      {"MANIFOLD_VERTEX_INDEX_OUT_OF_BOUNDS", MANIFOLD_VERTEX_INDEX_OUT_OF_BOUNDS},
      {"MANIFOLD_PROPERTIES_WRONG_LENGTH", MANIFOLD_PROPERTIES_WRONG_LENGTH},
      {"MANIFOLD_MISSING_POSITION_PROPERTIES", MANIFOLD_MISSING_POSITION_PROPERTIES},
      {"MANIFOLD_MERGE_VECTORS_DIFFERENT_LENGTHS", MANIFOLD_MERGE_VECTORS_DIFFERENT_LENGTHS},
      {"MANIFOLD_MERGE_INDEX_OUT_OF_BOUNDS", MANIFOLD_MERGE_INDEX_OUT_OF_BOUNDS},
      {"MANIFOLD_TRANSFORM_WRONG_LENGTH", MANIFOLD_TRANSFORM_WRONG_LENGTH},
      {"MANIFOLD_RUN_INDEX_WRONG_LENGTH", MANIFOLD_RUN_INDEX_WRONG_LENGTH},
      {"MANIFOLD_FACE_ID_WRONG_LENGTH", MANIFOLD_FACE_ID_WRONG_LENGTH},
      {"MANIFOLD_INVALID_CONSTRUCTION", MANIFOLD_INVALID_CONSTRUCTION},
      {"MANIFOLD_RESULT_TOO_LARGE", MANIFOLD_RESULT_TOO_LARGE},
      {"MANIFOLD_INVALID_TANGENTS", MANIFOLD_INVALID_TANGENTS},
      {"MANIFOLD_CANCELLED", MANIFOLD_CANCELLED}};
  static const std::vector<std::pair<std::string, int>> op = {
      {"MANIFOLD_ADD", MANIFOLD_ADD}, {"MANIFOLD_SUBTRACT", MANIFOLD_SUBTRACT}, {"MANIFOLD_INTERSECT", MANIFOLD_INTERSECT}};
  static const std::vector<std::pair<std::string, int>> jt = {{"MANIFOLD_JOIN_TYPE_SQUARE", MANIFOLD_JOIN_TYPE_SQUARE},
                                                              {"MANIFOLD_JOIN_TYPE_ROUND", MANIFOLD_JOIN_TYPE_ROUND},
                                                              {"MANIFOLD_JOIN_TYPE_MITER", MANIFOLD_JOIN_TYPE_MITER},
                                                              {"MANIFOLD_JOIN_TYPE_BEVEL", MANIFOLD_JOIN_TYPE_BEVEL}};
  return which == "Error" ? err : which == "OpType" ? op : jt;
}
inline std::string CEnumName(const std::string& which, int v) {
  for (auto& kv : CEnum(which))
    if (kv.second == v) return kv.first;
  return "?" + std::to_string(v);
}
// C++ enumerators by name
inline const std::vector<std::pair<std::string, int>>& XEnum(const std::string& which) {
  using E = Manifold::Error;
  static const std::vector<std::pair<std::string, int>> err = {{"NoError", (int)E::NoError},
                                                               {"NonFiniteVertex", (int)E::NonFiniteVertex},
                                                               {"NotManifold", (int)E::NotManifold},
                                                               {"VertexOutOfBounds", (int)E::VertexOutOfBounds},
                                                               {"PropertiesWrongLength", (int)E::PropertiesWrongLength},
                                                               {"MissingPositionProperties", (int)E::MissingPositionProperties},
                                                               {"MergeVectorsDifferentLengths", (int)E::MergeVectorsDifferentLengths},
                                                               {"MergeIndexOutOfBounds", (int)E::MergeIndexOutOfBounds},
                                                               {"TransformWrongLength", (int)E::TransformWrongLength},
                                                               {"RunIndexWrongLength", (int)E::RunIndexWrongLength},
                                                               {"FaceIDWrongLength", (int)E::FaceIDWrongLength},
                                                               {"InvalidConstruction", (int)E::InvalidConstruction},
                                                               {"ResultTooLarge", (int)E::ResultTooLarge},
                                                               {"InvalidTangents", (int)E::InvalidTangents},
                                                               {"Cancelled", (int)E::Cancelled}};
  static const std::vector<std::pair<std::string, int>> op = {
      {"Add", (int)OpType::Add}, {"Subtract", (int)OpType::Subtract}, {"Intersect", (int)OpType::Intersect}};
  static const std::vector<std::pair<std::string, int>> jt = {{"Square", (int)JoinType::Square},
                                                              {"Round", (int)JoinType::Round},
                                                              {"Miter", (int)JoinType::Miter},
                                                              {"Bevel", (int)JoinType::Bevel}};
  return which == "Error" ? err : which == "OpType" ? op : jt;
}
inline std::string XEnumName(const std::string& which, int v) {
  for (auto& kv : XEnum(which))
    if (kv.second == v) return kv.first;
  return "?" + std::to_string(v);
}
// the correspondence C name -> C++ name: given by the specification (CApi.tla
// ErrorMap/OpMap/JoinMap, passed with --enummap); the built-in copy below is
// only the fall-back for replays without that file.
inline std::map<std::string, std::string>& EnumMap() {
  static std::map<std::string, std::string> m;
  return m;
}
inline void DefaultEnumMap() {
  const char* w[] = {"Error", "OpType", "JoinType"};
  for (auto which : w) {
    auto& c = CEnum(which);
    auto& x = XEnum(which);
    for (size_t i = 0; i < c.size(); i++) EnumMap()[c[i].first] = x[i].first;
  }
}
inline std::string CppNameOfC(const std::string& which, int cval) {
  auto it = EnumMap().find(CEnumName(which, cval));
  return it == EnumMap().end() ? "?unmapped:" + CEnumName(which, cval) : it->second;
}
inline int COf(const std::string& which, const std::string& cppName) {  // C constant that the spec maps to cppName
  for (auto& kv : EnumMap())
    if (kv.second == cppName)
      for (auto& c : CEnum(which))
        if (c.first == kv.first) return c.second;
  return 0;
}

// ---- bitwise comparison ---------------------------------------------------------
template <class A>
inline bool SameBits(const A& a, const A& b) {
  return memcmp(&a, &b, sizeof(A)) == 0;
}
template <class A>
inline bool SameVec(const std::vector<A>& a, const std::vector<A>& b) {
  return a.size() == b.size() && (a.empty() || memcmp(a.data(), b.data(), a.size() * sizeof(A)) == 0);
}
inline std::vector<uint32_t> RenameIDs(const std::vector<uint32_t>& ids) {
  std::map<uint32_t, uint32_t> ren;
  std::vector<uint32_t> out;
  for (auto id : ids) out.push_back(ren.emplace(id, (uint32_t)ren.size()).first->second);
  return out;
}

// reads `len` elements through a "copy into caller array" accessor; the array
// is followed by canaries so that a copy longer than the advertised length is
// seen (and under ASan a copy beyond the canaries is a heap-buffer-overflow)
static const size_t kCanary = 16;
template <class A, class Call>
inline std::vector<A> ReadArr(Fails& F, const char* fn, size_t len, Call call) {
  // a caller has nothing to fetch when the advertised length is 0 (and copy_data would hand
  // memcpy a null source for an empty vector: UB that UBSan stops at, see the findings of C20)
  if (len == 0) return {};
  H(fn);
  std::vector<A> buf(len + kCanary);
  memset((void*)(buf.data() + len), 0xC7, kCanary * sizeof(A));
  SetPhase("c", fn);
  A* r = call((void*)buf.data());
  if (r != buf.data()) F.add("ptr", {{"fn", fn}, {"why", "returned pointer differs from the caller array"}});
  const unsigned char* cz = (const unsigned char*)(buf.data() + len);
  for (size_t i = 0; i < kCanary * sizeof(A); i++)
    if (cz[i] != 0xC7) {
      F.add("len", {{"fn", fn}, {"advertised_length", len}, {"why", "wrote beyond the length its *_length function reports"}});
      break;
    }
  buf.resize(len);
  return buf;
}

}  // namespace capi
}  // namespace vf
