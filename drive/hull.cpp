// C16 - replay of Hull3.tla cases on the real code.
//   mfdrive hull <cases.ndjson> <out.ndjson> [--K=4] [--perm=k] [--mesh] [--from=i]
// kind "pts"  : Manifold::Hull(points) (+ Hull() of the result, Hull({result}))
// kind "cells": unit cubes -> union.Hull(), Compose(cubes).Hull(), Hull(vector)
// kind "mink" : MinkowskiSum / MinkowskiDifference in both operand orders
// Every verdict is taken against the facts the specification printed with the
// case (spans / ext / vol6; sumLower / sumUpper / diffUpper / reachSq); the
// relation itself (Hull3.tla!IsHullOf) is evaluated here in exact 64-bit
// integer arithmetic on the exported MeshGL64 and, for a sample, once more by
// TLC on the recorded mesh (Hull3_Trace.cfg).
#include <array>
#include <chrono>
#include <random>

#include "common.h"
#include "impl.h"

namespace vf {
namespace {

using I3 = std::array<long long, 3>;

static long long Orient(const I3& a, const I3& b, const I3& c, const I3& d) {
  const long long bx = b[0] - a[0], by = b[1] - a[1], bz = b[2] - a[2];
  const long long cx = c[0] - a[0], cy = c[1] - a[1], cz = c[2] - a[2];
  const long long dx = d[0] - a[0], dy = d[1] - a[1], dz = d[2] - a[2];
  return (by * cz - bz * cy) * dx + (bz * cx - bx * cz) * dy + (bx * cy - by * cx) * dz;
}

static bool Integral(double x, long long& out) {
  const double r = std::nearbyint(x);
  if (r != x || std::fabs(r) > 1e6) return false;
  out = (long long)r;
  return true;
}

struct IntMesh {
  bool integral = true;
  std::vector<I3> v;
  std::vector<std::array<int, 3>> t;
};

static IntMesh ToInt(const MeshGL64& g) {
  IntMesh m;
  const size_t nv = g.NumVert();
  for (size_t i = 0; i < nv; i++) {
    auto p = g.GetVertPos(i);
    I3 q{0, 0, 0};
    for (int k = 0; k < 3; k++)
      if (!Integral(p[k], q[k])) m.integral = false;
    m.v.push_back(q);
  }
  for (size_t i = 0; i < (size_t)g.NumTri(); i++) {
    auto tv = g.GetTriVerts(i);
    m.t.push_back({(int)tv[0], (int)tv[1], (int)tv[2]});
  }
  return m;
}

static json PtsJson(const std::vector<I3>& v) {
  json a = json::array();
  for (auto& p : v) a.push_back({p[0], p[1], p[2]});
  return a;
}

struct Runner {
  Window w;
  int perm;
  bool wantMesh;
  json fails = json::array();
  json obs = json::array();   // meshes recorded for TLC trace validation
  json info = json::object();
  int nontrivial = 0;

  void fail(const std::string& kind, const std::string& route, const std::string& why, json d = json::object()) {
    d["route"] = route;
    d["why"] = why;
    fails.push_back({{"kind", kind}, {"step", 0}, {"detail", d}});
  }

  // ---- the relation Hull3!IsHullOf on an exported mesh ----------------------
  // pts: the input points of THIS call (exact doubles); spec facts: spans, ext, vol6
  void checkHull(const std::string& route, const Manifold& h, const std::vector<vec3>& pts, bool spans,
                 const std::vector<I3>& ext, long long vol6, bool record) {
    const auto st = h.Status();
    if (st != Manifold::Error::NoError) {
      fail("hull-status", route, ErrName(st));
      return;
    }
    MeshGL64 g = h.GetMeshGL64();
    const bool empty = g.NumTri() == 0;
    if (empty != h.IsEmpty()) fail("hull-empty", route, "IsEmpty() disagrees with the export");
    IntMesh m = ToInt(g);
    std::vector<I3> ipts;
    bool inputsIntegral = true;
    for (auto& p : pts) {
      I3 q{0, 0, 0};
      for (int k = 0; k < 3; k++)
        if (!Integral(p[k], q[k])) inputsIntegral = false;
      ipts.push_back(q);
    }
    if (record && wantMesh && m.integral && inputsIntegral && m.t.size() <= 120) {
      json tt = json::array();
      for (auto& t : m.t) tt.push_back({t[0], t[1], t[2]});
      obs.push_back({{"route", route}, {"pts", PtsJson(ipts)}, {"v", PtsJson(m.v)}, {"t", tt}});
    }
    if (!spans) {
      // "it is empty when the points span no volume"
      if (!empty)
        fail("hull-empty", route, "not empty",
             {{"numVert", (long)g.NumVert()}, {"numTri", (long)g.NumTri()}, {"volume", h.Volume()}});
      return;
    }
    if (empty) {
      fail("hull-empty", route, "empty although the points span volume");
      return;
    }
    // closed oriented 2-manifold
    const std::string why = Closed2Manifold(g);
    if (!why.empty()) fail("hull-manifold", route, why);
    // every vertex is an input point (exactly: the hull copies positions)
    {
      std::set<std::array<double, 3>> in;
      for (auto& p : pts) in.insert({p.x, p.y, p.z});
      for (size_t i = 0; i < (size_t)g.NumVert(); i++) {
        auto p = g.GetVertPos(i);
        if (!in.count({p[0], p[1], p[2]})) {
          fail("hull-vertex", route, "vertex is not an input point", {{"vertex", {p[0], p[1], p[2]}}});
          break;
        }
      }
    }
    if (!m.integral || !inputsIntegral) {
      info["nonlattice"] = true;  // exact predicates need lattice data
      return;
    }
    // every input point inside or on every face plane
    bool outside = false;
    for (auto& t : m.t) {
      for (auto& p : ipts)
        if (Orient(m.v[t[0]], m.v[t[1]], m.v[t[2]], p) > 0) {
          fail("hull-contain", route, "input point outside a face plane",
               {{"point", {p[0], p[1], p[2]}}, {"face", PtsJson({m.v[t[0]], m.v[t[1]], m.v[t[2]]})}});
          outside = true;
          break;
        }
      if (outside) break;
    }
    // every edge convex or flat
    if (why.empty()) {
      std::map<std::pair<int, int>, int> third;
      for (auto& t : m.t)
        for (int k = 0; k < 3; k++) third[{t[k], t[(k + 1) % 3]}] = t[(k + 2) % 3];
      bool reflex = false;
      for (auto& t : m.t) {
        for (int k = 0; k < 3 && !reflex; k++) {
          auto it = third.find({t[(k + 1) % 3], t[k]});
          if (it == third.end()) continue;
          if (Orient(m.v[t[0]], m.v[t[1]], m.v[t[2]], m.v[it->second]) > 0) {
            fail("hull-convex", route, "reflex edge",
                 {{"edge", PtsJson({m.v[t[k]], m.v[t[(k + 1) % 3]]})}});
            reflex = true;
          }
        }
        if (reflex) break;
      }
    }
    // consequences of the statement, from the spec: conv(P) itself
    std::set<I3> vs(m.v.begin(), m.v.end());
    for (auto& e : ext)
      if (!vs.count(e)) {
        fail("hull-extreme", route, "an extreme input point is not a vertex", {{"point", {e[0], e[1], e[2]}}});
        break;
      }
    long long v6 = 0;
    for (auto& t : m.t) {
      const I3 &a = m.v[t[0]], &b = m.v[t[1]], &c = m.v[t[2]];
      v6 += a[0] * (b[1] * c[2] - b[2] * c[1]) - a[1] * (b[0] * c[2] - b[2] * c[0]) + a[2] * (b[0] * c[1] - b[1] * c[0]);
    }
    if (v6 != vol6) fail("hull-volume", route, "6*volume differs from conv(P)", {{"want", vol6}, {"got", v6}});
    nontrivial = 1;
  }

  static std::vector<I3> I3s(const json& j) {
    std::vector<I3> v;
    for (auto& p : j) v.push_back({p[0].get<long long>(), p[1].get<long long>(), p[2].get<long long>()});
    return v;
  }

  static std::vector<vec3> ExportVerts(const Manifold& m) {
    MeshGL64 g = m.GetMeshGL64();
    std::vector<vec3> v;
    for (size_t i = 0; i < (size_t)g.NumVert(); i++) v.push_back(vec3(g.GetVertPos(i)));
    return v;
  }

  void runPts(const json& c, size_t index) {
    std::vector<vec3> pts;
    for (auto& p : c["pts"]) pts.push_back(vec3(p[0].get<double>(), p[1].get<double>(), p[2].get<double>()));
    // the order of a multiset is not part of the property: permute it
    if (perm == 1) std::reverse(pts.begin(), pts.end());
    if (perm >= 2) {
      std::mt19937 rng(1000003u * (unsigned)perm + (unsigned)index);
      std::shuffle(pts.begin(), pts.end(), rng);
    }
    const bool spans = c["spans"].get<bool>();
    const auto ext = I3s(c["ext"]);
    const long long vol6 = c["vol6"].get<long long>();
    Manifold h = Manifold::Hull(pts);
    checkHull("Hull(pts)", h, pts, spans, ext, vol6, true);
    if (spans && h.Status() == Manifold::Error::NoError && !h.IsEmpty()) {
      // hull of a hull, through the two Manifold routes: same polytope
      checkHull("Hull(pts).Hull()", h.Hull(), ExportVerts(h), true, ext, vol6, false);
      // two hulls that together hold every extreme point: split by parity of index
      std::vector<Manifold> two{h, Manifold::Hull(pts).Translate({0, 0, 0})};
      std::vector<vec3> in = ExportVerts(two[0]);
      auto in2 = ExportVerts(two[1]);
      in.insert(in.end(), in2.begin(), in2.end());
      checkHull("Hull({h,h})", Manifold::Hull(two), in, true, ext, vol6, false);
    }
    if (c.contains("split") && c["split"].size() == 2) {
      // Hull(vector<Manifold>) of two hulls that each lack one extreme point of P
      std::vector<Manifold> parts;
      std::vector<vec3> in;
      for (auto& part : c["split"]) {
        std::vector<vec3> q;
        for (auto& p : part) q.push_back(vec3(p[0].get<double>(), p[1].get<double>(), p[2].get<double>()));
        if (perm == 1) std::reverse(q.begin(), q.end());
        parts.push_back(Manifold::Hull(q));
        auto v = ExportVerts(parts.back());
        in.insert(in.end(), v.begin(), v.end());
      }
      checkHull("Hull({Hull(P1),Hull(P2)})", Manifold::Hull(parts), in, true, ext, vol6, false);
    }
  }

  void runCells(const json& c) {
    std::vector<Manifold> cubes;
    for (auto& p : c["cells"])
      cubes.push_back(Manifold::Cube({1, 1, 1}).Translate({p[0].get<double>(), p[1].get<double>(), p[2].get<double>()}));
    const auto ext = I3s(c["ext"]);
    const long long vol6 = c["vol6"].get<long long>();
    const bool spans = c["spans"].get<bool>();
    std::vector<vec3> corners;
    for (auto& p : c["pts"]) corners.push_back(vec3(p[0].get<double>(), p[1].get<double>(), p[2].get<double>()));
    auto both = [&](const std::vector<vec3>& a) {  // inputs: the source's vertices; the corners must be contained too
      std::vector<vec3> r = a;
      return r;
    };
    {
      Manifold u = Manifold::BatchBoolean(cubes, OpType::Add);
      auto in = both(ExportVerts(u));
      Manifold h = u.Hull();
      checkHull("union.Hull()", h, in, spans, ext, vol6, true);
      containsAll("union.Hull()", h, corners);
    }
    {
      Manifold u = Manifold::Compose(cubes);
      auto in = both(ExportVerts(u));
      checkHull("Compose.Hull()", u.Hull(), in, spans, ext, vol6, false);
    }
    {
      std::vector<vec3> in;
      for (auto& q : cubes) {
        auto v = ExportVerts(q);
        in.insert(in.end(), v.begin(), v.end());
      }
      checkHull("Hull(vector)", Manifold::Hull(cubes), in, spans, ext, vol6, false);
    }
  }

  // every listed lattice point inside or on every face plane of h
  void containsAll(const std::string& route, const Manifold& h, const std::vector<vec3>& pts) {
    IntMesh m = ToInt(h.GetMeshGL64());
    if (!m.integral) return;
    for (auto& t : m.t)
      for (auto& p : pts) {
        I3 q{(long long)p.x, (long long)p.y, (long long)p.z};
        if (Orient(m.v[t[0]], m.v[t[1]], m.v[t[2]], q) > 0) {
          fail("hull-contain", route, "a point of the solid is outside a face plane", {{"point", {q[0], q[1], q[2]}}});
          return;
        }
      }
  }

  // ---- Minkowski ---------------------------------------------------------------
  static Manifold Solid(const json& boxes) {
    std::vector<Manifold> bs;
    for (auto& b : boxes) {
      vec3 lo(b[0].get<double>(), b[1].get<double>(), b[2].get<double>());
      vec3 hi(b[3].get<double>(), b[4].get<double>(), b[5].get<double>());
      bs.push_back(Manifold::Cube(hi - lo).Translate(lo));
    }
    return bs.size() == 1 ? bs[0] : Manifold::BatchBoolean(bs, OpType::Add);
  }
  static std::vector<int> Ints(const json& j) {
    std::vector<int> v;
    for (auto& x : j) v.push_back(x.get<int>());
    std::sort(v.begin(), v.end());
    return v;
  }
  // distance from p to the union of the closed unit cells
  double distToCells(vec3 p, const std::vector<int>& cells) const {
    double best = 1e300;
    for (int e : cells) {
      int x, y, z;
      w.dec(e, x, y, z);
      const double dx = std::max({0.0, x - p.x, p.x - (x + 1)});
      const double dy = std::max({0.0, y - p.y, p.y - (y + 1)});
      const double dz = std::max({0.0, z - p.z, p.z - (z + 1)});
      best = std::min(best, std::sqrt(dx * dx + dy * dy + dz * dz));
    }
    return best;
  }
  static bool Subset(const std::vector<int>& a, const std::vector<int>& b) {
    return std::includes(b.begin(), b.end(), a.begin(), a.end());
  }
  static std::vector<int> Minus(const std::vector<int>& a, const std::vector<int>& b) {
    std::vector<int> r;
    std::set_difference(a.begin(), a.end(), b.begin(), b.end(), std::back_inserter(r));
    return r;
  }

  struct Res {
    bool ok = false;
    MeshGL64 g;
    std::vector<int> cells;
  };
  Res observe(const std::string& route, const Manifold& r) {
    Res o;
    const auto st = r.Status();
    if (st != Manifold::Error::NoError) {
      fail("mink-status", route, ErrName(st));
      return o;
    }
    o.g = r.GetMeshGL64();
    const std::string why = Closed2Manifold(o.g);
    if (!why.empty()) fail("mink-manifold", route, why);
    CellResult cr = CellsOf(o.g, w);
    if (!cr.integral || !cr.zeroOne) {
      fail("mink-winding", route, "winding number at a cell centre is not 0 or 1", {{"worst", cr.worst}});
      return o;
    }
    o.cells = cr.cells;
    o.ok = true;
    return o;
  }

  // X.MinkowskiSum(Y): lower = every x+y; upper (only when the origin is in Y) = within reach(Y) of X
  void checkSum(const std::string& route, const Manifold& r, const std::vector<int>& lower, const json* upper,
                const std::vector<int>& cellsX, long long reachSqY) {
    Res o = observe(route, r);
    if (!o.ok) return;
    if (!Subset(lower, o.cells))
      fail("mink-sum-lower", route, "a point a+b is not in the sum", {{"missingCells", Minus(lower, o.cells)}});
    if (upper) {
      const auto up = Ints(*upper);
      if (!Subset(o.cells, up))
        fail("mink-sum-reach", route, "a cell centre of the sum is farther from A than reach(B)",
             {{"extraCells", Minus(o.cells, up)}});
      const double reach = std::sqrt((double)reachSqY);
      for (size_t i = 0; i < (size_t)o.g.NumVert(); i++) {
        vec3 p(o.g.GetVertPos(i));
        const double d = distToCells(p, cellsX);
        if (d > reach + 1e-9) {
          fail("mink-sum-reach", route, "a vertex of the sum is farther from A than reach(B)",
               {{"vertex", {p.x, p.y, p.z}}, {"dist", d}, {"reach", reach}});
          break;
        }
      }
    }
    info["exactSum"] = info.value("exactSum", 0) + (o.cells == lower ? 1 : 0);
    if (o.cells != lower) info["sumExtra:" + route] = Minus(o.cells, lower);
    if (!o.cells.empty()) nontrivial = 1;
  }
  // X.MinkowskiDifference(Y) with the origin in Y: inside X, and p - y inside X
  void checkDiff(const std::string& route, const Manifold& r, const std::vector<int>& upper,
                 const std::vector<int>& cellsX) {
    Res o = observe(route, r);
    if (!o.ok) return;
    if (!Subset(o.cells, cellsX))
      fail("mink-diff-inside", route, "a cell centre of the difference is outside A", {{"extraCells", Minus(o.cells, cellsX)}});
    else if (!Subset(o.cells, upper))
      fail("mink-diff-erode", route, "a point p of the difference has p-b outside A", {{"extraCells", Minus(o.cells, upper)}});
    for (size_t i = 0; i < (size_t)o.g.NumVert(); i++) {
      vec3 p(o.g.GetVertPos(i));
      const double d = distToCells(p, cellsX);
      if (d > 1e-9) {
        fail("mink-diff-inside", route, "a vertex of the difference is outside A", {{"vertex", {p.x, p.y, p.z}}, {"dist", d}});
        break;
      }
    }
    info["exactDiff"] = info.value("exactDiff", 0) + (o.cells == upper ? 1 : 0);
    info["nonemptyDiff"] = info.value("nonemptyDiff", 0) + (o.cells.empty() ? 0 : 1);
  }

  void runMink(const json& c) {
    Manifold A = Solid(c["A"]), B = Solid(c["B"]);
    const auto cA = Ints(c["cA"]), cB = Ints(c["cB"]);
    const auto lower = Ints(c["sumLower"]);
    // which branch of Impl::Minkowski will run (coverage information only)
    const bool convA = Manifold::Impl(A.GetMeshGL64()).IsConvex();
    const bool convB = Manifold::Impl(B.GetMeshGL64()).IsConvex();
    info["dispatch"] = std::string(convA ? "c" : "n") + (convB ? "c" : "n");
    const bool originA = c["originA"].get<bool>();
    if (c.value("only", std::string("all")) != "diff") {
      const json upAB = c["sumUpperAB"];
      checkSum("A.MinkowskiSum(B)", A.MinkowskiSum(B), lower, &upAB, cA, c["reachSqB"].get<long long>());
      // the other operand order is a call with structuring solid A: judged when A holds the origin
      if (originA) {
        const json upBA = c["sumUpperBA"][0];
        checkSum("B.MinkowskiSum(A)", B.MinkowskiSum(A), lower, &upBA, cB, c["reachSqA"].get<long long>());
      } else {
        (void)observe("B.MinkowskiSum(A)", B.MinkowskiSum(A));  // still must be a valid manifold
      }
    } else {
      nontrivial = 1;
    }
    checkDiff("A.MinkowskiDifference(B)", A.MinkowskiDifference(B), Ints(c["diffUpperAB"]), cA);
    if (originA) checkDiff("B.MinkowskiDifference(A)", B.MinkowskiDifference(A), Ints(c["diffUpperBA"][0]), cB);
  }
};

}  // namespace

int HullMain(int argc, char** argv) {
  Args args(argc, argv, 2);
  if (args.pos.size() < 2) {
    fprintf(stderr, "usage: mfdrive hull <in> <out> [--K=4] [--perm=k] [--mesh]\n");
    return 2;
  }
  auto cases = ReadNdjson(args.pos[0]);
  Out out(args.pos[1]);
  const long from = args.num("from", 0);
  long nfail = 0, nontrivial = 0;
  for (long i = from; i < (long)cases.size(); i++) {
    out.line({{"begin", i}});
    const auto t0 = std::chrono::steady_clock::now();
    Runner r{Window{(int)args.num("K", 4)}, (int)args.num("perm", 0), args.has("mesh")};
    const std::string kind = cases[i]["kind"];
    if (kind == "pts")
      r.runPts(cases[i], (size_t)i);
    else if (kind == "cells")
      r.runCells(cases[i]);
    else if (kind == "mink")
      r.runMink(cases[i]);
    if (!r.fails.empty()) nfail++;
    nontrivial += r.nontrivial;
    r.info["ms"] = (long)std::chrono::duration_cast<std::chrono::milliseconds>(std::chrono::steady_clock::now() - t0).count();
    json line = {{"i", i}, {"fail", r.fails}, {"nontrivial", r.nontrivial}, {"info", r.info}};
    if (!r.obs.empty()) line["obs"] = r.obs;
    out.line(line);
  }
  out.line({{"done", true}, {"n", (long)cases.size() - from}, {"failed", nfail}, {"nontrivial", nontrivial}});
  return 0;
}
static Register regHull("hull", HullMain);
}  // namespace vf
