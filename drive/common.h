// Common helpers of the conformance driver (mfdrive): JSON, independent
// oracles (solid-angle winding number, closed-2-manifold predicate), hashing.
// Nothing in here calls the library's own Boolean/WindingNumber/collider code:
// the oracles work on the exported MeshGL64 only.
#pragma once
#include <algorithm>
#include <cmath>
#include <cstdint>
#include <cstdio>
#include <cstring>
#include <fstream>
#include <functional>
#include <iostream>
#include <map>
#include <nlohmann/json.hpp>
#include <optional>
#include <set>
#include <sstream>
#include <string>
#include <unordered_map>
#include <vector>

#include "manifold/cross_section.h"
#include "manifold/manifold.h"
#include "manifold/polygon.h"

namespace vf {
using json = nlohmann::json;
using namespace manifold;

// ---------- hashing (FNV-1a over raw bytes: bit-identity) -------------------
struct Hasher {
  uint64_t h = 1469598103934665603ull;
  void bytes(const void* p, size_t n) {
    const unsigned char* c = (const unsigned char*)p;
    for (size_t i = 0; i < n; i++) {
      h ^= c[i];
      h *= 1099511628211ull;
    }
  }
  template <typename T>
  void pod(const T& v) {
    bytes(&v, sizeof(T));
  }
  template <typename T>
  void vec(const std::vector<T>& v) {
    uint64_t n = v.size();
    pod(n);
    if (n) bytes(v.data(), n * sizeof(T));
  }
};

template <typename M>
inline uint64_t HashMesh(const M& m) {
  Hasher H;
  H.pod(m.numProp);
  H.vec(m.vertProperties);
  H.vec(m.triVerts);
  H.vec(m.mergeFromVert);
  H.vec(m.mergeToVert);
  H.vec(m.runIndex);
  H.vec(m.runOriginalID);
  H.vec(m.runTransform);
  H.vec(m.runFlags);
  H.vec(m.faceID);
  H.vec(m.halfedgeTangent);
  H.pod(m.tolerance);
  return H.h;
}
// hash insensitive to the (globally allocated) original IDs: for comparing
// the same program run in two processes/configurations where the ID counter
// may have advanced differently.  IDs are renamed by first occurrence.
template <typename M>
inline uint64_t HashMeshModIDs(const M& m) {
  Hasher H;
  H.pod(m.numProp);
  H.vec(m.vertProperties);
  H.vec(m.triVerts);
  H.vec(m.mergeFromVert);
  H.vec(m.mergeToVert);
  H.vec(m.runIndex);
  std::map<uint32_t, uint32_t> ren;
  std::vector<uint32_t> ids;
  for (auto id : m.runOriginalID) {
    auto it = ren.find(id);
    if (it == ren.end()) it = ren.emplace(id, (uint32_t)ren.size()).first;
    ids.push_back(it->second);
  }
  H.vec(ids);
  H.vec(m.runTransform);
  H.vec(m.runFlags);
  H.vec(m.faceID);
  H.vec(m.halfedgeTangent);
  H.pod(m.tolerance);
  return H.h;
}

inline std::string Hex(uint64_t h) {
  char b[32];
  snprintf(b, sizeof b, "%016llx", (unsigned long long)h);
  return b;
}

// ---------- independent winding-number oracle -------------------------------
// Solid angle of triangle (a,b,c) seen from the origin (Van Oosterom &
// Strackee).  Sum over an oriented closed surface / 4pi = winding number.
inline double SolidAngle(vec3 a, vec3 b, vec3 c) {
  const double la_ = la::length(a), lb = la::length(b), lc = la::length(c);
  const double det = la::dot(a, la::cross(b, c));
  const double den = la_ * lb * lc + la::dot(a, b) * lc + la::dot(b, c) * la_ +
                     la::dot(c, a) * lb;
  return 2.0 * std::atan2(det, den);
}

inline double WindingAt(const MeshGL64& m, vec3 p) {
  double sum = 0;
  const size_t nt = m.NumTri();
  for (size_t t = 0; t < nt; t++) {
    auto tv = m.GetTriVerts(t);
    vec3 a = vec3(m.GetVertPos(tv[0])) - p;
    vec3 b = vec3(m.GetVertPos(tv[1])) - p;
    vec3 c = vec3(m.GetVertPos(tv[2])) - p;
    sum += SolidAngle(a, b, c);
  }
  return sum / (4.0 * 3.14159265358979323846);
}

// point-to-triangle / point-to-mesh distance (Ericson), for "away from the surface" masks
inline double PointTriDist2(vec3 p, vec3 a, vec3 b, vec3 c) {
  // Ericson, Real-Time Collision Detection: closest point on triangle
  vec3 ab = b - a, ac = c - a, ap = p - a;
  double d1 = la::dot(ab, ap), d2 = la::dot(ac, ap);
  vec3 q;
  if (d1 <= 0 && d2 <= 0) q = a;
  else {
    vec3 bp = p - b;
    double d3 = la::dot(ab, bp), d4 = la::dot(ac, bp);
    if (d3 >= 0 && d4 <= d3) q = b;
    else {
      double vc = d1 * d4 - d3 * d2;
      if (vc <= 0 && d1 >= 0 && d3 <= 0) q = a + ab * (d1 / (d1 - d3));
      else {
        vec3 cp = p - c;
        double d5 = la::dot(ab, cp), d6 = la::dot(ac, cp);
        if (d6 >= 0 && d5 <= d6) q = c;
        else {
          double vb = d5 * d2 - d1 * d6;
          if (vb <= 0 && d2 >= 0 && d6 <= 0) q = a + ac * (d2 / (d2 - d6));
          else {
            double va = d3 * d6 - d5 * d4;
            if (va <= 0 && (d4 - d3) >= 0 && (d5 - d6) >= 0) q = b + (c - b) * ((d4 - d3) / ((d4 - d3) + (d5 - d6)));
            else {
              double denom = 1.0 / (va + vb + vc);
              q = a + ab * (vb * denom) + ac * (vc * denom);
            }
          }
        }
      }
    }
  }
  vec3 d = p - q;
  return la::dot(d, d);
}
inline double DistToMesh(const MeshGL64& m, vec3 p) {
  double best = 1e300;
  for (size_t t = 0; t < (size_t)m.NumTri(); t++) {
    auto tv = m.GetTriVerts(t);
    best = std::min(best, PointTriDist2(p, m.GetVertPos(tv[0]), m.GetVertPos(tv[1]), m.GetVertPos(tv[2])));
  }
  return std::sqrt(best);
}


// cell encoding shared with Lattice.tla: Enc(c) = (x+K) + W*((y+K) + W*(z+K))
struct Window {
  int K;
  int W() const { return 2 * K; }
  int N() const { return W() * W() * W(); }
  int enc(int x, int y, int z) const {
    return (x + K) + W() * ((y + K) + W() * (z + K));
  }
  void dec(int e, int& x, int& y, int& z) const {
    x = e % W() - K;
    y = (e / W()) % W() - K;
    z = e / (W() * W()) - K;
  }
  vec3 centre(int e) const {
    int x, y, z;
    dec(e, x, y, z);
    return vec3(x + 0.5, y + 0.5, z + 0.5);
  }
};

struct CellResult {
  std::vector<int> cells;  // sorted encodings with winding 1
  bool integral = true;    // every winding within 1e-6 of an integer
  bool zeroOne = true;     // every winding in {0,1}
  double worst = 0;
};

inline CellResult CellsOf(const MeshGL64& m, Window w) {
  CellResult r;
  for (int e = 0; e < w.N(); e++) {
    const double wn = WindingAt(m, w.centre(e));
    const double rn = std::round(wn);
    const double err = std::fabs(wn - rn);
    r.worst = std::max(r.worst, err);
    if (err > 1e-6) r.integral = false;
    if (rn == 1)
      r.cells.push_back(e);
    else if (rn != 0)
      r.zeroOne = false;
  }
  return r;
}

// signed-tetrahedron volume and triangle-area sums of the export (C18)
inline double MeshVolume(const MeshGL64& m) {
  double v = 0;
  for (size_t t = 0; t < (size_t)m.NumTri(); t++) {
    auto tv = m.GetTriVerts(t);
    vec3 a = m.GetVertPos(tv[0]), b = m.GetVertPos(tv[1]),
         c = m.GetVertPos(tv[2]);
    v += la::dot(a, la::cross(b, c)) / 6.0;
  }
  return v;
}
inline double MeshArea(const MeshGL64& m) {
  double s = 0;
  for (size_t t = 0; t < (size_t)m.NumTri(); t++) {
    auto tv = m.GetTriVerts(t);
    vec3 a = m.GetVertPos(tv[0]), b = m.GetVertPos(tv[1]),
         c = m.GetVertPos(tv[2]);
    s += la::length(la::cross(b - a, c - a)) / 2.0;
  }
  return s;
}

// ---------- closed oriented 2-manifold predicate (C01), on the export -------
// Same clauses as Halfedge.tla!Closed2Manifold; returns "" when it holds, else
// the first violated clause.
template <typename M>
inline std::string Closed2Manifold(const M& m) {
  using I = decltype(m.numProp);
  if (m.numProp < 3) return "numProp<3";
  if (m.vertProperties.size() % m.numProp != 0) return "vertProperties stride";
  const size_t nv = m.vertProperties.size() / m.numProp;
  if (m.triVerts.size() % 3 != 0) return "triVerts stride";
  const size_t nt = m.triVerts.size() / 3;
  for (auto x : m.vertProperties)
    if (!std::isfinite((double)x)) return "non-finite vertProperties";
  for (auto x : m.halfedgeTangent)
    if (!std::isfinite((double)x)) return "non-finite halfedgeTangent";
  for (auto x : m.runTransform)
    if (!std::isfinite((double)x)) return "non-finite runTransform";
  if (!std::isfinite((double)m.tolerance)) return "non-finite tolerance";
  if (m.mergeFromVert.size() != m.mergeToVert.size()) return "merge lengths";
  std::vector<I> rep(nv);
  for (size_t i = 0; i < nv; i++) rep[i] = (I)i;
  for (size_t i = 0; i < m.mergeFromVert.size(); i++) {
    if ((size_t)m.mergeFromVert[i] >= nv || (size_t)m.mergeToVert[i] >= nv)
      return "merge index out of range";
    rep[m.mergeFromVert[i]] = m.mergeToVert[i];
  }
  // merge targets may chain; resolve
  for (size_t i = 0; i < nv; i++) {
    I r = rep[i];
    size_t guard = 0;
    while (rep[r] != r && guard++ < nv) r = rep[r];
    rep[i] = r;
  }
  std::vector<char> used(nv, 0);
  std::map<std::pair<I, I>, int> cnt;
  for (size_t t = 0; t < nt; t++) {
    I v[3];
    for (int k = 0; k < 3; k++) {
      if ((size_t)m.triVerts[3 * t + k] >= nv) return "tri index out of range";
      used[m.triVerts[3 * t + k]] = 1;
      v[k] = rep[m.triVerts[3 * t + k]];
    }
    if (v[0] == v[1] || v[1] == v[2] || v[2] == v[0])
      return "triangle repeats a vertex";
    for (int k = 0; k < 3; k++) cnt[{v[k], v[(k + 1) % 3]}]++;
  }
  for (auto& kv : cnt) {
    if (kv.second != 1) return "directed edge occurs more than once";
    auto it = cnt.find({kv.first.second, kv.first.first});
    if (it == cnt.end() || it->second != 1) return "edge without opposite";
  }
  for (size_t i = 0; i < nv; i++)
    if (!used[i]) return "unreferenced vertex";
  return "";
}

// number of geometric vertices after merging (for NumVert agreement)
template <typename M>
inline size_t MergedVertCount(const M& m) {
  const size_t nv = m.vertProperties.size() / m.numProp;
  std::vector<size_t> rep(nv);
  for (size_t i = 0; i < nv; i++) rep[i] = i;
  for (size_t i = 0; i < m.mergeFromVert.size(); i++)
    rep[m.mergeFromVert[i]] = m.mergeToVert[i];
  std::set<size_t> s;
  for (size_t i = 0; i < nv; i++) {
    size_t r = rep[i];
    size_t guard = 0;
    while (rep[r] != r && guard++ < nv) r = rep[r];
    s.insert(r);
  }
  return s.size();
}

// ---------- I/O --------------------------------------------------------------
inline std::vector<json> ReadNdjson(const std::string& path) {
  std::vector<json> out;
  std::ifstream f(path);
  if (!f) {
    fprintf(stderr, "cannot open %s\n", path.c_str());
    exit(2);
  }
  std::string line;
  while (std::getline(f, line)) {
    if (line.empty()) continue;
    out.push_back(json::parse(line));
  }
  return out;
}

struct Out {
  FILE* f;
  explicit Out(const std::string& path) { f = fopen(path.c_str(), "w"); }
  ~Out() {
    if (f) fclose(f);
  }
  void line(const json& j) {
    std::string s = j.dump();
    fwrite(s.data(), 1, s.size(), f);
    fputc('\n', f);
    fflush(f);
  }
};

inline const char* ErrName(Manifold::Error e) {
  static const char* n[] = {"NoError",
                            "NonFiniteVertex",
                            "NotManifold",
                            "VertexOutOfBounds",
                            "PropertiesWrongLength",
                            "MissingPositionProperties",
                            "MergeVectorsDifferentLengths",
                            "MergeIndexOutOfBounds",
                            "TransformWrongLength",
                            "RunIndexWrongLength",
                            "FaceIDWrongLength",
                            "InvalidConstruction",
                            "ResultTooLarge",
                            "InvalidTangents",
                            "Cancelled"};
  int i = (int)e;
  return (i >= 0 && i < 15) ? n[i] : "Unknown";
}

// sub-command registry: each driver file registers itself, main.cpp dispatches
using MainFn = int (*)(int, char**);
inline std::map<std::string, MainFn>& Registry() {
  static std::map<std::string, MainFn> r;
  return r;
}
struct Register {
  Register(const char* name, MainFn f) { Registry()[name] = f; }
};

struct Args {
  std::map<std::string, std::string> kv;
  std::vector<std::string> pos;
  Args(int argc, char** argv, int from) {
    for (int i = from; i < argc; i++) {
      std::string a = argv[i];
      if (a.rfind("--", 0) == 0) {
        auto eq = a.find('=');
        if (eq == std::string::npos)
          kv[a.substr(2)] = "1";
        else
          kv[a.substr(2, eq - 2)] = a.substr(eq + 1);
      } else
        pos.push_back(a);
    }
  }
  bool has(const std::string& k) const { return kv.count(k) > 0; }
  std::string str(const std::string& k, const std::string& d = "") const {
    auto it = kv.find(k);
    return it == kv.end() ? d : it->second;
  }
  long num(const std::string& k, long d) const {
    auto it = kv.find(k);
    return it == kv.end() ? d : std::stol(it->second);
  }
};

}  // namespace vf
