// C14 - spatial indices report exactly the overlapping pairs.
// Replays the cases printed by spec/RadixTree.tla against the real code:
//   kind "bvh3"  : manifold::Collider (src/collider.h) built from (leaf boxes, sorted Morton
//                  codes) as the library does; box queries, point queries (XY projection) and
//                  self-collision; again after Collider::Transform (axis-aligned) on a copy and
//                  after UpdateBoxes (new boxes, then the old ones again).  The recorded pair
//                  multiset is compared with the expected sets the SPECIFICATION computed by
//                  the brute-force definition (a duplicate is a failure: "each pair once").
//                  Query boxes/points may be UNBOUNDED: the specification prints the bounds
//                  -Infinity / +Infinity as the tokens "-Infinity" / "Infinity" (Num below maps
//                  them to the IEEE infinities): whole space, half spaces, slabs, the empty
//                  default Box() (min=+inf, max=-inf; must report nothing), intervals
//                  degenerate at an infinity.  They are asked in every phase and through every
//                  Collisions overload like the finite ones.
//                  The tree built by the real collider_internal::CreateRadixTree functor is
//                  compared with the model's tree (kind "drift": never a violation).
//   kind "rects" : boolean2 edge-pair broad phase: CollectIntersectionPairs through the
//                  x-sorted sweep (empty BVH) and through BVHBuildFromBoxes/BVHCollisions,
//                  and CollidePairs; edges have pairwise distinct vertices, so the
//                  shared-endpoint filter never applies and the result must be exactly the
//                  overlapping pairs i<j.
//   kind "points": BuildTwoDTree/QueryTwoDTree against the points inside the closed rect.
//   kind "rand3"/"rand2"/"randpts": seeded large conformance (129..many leaves, heavily
//                  duplicated Morton codes, degenerate overall bounding box, Morton codes
//                  computed by Collider::MortonCode as sort.cpp does).  Here the oracle is the
//                  brute-force all-pairs scan below (Closed3/Closed2/InRect: the closed-interval
//                  test written from the property's words, NOT Box::DoesOverlap); the same
//                  functions are cross-checked against the specification's expected sets on
//                  every TLC case (kind "oracle" = tool error).
//   mfdrive collide <cases.ndjson> <out.ndjson> [--from=i]
#include <unistd.h>

#include <mutex>
#include <random>

#include "boolean2.h"
#include "collider.h"
#include "common.h"
#include "tree2d.h"
#include "vec.h"

namespace vf {
namespace {

using Pair = std::pair<int, int>;

// A broken tree can make the traversal loop forever.  The watchdog covers LIBRARY calls only
// (never the brute-force oracle or the comparison): SIGALRM ends the process, the orchestrator
// attributes it to the current case, re-runs that case once alone, and resumes.
struct Watch {
  explicit Watch(unsigned s = 120) { alarm(s); }
  ~Watch() { alarm(0); }
};

// ---- the property's test, written independently of the library ----------------
struct B3 {
  double lo[3], hi[3];
};
static bool Closed3(const B3& a, const B3& b) {
  for (int d = 0; d < 3; d++)
    if (!(std::max(a.lo[d], b.lo[d]) <= std::min(a.hi[d], b.hi[d]))) return false;
  return true;
}
static bool ClosedPt(const B3& b, const double* p) {  // projected in z
  for (int d = 0; d < 2; d++)
    if (!(b.lo[d] <= p[d] && p[d] <= b.hi[d])) return false;
  return true;
}
struct R2 {
  double lo[2], hi[2];
};
static bool Closed2(const R2& a, const R2& b) {
  for (int d = 0; d < 2; d++)
    if (!(std::max(a.lo[d], b.lo[d]) <= std::min(a.hi[d], b.hi[d]))) return false;
  return true;
}
static bool InRect(const R2& r, double x, double y) {
  return r.lo[0] <= x && x <= r.hi[0] && r.lo[1] <= y && y <= r.hi[1];
}
// image of a box under rows <<axis(1-based), scale, translation>>
struct Xf {
  int c[3];
  double s[3], t[3];
};
static B3 Image(const B3& b, const Xf& T) {
  B3 o;
  for (int r = 0; r < 3; r++) {
    const double u = T.s[r] * b.lo[T.c[r]] + T.t[r], v = T.s[r] * b.hi[T.c[r]] + T.t[r];
    o.lo[r] = std::min(u, v);
    o.hi[r] = std::max(u, v);
  }
  return o;
}
static mat3x4 Matrix(const Xf& T) {
  mat3x4 m(0.0);
  for (int r = 0; r < 3; r++) {
    m[T.c[r]][r] = T.s[r];
    m[3][r] = T.t[r];
  }
  return m;
}

// a coordinate printed by the specification: a number, or an infinity token
struct BadToken {
  std::string token;
};
// unbounded queries of the current case: asked / with a non-empty expected set (statistics only)
static long gUnbounded = 0, gUnboundedHit = 0;
static bool Unbounded(const B3& b) {
  for (int d = 0; d < 3; d++)
    if (std::isinf(b.lo[d]) || std::isinf(b.hi[d])) return true;
  return false;
}
static void CountUnbounded(const std::vector<B3>& qs, const std::vector<std::vector<int>>& want) {
  for (size_t q = 0; q < qs.size() && q < want.size(); q++)
    if (Unbounded(qs[q])) {
      gUnbounded++;
      gUnboundedHit += !want[q].empty();
    }
}
static double Num(const json& j) {
  if (j.is_string()) {
    const std::string s = j.get<std::string>();
    if (s == "Infinity" || s == "+Infinity") return std::numeric_limits<double>::infinity();
    if (s == "-Infinity") return -std::numeric_limits<double>::infinity();
    throw BadToken{s};
  }
  return j.get<double>();
}
static B3 B3Of(const json& j) {
  B3 b;
  for (int d = 0; d < 3; d++) {
    b.lo[d] = Num(j[d]);
    b.hi[d] = Num(j[d + 3]);
  }
  return b;
}
static Box BoxOf(const B3& b) {
  Box o;
  o.min = vec3(b.lo[0], b.lo[1], b.lo[2]);
  o.max = vec3(b.hi[0], b.hi[1], b.hi[2]);
  return o;
}
static json J(const B3& b) { return json::array({b.lo[0], b.lo[1], b.lo[2], b.hi[0], b.hi[1], b.hi[2]}); }
static json J(const R2& b) { return json::array({b.lo[0], b.lo[1], b.hi[0], b.hi[1]}); }

// ---- failure collection -------------------------------------------------------
struct Fails {
  json list = json::array();
  std::map<std::string, int> count;
  void add(const std::string& kind, const json& d) {
    if (count[kind]++ < 3) list.push_back({{"kind", kind}, {"step", 0}, {"detail", d}});
  }
};

// expected: per query the set of leaves.  got: recorded (query, leaf) pairs.
static void Compare(Fails& F, const std::string& prefix, const json& ctx, std::vector<Pair> got,
                    const std::vector<std::vector<int>>& want) {
  std::sort(got.begin(), got.end());
  std::vector<Pair> exp;
  for (size_t q = 0; q < want.size(); q++)
    for (int l : want[q]) exp.push_back({(int)q, l});
  std::sort(exp.begin(), exp.end());
  for (size_t i = 1; i < got.size(); i++)
    if (got[i] == got[i - 1]) {
      json d = ctx;
      d["query"] = got[i].first;
      d["leaf"] = got[i].second;
      F.add(prefix + ".dup", d);
    }
  got.erase(std::unique(got.begin(), got.end()), got.end());
  std::vector<Pair> missing, extra;
  std::set_difference(exp.begin(), exp.end(), got.begin(), got.end(), std::back_inserter(missing));
  std::set_difference(got.begin(), got.end(), exp.begin(), exp.end(), std::back_inserter(extra));
  for (auto& p : missing) {
    json d = ctx;
    d["query"] = p.first;
    d["leaf"] = p.second;
    F.add(prefix + ".missing", d);
  }
  for (auto& p : extra) {
    json d = ctx;
    d["query"] = p.first;
    d["leaf"] = p.second;
    F.add(prefix + ".extra", d);
  }
}

struct Rec {
  std::mutex mu;
  std::vector<Pair> v;
};

// all the ways the library calls Collider::Collisions
template <bool self, typename T>
static void Query(Fails& F, const Collider& c, const Vec<T>& queries, const std::vector<std::vector<int>>& want,
                  const std::string& phase, const std::string& what) {
  for (int api = 0; api < 3; api++) {
    Rec rec;
    auto f = [&rec](int q, int l) {
      std::lock_guard<std::mutex> g(rec.mu);
      rec.v.push_back({q, l});
    };
    auto recorder = MakeSimpleRecorder(f);
    {
      Watch w;
      if (api == 0)
        c.Collisions<self>(recorder, queries.cview(), false);  // VecView overload, sequential
      else if (api == 1)
        c.Collisions<self>(recorder, queries.cview());  // VecView overload, parallel allowed
      else {
        auto qf = [&queries](const int i) { return queries[i]; };  // functor overload (boolean3.cpp)
        c.Collisions<self>(recorder, qf, (int)queries.size(), true);
      }
    }
    static const char* names[] = {"view/seq", "view/par", "functor/par"};
    Compare(F, "pairs", {{"phase", phase}, {"queries", what}, {"api", names[api]}}, rec.v, want);
  }
}

static std::vector<std::vector<int>> Sets(const json& j) {
  std::vector<std::vector<int>> out;
  for (auto& s : j) {
    std::vector<int> v;
    for (auto& x : s) v.push_back(x.get<int>());
    out.push_back(v);
  }
  return out;
}

struct Leafs {
  std::vector<B3> b;
  Vec<Box> boxes() const {
    Vec<Box> v;
    for (auto& x : b) v.push_back(BoxOf(x));
    return v;
  }
};
static Leafs LeafsOf(const json& j) {
  Leafs L;
  for (auto& x : j) L.b.push_back(B3Of(x));
  return L;
}

// brute force over the driver's own closed-interval test
static std::vector<std::vector<int>> BruteBox(const std::vector<B3>& leaves, const std::vector<B3>& qs, bool self) {
  std::vector<std::vector<int>> out(qs.size());
  for (size_t q = 0; q < qs.size(); q++)
    for (size_t l = 0; l < leaves.size(); l++)
      if ((!self || l != q) && Closed3(qs[q], leaves[l])) out[q].push_back((int)l);
  return out;
}
static std::vector<std::vector<int>> BrutePt(const std::vector<B3>& leaves, const std::vector<std::array<double, 3>>& ps) {
  std::vector<std::vector<int>> out(ps.size());
  for (size_t q = 0; q < ps.size(); q++)
    for (size_t l = 0; l < leaves.size(); l++)
      if (ClosedPt(leaves[l], ps[q].data())) out[q].push_back((int)l);
  return out;
}

static void CheckPhase(Fails& F, const Collider& c, const std::string& phase, const std::vector<B3>& leaves,
                       const std::vector<B3>& qboxes, const std::vector<std::array<double, 3>>& qpoints,
                       const std::vector<std::vector<int>>& wantBox, const std::vector<std::vector<int>>& wantPt,
                       const std::vector<std::vector<int>>* wantSelf) {
  Vec<Box> qb;
  for (auto& q : qboxes) qb.push_back(BoxOf(q));
  Vec<vec3> qp;
  for (auto& p : qpoints) qp.push_back(vec3(p[0], p[1], p[2]));
  if (qb.size()) Query<false>(F, c, qb, wantBox, phase, "box");
  if (qp.size()) Query<false>(F, c, qp, wantPt, phase, "point");
  if (wantSelf) {
    Vec<Box> lb;
    for (auto& x : leaves) lb.push_back(BoxOf(x));
    Query<true>(F, c, lb, *wantSelf, phase, "self");
  }
  const Box bb = c.GetBoundingBox();
  B3 all = leaves[0];
  for (auto& x : leaves)
    for (int d = 0; d < 3; d++) {
      all.lo[d] = std::min(all.lo[d], x.lo[d]);
      all.hi[d] = std::max(all.hi[d], x.hi[d]);
    }
  for (int d = 0; d < 3; d++)
    if (bb.min[d] != all.lo[d] || bb.max[d] != all.hi[d]) {
      F.add("rootbox", {{"phase", phase}, {"want", J(all)}, {"got", {bb.min.x, bb.min.y, bb.min.z, bb.max.x, bb.max.y, bb.max.z}}});
      break;
    }
}

static std::vector<B3> Boxes(const json& j) {
  std::vector<B3> v;
  for (auto& x : j) v.push_back(B3Of(x));
  return v;
}
static std::vector<std::array<double, 3>> Points(const json& j) {
  std::vector<std::array<double, 3>> v;
  for (auto& x : j) v.push_back({Num(x[0]), Num(x[1]), Num(x[2])});
  return v;
}
static void SameSets(Fails& F, const char* what, const std::vector<std::vector<int>>& mine, const std::vector<std::vector<int>>& spec) {
  if (mine != spec) F.add("oracle", {{"what", what}});
}

static int RunBvh3(const json& cs, Fails& F) {
  const Leafs L = LeafsOf(cs["boxes"]);
  const int n = (int)L.b.size();
  Vec<uint32_t> morton;
  for (auto& x : cs["morton"]) morton.push_back(x.get<uint32_t>());
  const Vec<Box> lb = L.boxes();
  int nontrivial = 0;

  // model tree vs the real CreateRadixTree (DRIFT only)
  if (cs.contains("tree") && n >= 2) {
    Vec<int> parent(2 * n - 1, -1);
    Vec<std::pair<int, int>> ch(n - 1, std::make_pair(-1, -1));
    collider_internal::CreateRadixTree crt{parent, ch, morton.cview()};
    {
      Watch w;
      for (int i = 0; i < n - 1; i++) crt(i);
    }
    for (int i = 0; i < n - 1; i++)
      if (ch[i].first != cs["tree"][i][0].get<int>() || ch[i].second != cs["tree"][i][1].get<int>()) {
        F.add("drift.tree", {{"internal", i}, {"model", cs["tree"][i]}, {"real", {ch[i].first, ch[i].second}}});
        break;
      }
  }

  alarm(120);
  Collider c(lb.cview(), morton.cview());
  alarm(0);
  const auto qb = Boxes(cs["qboxes"]);
  const auto qp = Points(cs["qpoints"]);
  const auto wantBox = Sets(cs["expBox"]), wantPt = Sets(cs["expPoint"]), wantSelf = Sets(cs["expSelf"]);
  const bool self = !wantSelf.empty();
  for (auto& s : wantBox) nontrivial += !s.empty();
  CountUnbounded(qb, wantBox);
  for (size_t q = 0; q < qp.size() && q < wantPt.size(); q++)
    if (std::isinf(qp[q][0]) || std::isinf(qp[q][1]) || std::isinf(qp[q][2])) {
      gUnbounded++;
      gUnboundedHit += !wantPt[q].empty();
    }
  SameSets(F, "box", BruteBox(L.b, qb, false), wantBox);
  SameSets(F, "point", BrutePt(L.b, qp), wantPt);
  if (self) SameSets(F, "self", BruteBox(L.b, L.b, true), wantSelf);
  CheckPhase(F, c, "build", L.b, qb, qp, wantBox, wantPt, self ? &wantSelf : nullptr);

  // Transform on a copy, as Manifold::Impl::Transform does
  {
    Xf T;
    for (int r = 0; r < 3; r++) {
      T.c[r] = cs["xf"][r][0].get<int>() - 1;
      T.s[r] = cs["xf"][r][1].get<double>();
      T.t[r] = cs["xf"][r][2].get<double>();
    }
    const mat3x4 m = Matrix(T);
    if (!Collider::IsAxisAligned(m)) F.add("oracle", {{"what", "generated transform is not axis-aligned"}});
    const auto lT = Boxes(cs["boxesT"]);
    for (int l = 0; l < n; l++) {
      const B3 im = Image(L.b[l], T);
      for (int d = 0; d < 3; d++)
        if (im.lo[d] != lT[l].lo[d] || im.hi[d] != lT[l].hi[d]) F.add("oracle", {{"what", "image box"}, {"leaf", l}});
    }
    Collider cT = c;
    {
      Watch w;
      cT.Transform(m);
    }
    const auto qbT = Boxes(cs["qboxesT"]);
    const auto qpT = Points(cs["qpointsT"]);
    const auto wB = Sets(cs["expBoxT"]), wP = Sets(cs["expPointT"]), wS = Sets(cs["expSelfT"]);
    SameSets(F, "boxT", BruteBox(lT, qbT, false), wB);
    SameSets(F, "pointT", BrutePt(lT, qpT), wP);
    CheckPhase(F, cT, "transform", lT, qbT, qpT, wB, wP, wS.empty() ? nullptr : &wS);
    // the original is unaffected by transforming the copy
    CheckPhase(F, c, "build(after copy was transformed)", L.b, qb, {}, wantBox, {}, nullptr);
  }
  // UpdateBoxes with new boxes, then with the old ones again (stale internal boxes both ways)
  {
    const Leafs L2 = LeafsOf(cs["boxes2"]);
    const Vec<Box> lb2 = L2.boxes();
    {
      Watch w;
      c.UpdateBoxes(lb2.cview());
    }
    const auto wB = Sets(cs["expBox2"]), wP = Sets(cs["expPoint2"]), wS = Sets(cs["expSelf2"]);
    SameSets(F, "box2", BruteBox(L2.b, qb, false), wB);
    CheckPhase(F, c, "update", L2.b, qb, qp, wB, wP, wS.empty() ? nullptr : &wS);
    {
      Watch w;
      c.UpdateBoxes(lb.cview());
    }
    CheckPhase(F, c, "update-back", L.b, qb, qp, wantBox, wantPt, self ? &wantSelf : nullptr);
  }
  return nontrivial;
}

// ---- 2-D edge-pair broad phase -----------------------------------------------
static void ComparePairs(Fails& F, const std::string& path, std::vector<Pair> got, std::vector<Pair> exp) {
  std::sort(got.begin(), got.end());
  std::sort(exp.begin(), exp.end());
  for (size_t i = 1; i < got.size(); i++)
    if (got[i] == got[i - 1]) F.add("rects.dup", {{"path", path}, {"pair", {got[i].first, got[i].second}}});
  got.erase(std::unique(got.begin(), got.end()), got.end());
  std::vector<Pair> missing, extra;
  std::set_difference(exp.begin(), exp.end(), got.begin(), got.end(), std::back_inserter(missing));
  std::set_difference(got.begin(), got.end(), exp.begin(), exp.end(), std::back_inserter(extra));
  for (auto& p : missing) F.add("rects.missing", {{"path", path}, {"pair", {p.first, p.second}}});
  for (auto& p : extra) F.add("rects.extra", {{"path", path}, {"pair", {p.first, p.second}}});
}

static void RunRectsOn(const std::vector<R2>& rs, const std::vector<Pair>& exp, Fails& F) {
  const int n = (int)rs.size();
  std::vector<Box2> boxes;
  std::vector<EdgeM> edges;
  std::vector<vec2> verts;
  for (int i = 0; i < n; i++) {
    boxes.push_back(Box2(vec2(rs[i].lo[0], rs[i].lo[1]), vec2(rs[i].hi[0], rs[i].hi[1])));
    edges.push_back({2 * i, 2 * i + 1, 1});  // no two edges share a vertex
    verts.push_back(vec2(rs[i].lo[0], rs[i].lo[1]));
    verts.push_back(vec2(rs[i].hi[0], rs[i].hi[1]));
  }
  std::vector<Pair> pairs;
  alarm(120);
  CollectIntersectionPairs(edges, verts, 0.0, boxes, BVH(), pairs);  // x-sorted sweep
  alarm(0);
  ComparePairs(F, "sweep", pairs, exp);
  alarm(120);
  BVH bvh = BVHBuildFromBoxes(boxes);
  pairs.clear();
  CollectIntersectionPairs(edges, verts, 0.0, boxes, bvh, pairs);  // BVH traversal
  alarm(0);
  ComparePairs(F, "bvh", pairs, exp);
  // CollidePairs reports every ordered overlapping pair, the rectangle itself included
  std::vector<Pair> all, expAll;
  alarm(120);
  CollidePairs(bvh, boxes, [&](int q, int l) { all.push_back({q, l}); });
  alarm(0);
  if (n >= 2) {
    for (auto& p : exp) {
      expAll.push_back(p);
      expAll.push_back({p.second, p.first});
    }
    for (int i = 0; i < n; i++) expAll.push_back({i, i});
    ComparePairs(F, "collidepairs", all, expAll);
  }
}

static int RunRects(const json& cs, Fails& F) {
  std::vector<R2> rs;
  for (auto& r : cs["rects"]) rs.push_back(R2{{r[0].get<double>(), r[1].get<double>()}, {r[2].get<double>(), r[3].get<double>()}});
  std::vector<Pair> exp, mine;
  for (auto& p : cs["pairs"]) exp.push_back({p[0].get<int>(), p[1].get<int>()});
  for (size_t i = 0; i < rs.size(); i++)
    for (size_t j = i + 1; j < rs.size(); j++)
      if (Closed2(rs[i], rs[j])) mine.push_back({(int)i, (int)j});
  std::sort(exp.begin(), exp.end());
  if (mine != exp) F.add("oracle", {{"what", "rect pairs"}});
  RunRectsOn(rs, exp, F);
  return exp.empty() ? 0 : 1;
}

// ---- polygon k-d tree ----------------------------------------------------------
static void RunPointsOn(const std::vector<std::array<double, 2>>& ps, const std::vector<R2>& qs,
                        const std::vector<std::vector<int>>& want, Fails& F) {
  Vec<PolyVert> pts;
  for (size_t i = 0; i < ps.size(); i++) pts.push_back({vec2(ps[i][0], ps[i][1]), (int)i});
  alarm(120);
  BuildTwoDTree(pts);
  std::vector<Pair> got;
  for (size_t q = 0; q < qs.size(); q++) {
    Rect r;  // not Rect(a, b): that constructor sorts the bounds and would turn the empty Rect() into the plane
    r.min = vec2(qs[q].lo[0], qs[q].lo[1]);
    r.max = vec2(qs[q].hi[0], qs[q].hi[1]);
    QueryTwoDTree(pts, r, [&](const PolyVert& p) { got.push_back({(int)q, p.idx}); });
  }
  alarm(0);
  Compare(F, "kdtree", {{"n", ps.size()}}, got, want);
}
static int RunPoints(const json& cs, Fails& F) {
  std::vector<std::array<double, 2>> ps;
  for (auto& p : cs["points"]) ps.push_back({p[0].get<double>(), p[1].get<double>()});
  std::vector<R2> qs;
  for (auto& r : cs["queries"]) qs.push_back(R2{{Num(r[0]), Num(r[1])}, {Num(r[2]), Num(r[3])}});
  const auto want = Sets(cs["exp"]);
  std::vector<std::vector<int>> mine(qs.size());
  for (size_t q = 0; q < qs.size(); q++)
    for (size_t i = 0; i < ps.size(); i++)
      if (InRect(qs[q], ps[i][0], ps[i][1])) mine[q].push_back((int)i);
  if (mine != want) F.add("oracle", {{"what", "points in rect"}});
  for (size_t q = 0; q < qs.size() && q < want.size(); q++)
    if (std::isinf(qs[q].lo[0]) || std::isinf(qs[q].lo[1]) || std::isinf(qs[q].hi[0]) || std::isinf(qs[q].hi[1])) {
      gUnbounded++;
      gUnboundedHit += !want[q].empty();
    }
  RunPointsOn(ps, qs, want, F);
  int nt = 0;
  for (auto& s : want) nt += !s.empty();
  return nt;
}

// ---- seeded large conformance ---------------------------------------------------
struct Rng {
  std::mt19937_64 g;
  explicit Rng(uint64_t s) : g(s) {}
  int below(int n) { return (int)(g() % (uint64_t)n); }
};
static B3 RandBox(Rng& r, int lat, int maxsize, int flat) {
  B3 b;
  for (int d = 0; d < 3; d++) {
    b.lo[d] = r.below(lat);
    b.hi[d] = b.lo[d] + r.below(maxsize + 1);
    if (d == flat) b.lo[d] = b.hi[d] = 1;
  }
  return b;
}
static int RunRand3(const json& cs, Fails& F) {
  const int n = cs["n"].get<int>(), lat = cs["lat"].get<int>(), maxsize = cs["maxsize"].get<int>();
  const int flat = cs.value("flat", -1), nq = cs["nq"].get<int>(), alphabet = cs.value("alphabet", 0);
  const std::string codes = cs["codes"];
  Rng r(cs["seed"].get<uint64_t>());
  std::vector<B3> leaves(n);
  for (auto& b : leaves) b = RandBox(r, lat, maxsize, flat);
  std::vector<uint32_t> code(n);
  if (codes == "given") {
    // any sorted multiset is a legal input: a small alphabet gives long runs of equal codes
    for (auto& c : code) c = (uint32_t)r.below(alphabet) * (cs.value("spread", 0) ? 0x01234567u : 1u);
    std::sort(code.begin(), code.end());
  } else {
    // as sort.cpp/GetFaceBoxMorton: Morton code of the box centre within the overall box
    Box all;
    for (auto& b : leaves) all = all.Union(BoxOf(b));
    for (int i = 0; i < n; i++) code[i] = Collider::MortonCode(BoxOf(leaves[i]).Center(), all);
    std::vector<int> order(n);
    for (int i = 0; i < n; i++) order[i] = i;
    std::stable_sort(order.begin(), order.end(), [&](int a, int b) { return code[a] < code[b]; });
    std::vector<B3> l2(n);
    std::vector<uint32_t> c2(n);
    for (int i = 0; i < n; i++) {
      l2[i] = leaves[order[i]];
      c2[i] = code[order[i]];
    }
    leaves = l2;
    code = c2;
  }
  std::set<uint32_t> distinct(code.begin(), code.end());
  Vec<uint32_t> morton(code);
  Vec<Box> lb;
  for (auto& b : leaves) lb.push_back(BoxOf(b));
  alarm(120);
  Collider c(lb.cview(), morton.cview());
  alarm(0);
  std::vector<B3> qb(nq);
  for (auto& q : qb) q = RandBox(r, lat + 2, maxsize, -1);
  std::vector<std::array<double, 3>> qp(nq);
  for (auto& p : qp) p = {(double)r.below(lat + 2), (double)r.below(lat + 2), (double)r.below(50)};
  // unbounded queries, appended (own generator: the finite part of the case stays what it was; never
  // transformed below): whole space, the empty default Box(), per axis the whole line / a half-line /
  // a finite interval, and such boxes with one axis empty (min=+inf,max=-inf) or degenerate at an infinity
  {
    Rng u(cs["seed"].get<uint64_t>() * 0x9E3779B97F4A7C15ull + 12345);
    const double inf = std::numeric_limits<double>::infinity();
    auto axis = [&](B3& b, int d, int kind) {
      const double c = u.below(lat + 2) - 1;
      b.lo[d] = kind == 0 || kind == 1 || kind == 5 ? -inf : kind == 4 || kind == 6 ? inf : c;
      b.hi[d] = kind == 0 || kind == 2 || kind == 6 ? inf : kind == 4 || kind == 5 ? -inf : kind == 1 ? c : c + u.below(maxsize + 1);
    };
    B3 whole, none;
    for (int d = 0; d < 3; d++) {
      axis(whole, d, 0);
      axis(none, d, 4);
    }
    qb.push_back(whole);
    qb.push_back(none);
    for (int k = 0; k < 16; k++) {
      const int e = 1 + u.below(62);  // not (0,0,0) = whole space, not (3,3,3) = finite
      const int kinds[3] = {e % 4, (e / 4) % 4, e / 16};
      B3 b;
      for (int d = 0; d < 3; d++) axis(b, d, kinds[d]);
      if (k >= 12) axis(b, u.below(3), 4 + u.below(3));
      qb.push_back(b);
    }
    for (int k = 0; k < 4; k++) {
      const double x = u.below(lat + 2), y = u.below(lat + 2);
      qp.push_back(k == 0 ? std::array<double, 3>{x, y, inf} : k == 1 ? std::array<double, 3>{x, y, -inf}
                   : k == 2 ? std::array<double, 3>{-inf, y, 0} : std::array<double, 3>{x, inf, inf});
    }
    CountUnbounded(qb, BruteBox(leaves, qb, false));
    gUnbounded += 4;
  }
  const bool self = cs.value("self", true);
  auto wS = self ? BruteBox(leaves, leaves, true) : std::vector<std::vector<int>>();
  CheckPhase(F, c, "build", leaves, qb, qp, BruteBox(leaves, qb, false), BrutePt(leaves, qp), self ? &wS : nullptr);
  {
    Xf T;
    int perm[3] = {0, 1, 2};
    std::shuffle(perm, perm + 3, r.g);
    const double scales[] = {1, -1, 2, -2, 0.5, -0.5};
    for (int d = 0; d < 3; d++) {
      T.c[d] = perm[d];
      T.s[d] = scales[r.below(6)];
      T.t[d] = r.below(7) - 3;
    }
    Collider cT = c;
    {
      Watch w;
      cT.Transform(Matrix(T));
    }
    std::vector<B3> lT(n), qbT = qb;
    for (int i = 0; i < n; i++) lT[i] = Image(leaves[i], T);
    for (int i = 0; i < nq / 2; i++) qbT[i] = Image(qb[i], T);
    auto qpT = qp;  // (the unbounded queries come after the first nq)
    for (int i = 0; i < nq / 2; i++)
      for (int d = 0; d < 3; d++) qpT[i][d] = T.s[d] * qp[i][T.c[d]] + T.t[d];
    auto wST = self ? BruteBox(lT, lT, true) : std::vector<std::vector<int>>();
    CheckPhase(F, cT, "transform", lT, qbT, qpT, BruteBox(lT, qbT, false), BrutePt(lT, qpT), self ? &wST : nullptr);
  }
  {
    std::vector<B3> l2(n);
    for (auto& b : l2) b = RandBox(r, lat, maxsize, -1);
    Vec<Box> lb2;
    for (auto& b : l2) lb2.push_back(BoxOf(b));
    {
      Watch w;
      c.UpdateBoxes(lb2.cview());
    }
    CheckPhase(F, c, "update", l2, qb, qp, BruteBox(l2, qb, false), BrutePt(l2, qp), nullptr);
    {
      Watch w;
      c.UpdateBoxes(lb.cview());
    }
    CheckPhase(F, c, "update-back", leaves, qb, qp, BruteBox(leaves, qb, false), BrutePt(leaves, qp), nullptr);
  }
  return (int)distinct.size() < n ? 1 : 0;  // non-trivial: duplicated codes present
}
static int RunRand2(const json& cs, Fails& F) {
  const int n = cs["n"].get<int>(), lat = cs["lat"].get<int>(), maxsize = cs["maxsize"].get<int>();
  Rng r(cs["seed"].get<uint64_t>());
  std::vector<R2> rs(n);
  for (auto& b : rs)
    for (int d = 0; d < 2; d++) {
      b.lo[d] = r.below(lat);
      b.hi[d] = b.lo[d] + r.below(maxsize + 1);
    }
  std::vector<Pair> exp;
  for (int i = 0; i < n; i++)
    for (int j = i + 1; j < n; j++)
      if (Closed2(rs[i], rs[j])) exp.push_back({i, j});
  RunRectsOn(rs, exp, F);
  return exp.empty() ? 0 : 1;
}
static int RunRandPts(const json& cs, Fails& F) {
  const int n = cs["n"].get<int>(), lat = cs["lat"].get<int>(), nq = cs["nq"].get<int>();
  Rng r(cs["seed"].get<uint64_t>());
  std::vector<std::array<double, 2>> ps(n);
  for (auto& p : ps) p = {(double)r.below(lat), (double)r.below(lat)};
  std::vector<R2> qs(nq);
  for (auto& q : qs)
    for (int d = 0; d < 2; d++) {
      q.lo[d] = r.below(lat + 2) - 1;
      q.hi[d] = q.lo[d] + r.below(lat / 2 + 1);
    }
  {  // unbounded query rectangles: plane, empty default Rect(), half planes, quadrants, strips, dead in one axis
    Rng u(cs["seed"].get<uint64_t>() * 0x9E3779B97F4A7C15ull + 777);
    const double inf = std::numeric_limits<double>::infinity();
    qs.push_back(R2{{-inf, -inf}, {inf, inf}});
    qs.push_back(R2{{inf, inf}, {-inf, -inf}});
    for (int k = 0; k < 10; k++) {
      const int e = k < 8 ? 1 + u.below(14) : u.below(16);  // per axis: 0 line, 1 left, 2 right, 3 finite
      int kinds[2] = {e % 4, e / 4};
      if (k >= 8) kinds[u.below(2)] = 4 + u.below(3);  // 4 empty, 5 / 6 degenerate at -inf / +inf
      R2 q;
      for (int d = 0; d < 2; d++) {
        const double c = u.below(lat + 2) - 1;
        const int kd = kinds[d];
        q.lo[d] = kd == 0 || kd == 1 || kd == 5 ? -inf : kd == 4 || kd == 6 ? inf : c;
        q.hi[d] = kd == 0 || kd == 2 || kd == 6 ? inf : kd == 4 || kd == 5 ? -inf : kd == 1 ? c : c + u.below(lat / 2 + 1);
      }
      qs.push_back(q);
    }
  }
  const int nqAll = (int)qs.size();
  gUnbounded += nqAll - nq;
  std::vector<std::vector<int>> want(nqAll);
  for (int q = 0; q < nqAll; q++)
    for (int i = 0; i < n; i++)
      if (InRect(qs[q], ps[i][0], ps[i][1])) want[q].push_back(i);
  for (int q = nq; q < nqAll; q++) gUnboundedHit += !want[q].empty();
  RunPointsOn(ps, qs, want, F);
  return 1;
}

}  // namespace

int CollideMain(int argc, char** argv) {
  Args args(argc, argv, 2);
  if (args.pos.size() < 2) {
    fprintf(stderr, "usage: mfdrive collide <in> <out> [--from=i]\n");
    return 2;
  }
  auto cases = ReadNdjson(args.pos[0]);
  Out out(args.pos[1]);
  const long from = args.num("from", 0);
  long nfail = 0, nontrivial = 0;
  for (long i = from; i < (long)cases.size(); i++) {
    out.line({{"begin", i}});
    Fails F;
    const std::string kind = cases[i]["kind"];
    int nt = 0;
    gUnbounded = gUnboundedHit = 0;
    try {
      if (kind == "bvh3")
        nt = RunBvh3(cases[i], F);
      else if (kind == "rects")
        nt = RunRects(cases[i], F);
      else if (kind == "points")
        nt = RunPoints(cases[i], F);
      else if (kind == "rand3")
        nt = RunRand3(cases[i], F);
      else if (kind == "rand2")
        nt = RunRand2(cases[i], F);
      else if (kind == "randpts")
        nt = RunRandPts(cases[i], F);
      else
        F.add("oracle", {{"what", "unknown case kind " + kind}});
    } catch (const BadToken& b) {
      F.add("oracle", {{"what", "unknown coordinate token " + b.token}});
    }
    if (!F.list.empty()) nfail++;
    nontrivial += nt > 0;
    out.line({{"i", i}, {"fail", F.list}, {"nontrivial", nt}, {"unbounded", gUnbounded}, {"unbounded_hit", gUnboundedHit}});
  }
  out.line({{"done", true}, {"n", (long)cases.size() - from}, {"failed", nfail}, {"nontrivial", nontrivial}});
  return 0;
}
static Register regCollide("collide", CollideMain);
}  // namespace vf
