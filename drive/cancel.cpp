// C15: cancellation is all-or-nothing at EVERY check site; progress is
// monotone, <= 1 and ends at 1.  Uses the MANIFOLD_VERIF probe in
// IsCancelled(ctx) (src/execution_impl.h): the registered context's checks
// are counted, Cancel is injected at the k-th check, Progress() is sampled at
// every check.
//   mfdrive cancel <cases.ndjson> <out.ndjson> --K=4 [--maxk=N]
// A case is either an Expr.tla tree (evaluated through
// root.WithContext(ctx).Status()) or {"k":"eager","op":...} (Refine*, Hull,
// Minkowski*, FromMeshGL, Smooth, LevelSet on a small fixed input).
#include "common.h"
#include "execution_impl.h"

namespace vf {
namespace {

std::vector<std::pair<int, int>> gSamples;  // (donePhases, totalPhases) at every check
FILE* gTrace = nullptr;
void Observe(ExecutionContext::Impl* ctx, long) {
  const int total = ctx->totalPhases.load(std::memory_order_relaxed);
  const int done = ctx->donePhases.load(std::memory_order_relaxed);
  gSamples.emplace_back(done, total);
}
void TraceRun(long k, long K, Manifold::Error st, bool empty, bool same, bool pre, const ExecutionContext& ctx) {
  if (!gTrace) return;
  json s = json::array();
  // keep traces small: the first 150 and the last 50 samples
  for (size_t i = 0; i < gSamples.size(); i++)
    if (i < 150 || i + 50 >= gSamples.size()) s.push_back({gSamples[i].first, gSamples[i].second});
  json r = {{"k", k}, {"K", K}, {"st", ErrName(st)}, {"empty", empty}, {"same", same}, {"pre", pre},
            {"fdone", ctx.impl_->donePhases.load()}, {"ftotal", ctx.impl_->totalPhases.load()}, {"mono", true}, {"s", s}};
  std::string str = r.dump();
  fprintf(gTrace, "%s\n", str.c_str());
}

struct ProbeScope {
  ProbeScope(const ExecutionContext& c, long fireAt) {
    gSamples.clear();
    verif::Probe().checks.store(0);
    verif::Probe().fireAt.store(fireAt);
    verif::Probe().observe.store(&Observe);
    verif::Probe().ctx.store(c.impl_.get());
  }
  ~ProbeScope() {
    verif::Probe().ctx.store(nullptr);
    verif::Probe().fireAt.store(-1);
  }
  long checks() const { return verif::Probe().checks.load(); }
};

OpType OpOf(const std::string& s) {
  if (s == "Add") return OpType::Add;
  if (s == "Subtract") return OpType::Subtract;
  return OpType::Intersect;
}
Manifold ApplyT(const Manifold& m, const std::string& g) {
  if (g == "none") return m;
  if (g == "RZ") return m.Rotate(0, 0, 90);
  if (g == "RX") return m.Rotate(90, 0, 0);
  if (g == "MX") return m.Mirror({1, 0, 0});
  if (g == "TXP") return m.Translate({1, 0, 0});
  fprintf(stderr, "unknown transform %s\n", g.c_str());
  exit(2);
}
std::vector<int> AsVec(const json& j) {
  std::vector<int> v;
  for (auto& x : j) v.push_back(x.get<int>());
  std::sort(v.begin(), v.end());
  return v;
}

struct Held {
  Manifold m;
  std::vector<int> cells;
  std::string own;
  uint64_t hash = 0;
};

// builds the expression; "held"/"pre" interior nodes keep a handle; "pre"
// ones are evaluated (no ctx) before use: they are "already evaluated operands"
struct Builder {
  std::vector<Held> held;
  const Manifold* shared = nullptr;
  Manifold build(const json& n, bool isRoot) {
    const std::string k = n["k"];
    if (k == "leaf") {
      auto b = n["box"];
      vec3 lo(b[0].get<double>(), b[1].get<double>(), b[2].get<double>());
      vec3 hi(b[3].get<double>(), b[4].get<double>(), b[5].get<double>());
      return ApplyT(Manifold::Cube(hi - lo).Translate(lo), n["t"]);
    }
    if (k == "ref") return ApplyT(*shared, n["t"]);
    std::vector<Manifold> ch;
    for (auto& c : n["ch"]) ch.push_back(build(c, false));
    Manifold m = ch[0].Boolean(ch[1], OpOf(n["op"]));
    if (n["t"] != "none") m = ApplyT(m, n["t"]);
    const std::string own = n["own"];
    if (!isRoot && own != "temp") {
      if (own == "pre") (void)m.NumTri();
      held.push_back({m, AsVec(n["cells"]), own});
    }
    return m;
  }
};

struct Built {
  Builder b;
  std::optional<Manifold> sharedM;
  std::optional<Manifold> root;
  std::vector<int> rootCells, defCells;
  std::string defOwn = "temp";
};

void BuildCase(const json& t, Built& B) {
  const json* body = &t;
  if (t["k"] == "let") {
    B.sharedM.emplace(B.b.build(t["def"], true));
    B.defCells = AsVec(t["def"]["cells"]);
    B.defOwn = t["def"]["own"].get<std::string>();
    if (B.defOwn == "pre") (void)B.sharedM->NumTri();
    B.b.shared = &*B.sharedM;
    body = &t["body"];
  }
  B.root.emplace(B.b.build(*body, true));
  B.rootCells = AsVec((*body)["cells"]);
}

struct Runner {
  Window w;
  long maxk;
  bool viaCopy = false;
  json fails = json::array();
  void fail(const std::string& kind, const json& d) { fails.push_back({{"kind", kind}, {"step", 0}, {"detail", d}}); }

  void checkProgress(long k, bool completed, const ExecutionContext& ctx, const char* what) {
    // "during one evaluation": a change of totalPhases marks the start of a new
    // (sub-)evaluation, e.g. operand evaluation followed by the op's own batches
    int lastDone = -1, lastTotal = -1;
    for (size_t i = 0; i < gSamples.size(); i++) {
      const int d = gSamples[i].first, t = gSamples[i].second;
      if (t == lastTotal && d < lastDone && d != 0) {   // d == 0: GetCsgLeafNode reset the counters for a new (sub-)evaluation
        fail("progress:monotone", {{"k", k}, {"what", what}, {"at", i}, {"prev", lastDone}, {"now", d}, {"total", t}}); break; }
      if (t != 0 && d > t) { fail("progress:exceeds1", {{"k", k}, {"what", what}, {"at", i}, {"done", d}, {"total", t}}); break; }
      lastDone = d; lastTotal = t;
    }
    const double fin = ctx.Progress();
    const int fd = ctx.impl_->donePhases.load(), ft = ctx.impl_->totalPhases.load();
    if (fin > 1.0 + 1e-15 || (ft == lastTotal && fd < lastDone)) fail("progress:final", {{"k", k}, {"what", what}, {"final", fin}});
    if (completed && std::fabs(fin - 1.0) > 1e-12) fail("progress:not1", {{"k", k}, {"what", what}, {"final", fin}});
  }

  bool cellsOK(const Manifold& m, const std::vector<int>& want) {
    if (m.Status() != Manifold::Error::NoError) return false;
    CellResult cr = CellsOf(m.GetMeshGL64(), w);
    return cr.integral && cr.zeroOne && cr.cells == want;
  }

  // returns the number of checks seen in the uncancelled run
  void runTree(const json& t) {
    // reference: uncancelled, with a context
    long K = 0;
    uint64_t refHash = 0;
    {
      Built B;
      BuildCase(t, B);
      if (viaCopy)
        for (auto& h : B.b.held)
          if (h.own == "held") { Manifold c = h.m; (void)c.NumTri(); }
      ExecutionContext ctx;
      Manifold obs = B.root->WithContext(ctx);
      Manifold::Error st;
      {
        ProbeScope ps(ctx, -1);
        st = obs.Status();
        K = ps.checks();
      }
      if (st != Manifold::Error::NoError) fail("uncancelled:status", {{"status", ErrName(st)}});
      checkProgress(0, true, ctx, "uncancelled");
      if (!cellsOK(obs, B.rootCells)) fail("uncancelled:cells", {{"K", K}});
      refHash = HashMeshModIDs(obs.GetMeshGL64());
      if (ctx.Cancelled()) fail("uncancelled:cancelled", {});
      TraceRun(0, K, st, obs.IsEmpty(), true, false, ctx);
    }
    const long step = (maxk > 0 && K > maxk) ? (K + maxk - 1) / maxk : 1;
    for (long k = 1; k <= K; k += step) {
      Built B;
      BuildCase(t, B);
      for (auto& h : B.b.held) {
        if (h.own == "pre") h.hash = HashMesh(h.m.GetMeshGL64());
        // variant: a held (unevaluated when the tree was built) node is evaluated
        // through a COPY before the root is observed: the op node shared with
        // the tree now carries a cached result = an "already evaluated operand"
        if (h.own == "held" && viaCopy) {
          Manifold c = h.m;
          h.hash = HashMesh(c.GetMeshGL64());
          h.own = "heldEvaluated";
        }
      }
      uint64_t sharedHash = 0;
      if (B.sharedM && B.defOwn == "pre") sharedHash = HashMesh(B.sharedM->GetMeshGL64());
      ExecutionContext ctx;
      Manifold obs = B.root->WithContext(ctx);
      Manifold::Error st;
      long seen;
      {
        ProbeScope ps(ctx, k);
        st = obs.Status();
        seen = ps.checks();
      }
      const bool cancelled = st == Manifold::Error::Cancelled;
      if (ctx.Cancelled())
        TraceRun(k, K, st, obs.IsEmpty(), st == Manifold::Error::NoError && HashMeshModIDs(obs.GetMeshGL64()) == refHash, false, ctx);
      checkProgress(k, false, ctx, "cancel@k");  // "equals 1" is only promised for an UNcancelled completion
      if (cancelled) {
        if (!obs.IsEmpty() || obs.NumTri() != 0) fail("allornothing:nonempty-cancelled", {{"k", k}});
        if (obs.Status() != Manifold::Error::Cancelled) fail("sticky:result", {{"k", k}});
      } else if (st == Manifold::Error::NoError) {
        // complete result identical to the uncancelled run
        if (HashMeshModIDs(obs.GetMeshGL64()) != refHash || !cellsOK(obs, B.rootCells))
          fail("allornothing:partial", {{"k", k}, {"K", K}, {"nt", obs.NumTri()}});
      } else {
        fail("allornothing:status", {{"k", k}, {"status", ErrName(st)}});
      }
      if (!ctx.Cancelled()) {
        // fewer checks than in the reference run (check counts may legitimately
        // vary): nothing was injected, so nothing to judge for this k
        if (st != Manifold::Error::NoError) fail("allornothing:status", {{"k", k}, {"status", ErrName(st)}, {"why", "no cancel injected"}});
        continue;
      }
      // a cancelled context short-circuits every later evaluation through it
      {
        Manifold other = (Manifold::Cube(vec3(1.0)) + Manifold::Cube(vec3(1.0)).Translate({0.5, 0, 0})).WithContext(ctx);
        if (other.Status() != Manifold::Error::Cancelled) fail("shortcircuit", {{"k", k}, {"status", ErrName(other.Status())}});
      }
      // already evaluated operands are untouched
      for (auto& h : B.b.held) {
        if (h.own == "pre" || h.own == "heldEvaluated") {
          if (h.m.Status() != Manifold::Error::NoError || HashMesh(h.m.GetMeshGL64()) != h.hash)
            fail("operands:changed", {{"k", k}, {"own", h.own}, {"status", ErrName(h.m.Status())}});
        }
      }
      if (B.sharedM && B.defOwn == "pre" &&
          (HashMesh(B.sharedM->GetMeshGL64()) != sharedHash || B.sharedM->Status() != Manifold::Error::NoError))
        fail("operands:changed", {{"k", k}, {"own", "shared-pre"}});
      // rebuilding the expression from the (evaluated) operands with a fresh
      // context gives the correct result: operands = the "pre" nodes + leaves,
      // i.e. exactly what BuildCase builds; held-but-unevaluated interior nodes
      // may legitimately have been poisoned by the cancelled evaluation.
      {
        Built B2;
        BuildCase(t, B2);
        ExecutionContext fresh;
        Manifold again = B2.root->WithContext(fresh);
        if (again.Status() != Manifold::Error::NoError || !cellsOK(again, B2.rootCells))
          fail("rebuild", {{"k", k}, {"status", ErrName(again.Status())}});
      }
    }
    lastK = K;
  }

  // ---- eager context-observed operations ------------------------------------
  static Manifold Input(const std::string& name) {
    if (name == "cubeMinusSphere") return Manifold::Cube(vec3(2.0), true) - Manifold::Sphere(1.2, 16);
    if (name == "sphere") return Manifold::Sphere(1.0, 24);
    if (name == "twoCubes") return Manifold::Cube(vec3(1.0)) + Manifold::Cube(vec3(1.0)).Translate({0.5, 0.5, 0.5});
    return Manifold::Cube(vec3(1.0));
  }
  Manifold runEager(const std::string& op, const ExecutionContext& ctx) {
    if (op == "Refine") return Input("cubeMinusSphere").WithContext(ctx).Refine(3);
    if (op == "RefineToLength") return Input("cubeMinusSphere").WithContext(ctx).RefineToLength(0.3);
    if (op == "RefineToTolerance") return Input("sphere").SmoothOut().WithContext(ctx).RefineToTolerance(0.05);
    if (op == "Hull") return Input("cubeMinusSphere").WithContext(ctx).Hull();
    if (op == "MinkowskiSum") return Input("twoCubes").WithContext(ctx).MinkowskiSum(Manifold::Cube(vec3(0.2), true));
    if (op == "MinkowskiSumNC") return Input("cubeMinusSphere").WithContext(ctx).MinkowskiSum(Input("twoCubes").Scale(vec3(0.1)));
    if (op == "MinkowskiDifference") return Input("twoCubes").WithContext(ctx).MinkowskiDifference(Manifold::Cube(vec3(0.2), true));
    if (op == "FromMeshGL") { ExecutionContext c = ctx; return c.FromMeshGL(Input("cubeMinusSphere").GetMeshGL64()); }
    if (op == "FromMeshGL32") { ExecutionContext c = ctx; return c.FromMeshGL(Input("cubeMinusSphere").GetMeshGL()); }
    if (op == "Smooth") { ExecutionContext c = ctx; MeshGL64 g = Input("twoCubes").GetMeshGL64(); g.halfedgeTangent.clear(); return c.Smooth(g, {}); }
    if (op == "LevelSet") {
      ExecutionContext c = ctx;
      return c.LevelSet([](vec3 p) { return 1.0 - la::length(p); }, Box(vec3(-1.5), vec3(1.5)), 0.25);
    }
    if (op == "StatusTree") {
      Manifold a = Input("sphere"), b = Input("sphere").Translate({0.7, 0, 0}), c = Input("cube");
      Manifold t = ((a + b) - c.Translate({0.2, 0.1, 0})).WithContext(ctx);
      (void)t.Status();
      return t;
    }
    fprintf(stderr, "unknown eager op %s\n", op.c_str());
    exit(2);
  }
  long lastK = 0;
  void runEagerCase(const std::string& op) {
    long K = 0;
    uint64_t refHash;
    {
      ExecutionContext ctx;
      Manifold r;
      {
        ProbeScope ps(ctx, -1);
        r = runEager(op, ctx);
        (void)r.Status();
        K = ps.checks();
      }
      if (r.Status() != Manifold::Error::NoError) fail("uncancelled:status", {{"op", op}, {"status", ErrName(r.Status())}});
      checkProgress(0, true, ctx, op.c_str());
      refHash = HashMeshModIDs(r.GetMeshGL64());
    }
    const long step = (maxk > 0 && K > maxk) ? (K + maxk - 1) / maxk : 1;
    for (long k = 1; k <= K; k += step) {
      ExecutionContext ctx;
      Manifold r;
      {
        ProbeScope ps(ctx, k);
        r = runEager(op, ctx);
        (void)r.Status();
      }
      const auto st = r.Status();
      checkProgress(k, false, ctx, op.c_str());
      if (ctx.Cancelled())
        TraceRun(k, K, st, r.IsEmpty(), st == Manifold::Error::NoError && HashMeshModIDs(r.GetMeshGL64()) == refHash, false, ctx);
      if (st == Manifold::Error::Cancelled) {
        if (!r.IsEmpty()) fail("allornothing:nonempty-cancelled", {{"op", op}, {"k", k}});
      } else if (st == Manifold::Error::NoError) {
        if (HashMeshModIDs(r.GetMeshGL64()) != refHash) fail("allornothing:partial", {{"op", op}, {"k", k}, {"K", K}, {"nt", r.NumTri()}});
      } else
        fail("allornothing:status", {{"op", op}, {"k", k}, {"status", ErrName(st)}});
    }
    lastK = K;
  }
};

int CancelMain(int argc, char** argv) {
  Args args(argc, argv, 2);
  if (args.pos.size() < 2) {
    fprintf(stderr, "usage: mfdrive cancel <in> <out> [--K=4] [--maxk=N]\n");
    return 2;
  }
  auto cases = ReadNdjson(args.pos[0]);
  Out out(args.pos[1]);
  const long from = args.num("from", 0);
  if (args.has("trace")) gTrace = fopen(args.str("trace").c_str(), from > 0 ? "a" : "w");
  long nfail = 0, nontrivial = 0, points = 0;
  for (long i = from; i < (long)cases.size(); i++) {
    out.line({{"begin", i}});
    Runner r{Window{(int)args.num("K", 4)}, args.num("maxk", 0), args.has("viacopy")};
    if (cases[i]["k"] == "eager")
      r.runEagerCase(cases[i]["op"]);
    else
      r.runTree(cases[i]);
    if (!r.fails.empty()) nfail++;
    points += r.lastK;
    nontrivial += r.lastK > 1;
    out.line({{"i", i}, {"fail", r.fails}, {"nontrivial", r.lastK > 1 ? 1 : 0}, {"K", r.lastK}});
  }
  if (gTrace) fclose(gTrace);
  out.line({{"done", true}, {"n", (long)cases.size() - from}, {"failed", nfail}, {"nontrivial", nontrivial}, {"points", points}});
  return 0;
}
static Register regCancel("cancel", CancelMain);
}  // namespace
}  // namespace vf
