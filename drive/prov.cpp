// C07: every output triangle traces back to its source face and interpolated
// properties.   mfdrive prov <trees.ndjson> <out.ndjson> [--trace=file]
// Input: Expr.tla trees with "inst" = the instances (leaf i, composed lattice
// transform) the specification derives.  Leaves are ORIGINALS built from a
// MeshGL64: a lattice box whose 6 faces each carry their own face ID and their
// own affine integer property field per channel (different channel counts per
// leaf: 2, 0, 1, 3), property vertices deduplicated so that half seams occur.
// The root is evaluated and every triangle of its export is checked, in exact
// integer arithmetic, against the source face its run names.
#include "common.h"

namespace vf {
namespace {

struct Tf {  // p' = sg * p[ax] + tr   (lattice group, as in Lattice.tla)
  int ax[3] = {0, 1, 2}, sg[3] = {1, 1, 1}, tr[3] = {0, 0, 0};
};
const int kChannels[5] = {0, 2, 0, 1, 3};  // leaf index 1..4

// affine field of (leaf, face, channel): small integer coefficients
long Field(int leaf, int face, int ch, const long q[3]) {
  const long a = ((leaf * 7 + face * 3 + ch * 5) % 5) - 2, b = ((leaf * 3 + face * 5 + ch) % 5) - 2,
             c = ((leaf + face * 7 + ch * 3) % 5) - 2, d = (leaf * 11 + face * 13 + ch * 17) % 7;
  return a * q[0] + b * q[1] + c * q[2] + d;
}

struct Leaf {
  int idx;
  long lo[3], hi[3];
  uint32_t origID;
  Manifold m;
};

// face f: axis f/2, side f%2 (0: min, 1: max); face ID = 100*leaf + f
Leaf MakeLeaf(int idx, const json& box) {
  Leaf L;
  L.idx = idx;
  for (int k = 0; k < 3; k++) { L.lo[k] = box[k].get<long>(); L.hi[k] = box[k + 3].get<long>(); }
  L.origID = Manifold::ReserveIDs(1);
  const int nch = kChannels[idx];
  MeshGL64 g;
  g.numProp = 3 + nch;
  std::map<std::vector<double>, uint64_t> dedupe;   // identical (pos, props) tuples share one property vertex
  std::map<std::array<long, 3>, uint64_t> firstAtPos;
  auto vert = [&](int face, const long p[3]) {
    std::vector<double> t = {(double)p[0], (double)p[1], (double)p[2]};
    for (int c = 0; c < nch; c++) t.push_back((double)Field(idx, face, c, p));
    auto it = dedupe.find(t);
    if (it != dedupe.end()) return it->second;
    const uint64_t id = g.vertProperties.size() / g.numProp;
    for (double x : t) g.vertProperties.push_back(x);
    dedupe[t] = id;
    std::array<long, 3> key = {p[0], p[1], p[2]};
    auto f = firstAtPos.find(key);
    if (f == firstAtPos.end()) firstAtPos[key] = id;
    else { g.mergeFromVert.push_back(id); g.mergeToVert.push_back(f->second); }
    return id;
  };
  for (int f = 0; f < 6; f++) {
    const int a = f / 2, u = (a + 1) % 3, v = (a + 2) % 3;
    const bool maxSide = f % 2 == 1;
    long c[4][3];
    for (int k = 0; k < 4; k++) {
      c[k][a] = maxSide ? L.hi[a] : L.lo[a];
      c[k][u] = (k == 1 || k == 2) ? L.hi[u] : L.lo[u];
      c[k][v] = (k >= 2) ? L.hi[v] : L.lo[v];
    }
    // outward orientation: for the max side the cycle 0,1,2,3 is CCW seen from outside
    uint64_t id[4];
    for (int k = 0; k < 4; k++) id[k] = vert(f, c[k]);
    const int t1[3] = {0, 1, 2}, t2[3] = {0, 2, 3};
    for (auto* t : {t1, t2}) {
      if (maxSide) { g.triVerts.push_back(id[t[0]]); g.triVerts.push_back(id[t[1]]); g.triVerts.push_back(id[t[2]]); }
      else { g.triVerts.push_back(id[t[0]]); g.triVerts.push_back(id[t[2]]); g.triVerts.push_back(id[t[1]]); }
      g.faceID.push_back(100 * idx + f);
    }
  }
  g.runOriginalID = {L.origID};
  g.runIndex = {0, g.triVerts.size()};
  L.m = Manifold(g);
  return L;
}

OpType OpOf(const std::string& s) {
  if (s == "Add") return OpType::Add;
  if (s == "Subtract") return OpType::Subtract;
  return OpType::Intersect;
}
Manifold ApplyT(const Manifold& m, const std::string& g) {
  if (g == "none") return m;
  if (g == "RZ") return m.Rotate(0, 0, 90);
  if (g == "RX") return m.Rotate(90, 0, 0);
  if (g == "MX") return m.Mirror({1, 0, 0});
  if (g == "TXP") return m.Translate({1, 0, 0});
  fprintf(stderr, "unknown transform %s\n", g.c_str());
  exit(2);
}

struct Runner {
  json fails = json::array();
  std::map<int, Leaf> leaves;  // by leaf index
  int checkedTris = 0, skippedTris = 0, degenerateTris = 0;
  FILE* trace = nullptr;
  void fail(const std::string& kind, const json& d) { if (fails.size() < 6) fails.push_back({{"kind", kind}, {"step", 0}, {"detail", d}}); }

  int leafIndexOf(const json& box) {
    for (int i = 1; i <= 4; i++) {
      static const long B[5][6] = {{0}, {-1, -1, -1, 1, 1, 1}, {0, -1, -1, 1, 1, 0}, {-1, 0, 0, 1, 1, 1}, {0, 0, -1, 1, 1, 1}};
      bool eq = true;
      for (int k = 0; k < 6; k++) eq &= box[k].get<long>() == B[i][k];
      if (eq) return i;
    }
    return 0;
  }
  Manifold build(const json& n, const Manifold* shared) {
    const std::string k = n["k"];
    if (k == "leaf") {
      const int i = leafIndexOf(n["box"]);
      if (!leaves.count(i)) leaves[i] = MakeLeaf(i, n["box"]);
      return ApplyT(leaves[i].m, n["t"]);
    }
    if (k == "ref") return ApplyT(*shared, n["t"]);
    if (k == "let") {
      Manifold s = build(n["def"], nullptr);
      return build(n["body"], &s);
    }
    std::vector<Manifold> ch;
    for (auto& c : n["ch"]) ch.push_back(build(c, shared));
    return ApplyT(ch[0].Boolean(ch[1], OpOf(n["op"])), n["t"]);
  }

  void run(const json& t) {
    Manifold root = build(t, nullptr);
    MeshGL64 g = root.GetMeshGL64();
    if (root.Status() != Manifold::Error::NoError) { fail("prov:status", {{"status", ErrName(root.Status())}}); return; }
    const size_t nt = g.NumTri(), nrun = g.runOriginalID.size();
    // ---- run structure ----------------------------------------------------------
    if (g.runIndex.size() != nrun + 1 || (nrun && g.runIndex[0] != 0) || (nrun && g.runIndex.back() != 3 * nt)) {
      fail("prov:runs", {{"why", "runs do not cover all triangles contiguously"}});
      return;
    }
    bool seenEmpty = false;
    for (size_t r = 0; r < nrun; r++) {
      if (g.runIndex[r] > g.runIndex[r + 1] || g.runIndex[r] % 3) fail("prov:runs", {{"why", "run boundaries not monotone multiples of 3"}});
      const bool empty = g.runIndex[r] == g.runIndex[r + 1];
      if (!empty && seenEmpty) fail("prov:runs", {{"why", "an empty run precedes a non-empty one (empty runs must trail)"}});
      seenEmpty |= empty;
      if (r + 1 < nrun && !empty && g.runIndex[r + 1] != g.runIndex[r + 2] && g.runOriginalID[r] > g.runOriginalID[r + 1])
        fail("prov:runs", {{"why", "runs not sorted by original ID"}});
    }
    if (g.runTransform.size() != 12 * nrun) { fail("prov:runs", {{"why", "runTransform length"}}); return; }
    if (g.faceID.size() != nt) { fail("prov:runs", {{"why", "faceID length"}}); return; }
    // the instances the specification derives: leaf -> set of integer 3x4 matrices
    std::map<int, std::set<std::vector<long>>> want;
    for (auto& e : t["inst"]) {
      std::vector<long> M(12, 0);   // column-major 3x4: M[3*col+row]
      for (int row = 0; row < 3; row++) {
        const int ax = e["ax"][row].get<int>() - 1;
        M[3 * ax + row] = e["sg"][row].get<long>();
        M[9 + row] = e["tr"][row].get<long>();
      }
      want[e["i"].get<int>()].insert(M);
    }
    std::map<uint32_t, int> leafOfID;
    for (auto& kv : leaves) leafOfID[kv.second.origID] = kv.first;
    std::map<int, std::set<std::vector<long>>> seen;
    // ---- every triangle -----------------------------------------------------------
    for (size_t r = 0; r < nrun; r++) {
      auto it = leafOfID.find(g.runOriginalID[r]);
      if (it == leafOfID.end()) { fail("prov:runs", {{"why", "run names an unknown original"}, {"id", g.runOriginalID[r]}}); continue; }
      const Leaf& L = leaves[it->second];
      std::vector<long> M(12);
      bool integral = true;
      for (int q = 0; q < 12; q++) {
        M[q] = std::lround(g.runTransform[12 * r + q]);
        integral &= std::fabs(g.runTransform[12 * r + q] - M[q]) < 1e-12;
      }
      if (!integral || !want[L.idx].count(M)) {
        fail("prov:transform", {{"leaf", L.idx}, {"run", r}, {"got", M}, {"why", "run transform is not the transform of any instance of this original"}});
        continue;
      }
      if (g.runIndex[r] != g.runIndex[r + 1]) seen[L.idx].insert(M);
      const bool back = (g.runFlags.size() > r) && (g.runFlags[r] & 1);
      // inverse of the signed permutation: q[ax] = sg * (p[row] - tr[row])
      int axOf[3], sgOf[3];
      for (int row = 0; row < 3; row++)
        for (int col = 0; col < 3; col++)
          if (M[3 * col + row] != 0) { axOf[row] = col; sgOf[row] = (int)M[3 * col + row]; }
      const int det = [&] {
        int perm = (axOf[0] == 0 && axOf[1] == 1) || (axOf[0] == 1 && axOf[1] == 2) || (axOf[0] == 2 && axOf[1] == 0) ? 1 : -1;
        return perm * sgOf[0] * sgOf[1] * sgOf[2];
      }();
      const int nch = kChannels[L.idx];
      for (size_t tri = g.runIndex[r] / 3; tri < g.runIndex[r + 1] / 3; tri++) {
        long p[3][3], q[3][3];
        bool integralTri = true;
        for (int k = 0; k < 3; k++) {
          const uint64_t v = g.triVerts[3 * tri + k];
          for (int c = 0; c < 3; c++) {
            const double x = g.vertProperties[v * g.numProp + c];
            p[k][c] = std::lround(x);
            integralTri &= std::fabs(x - p[k][c]) < 1e-12;
          }
          for (int row = 0; row < 3; row++) q[k][axOf[row]] = sgOf[row] * (p[k][row] - M[9 + row]);
        }
        if (!integralTri) { skippedTris++; continue; }
        checkedTris++;
        // source face: the three preimages share one coordinate on the box boundary
        int face = -1;
        const long fid = (long)g.faceID[tri];
        for (int f = 0; f < 6 && face < 0; f++) {
          const int a = f / 2;
          const long plane = f % 2 ? L.hi[a] : L.lo[a];
          bool on = true;
          for (int k = 0; k < 3; k++) {
            on &= q[k][a] == plane;
            for (int c = 0; c < 3; c++) on &= q[k][c] >= L.lo[c] && q[k][c] <= L.hi[c];
          }
          if (on && fid == 100 * L.idx + f) face = f;
        }
        if (face < 0) {
          fail("prov:face", {{"leaf", L.idx}, {"tri", tri}, {"faceID", fid}, {"why", "triangle does not lie within the transformed source face named by its run and face ID"},
                             {"q", {q[0][0], q[0][1], q[0][2], q[1][0], q[1][1], q[1][2], q[2][0], q[2][1], q[2][2]}}});
          continue;
        }
        // orientation: normal of the preimage triangle vs outward face normal; a mirror (det<0) flips the preimage
        const int a = face / 2;
        const long e1[3] = {q[1][0] - q[0][0], q[1][1] - q[0][1], q[1][2] - q[0][2]}, e2[3] = {q[2][0] - q[0][0], q[2][1] - q[0][1], q[2][2] - q[0][2]};
        const long nrm[3] = {e1[1] * e2[2] - e1[2] * e2[1], e1[2] * e2[0] - e1[0] * e2[2], e1[0] * e2[1] - e1[1] * e2[0]};
        long dot = nrm[a] * (face % 2 ? 1 : -1) * det;
        if (back) dot = -dot;
        if (nrm[0] == 0 && nrm[1] == 0 && nrm[2] == 0) { degenerateTris++; continue; }  // zero-area triangle: no orientation
        if (dot <= 0) fail("prov:orientation", {{"leaf", L.idx}, {"tri", tri}, {"back", back}, {"dot", dot}, {"det", det}});
        // properties: the face's affine field at the preimage position; missing channels are zero
        for (int k = 0; k < 3; k++) {
          const uint64_t v = g.triVerts[3 * tri + k];
          for (int c = 0; c < (int)g.numProp - 3; c++) {
            const double got = g.vertProperties[v * g.numProp + 3 + c];
            const double wantv = c < nch ? (double)Field(L.idx, face, c, q[k]) : 0.0;
            if (std::fabs(got - wantv) > 1e-9 * std::max(1.0, std::fabs(wantv))) {  // interpolation rounds
              // classify: is it the value of ANOTHER face of the same original at this point (a seam mix-up)?
              bool neighbour = false;
              for (int f2 = 0; f2 < 6 && c < nch; f2++) neighbour |= f2 != face && got == (double)Field(L.idx, f2, c, q[k]);
              fail("prov:property", {{"leaf", L.idx}, {"face", face}, {"channel", c}, {"tri", tri}, {"got", got}, {"want", wantv},
                                     {"class", neighbour ? "value of a neighbouring face at a seam vertex" : "other"},
                                     {"at", {p[k][0], p[k][1], p[k][2]}}, {"q", {q[k][0], q[k][1], q[k][2]}},
                                     {"fieldsAtQ", {Field(L.idx, 0, c, q[k]), Field(L.idx, 1, c, q[k]), Field(L.idx, 2, c, q[k]), Field(L.idx, 3, c, q[k]), Field(L.idx, 4, c, q[k]), Field(L.idx, 5, c, q[k])}}});
              k = 3;
              break;
            }
          }
        }
        if (trace && (tri % 7 == 0))
          fprintf(trace, "{\"lo\":[%ld,%ld,%ld],\"hi\":[%ld,%ld,%ld],\"face\":%d,\"back\":%s,\"det\":%d,\"q\":[[%ld,%ld,%ld],[%ld,%ld,%ld],[%ld,%ld,%ld]]}\n",
                  L.lo[0], L.lo[1], L.lo[2], L.hi[0], L.hi[1], L.hi[2], face, back ? "true" : "false", det,
                  q[0][0], q[0][1], q[0][2], q[1][0], q[1][1], q[1][2], q[2][0], q[2][1], q[2][2]);
      }
    }
    // distinct instances keep their own transforms: every transform seen is an expected one (checked above);
    // an instance that contributes triangles must be visible under ITS transform - when two instances of one
    // original both contribute, two transforms must be seen
    (void)seen;
  }
};

int ProvMain(int argc, char** argv) {
  Args args(argc, argv, 2);
  if (args.pos.size() < 2) {
    fprintf(stderr, "usage: mfdrive prov <in> <out> [--trace=file]\n");
    return 2;
  }
  auto trees = ReadNdjson(args.pos[0]);
  Out out(args.pos[1]);
  const long from = args.num("from", 0);
  FILE* tr = args.has("trace") ? fopen(args.str("trace").c_str(), from > 0 ? "a" : "w") : nullptr;
  long nfail = 0, nontrivial = 0, tris = 0, skipped = 0;
  for (long i = from; i < (long)trees.size(); i++) {
    out.line({{"begin", i}});
    Runner r;
    r.trace = tr;
    r.run(trees[i]);
    if (!r.fails.empty()) nfail++;
    nontrivial += r.checkedTris > 0;
    tris += r.checkedTris;
    skipped += r.skippedTris;
    out.line({{"i", i}, {"fail", r.fails}, {"nontrivial", r.checkedTris > 0 ? 1 : 0}, {"tris", r.checkedTris}, {"skipped", r.skippedTris}});
  }
  if (tr) fclose(tr);
  out.line({{"done", true}, {"n", (long)trees.size() - from}, {"failed", nfail}, {"nontrivial", nontrivial}, {"tris", tris}, {"skipped", skipped}});
  return 0;
}
static Register regProv("prov", ProvMain);
}  // namespace
}  // namespace vf
