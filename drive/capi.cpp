// C20: the C binding is a faithful, memory-safe image of the C++ API.
//   mfdrive capi <cases.ndjson> <out.ndjson> [--enummap=file] [--from=i] [--list]
// Cases are printed by TLC from spec/CApi.tla:
//   fam "life": a complete legal life-cycle program over abstract types E/V/P;
//        executed for every concrete handle type (3 element/vector pairs x 7
//        plain types) with real manifold_alloc_*/malloc(size)+guard bytes,
//        placement construction, destruct/delete/free; observations are
//        compared with the values the specification's memory model predicts;
//        allocated bytes must return to the starting level (leak).
//   fam "ops":  a typed program over the exported functions; every step is
//        executed through the C++ API and through the C function with the same
//        arguments (mirror table capi_table.inc) and the results are compared
//        field by field, reading the C objects back through the C accessors.
//   fam "enum": one C-name/C++-name pair of an enum of bindings/c/conv.cpp.
#include "capi.h"

// conv.cpp's converters (C++ linkage, global namespace); weak so that a
// refactoring of conv.h turns the direct check off instead of breaking the link
ManifoldError to_c(manifold::Manifold::Error) __attribute__((weak));
manifold::OpType from_c(ManifoldOpType) __attribute__((weak));
manifold::JoinType from_c(ManifoldJoinType) __attribute__((weak));

namespace vf {
namespace capi {

// ===================================================================== readers
struct SkipStep {
  std::string why;
};

inline SimplePolygon ReadSP(Fails& F, ManifoldSimplePolygon* p) {
  SimplePolygon out;
  H("manifold_simple_polygon_length");
  H("manifold_simple_polygon_get_point");
  SetPhase("c", "read simple_polygon");
  const size_t n = manifold_simple_polygon_length(p);
  for (size_t i = 0; i < n; i++) {
    ManifoldVec2 v = manifold_simple_polygon_get_point(p, i);
    out.push_back({v.x, v.y});
  }
  return out;
}
inline Polygons ReadPG(Fails& F, ManifoldPolygons* p) {
  Polygons out;
  H("manifold_polygons_length");
  H("manifold_polygons_simple_length");
  H("manifold_polygons_get_point");
  SetPhase("c", "read polygons");
  const size_t n = manifold_polygons_length(p);
  for (size_t i = 0; i < n; i++) {
    const size_t m = manifold_polygons_simple_length(p, i);
    SimplePolygon sp;
    for (size_t j = 0; j < m; j++) {
      ManifoldVec2 v = manifold_polygons_get_point(p, i, j);
      sp.push_back({v.x, v.y});
    }
    out.push_back(sp);
  }
  return out;
}
inline bool SamePolys(const Polygons& a, const Polygons& b) {
  if (a.size() != b.size()) return false;
  for (size_t i = 0; i < a.size(); i++) {
    if (a[i].size() != b[i].size()) return false;
    for (size_t j = 0; j < a[i].size(); j++)
      if (!SameBits(a[i][j], b[i][j])) return false;
  }
  return true;
}

struct MeshCounts {
  size_t numVert, numTri, numRun;
};
#define VF_READMESH(FN, PFX, CT, MT, P, I)                                                                         \
  inline MT FN(Fails& F, CT* m, MeshCounts* cnt = nullptr) {                                                      \
    MT o;                                                                                                          \
    SetPhase("c", "read " #PFX);                                                                                  \
    H("manifold_" #PFX "_num_prop"); H("manifold_" #PFX "_vert_properties_length"); H("manifold_" #PFX "_tri_length"); \
    H("manifold_" #PFX "_merge_length"); H("manifold_" #PFX "_run_index_length"); H("manifold_" #PFX "_run_original_id_length"); \
    H("manifold_" #PFX "_run_transform_length"); H("manifold_" #PFX "_face_id_length"); H("manifold_" #PFX "_tangent_length"); \
    H("manifold_" #PFX "_run_flags_length"); H("manifold_" #PFX "_tolerance"); H("manifold_" #PFX "_num_vert"); \
    H("manifold_" #PFX "_num_tri"); H("manifold_" #PFX "_num_run");                                               \
    o.numProp = manifold_##PFX##_num_prop(m);                                                                      \
    o.vertProperties = ReadArr<P>(F, "manifold_" #PFX "_vert_properties", manifold_##PFX##_vert_properties_length(m), \
                                  [&](void* mem) { return manifold_##PFX##_vert_properties(mem, m); });            \
    o.triVerts = ReadArr<I>(F, "manifold_" #PFX "_tri_verts", manifold_##PFX##_tri_length(m),                      \
                            [&](void* mem) { return manifold_##PFX##_tri_verts(mem, m); });                        \
    o.mergeFromVert = ReadArr<I>(F, "manifold_" #PFX "_merge_from_vert", manifold_##PFX##_merge_length(m),         \
                                 [&](void* mem) { return manifold_##PFX##_merge_from_vert(mem, m); });             \
    o.mergeToVert = ReadArr<I>(F, "manifold_" #PFX "_merge_to_vert", manifold_##PFX##_merge_length(m),             \
                               [&](void* mem) { return manifold_##PFX##_merge_to_vert(mem, m); });                 \
    o.runIndex = ReadArr<I>(F, "manifold_" #PFX "_run_index", manifold_##PFX##_run_index_length(m),                \
                            [&](void* mem) { return manifold_##PFX##_run_index(mem, m); });                        \
    o.runOriginalID = ReadArr<uint32_t>(F, "manifold_" #PFX "_run_original_id", manifold_##PFX##_run_original_id_length(m), \
                                        [&](void* mem) { return manifold_##PFX##_run_original_id(mem, m); });      \
    o.runTransform = ReadArr<P>(F, "manifold_" #PFX "_run_transform", manifold_##PFX##_run_transform_length(m),    \
                                [&](void* mem) { return manifold_##PFX##_run_transform(mem, m); });                \
    o.faceID = ReadArr<I>(F, "manifold_" #PFX "_face_id", manifold_##PFX##_face_id_length(m),                      \
                          [&](void* mem) { return manifold_##PFX##_face_id(mem, m); });                            \
    o.halfedgeTangent = ReadArr<P>(F, "manifold_" #PFX "_halfedge_tangent", manifold_##PFX##_tangent_length(m),    \
                                   [&](void* mem) { return manifold_##PFX##_halfedge_tangent(mem, m); });          \
    o.runFlags = ReadArr<uint8_t>(F, "manifold_" #PFX "_run_flags", manifold_##PFX##_run_flags_length(m),          \
                                  [&](void* mem) { return manifold_##PFX##_run_flags(mem, m); });                  \
    o.tolerance = manifold_##PFX##_tolerance(m);                                                                   \
    if (cnt && o.numProp != 0)                                                                                     \
      *cnt = {manifold_##PFX##_num_vert(m), manifold_##PFX##_num_tri(m), manifold_##PFX##_num_run(m)};             \
    return o;                                                                                                      \
  }
VF_READMESH(ReadMG, meshgl, ManifoldMeshGL, MeshGL, float, uint32_t)
VF_READMESH(ReadMG64, meshgl64, ManifoldMeshGL64, MeshGL64, double, uint64_t)

// first differing field of two meshes ("" = equal); original IDs are compared
// up to renaming by first occurrence (the two worlds draw from one counter)
template <class MT>
inline std::string MeshDiff(const MT& a, const MT& b) {
  if (a.numProp != b.numProp) return "numProp";
  if (!SameVec(a.vertProperties, b.vertProperties)) return "vertProperties";
  if (!SameVec(a.triVerts, b.triVerts)) return "triVerts";
  if (!SameVec(a.mergeFromVert, b.mergeFromVert)) return "mergeFromVert";
  if (!SameVec(a.mergeToVert, b.mergeToVert)) return "mergeToVert";
  if (!SameVec(a.runIndex, b.runIndex)) return "runIndex";
  if (!SameVec(RenameIDs(a.runOriginalID), RenameIDs(b.runOriginalID))) return "runOriginalID";
  if (!SameVec(a.runTransform, b.runTransform)) return "runTransform";
  if (!SameVec(a.runFlags, b.runFlags)) return "runFlags";
  if (!SameVec(a.faceID, b.faceID)) return "faceID";
  if (!SameVec(a.halfedgeTangent, b.halfedgeTangent)) return "halfedgeTangent";
  if (!SameBits(a.tolerance, b.tolerance)) return "tolerance";
  return "";
}

// ============================================================ dual-world state
struct Reg {
  bool set = false;
  Block c;
  std::shared_ptr<void> x;
};

struct UserCtx {  // the object behind the `void* ctx` of callbacks
  uint64_t magic = 0xC20C20C20C20ull;
  double k = 0;
  int n1 = 0, n2 = 0;
  vec3 centre = vec3(0.0);
  double radius = 1;
  std::string text;
  long calls = 0;
};
static const void* g_expectCtx = nullptr;
static long g_badCtx = 0;
inline UserCtx* CtxOf(void* ctx) {
  if (ctx != g_expectCtx) g_badCtx++;
  UserCtx* u = (UserCtx*)g_expectCtx;  // never dereference a wrong pointer
  u->calls++;
  return u;
}

struct Run {
  Fails F;
  Reg regs[kCount][4];
  std::vector<Block> pool[kCount];  // destructed storage waiting to be constructed into again
  long counter = 0;
  bool preferAlloc = false;
  long nontrivial = 0, skipped = 0, steps = 0;
  json skipWhy = json::array();

  Block acquire(Kind k) {
    counter++;
    if (!pool[k].empty() && counter % 3 != 0) {
      Block b = pool[k].back();
      pool[k].pop_back();
      return b;
    }
    return Acquire(k, (counter % 2 == 0) != preferAlloc, F);
  }
  // construct something trivial into raw alloc_* storage so that it can be given back through delete_*
  static void Trivial(Kind k, void* p);
  void releaseRaw(Block& b) {
    if (!b.p) return;
    if (b.fromAlloc) {
      Trivial(b.k, b.p);
      SetPhase("c", std::string("delete ") + T(b.k).name);
      T(b.k).del(b.p);
    } else {
      CheckGuard(b, F, "before free");
      free(b.p);
    }
    b.p = nullptr;
  }
  void releaseLive(Block& b) {
    if (!b.p) return;
    counter++;
    SetPhase("c", std::string("release ") + T(b.k).name);
    if (counter % 4 == 1 && pool[b.k].size() < 2) {  // destruct only; the storage is used again
      T(b.k).destruct(b.p);
      CheckGuard(b, F, "after destruct");
      pool[b.k].push_back(b);
    } else if (b.fromAlloc) {
      T(b.k).del(b.p);
    } else {
      T(b.k).destruct(b.p);
      CheckGuard(b, F, "after destruct");
      free(b.p);
    }
    b.p = nullptr;
  }
  void clear() {
    for (int k = 0; k < kCount; k++) {
      for (auto& r : regs[k]) {
        if (r.set) releaseLive(r.c);
        r.set = false;
        r.x.reset();
      }
    }
    for (int k = 0; k < kCount; k++) {
      for (auto& b : pool[k]) releaseRaw(b);
      pool[k].clear();
    }
  }
};

template <class A>
struct KindOfT;
#define VF_KT(TT, KK) \
  template <>         \
  struct KindOfT<TT> { static const Kind k = KK; };
VF_KT(Manifold, kM)
VF_KT(std::vector<Manifold>, kMV)
VF_KT(CrossSection, kCS)
VF_KT(std::vector<CrossSection>, kCV)
VF_KT(RayHitVec, kRH)
VF_KT(SimplePolygon, kSP)
VF_KT(Polygons, kPG)
VF_KT(MeshGL, kMG)
VF_KT(MeshGL64, kMG64)
VF_KT(Box, kBX)
VF_KT(Rect, kRC)
VF_KT(TriVec, kTR)
VF_KT(ExecutionContext, kEC)

struct Ctx {
  Run& run;
  Fails& F;
  const json& st;
  std::string fn;
  std::vector<double> a;  // arguments as doubles (entry / q)
  std::vector<long> ia;   // the raw integer entries
  std::vector<Reg*> in;
  std::vector<std::pair<Kind, int>> outs;
  std::vector<Block> fresh;  // memory handed to the C call of this step
  size_t outUsed = 0;
  bool use64 = false;

  Ctx(Run& r, const json& s) : run(r), F(r.F), st(s) {}

  void* cin(size_t i) { return in.at(i)->c.p; }
  template <class A>
  A& xin(size_t i) {
    return *static_cast<A*>(in.at(i)->x.get());
  }
  void phaseC() { SetPhase("c", fn); }
  void* mem(Kind k) {
    Block b = run.acquire(k);
    fresh.push_back(b);
    phaseC();
    return b.p;
  }
  [[noreturn]] void skip(const std::string& why) { throw SkipStep{why}; }
  void need(bool cond, const char* why) {
    if (!cond) skip(why);
  }
  size_t idx(size_t k, size_t n) {  // container index taken modulo the length
    need(n > 0, "empty container");
    return (size_t)ia.at(k) % n;
  }

  // ---- comparisons of plain values
  template <class A, class B>
  void eq(A cval, B xval, const char* what = "value") {
    using CT = typename std::common_type<A, B>::type;
    CT c1 = (CT)cval, x1 = (CT)xval;
    if (!SameBits(c1, x1)) {
      std::ostringstream s1, s2;
      s1.precision(17);
      s2.precision(17);
      s1 << c1;
      s2 << x1;
      F.add("value", {{"what", what}, {"c", s1.str()}, {"cpp", s2.str()}});
    }
  }
  void eq2(ManifoldVec2 c, vec2 x, const char* what = "vec2") {
    if (!SameBits(c.x, x.x) || !SameBits(c.y, x.y)) F.add("value", {{"what", what}, {"c", {c.x, c.y}}, {"cpp", {x.x, x.y}}});
  }
  void eq3(ManifoldVec3 c, vec3 x, const char* what = "vec3") {
    if (!SameBits(c.x, x.x) || !SameBits(c.y, x.y) || !SameBits(c.z, x.z))
      F.add("value", {{"what", what}, {"c", {c.x, c.y, c.z}}, {"cpp", {x.x, x.y, x.z}}});
  }
  void eqs(const std::string& c, const std::string& x, const char* what) {
    if (c != x) F.add("value", {{"what", what}, {"c", c.substr(0, 200)}, {"cpp", x.substr(0, 200)}, {"c_len", c.size()}, {"cpp_len", x.size()}});
  }
  void ctxCheck(const UserCtx& u, const char* what) {
    if (g_badCtx) F.add("ctx", {{"what", what}, {"why", "callback received a context pointer different from the one passed"}, {"times", g_badCtx}});
    g_badCtx = 0;
    g_expectCtx = nullptr;
  }

  // ---- installing a result: the C object must live in exactly the memory supplied
  template <class CP, class A>
  void ret(CP* cptr, A&& xval) {
    using AT = typename std::decay<A>::type;
    const Kind k = KindOfT<AT>::k;
    if (outUsed >= fresh.size() || outUsed >= outs.size()) {
      F.add("driver", {{"why", "row produced more results than the step declares"}});
      return;
    }
    Block b = fresh[outUsed];
    if ((void*)cptr != b.p) F.add("ptr", {{"why", "returned pointer differs from the memory supplied"}, {"result", (int)outUsed}});
    CheckGuard(b, F, "after construction");
    if (outs[outUsed].first != k) F.add("driver", {{"why", "row result kind differs from the table"}});
    Reg& r = run.regs[outs[outUsed].first][outs[outUsed].second];
    if (r.set) run.releaseLive(r.c);
    r.c = b;
    r.x = std::make_shared<AT>(std::forward<A>(xval));
    r.set = true;
    fresh[outUsed].p = nullptr;
    outUsed++;
    compare(k, r);
  }
  void recheck(size_t i) {  // operand i was mutated in place
    for (int k = 0; k < kCount; k++)
      for (auto& r : run.regs[k])
        if (&r == in.at(i)) compare((Kind)k, r);
  }

  // temporaries used by the comparators: constructed into fresh caller memory and given back
  struct Temp {
    Ctx& c;
    Block b;
    Temp(Ctx& cc, Kind k) : c(cc), b(cc.run.acquire(k)) {}
    ~Temp() {
      if (b.p) c.run.releaseLive(b);
    }
    void check(void* r) {
      if (r != b.p) c.F.add("ptr", {{"why", "returned pointer differs from the memory supplied"}, {"type", T(b.k).name}});
      CheckGuard(b, c.F, "after construction");
    }
  };

  void cmpM(ManifoldManifold* cm, const Manifold& xm);
  void cmpCS(ManifoldCrossSection* cc, const CrossSection& xc);
  void compare(Kind k, Reg& r);
};

void Ctx::cmpM(ManifoldManifold* cm, const Manifold& xm) {
  // the C++ side is always evaluated first: if the library itself stops the process on this
  // object, the phase marker says "cpp" and the stop is not attributed to the binding
  SetPhase("cpp", "compare: Status");
  const Manifold::Error xs = xm.Status();
  SetPhase("c", "manifold_status");
  H("manifold_status");
  const int cs = manifold_status(cm);
  const std::string cname = CppNameOfC("Error", cs);
  if (cname != ErrName(xs)) {
    F.add("status", {{"c", CEnumName("Error", cs)}, {"c_means", cname}, {"cpp", ErrName(xs)}});
    return;
  }
  H("manifold_is_empty");
  const bool xEmpty = xm.IsEmpty();
  SetPhase("c", "manifold_is_empty");
  if ((manifold_is_empty(cm) != 0) != xEmpty) F.add("value", {{"what", "is_empty"}});
  if (xs != Manifold::Error::NoError) return;
  if (!xEmpty) run.nontrivial++;
  if (use64) {
    SetPhase("cpp", "compare: GetMeshGL64");
    const MeshGL64 want = xm.GetMeshGL64();
    Temp t(*this, kMG64);
    H("manifold_get_meshgl64");
    SetPhase("c", "manifold_get_meshgl64");
    auto* g = manifold_get_meshgl64(t.b.p, cm);
    t.check(g);
    MeshGL64 got = ReadMG64(F, g);
    std::string d = MeshDiff(got, want);
    if (!d.empty()) F.add("mesh", {{"field", d}, {"via", "manifold_get_meshgl64"}});
  } else {
    SetPhase("cpp", "compare: GetMeshGL");
    const MeshGL want = xm.GetMeshGL();
    Temp t(*this, kMG);
    H("manifold_get_meshgl");
    SetPhase("c", "manifold_get_meshgl");
    auto* g = manifold_get_meshgl(t.b.p, cm);
    t.check(g);
    MeshGL got = ReadMG(F, g);
    std::string d = MeshDiff(got, want);
    if (!d.empty()) F.add("mesh", {{"field", d}, {"via", "manifold_get_meshgl"}});
  }
}

void Ctx::cmpCS(ManifoldCrossSection* cc, const CrossSection& xc) {
  SetPhase("cpp", "compare: ToPolygons");
  const Polygons want = xc.ToPolygons();
  Temp t(*this, kPG);
  H("manifold_cross_section_to_polygons");
  SetPhase("c", "manifold_cross_section_to_polygons");
  auto* p = manifold_cross_section_to_polygons(t.b.p, cc);
  t.check(p);
  Polygons got = ReadPG(F, p);
  if (!SamePolys(got, want)) F.add("poly", {{"why", "cross-section contours differ"}, {"c_contours", got.size()}, {"cpp_contours", want.size()}});
  if (!want.empty()) run.nontrivial++;
}

void Ctx::compare(Kind k, Reg& r) {
  void* p = r.c.p;
  switch (k) {
    case kM:
      cmpM((ManifoldManifold*)p, *static_cast<Manifold*>(r.x.get()));
      break;
    case kCS:
      cmpCS((ManifoldCrossSection*)p, *static_cast<CrossSection*>(r.x.get()));
      break;
    case kMV: {
      auto& xv = *static_cast<std::vector<Manifold>*>(r.x.get());
      H("manifold_manifold_vec_length");
      SetPhase("c", "manifold_manifold_vec_length");
      const size_t n = manifold_manifold_vec_length((ManifoldManifoldVec*)p);
      if (n != xv.size()) {
        F.add("value", {{"what", "manifold_vec length"}, {"c", n}, {"cpp", xv.size()}});
        break;
      }
      for (size_t i = 0; i < n && i < 8; i++) {
        Temp t(*this, kM);
        H("manifold_manifold_vec_get");
        SetPhase("c", "manifold_manifold_vec_get");
        auto* e = manifold_manifold_vec_get(t.b.p, (ManifoldManifoldVec*)p, i);
        t.check(e);
        cmpM(e, xv[i]);
      }
      break;
    }
    case kCV: {
      auto& xv = *static_cast<std::vector<CrossSection>*>(r.x.get());
      H("manifold_cross_section_vec_length");
      SetPhase("c", "manifold_cross_section_vec_length");
      const size_t n = manifold_cross_section_vec_length((ManifoldCrossSectionVec*)p);
      if (n != xv.size()) {
        F.add("value", {{"what", "cross_section_vec length"}, {"c", n}, {"cpp", xv.size()}});
        break;
      }
      for (size_t i = 0; i < n && i < 8; i++) {
        Temp t(*this, kCS);
        H("manifold_cross_section_vec_get");
        SetPhase("c", "manifold_cross_section_vec_get");
        auto* e = manifold_cross_section_vec_get(t.b.p, (ManifoldCrossSectionVec*)p, i);
        t.check(e);
        cmpCS(e, xv[i]);
      }
      break;
    }
    case kRH: {
      auto& xv = *static_cast<RayHitVec*>(r.x.get());
      H("manifold_ray_hit_vec_length");
      H("manifold_ray_hit_vec_get");
      SetPhase("c", "manifold_ray_hit_vec_*");
      const size_t n = manifold_ray_hit_vec_length((ManifoldRayHitVec*)p);
      if (n != xv.size()) {
        F.add("value", {{"what", "ray_hit_vec length"}, {"c", n}, {"cpp", xv.size()}});
        break;
      }
      for (size_t i = 0; i < n; i++) {
        ManifoldRayHit h = manifold_ray_hit_vec_get((ManifoldRayHitVec*)p, i);
        eq(h.face_id, (uint64_t)xv[i].faceID, "ray hit face_id");
        eq(h.distance, xv[i].distance, "ray hit distance");
        eq3(h.position, xv[i].position, "ray hit position");
        eq3(h.normal, xv[i].normal, "ray hit normal");
      }
      if (n) run.nontrivial++;
      break;
    }
    case kSP: {
      SimplePolygon got = ReadSP(F, (ManifoldSimplePolygon*)p);
      if (!SamePolys({got}, {*static_cast<SimplePolygon*>(r.x.get())})) F.add("poly", {{"why", "simple polygon points differ"}});
      if (!got.empty()) run.nontrivial++;
      break;
    }
    case kPG: {
      Polygons got = ReadPG(F, (ManifoldPolygons*)p);
      if (!SamePolys(got, *static_cast<Polygons*>(r.x.get()))) F.add("poly", {{"why", "polygons differ"}});
      if (!got.empty()) run.nontrivial++;
      break;
    }
    case kMG: {
      auto& xm = *static_cast<MeshGL*>(r.x.get());
      MeshCounts cnt{0, 0, 0};
      MeshGL got = ReadMG(F, (ManifoldMeshGL*)p, &cnt);
      std::string d = MeshDiff(got, xm);
      if (!d.empty()) F.add("mesh", {{"field", d}, {"via", "meshgl accessors"}});
      if (xm.numProp != 0 && (cnt.numVert != xm.NumVert() || cnt.numTri != xm.NumTri() || cnt.numRun != xm.NumRun()))
        F.add("value", {{"what", "meshgl num_vert/num_tri/num_run"}});
      if (xm.NumTri()) run.nontrivial++;
      break;
    }
    case kMG64: {
      auto& xm = *static_cast<MeshGL64*>(r.x.get());
      MeshCounts cnt{0, 0, 0};
      MeshGL64 got = ReadMG64(F, (ManifoldMeshGL64*)p, &cnt);
      std::string d = MeshDiff(got, xm);
      if (!d.empty()) F.add("mesh", {{"field", d}, {"via", "meshgl64 accessors"}});
      if (xm.numProp != 0 && (cnt.numVert != xm.NumVert() || cnt.numTri != xm.NumTri() || cnt.numRun != xm.NumRun()))
        F.add("value", {{"what", "meshgl64 num_vert/num_tri/num_run"}});
      if (xm.NumTri()) run.nontrivial++;
      break;
    }
    case kBX: {
      auto& xb = *static_cast<Box*>(r.x.get());
      H("manifold_box_min");
      H("manifold_box_max");
      SetPhase("c", "manifold_box_min/max");
      eq3(manifold_box_min((ManifoldBox*)p), xb.min, "box min");
      eq3(manifold_box_max((ManifoldBox*)p), xb.max, "box max");
      run.nontrivial++;
      break;
    }
    case kRC: {
      auto& xr = *static_cast<Rect*>(r.x.get());
      H("manifold_rect_min");
      H("manifold_rect_max");
      SetPhase("c", "manifold_rect_min/max");
      eq2(manifold_rect_min((ManifoldRect*)p), xr.min, "rect min");
      eq2(manifold_rect_max((ManifoldRect*)p), xr.max, "rect max");
      run.nontrivial++;
      break;
    }
    case kTR: {
      auto& xt = *static_cast<TriVec*>(r.x.get());
      H("manifold_triangulation_num_tri");
      SetPhase("c", "manifold_triangulation_num_tri");
      const size_t n = manifold_triangulation_num_tri((ManifoldTriangulation*)p);
      if (n != xt.size()) {
        F.add("value", {{"what", "triangulation num_tri"}, {"c", n}, {"cpp", xt.size()}});
        break;
      }
      std::vector<int> got = ReadArr<int>(F, "manifold_triangulation_tri_verts", 3 * n, [&](void* mem) {
        return manifold_triangulation_tri_verts(mem, (ManifoldTriangulation*)p);
      });
      std::vector<int> want;
      for (auto& t : xt) {
        want.push_back(t.x);
        want.push_back(t.y);
        want.push_back(t.z);
      }
      if (got != want) F.add("value", {{"what", "triangulation tri_verts"}});
      if (n) run.nontrivial++;
      break;
    }
    case kEC: {
      auto& xe = *static_cast<ExecutionContext*>(r.x.get());
      H("manifold_execution_context_cancelled");
      H("manifold_execution_context_progress");
      SetPhase("c", "manifold_execution_context_cancelled/progress");
      eq(manifold_execution_context_cancelled((ManifoldExecutionContext*)p) != 0, xe.Cancelled(), "context cancelled");
      eq(manifold_execution_context_progress((ManifoldExecutionContext*)p), xe.Progress(), "context progress");
      break;
    }
    default:
      break;
  }
}

// ================================================================ mirror table
using RowFn = void (*)(Ctx&);
struct Row {
  RowFn fn;
  std::string text;
};
inline std::map<std::string, Row>& Rows() {
  static std::map<std::string, Row> r;
  return r;
}
struct RowReg {
  RowReg(const char* name, RowFn fn, const char* text) { Rows()[name] = Row{fn, text}; }
};
#include "capi_table.inc"

void Run::Trivial(Kind k, void* p) {
  SetPhase("c", std::string("trivial ") + T(k).name);
  switch (k) {
    case kM: H("manifold_empty"); manifold_empty(p); break;
    case kMV: H("manifold_manifold_empty_vec"); manifold_manifold_empty_vec(p); break;
    case kCS: H("manifold_cross_section_empty"); manifold_cross_section_empty(p); break;
    case kCV: H("manifold_cross_section_empty_vec"); manifold_cross_section_empty_vec(p); break;
    case kSP: H("manifold_simple_polygon"); manifold_simple_polygon(p, nullptr, 0); break;
    case kPG: H("manifold_polygons"); manifold_polygons(p, nullptr, 0); break;
    case kMG: H("manifold_meshgl"); manifold_meshgl(p, nullptr, 0, 3, nullptr, 0); break;
    case kMG64: H("manifold_meshgl64"); manifold_meshgl64(p, nullptr, 0, 3, nullptr, 0); break;
    case kBX: H("manifold_box"); manifold_box(p, 0, 0, 0, 1, 1, 1); break;
    case kRC: H("manifold_rect"); manifold_rect(p, 0, 0, 1, 1); break;
    case kEC: H("manifold_execution_context"); manifold_execution_context(p); break;
    case kTR: {
      Fails f;
      Block b = Acquire(kPG, false, f);
      manifold_polygons(b.p, nullptr, 0);
      H("manifold_triangulate");
      manifold_triangulate(p, (ManifoldPolygons*)b.p, -1);
      T(kPG).destruct(b.p);
      free(b.p);
      break;
    }
    case kRH: {
      Fails f;
      Block b = Acquire(kM, false, f);
      manifold_empty(b.p);
      H("manifold_ray_cast");
      manifold_ray_cast(p, (ManifoldManifold*)b.p, 0, 0, 0, 1, 1, 1);
      T(kM).destruct(b.p);
      free(b.p);
      break;
    }
    default: break;
  }
}

// ------------------------------------------------------------------ ops family
static void RunStep(Run& run, const json& st, int stepNo) {
  Ctx c(run, st);
  c.fn = st["f"].get<std::string>();
  run.F.step = stepNo;
  run.F.fn = "manifold_" + c.fn;
  c.use64 = (stepNo % 2) == 0;
  auto it = Rows().find(c.fn);
  if (it == Rows().end()) {
    run.F.add("driver", {{"why", "no mirror row for " + c.fn}});
    return;
  }
  const double q = st.value("q", 1);
  for (auto& v : st["p"]) {
    c.ia.push_back(v.get<long>());
    c.a.push_back(v.get<double>() / q);
  }
  const json& sig = st["sig"];  // operand kinds / result kinds, attached by the check from the spec's table
  for (size_t i = 0; i < st["in"].size(); i++) {
    Reg& r = run.regs[KindOf(sig["a"][i])][st["in"][i].get<int>()];
    if (!r.set) {
      run.skipped++;
      return;
    }
    c.in.push_back(&r);
  }
  for (size_t i = 0; i < st["out"].size(); i++) c.outs.push_back({KindOf(sig["o"][i]), st["out"][i].get<int>()});
  run.steps++;
  SetPhase("cpp", c.fn);
  try {
    it->second.fn(c);
    H(run.F.fn.c_str());
  } catch (const SkipStep& s) {
    run.skipped++;
    if (run.skipWhy.size() < 6) run.skipWhy.push_back(c.fn + ": " + s.why);
  } catch (const std::exception& e) {
    // the C++ call (made first) threw: the C call is not made (it would terminate the process)
    run.skipped++;
    if (run.skipWhy.size() < 6) run.skipWhy.push_back(c.fn + ": C++ call threw " + e.what());
  }
  for (auto& b : c.fresh)
    if (b.p) run.releaseRaw(b);  // memory acquired but never constructed into
  SetPhase("driver", "between steps");
}

static void RunOps(const json& beh, long caseNo, Run& run) {
  run.preferAlloc = (caseNo % 2) == 1;
  int n = 0;
  for (auto& st : beh["prelude"]) RunStep(run, st, n++);
  for (auto& st : beh["steps"]) RunStep(run, st, n++);
  run.F.step = n;
  run.F.fn = "cleanup";
  run.clear();
  SetPhase("cpp", "Quality::ResetToDefaults");
  Quality::ResetToDefaults();
}

#include "capi_life.inc"

// ------------------------------------------------------------------ main
static void DeathCallback() {
  fprintf(stderr, "\nC20-PHASE: %s\n", Phase().c_str());
  fflush(stderr);
}

int Main(int argc, char** argv) {
  Args args(argc, argv, 2);
  if (args.has("list")) {
    json rows = json::object();
    for (auto& kv : Rows()) rows[kv.first] = kv.second.text;
    printf("%s\n", rows.dump().c_str());
    return 0;
  }
  if (args.pos.size() < 2) {
    fprintf(stderr, "usage: mfdrive capi <in> <out> [--enummap=file] [--from=i] | --list\n");
    return 2;
  }
#if VF_ASAN
  __sanitizer_set_death_callback(DeathCallback);
#endif
  if (args.has("enummap")) {
    for (auto& j : ReadNdjson(args.str("enummap"))) EnumMap()[j["c"].get<std::string>()] = j["cpp"].get<std::string>();
  } else {
    DefaultEnumMap();
  }
  auto cases = ReadNdjson(args.pos[0]);
  Out out(args.pos[1]);
  const long from = args.num("from", 0);
  long nfail = 0;
  for (long i = from; i < (long)cases.size(); i++) {
    out.line({{"begin", i}});
    const json& beh = cases[i];
    const std::string fam = beh.value("fam", "ops");
    json fails = json::array();
    long nontrivial = 0, steps = 0, skipped = 0;
    json skipWhy = json::array();
    NewFns().clear();
    if (fam == "enum") {
      Fails F;
      nontrivial = RunEnum(beh, F);
      fails = F.list;
    } else {
      // leak oracle: allocated bytes must come back to the starting level; a growth that
      // repeats on every one of three executions of the same program is a leak
      size_t grow = 0;
      for (int attempt = 0; attempt < 3; attempt++) {
        const size_t before = AllocBytes();
        size_t after;
        {
          Run run;
          if (fam == "life")
            RunLife(beh, i, run);
          else
            RunOps(beh, i, run);
          if (attempt == 0) {
            fails = run.F.list;
            nontrivial = run.nontrivial;
            steps = run.steps;
            skipped = run.skipped;
            skipWhy = run.skipWhy;
          }
        }
        after = AllocBytes();
        // the three JSON values above are the only things that may legitimately stay allocated
        grow = after > before ? after - before : 0;
        if (attempt == 0) {
          // measure again without keeping anything
          if (grow == 0) break;
          continue;
        }
        if (grow == 0) break;
      }
      if (grow != 0 && fails.empty())
        fails.push_back({{"kind", "leak"}, {"step", 0}, {"detail", {{"bytes_per_execution", grow}, {"fn", "program"}}}});
    }
    if (!fails.empty()) nfail++;
    out.line({{"i", i}, {"fail", fails}, {"nontrivial", nontrivial}, {"steps", steps}, {"skipped", skipped},
              {"skipwhy", skipWhy}, {"newfns", NewFns()}});
  }
  int lsan = 0;
#if VF_ASAN
  SetPhase("driver", "final leak check");
  lsan = __lsan_do_recoverable_leak_check();
#endif
  out.line({{"done", true}, {"n", (long)cases.size() - from}, {"failed", nfail}, {"lsan_leaks", lsan}});
  return 0;
}
static Register reg("capi", Main);
}  // namespace capi
}  // namespace vf
