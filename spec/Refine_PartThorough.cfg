CONSTANTS K = 2
  Families = {"TRI", "QUAD"}
  MaxTri = 12
  MaxQuad = 7
  FwdAll = TRUE
  Emit = TRUE
INIT Init
NEXT Next
INVARIANT RefValid
INVARIANT RejectsDamaged
INVARIANT CountLaw
INVARIANT KeyLaw
INVARIANT ReqLaw
INVARIANT ProgLaw
INVARIANT TraceConsistent
CHECK_DEADLOCK FALSE
