CONSTANTS
  Fam = "ops"
  NS = 1
  MaxCalls = 1
  Guarded = TRUE
  Closing = FALSE
  OpsLen = 16
  Emit = TRUE
INIT Init
NEXT Next
CHECK_DEADLOCK FALSE
INVARIANT PreludeTyped
INVARIANT ProgramTyped
