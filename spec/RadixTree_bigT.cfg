CONSTANTS
 NS = {129,130,160,200,256,257,513,600}
 CodeMax = 7
 KInits = {128}
 Variants = {0,1,2}
 Level = 1
 Emit = TRUE
INIT InitBig
NEXT NextBig
INVARIANT BigInv
CHECK_DEADLOCK FALSE
