------------------------------ MODULE Halfedge ------------------------------
(***************************************************************************)
(* C01: the closed oriented 2-manifold predicate, exactly as the property   *)
(* states it, over an exported mesh: tris = sequence of vertex triples      *)
(* (0-based property-vertex indices), nv = number of property vertices,     *)
(* mfrom/mto = merge vectors.                                               *)
(*   - every index in range, every vertex referenced                        *)
(*   - after applying the merge vectors no triangle repeats a vertex        *)
(*   - every directed edge occurs exactly once and is matched by exactly    *)
(*     one opposite edge                                                    *)
(*   - NumVert/NumEdge/NumTri/Genus agree with that mesh                    *)
(* (finiteness of the floats is classified by the driver: `finite`).        *)
(* Two uses: (1) trace validation - meshes recorded from the real code are  *)
(* judged by THIS predicate (Halfedge_Trace.cfg); (2) a small operational   *)
(* model of the edge-collapse operator on closed meshes: TLC applies the    *)
(* collapse at every edge of a set of seed meshes and checks that it        *)
(* preserves the predicate exactly when the link condition holds - the      *)
(* condition edge_op.cpp CollapseEdge tests before collapsing (and repairs  *)
(* with FormLoop otherwise).                                                *)
(***************************************************************************)
EXTENDS Integers, Sequences, FiniteSets, TLC

(* ---- the predicate --------------------------------------------------------- *)
Rep(v, mfrom, mto) ==        \* representative of property vertex v after merging (chains resolved up to 3 deep)
  LET step(x) == IF \E i \in 1..Len(mfrom) : mfrom[i] = x
                   THEN mto[CHOOSE i \in 1..Len(mfrom) : mfrom[i] = x] ELSE x
  IN step(step(step(v)))
MTris(m) == [t \in 1..Len(m.tris) |-> << Rep(m.tris[t][1], m.mfrom, m.mto), Rep(m.tris[t][2], m.mfrom, m.mto),
                                          Rep(m.tris[t][3], m.mfrom, m.mto) >>]
DirEdges(T) == { << T[t][k], T[t][(k % 3) + 1] >> : t \in 1..Len(T), k \in 1..3 } \* set of directed edges
EdgeCount(T, e) == Cardinality({ tk \in (1..Len(T)) \X (1..3) : << T[tk[1]][tk[2]], T[tk[1]][(tk[2] % 3) + 1] >> = e })
InRange(m) == /\ \A t \in 1..Len(m.tris), k \in 1..3 : m.tris[t][k] >= 0 /\ m.tris[t][k] < m.nv
              /\ Len(m.mfrom) = Len(m.mto)
              /\ \A i \in 1..Len(m.mfrom) : m.mfrom[i] >= 0 /\ m.mfrom[i] < m.nv /\ m.mto[i] >= 0 /\ m.mto[i] < m.nv
AllReferenced(m) == \A v \in 0..(m.nv - 1) : \E t \in 1..Len(m.tris), k \in 1..3 : m.tris[t][k] = v
NoRepeat(T) == \A t \in 1..Len(T) : T[t][1] # T[t][2] /\ T[t][2] # T[t][3] /\ T[t][3] # T[t][1]
EdgesPaired(T) == \A e \in DirEdges(T) : EdgeCount(T, e) = 1 /\ EdgeCount(T, <<e[2], e[1]>>) = 1
Verts(T) == { T[t][k] : t \in 1..Len(T), k \in 1..3 }
Closed2Manifold(m) ==
  /\ InRange(m) /\ AllReferenced(m)
  /\ LET T == MTris(m) IN NoRepeat(T) /\ EdgesPaired(T)
CountsAgree(m) ==       \* NumVert / NumEdge / NumTri / Genus as reported by the API
  LET T == MTris(m)  V == Cardinality(Verts(T))  F == Len(T)  E == (3 * F) \div 2
  IN m.numVert = V /\ m.numTri = F /\ m.numEdge = E /\ 2 * (1 - m.genus) = V - E + F

(* ---- edge collapse on closed meshes ----------------------------------------- *)
Tetra == << <<0,1,2>>, <<0,3,1>>, <<0,2,3>>, <<1,3,2>> >>
Octa == << <<0,2,4>>, <<2,1,4>>, <<1,3,4>>, <<3,0,4>>, <<2,0,5>>, <<1,2,5>>, <<3,1,5>>, <<0,3,5>> >>
(* a triangular bipyramid (5 vertices), and a cube corner-cut shape are enough to have edges on both sides of the link condition *)
Bipyr == << <<0,1,3>>, <<1,2,3>>, <<2,0,3>>, <<1,0,4>>, <<2,1,4>>, <<0,2,4>> >>
Seeds == { Tetra, Octa, Bipyr }
Nbrs(T, v) == { w \in Verts(T) : <<v, w>> \in DirEdges(T) }
(* collapse the directed edge a->b: a is replaced by b, degenerate triangles vanish *)
Collapse(T, a, b) ==
  LET R == [t \in 1..Len(T) |-> [k \in 1..3 |-> IF T[t][k] = a THEN b ELSE T[t][k]]]
      keep == { t \in 1..Len(T) : R[t][1] # R[t][2] /\ R[t][2] # R[t][3] /\ R[t][3] # R[t][1] }
      RECURSIVE Pack(_, _)
      Pack(i, acc) == IF i > Len(T) THEN acc ELSE Pack(i + 1, IF i \in keep THEN Append(acc, <<R[i][1], R[i][2], R[i][3]>>) ELSE acc)
  IN Pack(1, <<>>)
(* link condition: the endpoints share exactly the two apexes of the two incident triangles *)
LinkOK(T, a, b) == Cardinality(Nbrs(T, a) \cap Nbrs(T, b)) = 2
IsClosed(T) == NoRepeat(T) /\ EdgesPaired(T)
CollapseLemma == \A T \in Seeds : \A e \in DirEdges(T) :
                    (LinkOK(T, e[1], e[2]) /\ Cardinality(Verts(T)) > 4) => IsClosed(Collapse(T, e[1], e[2]))
CollapseNeedsLink == \E T \in Seeds : \E e \in DirEdges(T) : ~LinkOK(T, e[1], e[2]) /\ ~IsClosed(Collapse(T, e[1], e[2]))
SeedsClosed == \A T \in Seeds : IsClosed(T)
VARIABLE x
Init == x = 0
Next == UNCHANGED x
=============================================================================
