---- MODULE MCSync_TTrace_1790198108 ----
EXTENDS Sequences, TLCExt, Toolbox, Naturals, TLC, MCSync

_expression ==
    LET MCSync_TEExpression == INSTANCE MCSync_TEExpression
    IN MCSync_TEExpression!expression
----

_trace ==
    LET MCSync_TETrace == INSTANCE MCSync_TETrace
    IN MCSync_TETrace!trace
----

_inv ==
    ~(
        TLCGet("level") = Len(_TETrace)
        /\
        acc = ({<<<<"cache", "S">>, 1, FALSE, {<<"pm", "H1">>}>>, <<<<"cache", "S">>, 2, FALSE, {<<"g", "S">>, <<"pm", "H2">>}>>, <<<<"cache", "S">>, 2, TRUE, {<<"g", "S">>, <<"pm", "H2">>}>>, <<<<"cache", "R1">>, 1, FALSE, {<<"pm", "H1">>}>>, <<<<"cache", "R2">>, 2, FALSE, {<<"g", "R2">>, <<"pm", "H2">>}>>, <<<<"kids", "S">>, 2, FALSE, {<<"g", "S">>, <<"pm", "H2">>}>>, <<<<"kids", "S">>, 2, TRUE, {<<"g", "S">>, <<"pm", "H2">>}>>, <<<<"kids", "R1">>, 1, FALSE, {<<"g", "R1">>, <<"pm", "H1">>}>>, <<<<"kids", "R2">>, 2, FALSE, {<<"g", "R2">>, <<"pm", "H2">>}>>, <<<<"pNode", "H1">>, 1, FALSE, {<<"pm", "H1">>}>>, <<<<"pNode", "H2">>, 2, FALSE, {<<"pm", "H2">>}>>})
        /\
        owner = ((<<"m", "L">> :> 0 @@ <<"g", "S">> :> 2 @@ <<"g", "R1">> :> 0 @@ <<"g", "R2">> :> 0 @@ <<"pm", "H1">> :> 1 @@ <<"pm", "H2">> :> 2 @@ <<"pm", "HL">> :> 0))
        /\
        pc = (<<<<1, 8>>, <<1, 14>>>>)
        /\
        held = (<<{<<"pm", "H1">>}, {<<"g", "S">>, <<"pm", "H2">>}>>)
    )
----

_init ==
    /\ pc = _TETrace[1].pc
    /\ acc = _TETrace[1].acc
    /\ held = _TETrace[1].held
    /\ owner = _TETrace[1].owner
----

_next ==
    /\ \E i,j \in DOMAIN _TETrace:
        /\ \/ /\ j = i + 1
              /\ i = TLCGet("level")
        /\ pc  = _TETrace[i].pc
        /\ pc' = _TETrace[j].pc
        /\ acc  = _TETrace[i].acc
        /\ acc' = _TETrace[j].acc
        /\ held  = _TETrace[i].held
        /\ held' = _TETrace[j].held
        /\ owner  = _TETrace[i].owner
        /\ owner' = _TETrace[j].owner

\* Uncomment the ASSUME below to write the states of the error trace
\* to the given file in Json format. Note that you can pass any tuple
\* to `JsonSerialize`. For example, a sub-sequence of _TETrace.
    \* ASSUME
    \*     LET J == INSTANCE Json
    \*         IN J!JsonSerialize("MCSync_TTrace_1790198108.json", _TETrace)

=============================================================================

 Note that you can extract this module `MCSync_TEExpression`
  to a dedicated file to reuse `expression` (the module in the 
  dedicated `MCSync_TEExpression.tla` file takes precedence 
  over the module `MCSync_TEExpression` below).

---- MODULE MCSync_TEExpression ----
EXTENDS Sequences, TLCExt, Toolbox, Naturals, TLC, MCSync

expression == 
    [
        \* To hide variables of the `MCSync` spec from the error trace,
        \* remove the variables below.  The trace will be written in the order
        \* of the fields of this record.
        pc |-> pc
        ,acc |-> acc
        ,held |-> held
        ,owner |-> owner
        
        \* Put additional constant-, state-, and action-level expressions here:
        \* ,_stateNumber |-> _TEPosition
        \* ,_pcUnchanged |-> pc = pc'
        
        \* Format the `pc` variable as Json value.
        \* ,_pcJson |->
        \*     LET J == INSTANCE Json
        \*     IN J!ToJson(pc)
        
        \* Lastly, you may build expressions over arbitrary sets of states by
        \* leveraging the _TETrace operator.  For example, this is how to
        \* count the number of times a spec variable changed up to the current
        \* state in the trace.
        \* ,_pcModCount |->
        \*     LET F[s \in DOMAIN _TETrace] ==
        \*         IF s = 1 THEN 0
        \*         ELSE IF _TETrace[s].pc # _TETrace[s-1].pc
        \*             THEN 1 + F[s-1] ELSE F[s-1]
        \*     IN F[_TEPosition - 1]
    ]

=============================================================================



Parsing and semantic processing can take forever if the trace below is long.
 In this case, it is advised to uncomment the module below to deserialize the
 trace from a generated binary file.

\*
\*---- MODULE MCSync_TETrace ----
\*EXTENDS IOUtils, TLC, MCSync
\*
\*trace == IODeserialize("MCSync_TTrace_1790198108.bin", TRUE)
\*
\*=============================================================================
\*

---- MODULE MCSync_TETrace ----
EXTENDS TLC, MCSync

trace == 
    <<
    ([acc |-> {},owner |-> (<<"m", "L">> :> 0 @@ <<"g", "S">> :> 0 @@ <<"g", "R1">> :> 0 @@ <<"g", "R2">> :> 0 @@ <<"pm", "H1">> :> 0 @@ <<"pm", "H2">> :> 0 @@ <<"pm", "HL">> :> 0),pc |-> <<<<1, 1>>, <<1, 1>>>>,held |-> <<{}, {}>>]),
    ([acc |-> {},owner |-> (<<"m", "L">> :> 0 @@ <<"g", "S">> :> 0 @@ <<"g", "R1">> :> 0 @@ <<"g", "R2">> :> 0 @@ <<"pm", "H1">> :> 0 @@ <<"pm", "H2">> :> 2 @@ <<"pm", "HL">> :> 0),pc |-> <<<<1, 1>>, <<1, 2>>>>,held |-> <<{}, {<<"pm", "H2">>}>>]),
    ([acc |-> {},owner |-> (<<"m", "L">> :> 0 @@ <<"g", "S">> :> 0 @@ <<"g", "R1">> :> 0 @@ <<"g", "R2">> :> 0 @@ <<"pm", "H1">> :> 1 @@ <<"pm", "H2">> :> 2 @@ <<"pm", "HL">> :> 0),pc |-> <<<<1, 2>>, <<1, 2>>>>,held |-> <<{<<"pm", "H1">>}, {<<"pm", "H2">>}>>]),
    ([acc |-> {<<<<"pNode", "H2">>, 2, FALSE, {<<"pm", "H2">>}>>},owner |-> (<<"m", "L">> :> 0 @@ <<"g", "S">> :> 0 @@ <<"g", "R1">> :> 0 @@ <<"g", "R2">> :> 0 @@ <<"pm", "H1">> :> 1 @@ <<"pm", "H2">> :> 2 @@ <<"pm", "HL">> :> 0),pc |-> <<<<1, 2>>, <<1, 3>>>>,held |-> <<{<<"pm", "H1">>}, {<<"pm", "H2">>}>>]),
    ([acc |-> {<<<<"pNode", "H1">>, 1, FALSE, {<<"pm", "H1">>}>>, <<<<"pNode", "H2">>, 2, FALSE, {<<"pm", "H2">>}>>},owner |-> (<<"m", "L">> :> 0 @@ <<"g", "S">> :> 0 @@ <<"g", "R1">> :> 0 @@ <<"g", "R2">> :> 0 @@ <<"pm", "H1">> :> 1 @@ <<"pm", "H2">> :> 2 @@ <<"pm", "HL">> :> 0),pc |-> <<<<1, 3>>, <<1, 3>>>>,held |-> <<{<<"pm", "H1">>}, {<<"pm", "H2">>}>>]),
    ([acc |-> {<<<<"pNode", "H1">>, 1, FALSE, {<<"pm", "H1">>}>>, <<<<"pNode", "H2">>, 2, FALSE, {<<"pm", "H2">>}>>},owner |-> (<<"m", "L">> :> 0 @@ <<"g", "S">> :> 0 @@ <<"g", "R1">> :> 0 @@ <<"g", "R2">> :> 2 @@ <<"pm", "H1">> :> 1 @@ <<"pm", "H2">> :> 2 @@ <<"pm", "HL">> :> 0),pc |-> <<<<1, 3>>, <<1, 4>>>>,held |-> <<{<<"pm", "H1">>}, {<<"g", "R2">>, <<"pm", "H2">>}>>]),
    ([acc |-> {<<<<"cache", "R2">>, 2, FALSE, {<<"g", "R2">>, <<"pm", "H2">>}>>, <<<<"pNode", "H1">>, 1, FALSE, {<<"pm", "H1">>}>>, <<<<"pNode", "H2">>, 2, FALSE, {<<"pm", "H2">>}>>},owner |-> (<<"m", "L">> :> 0 @@ <<"g", "S">> :> 0 @@ <<"g", "R1">> :> 0 @@ <<"g", "R2">> :> 2 @@ <<"pm", "H1">> :> 1 @@ <<"pm", "H2">> :> 2 @@ <<"pm", "HL">> :> 0),pc |-> <<<<1, 3>>, <<1, 5>>>>,held |-> <<{<<"pm", "H1">>}, {<<"g", "R2">>, <<"pm", "H2">>}>>]),
    ([acc |-> {<<<<"cache", "R2">>, 2, FALSE, {<<"g", "R2">>, <<"pm", "H2">>}>>, <<<<"pNode", "H1">>, 1, FALSE, {<<"pm", "H1">>}>>, <<<<"pNode", "H2">>, 2, FALSE, {<<"pm", "H2">>}>>},owner |-> (<<"m", "L">> :> 0 @@ <<"g", "S">> :> 0 @@ <<"g", "R1">> :> 0 @@ <<"g", "R2">> :> 0 @@ <<"pm", "H1">> :> 1 @@ <<"pm", "H2">> :> 2 @@ <<"pm", "HL">> :> 0),pc |-> <<<<1, 3>>, <<1, 6>>>>,held |-> <<{<<"pm", "H1">>}, {<<"pm", "H2">>}>>]),
    ([acc |-> {<<<<"cache", "R2">>, 2, FALSE, {<<"g", "R2">>, <<"pm", "H2">>}>>, <<<<"pNode", "H1">>, 1, FALSE, {<<"pm", "H1">>}>>, <<<<"pNode", "H2">>, 2, FALSE, {<<"pm", "H2">>}>>},owner |-> (<<"m", "L">> :> 0 @@ <<"g", "S">> :> 0 @@ <<"g", "R1">> :> 0 @@ <<"g", "R2">> :> 2 @@ <<"pm", "H1">> :> 1 @@ <<"pm", "H2">> :> 2 @@ <<"pm", "HL">> :> 0),pc |-> <<<<1, 3>>, <<1, 7>>>>,held |-> <<{<<"pm", "H1">>}, {<<"g", "R2">>, <<"pm", "H2">>}>>]),
    ([acc |-> {<<<<"cache", "R2">>, 2, FALSE, {<<"g", "R2">>, <<"pm", "H2">>}>>, <<<<"kids", "R2">>, 2, FALSE, {<<"g", "R2">>, <<"pm", "H2">>}>>, <<<<"pNode", "H1">>, 1, FALSE, {<<"pm", "H1">>}>>, <<<<"pNode", "H2">>, 2, FALSE, {<<"pm", "H2">>}>>},owner |-> (<<"m", "L">> :> 0 @@ <<"g", "S">> :> 0 @@ <<"g", "R1">> :> 0 @@ <<"g", "R2">> :> 2 @@ <<"pm", "H1">> :> 1 @@ <<"pm", "H2">> :> 2 @@ <<"pm", "HL">> :> 0),pc |-> <<<<1, 3>>, <<1, 8>>>>,held |-> <<{<<"pm", "H1">>}, {<<"g", "R2">>, <<"pm", "H2">>}>>]),
    ([acc |-> {<<<<"cache", "R2">>, 2, FALSE, {<<"g", "R2">>, <<"pm", "H2">>}>>, <<<<"kids", "R2">>, 2, FALSE, {<<"g", "R2">>, <<"pm", "H2">>}>>, <<<<"pNode", "H1">>, 1, FALSE, {<<"pm", "H1">>}>>, <<<<"pNode", "H2">>, 2, FALSE, {<<"pm", "H2">>}>>},owner |-> (<<"m", "L">> :> 0 @@ <<"g", "S">> :> 0 @@ <<"g", "R1">> :> 0 @@ <<"g", "R2">> :> 0 @@ <<"pm", "H1">> :> 1 @@ <<"pm", "H2">> :> 2 @@ <<"pm", "HL">> :> 0),pc |-> <<<<1, 3>>, <<1, 9>>>>,held |-> <<{<<"pm", "H1">>}, {<<"pm", "H2">>}>>]),
    ([acc |-> {<<<<"cache", "R1">>, 1, FALSE, {<<"pm", "H1">>}>>, <<<<"cache", "R2">>, 2, FALSE, {<<"g", "R2">>, <<"pm", "H2">>}>>, <<<<"kids", "R2">>, 2, FALSE, {<<"g", "R2">>, <<"pm", "H2">>}>>, <<<<"pNode", "H1">>, 1, FALSE, {<<"pm", "H1">>}>>, <<<<"pNode", "H2">>, 2, FALSE, {<<"pm", "H2">>}>>},owner |-> (<<"m", "L">> :> 0 @@ <<"g", "S">> :> 0 @@ <<"g", "R1">> :> 0 @@ <<"g", "R2">> :> 0 @@ <<"pm", "H1">> :> 1 @@ <<"pm", "H2">> :> 2 @@ <<"pm", "HL">> :> 0),pc |-> <<<<1, 4>>, <<1, 9>>>>,held |-> <<{<<"pm", "H1">>}, {<<"pm", "H2">>}>>]),
    ([acc |-> {<<<<"cache", "R1">>, 1, FALSE, {<<"pm", "H1">>}>>, <<<<"cache", "R2">>, 2, FALSE, {<<"g", "R2">>, <<"pm", "H2">>}>>, <<<<"kids", "R2">>, 2, FALSE, {<<"g", "R2">>, <<"pm", "H2">>}>>, <<<<"pNode", "H1">>, 1, FALSE, {<<"pm", "H1">>}>>, <<<<"pNode", "H2">>, 2, FALSE, {<<"pm", "H2">>}>>},owner |-> (<<"m", "L">> :> 0 @@ <<"g", "S">> :> 2 @@ <<"g", "R1">> :> 0 @@ <<"g", "R2">> :> 0 @@ <<"pm", "H1">> :> 1 @@ <<"pm", "H2">> :> 2 @@ <<"pm", "HL">> :> 0),pc |-> <<<<1, 4>>, <<1, 10>>>>,held |-> <<{<<"pm", "H1">>}, {<<"g", "S">>, <<"pm", "H2">>}>>]),
    ([acc |-> {<<<<"cache", "R1">>, 1, FALSE, {<<"pm", "H1">>}>>, <<<<"cache", "R2">>, 2, FALSE, {<<"g", "R2">>, <<"pm", "H2">>}>>, <<<<"kids", "R2">>, 2, FALSE, {<<"g", "R2">>, <<"pm", "H2">>}>>, <<<<"pNode", "H1">>, 1, FALSE, {<<"pm", "H1">>}>>, <<<<"pNode", "H2">>, 2, FALSE, {<<"pm", "H2">>}>>},owner |-> (<<"m", "L">> :> 0 @@ <<"g", "S">> :> 2 @@ <<"g", "R1">> :> 1 @@ <<"g", "R2">> :> 0 @@ <<"pm", "H1">> :> 1 @@ <<"pm", "H2">> :> 2 @@ <<"pm", "HL">> :> 0),pc |-> <<<<1, 5>>, <<1, 10>>>>,held |-> <<{<<"g", "R1">>, <<"pm", "H1">>}, {<<"g", "S">>, <<"pm", "H2">>}>>]),
    ([acc |-> {<<<<"cache", "R1">>, 1, FALSE, {<<"pm", "H1">>}>>, <<<<"cache", "R2">>, 2, FALSE, {<<"g", "R2">>, <<"pm", "H2">>}>>, <<<<"kids", "R1">>, 1, FALSE, {<<"g", "R1">>, <<"pm", "H1">>}>>, <<<<"kids", "R2">>, 2, FALSE, {<<"g", "R2">>, <<"pm", "H2">>}>>, <<<<"pNode", "H1">>, 1, FALSE, {<<"pm", "H1">>}>>, <<<<"pNode", "H2">>, 2, FALSE, {<<"pm", "H2">>}>>},owner |-> (<<"m", "L">> :> 0 @@ <<"g", "S">> :> 2 @@ <<"g", "R1">> :> 1 @@ <<"g", "R2">> :> 0 @@ <<"pm", "H1">> :> 1 @@ <<"pm", "H2">> :> 2 @@ <<"pm", "HL">> :> 0),pc |-> <<<<1, 6>>, <<1, 10>>>>,held |-> <<{<<"g", "R1">>, <<"pm", "H1">>}, {<<"g", "S">>, <<"pm", "H2">>}>>]),
    ([acc |-> {<<<<"cache", "S">>, 2, FALSE, {<<"g", "S">>, <<"pm", "H2">>}>>, <<<<"cache", "R1">>, 1, FALSE, {<<"pm", "H1">>}>>, <<<<"cache", "R2">>, 2, FALSE, {<<"g", "R2">>, <<"pm", "H2">>}>>, <<<<"kids", "R1">>, 1, FALSE, {<<"g", "R1">>, <<"pm", "H1">>}>>, <<<<"kids", "R2">>, 2, FALSE, {<<"g", "R2">>, <<"pm", "H2">>}>>, <<<<"pNode", "H1">>, 1, FALSE, {<<"pm", "H1">>}>>, <<<<"pNode", "H2">>, 2, FALSE, {<<"pm", "H2">>}>>},owner |-> (<<"m", "L">> :> 0 @@ <<"g", "S">> :> 2 @@ <<"g", "R1">> :> 1 @@ <<"g", "R2">> :> 0 @@ <<"pm", "H1">> :> 1 @@ <<"pm", "H2">> :> 2 @@ <<"pm", "HL">> :> 0),pc |-> <<<<1, 6>>, <<1, 11>>>>,held |-> <<{<<"g", "R1">>, <<"pm", "H1">>}, {<<"g", "S">>, <<"pm", "H2">>}>>]),
    ([acc |-> {<<<<"cache", "S">>, 2, FALSE, {<<"g", "S">>, <<"pm", "H2">>}>>, <<<<"cache", "R1">>, 1, FALSE, {<<"pm", "H1">>}>>, <<<<"cache", "R2">>, 2, FALSE, {<<"g", "R2">>, <<"pm", "H2">>}>>, <<<<"kids", "R1">>, 1, FALSE, {<<"g", "R1">>, <<"pm", "H1">>}>>, <<<<"kids", "R2">>, 2, FALSE, {<<"g", "R2">>, <<"pm", "H2">>}>>, <<<<"pNode", "H1">>, 1, FALSE, {<<"pm", "H1">>}>>, <<<<"pNode", "H2">>, 2, FALSE, {<<"pm", "H2">>}>>},owner |-> (<<"m", "L">> :> 0 @@ <<"g", "S">> :> 2 @@ <<"g", "R1">> :> 0 @@ <<"g", "R2">> :> 0 @@ <<"pm", "H1">> :> 1 @@ <<"pm", "H2">> :> 2 @@ <<"pm", "HL">> :> 0),pc |-> <<<<1, 7>>, <<1, 11>>>>,held |-> <<{<<"pm", "H1">>}, {<<"g", "S">>, <<"pm", "H2">>}>>]),
    ([acc |-> {<<<<"cache", "S">>, 1, FALSE, {<<"pm", "H1">>}>>, <<<<"cache", "S">>, 2, FALSE, {<<"g", "S">>, <<"pm", "H2">>}>>, <<<<"cache", "R1">>, 1, FALSE, {<<"pm", "H1">>}>>, <<<<"cache", "R2">>, 2, FALSE, {<<"g", "R2">>, <<"pm", "H2">>}>>, <<<<"kids", "R1">>, 1, FALSE, {<<"g", "R1">>, <<"pm", "H1">>}>>, <<<<"kids", "R2">>, 2, FALSE, {<<"g", "R2">>, <<"pm", "H2">>}>>, <<<<"pNode", "H1">>, 1, FALSE, {<<"pm", "H1">>}>>, <<<<"pNode", "H2">>, 2, FALSE, {<<"pm", "H2">>}>>},owner |-> (<<"m", "L">> :> 0 @@ <<"g", "S">> :> 2 @@ <<"g", "R1">> :> 0 @@ <<"g", "R2">> :> 0 @@ <<"pm", "H1">> :> 1 @@ <<"pm", "H2">> :> 2 @@ <<"pm", "HL">> :> 0),pc |-> <<<<1, 8>>, <<1, 11>>>>,held |-> <<{<<"pm", "H1">>}, {<<"g", "S">>, <<"pm", "H2">>}>>]),
    ([acc |-> {<<<<"cache", "S">>, 1, FALSE, {<<"pm", "H1">>}>>, <<<<"cache", "S">>, 2, FALSE, {<<"g", "S">>, <<"pm", "H2">>}>>, <<<<"cache", "R1">>, 1, FALSE, {<<"pm", "H1">>}>>, <<<<"cache", "R2">>, 2, FALSE, {<<"g", "R2">>, <<"pm", "H2">>}>>, <<<<"kids", "S">>, 2, FALSE, {<<"g", "S">>, <<"pm", "H2">>}>>, <<<<"kids", "R1">>, 1, FALSE, {<<"g", "R1">>, <<"pm", "H1">>}>>, <<<<"kids", "R2">>, 2, FALSE, {<<"g", "R2">>, <<"pm", "H2">>}>>, <<<<"pNode", "H1">>, 1, FALSE, {<<"pm", "H1">>}>>, <<<<"pNode", "H2">>, 2, FALSE, {<<"pm", "H2">>}>>},owner |-> (<<"m", "L">> :> 0 @@ <<"g", "S">> :> 2 @@ <<"g", "R1">> :> 0 @@ <<"g", "R2">> :> 0 @@ <<"pm", "H1">> :> 1 @@ <<"pm", "H2">> :> 2 @@ <<"pm", "HL">> :> 0),pc |-> <<<<1, 8>>, <<1, 12>>>>,held |-> <<{<<"pm", "H1">>}, {<<"g", "S">>, <<"pm", "H2">>}>>]),
    ([acc |-> {<<<<"cache", "S">>, 1, FALSE, {<<"pm", "H1">>}>>, <<<<"cache", "S">>, 2, FALSE, {<<"g", "S">>, <<"pm", "H2">>}>>, <<<<"cache", "R1">>, 1, FALSE, {<<"pm", "H1">>}>>, <<<<"cache", "R2">>, 2, FALSE, {<<"g", "R2">>, <<"pm", "H2">>}>>, <<<<"kids", "S">>, 2, FALSE, {<<"g", "S">>, <<"pm", "H2">>}>>, <<<<"kids", "S">>, 2, TRUE, {<<"g", "S">>, <<"pm", "H2">>}>>, <<<<"kids", "R1">>, 1, FALSE, {<<"g", "R1">>, <<"pm", "H1">>}>>, <<<<"kids", "R2">>, 2, FALSE, {<<"g", "R2">>, <<"pm", "H2">>}>>, <<<<"pNode", "H1">>, 1, FALSE, {<<"pm", "H1">>}>>, <<<<"pNode", "H2">>, 2, FALSE, {<<"pm", "H2">>}>>},owner |-> (<<"m", "L">> :> 0 @@ <<"g", "S">> :> 2 @@ <<"g", "R1">> :> 0 @@ <<"g", "R2">> :> 0 @@ <<"pm", "H1">> :> 1 @@ <<"pm", "H2">> :> 2 @@ <<"pm", "HL">> :> 0),pc |-> <<<<1, 8>>, <<1, 13>>>>,held |-> <<{<<"pm", "H1">>}, {<<"g", "S">>, <<"pm", "H2">>}>>]),
    ([acc |-> {<<<<"cache", "S">>, 1, FALSE, {<<"pm", "H1">>}>>, <<<<"cache", "S">>, 2, FALSE, {<<"g", "S">>, <<"pm", "H2">>}>>, <<<<"cache", "S">>, 2, TRUE, {<<"g", "S">>, <<"pm", "H2">>}>>, <<<<"cache", "R1">>, 1, FALSE, {<<"pm", "H1">>}>>, <<<<"cache", "R2">>, 2, FALSE, {<<"g", "R2">>, <<"pm", "H2">>}>>, <<<<"kids", "S">>, 2, FALSE, {<<"g", "S">>, <<"pm", "H2">>}>>, <<<<"kids", "S">>, 2, TRUE, {<<"g", "S">>, <<"pm", "H2">>}>>, <<<<"kids", "R1">>, 1, FALSE, {<<"g", "R1">>, <<"pm", "H1">>}>>, <<<<"kids", "R2">>, 2, FALSE, {<<"g", "R2">>, <<"pm", "H2">>}>>, <<<<"pNode", "H1">>, 1, FALSE, {<<"pm", "H1">>}>>, <<<<"pNode", "H2">>, 2, FALSE, {<<"pm", "H2">>}>>},owner |-> (<<"m", "L">> :> 0 @@ <<"g", "S">> :> 2 @@ <<"g", "R1">> :> 0 @@ <<"g", "R2">> :> 0 @@ <<"pm", "H1">> :> 1 @@ <<"pm", "H2">> :> 2 @@ <<"pm", "HL">> :> 0),pc |-> <<<<1, 8>>, <<1, 14>>>>,held |-> <<{<<"pm", "H1">>}, {<<"g", "S">>, <<"pm", "H2">>}>>])
    >>
----


=============================================================================

---- CONFIG MCSync_TTrace_1790198108 ----
CONSTANTS
    Threads <- T2
    Variant = "pinned"
    Programs <- P_cancel

INVARIANT
    _inv

CHECK_DEADLOCK
    \* CHECK_DEADLOCK off because of PROPERTY or INVARIANT above.
    FALSE

INIT
    _init

NEXT
    _next

CONSTANT
    _TETrace <- _trace

ALIAS
    _expression
=============================================================================
\* Generated on Wed Sep 23 21:15:38 UTC 2026