CONSTANTS Items <- ItemsTies
  NChunks = 3
  Workers <- W3
  Idiom = "cursor"
  TotalKey = TRUE
  Accum = "int"
INIT Init
NEXT Next
INVARIANT Deterministic
