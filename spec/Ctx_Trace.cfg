INIT Init
NEXT Next
INVARIANT AllRunsOK
CHECK_DEADLOCK FALSE
