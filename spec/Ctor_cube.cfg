CONSTANTS K = 4
  Family = "cube"
  Emit = TRUE
  Big = FALSE
INIT Init
NEXT Next
INVARIANT DenSane
INVARIANT ExactSolids
INVARIANT Refines
INVARIANT GroupSound
INVARIANT QualityDoc
INVARIANT LevelSetSane
CHECK_DEADLOCK FALSE
