----------------------------- MODULE Prov_Trace -----------------------------
(* C07: validation of output triangles recorded from the real code.  A record  *)
(* is one output triangle pulled back through its run transform into the       *)
(* coordinates of its original (a lattice box lo..hi): q = the three preimage  *)
(* vertices, face = the source face its face ID names (axis = face \div 2,     *)
(* side = face % 2), back = the run's back-side flag, det = determinant sign   *)
(* of the run transform.  TriOnFace is the statement of the property in exact  *)
(* integer arithmetic.                                                         *)
EXTENDS Integers, Sequences, TLC, Json, IOUtils
Recs == ndJsonDeserialize(IOEnv.TRACE)
VARIABLE l
Init == l = 1
Next == l <= Len(Recs) /\ l' = l + 1
Cross(u, v) == << u[2]*v[3] - u[3]*v[2], u[3]*v[1] - u[1]*v[3], u[1]*v[2] - u[2]*v[1] >>
Sub(a, b) == << a[1]-b[1], a[2]-b[2], a[3]-b[3] >>
TriOnFace(r) ==
  LET a == r.face \div 2 + 1
      plane == IF r.face % 2 = 1 THEN r.hi[a] ELSE r.lo[a]
      n == Cross(Sub(r.q[2], r.q[1]), Sub(r.q[3], r.q[1]))
      outward == IF r.face % 2 = 1 THEN 1 ELSE -1
      dot == n[a] * outward * r.det * (IF r.back THEN -1 ELSE 1)
  IN /\ \A k \in 1..3 : r.q[k][a] = plane                                        \* in the plane of the source face
     /\ \A k \in 1..3, c \in 1..3 : r.lo[c] <= r.q[k][c] /\ r.q[k][c] <= r.hi[c]   \* inside the face rectangle
     /\ dot > 0                                                                  \* same orientation (opposite when back-side)
AllOnFace == l <= Len(Recs) => TriOnFace(Recs[l])
=============================================================================
