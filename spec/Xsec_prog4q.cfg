\* C11 (quick): every program of two tiny-family leaves + two steps, 3 generators, transforms left lazy
CONSTANTS K = 4
  Grid = 3
  LeafFam = "tinyq"
  GenNames = {"R90", "TXP", "MY"}
  OpNames <- Ops2
  MaxLeaf = 2
  Depth = 4
  Acts = {"Leaf", "Bool", "Xf"}
  ObsModes = {0}
  Sample = FALSE
  Emit = TRUE
INIT Init
NEXT Next
INVARIANT EverythingInWindow
INVARIANT SetLaws
CHECK_DEADLOCK FALSE
