--------------------------------- MODULE Cow ---------------------------------
(***************************************************************************)
(* C05, the storage discipline behind value semantics: src/vec.h SharedVec  *)
(* (a reference-counted buffer; copy-CONSTRUCTION copies the data, copy-    *)
(* ASSIGNMENT shares the buffer; MakeUnique() un-shares before a write) and *)
(* src/shared.h Halfedges (three parallel SharedVecs start_/paired_/        *)
(* propVert_ with one MakeUnique() for all of them).  Impl::Transform       *)
(* shares the halfedges of its source (assignment) and, for a mirroring     *)
(* transform, calls MakeUnique() and flips the triangles in place.          *)
(* Objects are values: a write through one object must never be visible     *)
(* through another.  TLC explores all programs of the actions below on a    *)
(* small pool and checks NoWriteWhileShared and ValueStable.  CONSTANT      *)
(* Unique = "all" is the code; "forgetPropVert" is the regression class     *)
(* "MakeUnique forgets one of the parallel arrays" and is refuted.          *)
(***************************************************************************)
EXTENDS Naturals, FiniteSets, TLC
CONSTANTS NObj, NBuf, Unique, MaxWrites
Arrays == {"start", "paired", "propVert"}
Objs == 1..NObj
VARIABLES buf,     \* [Objs -> [Arrays -> buffer id or 0]]   0 = object does not exist
          data,    \* [1..NBuf -> value]  (an abstract version number of the buffer contents)
          val,     \* [Objs -> [Arrays -> value]] : what the object's value IS (its denotation), set at creation / own writes
          writes, badWrite
vars == <<buf, data, val, writes, badWrite>>
Live == { o \in Objs : buf[o]["start"] # 0 }
Free == Objs \ Live
UsedBufs == { buf[o][a] : o \in Live, a \in Arrays }
FreeBufs == (1..NBuf) \ UsedBufs
RefCount(b) == Cardinality({ oa \in Live \X Arrays : buf[oa[1]][oa[2]] = b })
None == [a \in Arrays |-> 0]
(* canonical allocation of fresh buffers (which free id is taken does not matter) *)
Rank(a) == IF a = "start" THEN 1 ELSE IF a = "paired" THEN 2 ELSE 3
Nth(S, n) == CHOOSE x \in S : Cardinality({ y \in S : y < x }) = n - 1
Fresh(As) == [a \in As |-> Nth(FreeBufs, Cardinality({ a2 \in As : Rank(a2) <= Rank(a) }))]
Init == /\ buf = [o \in Objs |-> IF o = 1 THEN [a \in Arrays |-> CHOOSE b \in 1..3 : (a = "start" /\ b = 1) \/ (a = "paired" /\ b = 2) \/ (a = "propVert" /\ b = 3)] ELSE None]
        /\ data = [b \in 1..NBuf |-> 0] /\ val = [o \in Objs |-> [a \in Arrays |-> 0]] /\ writes = 0 /\ badWrite = FALSE
(* Impl copy constructor / make_shared<Impl>(leaf): SharedVec copy-construction = deep copy *)
CopyConstruct == \E s \in Live, d \in Free :
   \E f \in {Fresh(Arrays)} :
     /\ buf' = [buf EXCEPT ![d] = f]
     /\ data' = [b \in 1..NBuf |-> IF \E a \in Arrays : f[a] = b THEN data[buf[s][CHOOSE a \in Arrays : f[a] = b]] ELSE data[b]]
     /\ val' = [val EXCEPT ![d] = val[s]] /\ UNCHANGED <<writes, badWrite>>
(* Impl::Transform: result.halfedge_ = halfedge_ : assignment shares all three buffers *)
ShareAssign == \E s \in Live, d \in Free :
     /\ buf' = [buf EXCEPT ![d] = buf[s]] /\ val' = [val EXCEPT ![d] = val[s]] /\ UNCHANGED <<data, writes, badWrite>>
(* MakeUnique(): every array whose buffer is shared gets a private copy *)
MakeUniqueArrays == IF Unique = "all" THEN Arrays ELSE Arrays \ {"propVert"}
(* FlipTris after MakeUnique: rewrites all three arrays of object o in place *)
MirrorWrite == \E o \in Live : writes < MaxWrites /\
   LET need == { a \in MakeUniqueArrays : RefCount(buf[o][a]) > 1 } IN
   \E f \in {Fresh(need)} :
     LET nb == [a \in Arrays |-> IF a \in need THEN f[a] ELSE buf[o][a]] IN
     /\ buf' = [buf EXCEPT ![o] = nb]
     /\ badWrite' = (badWrite \/ \E a \in Arrays : Cardinality({ oa \in (Live \ {o}) \X Arrays : buf[oa[1]][oa[2]] = nb[a] }) > 0)
     /\ data' = [b \in 1..NBuf |-> IF \E a \in Arrays : nb[a] = b THEN writes + 1 ELSE IF \E a \in need : f[a] = b THEN data[b] ELSE data[b]]
     /\ val' = [val EXCEPT ![o] = [a \in Arrays |-> writes + 1]]
     /\ writes' = writes + 1
Drop == \E o \in Live : Cardinality(Live) > 1 /\ buf' = [buf EXCEPT ![o] = None] /\ UNCHANGED <<data, val, writes, badWrite>>
Next == CopyConstruct \/ ShareAssign \/ MirrorWrite \/ Drop
Spec == Init /\ [][Next]_vars
NoWriteWhileShared == ~badWrite
(* what every live object reads through its buffers is its own value *)
ValueStable == \A o \in Live, a \in Arrays : data[buf[o][a]] = val[o][a]
=============================================================================
