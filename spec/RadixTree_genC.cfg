CONSTANTS
 NS = {5,6}
 CodeMax = 7
 KInits = {128}
 Variants = {0,1,2,3}
 Level = 2
 Emit = TRUE
INIT InitGen
NEXT NextGen
INVARIANT GenInv
CHECK_DEADLOCK FALSE
