CONSTANTS Items <- ItemsNum
  NChunks = 4
  Workers <- W3
  Idiom = "accum"
  TotalKey = TRUE
  Accum = "int"
INIT Init
NEXT Next
INVARIANT Deterministic
