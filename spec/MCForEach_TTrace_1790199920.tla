---- MODULE MCForEach_TTrace_1790199920 ----
EXTENDS Sequences, TLCExt, Toolbox, Naturals, TLC, MCForEach

_expression ==
    LET MCForEach_TEExpression == INSTANCE MCForEach_TEExpression
    IN MCForEach_TEExpression!expression
----

_trace ==
    LET MCForEach_TETrace == INSTANCE MCForEach_TETrace
    IN MCForEach_TETrace!trace
----

_inv ==
    ~(
        TLCGet("level") = Len(_TETrace)
        /\
        todo = ({})
        /\
        phase = ("done")
        /\
        slots = (<<<<2, 1>>, <<1, 2>>, <<3, 5>>, <<2, 6>>, <<2, 3>>, <<1, 4>>>>)
        /\
        store = (<<<<>>, <<>>, <<>>>>)
        /\
        cell = (11)
        /\
        out = (<<<<1, 4>>, <<1, 2>>, <<2, 3>>, <<2, 6>>, <<2, 1>>, <<3, 5>>>>)
    )
----

_init ==
    /\ out = _TETrace[1].out
    /\ store = _TETrace[1].store
    /\ todo = _TETrace[1].todo
    /\ phase = _TETrace[1].phase
    /\ cell = _TETrace[1].cell
    /\ slots = _TETrace[1].slots
----

_next ==
    /\ \E i,j \in DOMAIN _TETrace:
        /\ \/ /\ j = i + 1
              /\ i = TLCGet("level")
        /\ out  = _TETrace[i].out
        /\ out' = _TETrace[j].out
        /\ store  = _TETrace[i].store
        /\ store' = _TETrace[j].store
        /\ todo  = _TETrace[i].todo
        /\ todo' = _TETrace[j].todo
        /\ phase  = _TETrace[i].phase
        /\ phase' = _TETrace[j].phase
        /\ cell  = _TETrace[i].cell
        /\ cell' = _TETrace[j].cell
        /\ slots  = _TETrace[i].slots
        /\ slots' = _TETrace[j].slots

\* Uncomment the ASSUME below to write the states of the error trace
\* to the given file in Json format. Note that you can pass any tuple
\* to `JsonSerialize`. For example, a sub-sequence of _TETrace.
    \* ASSUME
    \*     LET J == INSTANCE Json
    \*         IN J!JsonSerialize("MCForEach_TTrace_1790199920.json", _TETrace)

=============================================================================

 Note that you can extract this module `MCForEach_TEExpression`
  to a dedicated file to reuse `expression` (the module in the 
  dedicated `MCForEach_TEExpression.tla` file takes precedence 
  over the module `MCForEach_TEExpression` below).

---- MODULE MCForEach_TEExpression ----
EXTENDS Sequences, TLCExt, Toolbox, Naturals, TLC, MCForEach

expression == 
    [
        \* To hide variables of the `MCForEach` spec from the error trace,
        \* remove the variables below.  The trace will be written in the order
        \* of the fields of this record.
        out |-> out
        ,store |-> store
        ,todo |-> todo
        ,phase |-> phase
        ,cell |-> cell
        ,slots |-> slots
        
        \* Put additional constant-, state-, and action-level expressions here:
        \* ,_stateNumber |-> _TEPosition
        \* ,_outUnchanged |-> out = out'
        
        \* Format the `out` variable as Json value.
        \* ,_outJson |->
        \*     LET J == INSTANCE Json
        \*     IN J!ToJson(out)
        
        \* Lastly, you may build expressions over arbitrary sets of states by
        \* leveraging the _TETrace operator.  For example, this is how to
        \* count the number of times a spec variable changed up to the current
        \* state in the trace.
        \* ,_outModCount |->
        \*     LET F[s \in DOMAIN _TETrace] ==
        \*         IF s = 1 THEN 0
        \*         ELSE IF _TETrace[s].out # _TETrace[s-1].out
        \*             THEN 1 + F[s-1] ELSE F[s-1]
        \*     IN F[_TEPosition - 1]
    ]

=============================================================================



Parsing and semantic processing can take forever if the trace below is long.
 In this case, it is advised to uncomment the module below to deserialize the
 trace from a generated binary file.

\*
\*---- MODULE MCForEach_TETrace ----
\*EXTENDS IOUtils, TLC, MCForEach
\*
\*trace == IODeserialize("MCForEach_TTrace_1790199920.bin", TRUE)
\*
\*=============================================================================
\*

---- MODULE MCForEach_TETrace ----
EXTENDS TLC, MCForEach

trace == 
    <<
    ([todo |-> 1..3,phase |-> "loop",slots |-> <<>>,store |-> <<<<>>, <<>>, <<>>>>,cell |-> 0,out |-> <<>>]),
    ([todo |-> {2, 3},phase |-> "loop",slots |-> <<<<2, 1>>, <<1, 2>>>>,store |-> <<<<<<2, 1>>, <<1, 2>>>>, <<>>, <<>>>>,cell |-> 3,out |-> <<>>]),
    ([todo |-> {2},phase |-> "loop",slots |-> <<<<2, 1>>, <<1, 2>>, <<3, 5>>, <<2, 6>>>>,store |-> <<<<<<2, 1>>, <<1, 2>>, <<3, 5>>, <<2, 6>>>>, <<>>, <<>>>>,cell |-> 8,out |-> <<>>]),
    ([todo |-> {},phase |-> "loop",slots |-> <<<<2, 1>>, <<1, 2>>, <<3, 5>>, <<2, 6>>, <<2, 3>>, <<1, 4>>>>,store |-> <<<<<<2, 1>>, <<1, 2>>, <<3, 5>>, <<2, 6>>, <<2, 3>>, <<1, 4>>>>, <<>>, <<>>>>,cell |-> 11,out |-> <<>>]),
    ([todo |-> {},phase |-> "combine",slots |-> <<<<2, 1>>, <<1, 2>>, <<3, 5>>, <<2, 6>>, <<2, 3>>, <<1, 4>>>>,store |-> <<<<<<2, 1>>, <<1, 2>>, <<3, 5>>, <<2, 6>>, <<2, 3>>, <<1, 4>>>>, <<>>, <<>>>>,cell |-> 11,out |-> <<>>]),
    ([todo |-> {},phase |-> "combine",slots |-> <<<<2, 1>>, <<1, 2>>, <<3, 5>>, <<2, 6>>, <<2, 3>>, <<1, 4>>>>,store |-> <<<<>>, <<>>, <<>>>>,cell |-> 11,out |-> <<<<2, 1>>, <<1, 2>>, <<3, 5>>, <<2, 6>>, <<2, 3>>, <<1, 4>>>>]),
    ([todo |-> {},phase |-> "sort",slots |-> <<<<2, 1>>, <<1, 2>>, <<3, 5>>, <<2, 6>>, <<2, 3>>, <<1, 4>>>>,store |-> <<<<>>, <<>>, <<>>>>,cell |-> 11,out |-> <<<<2, 1>>, <<1, 2>>, <<3, 5>>, <<2, 6>>, <<2, 3>>, <<1, 4>>>>]),
    ([todo |-> {},phase |-> "done",slots |-> <<<<2, 1>>, <<1, 2>>, <<3, 5>>, <<2, 6>>, <<2, 3>>, <<1, 4>>>>,store |-> <<<<>>, <<>>, <<>>>>,cell |-> 11,out |-> <<<<1, 4>>, <<1, 2>>, <<2, 3>>, <<2, 6>>, <<2, 1>>, <<3, 5>>>>])
    >>
----


=============================================================================

---- CONFIG MCForEach_TTrace_1790199920 ----
CONSTANTS
    Items <- ItemsTies
    NChunks = 3
    Workers <- W3
    Idiom = "store"
    TotalKey = FALSE
    Accum = "int"

INVARIANT
    _inv

CHECK_DEADLOCK
    \* CHECK_DEADLOCK off because of PROPERTY or INVARIANT above.
    FALSE

INIT
    _init

NEXT
    _next

CONSTANT
    _TETrace <- _trace

ALIAS
    _expression
=============================================================================
\* Generated on Wed Sep 23 21:45:55 UTC 2026