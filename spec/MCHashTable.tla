---------------------------- MODULE MCHashTable ----------------------------
EXTENDS HashTable
(* keys 1 and 5 collide in a 4-slot table; 2 is independent; key 1 inserted by both threads with the same value *)
W_a == << << <<1, 11>>, <<2, 12>> >>, << <<5, 15>>, <<1, 11>> >> >>
W_b == << << <<1, 11>> >>, << <<5, 15>> >>, << <<9, 19>> >> >>
=============================================================================
