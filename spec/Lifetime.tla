------------------------------ MODULE Lifetime ------------------------------
(***************************************************************************)
(* C06 (second half of the CSG-tree sharing story; Sync.tla is the lockset  *)
(* half): OWNERSHIP of a shared lazy sub-expression while several threads   *)
(* evaluate through COPIES of the handles.  A copy of a Manifold (copy      *)
(* constructor, WithContext, Translate ...) has its own pNodeMutex_ but     *)
(* shares the CsgOpNode, so calls on two copies are not serialised by any   *)
(* handle mutex - only by the nodes' impl_ guards.                          *)
(*                                                                          *)
(* Structure: roots R1, R2 (unevaluated op nodes) both own the unevaluated  *)
(* op node S (std::shared_ptr in their impl_ children vector).              *)
(*   refs    the current owners of S: a root that still lists S as a child, *)
(*           or a thread that copied the shared_ptr (a CsgStackFrame's      *)
(*           op_node, or an entry of the NumLeaves work list)               *)
(*   freed   S has been destroyed (its last owner let go)                   *)
(* Mechanism (csg_tree.cpp):                                                *)
(*   ToLeafNode(R): under guard(R) read cache_; under guard(R) read the     *)
(*     children and push a frame OWNING S; under guard(S) finalize S; pop   *)
(*     that frame; under guard(R) finalize R: `*impl = {result}` - R lets   *)
(*     go of S - and publish cache_.                                        *)
(*   NumLeaves(R) (only called when an ExecutionContext is attached):       *)
(*     under guard(R) read cache_/children and queue S; later visit S under *)
(*     guard(S).                                                            *)
(* CONSTANT Walk: how NumLeaves queues S                                    *)
(*   "raw"     a `const CsgOpNode*` (the tree as pinned, and still after    *)
(*             the F5 guard fix): TLC refutes NoUseAfterFree - the other    *)
(*             thread finalizes R, S dies, the walk then locks S's guard.   *)
(*             Observed in the real code by ThreadSanitizer (finding F24).  *)
(*   "owning"  a std::shared_ptr copy taken under guard(R) (the fix).       *)
(* Invariants: NoUseAfterFree, FreedIffUnowned, NoLeakAtEnd; TLC's deadlock  *)
(* check covers the guards.                                                 *)
(***************************************************************************)
EXTENDS Naturals, Sequences, FiniteSets, TLC

CONSTANTS Threads, Walk, Programs     \* Programs[t]: sequence of <<"eval"|"evalctx", root>>

Roots == {"R1", "R2"}
Nodes == Roots \cup {"S"}

VARIABLES call,     \* [t -> index of the current call]
          pc,       \* [t -> label within the call]
          has,      \* [t -> this thread queued / owns S in the current phase]
          refs,     \* owners of S: roots still listing it (strings) and threads holding a shared_ptr copy (numbers),
                    \* kept as the pair <<set of roots, set of threads>>
          freed, cached, guard, uaf
vars == <<call, pc, has, refs, freed, cached, guard, uaf>>

Running(t) == call[t] <= Len(Programs[t])
Cur(t) == Programs[t][call[t]]
RootOf(t) == Cur(t)[2]

Init == /\ call = [t \in Threads |-> 1]
        /\ pc = [t \in Threads |-> "start"]
        /\ has = [t \in Threads |-> FALSE]
        /\ refs = <<Roots, {}>> /\ freed = FALSE
        /\ cached = [n \in Nodes |-> FALSE]
        /\ guard = [n \in Nodes |-> 0]
        /\ uaf = FALSE

Goto(t, l) == pc' = [pc EXCEPT ![t] = l]
EndCall(t) == /\ call' = [call EXCEPT ![t] = call[t] + 1] /\ pc' = [pc EXCEPT ![t] = "start"]
Unowned(r) == r[1] = {} /\ r[2] = {}
LetRoot(n) == LET r == <<refs[1] \ {n}, refs[2]>> IN refs' = r /\ freed' = (freed \/ Unowned(r))
LetThr(t) == LET r == <<refs[1], refs[2] \ {t}>> IN refs' = r /\ freed' = (freed \/ Unowned(r))
HoldThr(t) == refs' = <<refs[1], refs[2] \cup {t}>>
Free(n) == guard[n] = 0           \* guards are recursive mutexes, but no thread re-enters here

(* ---- dispatch ---- *)
Start(t) == /\ pc[t] = "start"
            /\ Goto(t, IF Cur(t)[1] = "evalctx" THEN "n1" ELSE "e1")
            /\ UNCHANGED <<call, has, refs, freed, cached, guard, uaf>>

(* ---- NumLeaves(R) ---- *)
N1(t) == /\ pc[t] = "n1" /\ Free(RootOf(t))             \* one critical section of guard(R)
         /\ IF cached[RootOf(t)] \/ RootOf(t) \notin refs[1]
              THEN /\ has' = [has EXCEPT ![t] = FALSE] /\ UNCHANGED refs        \* counts as one leaf / child is a leaf
              ELSE /\ has' = [has EXCEPT ![t] = TRUE]
                   /\ IF Walk = "owning" THEN HoldThr(t) ELSE UNCHANGED refs
         /\ Goto(t, "n2") /\ UNCHANGED <<call, freed, cached, guard, uaf>>
N2(t) == /\ pc[t] = "n2"
         /\ IF has[t]
              THEN /\ Free("S")                         \* op->impl_.GetGuard() on the queued node
                   /\ uaf' = (uaf \/ freed)
                   /\ IF Walk = "owning" THEN LetThr(t) ELSE UNCHANGED <<refs, freed>>
              ELSE UNCHANGED <<uaf, refs, freed>>
         /\ has' = [has EXCEPT ![t] = FALSE]
         /\ Goto(t, "e1") /\ UNCHANGED <<call, cached, guard>>

(* ---- ToLeafNode(R) ---- *)
E1(t) == /\ pc[t] = "e1" /\ Free(RootOf(t))             \* entry: cache_ under the guard
         /\ IF cached[RootOf(t)] THEN EndCall(t) ELSE Goto(t, "e2") /\ UNCHANGED call
         /\ UNCHANGED <<has, refs, freed, cached, guard, uaf>>
E2(t) == /\ pc[t] = "e2" /\ Free(RootOf(t))             \* populate: push a frame owning S
         /\ IF RootOf(t) \in refs[1]
              THEN /\ HoldThr(t) /\ has' = [has EXCEPT ![t] = TRUE]
              ELSE /\ UNCHANGED refs /\ has' = [has EXCEPT ![t] = FALSE]
         /\ Goto(t, "e3") /\ UNCHANGED <<call, freed, cached, guard, uaf>>
E3(t) == /\ pc[t] = "e3"                                 \* take guard(S) ...
         /\ IF has[t]
              THEN /\ Free("S") /\ guard' = [guard EXCEPT !["S"] = t] /\ uaf' = (uaf \/ freed)
              ELSE UNCHANGED <<guard, uaf>>
         /\ Goto(t, "e4") /\ UNCHANGED <<call, has, refs, freed, cached>>
E4(t) == /\ pc[t] = "e4"                                 \* ... finalize S (a Boolean: long), release
         /\ IF has[t] THEN /\ cached' = [cached EXCEPT !["S"] = TRUE] /\ guard' = [guard EXCEPT !["S"] = 0]
                      ELSE UNCHANGED <<cached, guard>>
         /\ Goto(t, "e5") /\ UNCHANGED <<call, has, refs, freed, uaf>>
E5(t) == /\ pc[t] = "e5"                                 \* pop the frame of S
         /\ IF has[t] THEN LetThr(t) ELSE UNCHANGED <<refs, freed>>
         /\ has' = [has EXCEPT ![t] = FALSE]
         /\ Goto(t, "e6") /\ UNCHANGED <<call, cached, guard, uaf>>
E6(t) == /\ pc[t] = "e6" /\ Free(RootOf(t))             \* finalize R under its guard
         /\ IF cached[RootOf(t)] THEN UNCHANGED <<refs, freed, cached>>
            ELSE /\ LetRoot(RootOf(t)) /\ cached' = [cached EXCEPT ![RootOf(t)] = TRUE]
         /\ EndCall(t) /\ UNCHANGED <<has, guard, uaf>>

Step(t) == Running(t) /\ (Start(t) \/ N1(t) \/ N2(t) \/ E1(t) \/ E2(t) \/ E3(t) \/ E4(t) \/ E5(t) \/ E6(t))
Done == \A t \in Threads : ~Running(t)
Next == (\E t \in Threads : Step(t)) \/ (Done /\ UNCHANGED vars)
Spec == Init /\ [][Next]_vars

NoUseAfterFree == ~uaf
FreedIffUnowned == freed <=> Unowned(refs)
NoLeakAtEnd == Done => (\A r \in Roots : cached[r] => r \notin refs[1]) /\ refs[2] = {}
=============================================================================
