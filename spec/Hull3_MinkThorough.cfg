CONSTANTS K = 4
  Families = {"MKc", "MKn", "MD2"}
  Emit = TRUE
INIT Init
NEXT Next
INVARIANT RefIsHull
INVARIANT SpansIffVolume
INVARIANT ExtremeAgree
INVARIANT SplitSound
INVARIANT RejectsDamaged
INVARIANT MinkAlgebra
INVARIANT TraceConsistent
CHECK_DEADLOCK FALSE
