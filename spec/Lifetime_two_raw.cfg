CONSTANTS Threads <- T2
  Walk = "raw"
  Programs <- P_two
INIT Init
NEXT Next
INVARIANT NoUseAfterFree
INVARIANT FreedIffUnowned
INVARIANT NoLeakAtEnd
