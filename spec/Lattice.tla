------------------------------ MODULE Lattice ------------------------------
(***************************************************************************)
(* The exact abstract domain of the specification suite: solids built from  *)
(* integer-lattice boxes are finite sets of unit cells.  A cell is the      *)
(* tuple <<i,j,k>> of its minimum corner; the window is the cube            *)
(* -K..K-1 in every axis (symmetric so that the 48-element cube group acts  *)
(* on it).  Everything here is denotational: it says what a public          *)
(* operation of manifold MEANS on this domain (DESIGN.md section 3).        *)
(***************************************************************************)
EXTENDS Integers, Sequences, FiniteSets

CONSTANT K          \* half-width of the window

Coord  == (-K)..(K-1)           \* cell coordinates
LCoord == (-K)..K               \* lattice-plane coordinates
Cells  == Coord \X Coord \X Coord

(* A box is <<lo, hi>> with lo[i] < hi[i], corners on lattice planes.      *)
BoxCells(b) == (b[1][1]..(b[2][1]-1)) \X (b[1][2]..(b[2][2]-1)) \X (b[1][3]..(b[2][3]-1))
AllBoxes == { b \in (LCoord \X LCoord \X LCoord) \X (LCoord \X LCoord \X LCoord) :
                \A i \in 1..3 : b[1][i] < b[2][i] }

(* ---- Boolean algebra (C02) -------------------------------------------- *)
Ops == {"Add", "Subtract", "Intersect"}
BoolSem(op, A, B) ==
  CASE op = "Add"       -> A \cup B
    [] op = "Subtract"  -> A \ B
    [] op = "Intersect" -> A \cap B

(* n-ary form used by BatchBoolean: Subtract is first minus all the rest,   *)
(* an empty batch is the empty solid (manifold.cpp BatchBoolean).           *)
BatchSem(op, ds) ==
  IF Len(ds) = 0 THEN {}
  ELSE CASE op = "Add"       -> UNION { ds[i] : i \in 1..Len(ds) }
         [] op = "Intersect" -> { c \in ds[1] : \A i \in 1..Len(ds) : c \in ds[i] }
         [] op = "Subtract"  -> ds[1] \ UNION { ds[i] : i \in 2..Len(ds) }

(* ---- the lattice group: signed permutation + integer translation ------- *)
(* A transform g is a record [ax, sg, tr]: point map                        *)
(*    p'[i] = sg[i] * p[ax[i]] + tr[i]                                      *)
Id3 == [ax |-> <<1,2,3>>, sg |-> <<1,1,1>>, tr |-> <<0,0,0>>]
ApPoint(g, p) == [i \in 1..3 |-> g.sg[i] * p[g.ax[i]] + g.tr[i]]
(* image of the unit cell with min corner c: the min corner of the image    *)
AC1(g, c, i) == IF g.sg[i] = 1 THEN c[g.ax[i]] + g.tr[i] ELSE -c[g.ax[i]] - 1 + g.tr[i]
ApCell(g, c) == << AC1(g, c, 1), AC1(g, c, 2), AC1(g, c, 3) >>
ApCells(g, S) == { ApCell(g, c) : c \in S }
InWindow(S) == S \subseteq Cells
(* h after g : (Comp(h,g))(p) = h(g(p))                                     *)
Comp(h, g) == [ax |-> [i \in 1..3 |-> g.ax[h.ax[i]]],
               sg |-> [i \in 1..3 |-> h.sg[i] * g.sg[h.ax[i]]],
               tr |-> [i \in 1..3 |-> h.sg[i] * g.tr[h.ax[i]] + h.tr[i]]]
Det(g) == LET par == IF g.ax = <<1,2,3>> \/ g.ax = <<2,3,1>> \/ g.ax = <<3,1,2>> THEN 1 ELSE -1
          IN par * g.sg[1] * g.sg[2] * g.sg[3]

(* Named generators, bound to public API calls by the driver                *)
(*   RZ = Rotate(0,0,90): (x,y,z) -> (-y,x,z);  RX = Rotate(90,0,0):        *)
(*   (x,y,z) -> (x,-z,y); RY = Rotate(0,90,0): (x,y,z) -> (z,y,-x)          *)
(*   MX/MY/MZ = Mirror(axis); TX+/TX-/... = Translate(+-1 along axis)       *)
(*   SXN = Scale(-1,1,1) (a reflection written as a scale)                  *)
Gen(name) ==
  CASE name = "RZ"  -> [ax |-> <<2,1,3>>, sg |-> <<-1,1,1>>, tr |-> <<0,0,0>>]
    [] name = "RX"  -> [ax |-> <<1,3,2>>, sg |-> <<1,-1,1>>, tr |-> <<0,0,0>>]
    [] name = "RY"  -> [ax |-> <<3,2,1>>, sg |-> <<1,1,-1>>, tr |-> <<0,0,0>>]
    [] name = "MX"  -> [ax |-> <<1,2,3>>, sg |-> <<-1,1,1>>, tr |-> <<0,0,0>>]
    [] name = "MY"  -> [ax |-> <<1,2,3>>, sg |-> <<1,-1,1>>, tr |-> <<0,0,0>>]
    [] name = "MZ"  -> [ax |-> <<1,2,3>>, sg |-> <<1,1,-1>>, tr |-> <<0,0,0>>]
    [] name = "SXN" -> [ax |-> <<1,2,3>>, sg |-> <<-1,1,1>>, tr |-> <<0,0,0>>]
    [] name = "TXP" -> [ax |-> <<1,2,3>>, sg |-> <<1,1,1>>, tr |-> <<1,0,0>>]
    [] name = "TXM" -> [ax |-> <<1,2,3>>, sg |-> <<1,1,1>>, tr |-> <<-1,0,0>>]
    [] name = "TYP" -> [ax |-> <<1,2,3>>, sg |-> <<1,1,1>>, tr |-> <<0,1,0>>]
    [] name = "TYM" -> [ax |-> <<1,2,3>>, sg |-> <<1,1,1>>, tr |-> <<0,-1,0>>]
    [] name = "TZP" -> [ax |-> <<1,2,3>>, sg |-> <<1,1,1>>, tr |-> <<0,0,1>>]
    [] name = "TZM" -> [ax |-> <<1,2,3>>, sg |-> <<1,1,1>>, tr |-> <<0,0,-1>>]
AllGens == {"RZ","RX","RY","MX","MY","MZ","SXN","TXP","TXM","TYP","TYM","TZP","TZM"}

(* ---- axis-plane split / trim (C02) ------------------------------------- *)
(* SplitByPlane(normal = +e_axis, offset = o): first part is the side in    *)
(* the direction of the normal (coordinate > o), second the other side.     *)
PlaneAbove(S, axis, o) == { c \in S : c[axis] >= o }
PlaneBelow(S, axis, o) == { c \in S : c[axis] < o }

(* ---- measurements on cells (C18) --------------------------------------- *)
Volume(S) == Cardinality(S)
Dirs == { <<1,0,0>>, <<-1,0,0>>, <<0,1,0>>, <<0,-1,0>>, <<0,0,1>>, <<0,0,-1>> }
Nb(c, d) == <<c[1]+d[1], c[2]+d[2], c[3]+d[3]>>
ExposedFaces(S) == Cardinality({ p \in S \X Dirs : Nb(p[1], p[2]) \notin S })
SetMin(T) == CHOOSE m \in T : \A y \in T : m <= y
SetMax(T) == CHOOSE m \in T : \A y \in T : m >= y
(* tight lattice box of a non-empty cell set: <<lo, hi>>                    *)
Extent(S) == << [i \in 1..3 |-> SetMin({ c[i] : c \in S })],
                [i \in 1..3 |-> SetMax({ c[i] : c \in S }) + 1] >>
(* layer z of the solid as a pixel set: Slice(z + 1/2)                      *)
SliceAt(S, z) == { <<c[1], c[2]>> : c \in { d \in S : d[3] = z } }
(* Project(): shadow on the xy plane                                        *)
Shadow(S) == { <<c[1], c[2]>> : c \in S }

(* face-connected components (C18 Decompose leaves edge/vertex contact open)*)
RECURSIVE Grow(_, _)
Grow(S, comp) ==
  LET nxt == comp \cup ({ Nb(c, d) : c \in comp, d \in Dirs } \cap S)
  IN IF nxt = comp THEN comp ELSE Grow(S, nxt)
RECURSIVE FaceComponents(_)
FaceComponents(S) ==
  IF S = {} THEN {}
  ELSE LET c0 == CHOOSE c \in S : TRUE
           comp == Grow(S, {c0})
       IN {comp} \cup FaceComponents(S \ comp)

(* ---- Minkowski on cells (C16) ------------------------------------------ *)
(* B is a cell set containing the origin cell <<0,0,0>> or <<-1,..>>; the   *)
(* solid sum of unit cells c + d covers cells c+d+{0,1}^3 - but only the    *)
(* inclusions of the property are used, see C16 in DESIGN.md.               *)
CellSum(A, B) == { <<a[1]+b[1], a[2]+b[2], a[3]+b[3]>> : a \in A, b \in B }

(* ---- encodings shared with the driver ----------------------------------- *)
W == 2 * K
Enc(c) == (c[1] + K) + W * ((c[2] + K) + W * (c[3] + K))
EncSet(S) == { Enc(c) : c \in S }
=============================================================================
