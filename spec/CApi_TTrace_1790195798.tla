---- MODULE CApi_TTrace_1790195798 ----
EXTENDS Sequences, TLCExt, Toolbox, CApi, Naturals, TLC

_expression ==
    LET CApi_TEExpression == INSTANCE CApi_TEExpression
    IN CApi_TEExpression!expression
----

_trace ==
    LET CApi_TETrace == INSTANCE CApi_TETrace
    IN CApi_TETrace!trace
----

_inv ==
    ~(
        TLCGet("level") = Len(_TETrace)
        /\
        mm = (<<[blk |-> "gone", cap |-> "none", obj |-> "none", val |-> <<>>], [blk |-> "none", cap |-> "none", obj |-> "none", val |-> <<>>]>>)
        /\
        hist = (<<[op |-> "delete", s |-> 1]>>)
        /\
        ps = (<<[st |-> "Unalloc", org |-> "none", ty |-> "none"], [st |-> "Unalloc", org |-> "none", ty |-> "none"]>>)
        /\
        bad = ({"destruct-nonlive", "free-unowned"})
        /\
        fin = (FALSE)
    )
----

_init ==
    /\ bad = _TETrace[1].bad
    /\ mm = _TETrace[1].mm
    /\ ps = _TETrace[1].ps
    /\ hist = _TETrace[1].hist
    /\ fin = _TETrace[1].fin
----

_next ==
    /\ \E i,j \in DOMAIN _TETrace:
        /\ \/ /\ j = i + 1
              /\ i = TLCGet("level")
        /\ bad  = _TETrace[i].bad
        /\ bad' = _TETrace[j].bad
        /\ mm  = _TETrace[i].mm
        /\ mm' = _TETrace[j].mm
        /\ ps  = _TETrace[i].ps
        /\ ps' = _TETrace[j].ps
        /\ hist  = _TETrace[i].hist
        /\ hist' = _TETrace[j].hist
        /\ fin  = _TETrace[i].fin
        /\ fin' = _TETrace[j].fin

\* Uncomment the ASSUME below to write the states of the error trace
\* to the given file in Json format. Note that you can pass any tuple
\* to `JsonSerialize`. For example, a sub-sequence of _TETrace.
    \* ASSUME
    \*     LET J == INSTANCE Json
    \*         IN J!JsonSerialize("CApi_TTrace_1790195798.json", _TETrace)

=============================================================================

 Note that you can extract this module `CApi_TEExpression`
  to a dedicated file to reuse `expression` (the module in the 
  dedicated `CApi_TEExpression.tla` file takes precedence 
  over the module `CApi_TEExpression` below).

---- MODULE CApi_TEExpression ----
EXTENDS Sequences, TLCExt, Toolbox, CApi, Naturals, TLC

expression == 
    [
        \* To hide variables of the `CApi` spec from the error trace,
        \* remove the variables below.  The trace will be written in the order
        \* of the fields of this record.
        bad |-> bad
        ,mm |-> mm
        ,ps |-> ps
        ,hist |-> hist
        ,fin |-> fin
        
        \* Put additional constant-, state-, and action-level expressions here:
        \* ,_stateNumber |-> _TEPosition
        \* ,_badUnchanged |-> bad = bad'
        
        \* Format the `bad` variable as Json value.
        \* ,_badJson |->
        \*     LET J == INSTANCE Json
        \*     IN J!ToJson(bad)
        
        \* Lastly, you may build expressions over arbitrary sets of states by
        \* leveraging the _TETrace operator.  For example, this is how to
        \* count the number of times a spec variable changed up to the current
        \* state in the trace.
        \* ,_badModCount |->
        \*     LET F[s \in DOMAIN _TETrace] ==
        \*         IF s = 1 THEN 0
        \*         ELSE IF _TETrace[s].bad # _TETrace[s-1].bad
        \*             THEN 1 + F[s-1] ELSE F[s-1]
        \*     IN F[_TEPosition - 1]
    ]

=============================================================================



Parsing and semantic processing can take forever if the trace below is long.
 In this case, it is advised to uncomment the module below to deserialize the
 trace from a generated binary file.

\*
\*---- MODULE CApi_TETrace ----
\*EXTENDS IOUtils, CApi, TLC
\*
\*trace == IODeserialize("CApi_TTrace_1790195798.bin", TRUE)
\*
\*=============================================================================
\*

---- MODULE CApi_TETrace ----
EXTENDS CApi, TLC

trace == 
    <<
    ([mm |-> <<[blk |-> "none", cap |-> "none", obj |-> "none", val |-> <<>>], [blk |-> "none", cap |-> "none", obj |-> "none", val |-> <<>>]>>,hist |-> <<>>,ps |-> <<[st |-> "Unalloc", org |-> "none", ty |-> "none"], [st |-> "Unalloc", org |-> "none", ty |-> "none"]>>,bad |-> {},fin |-> FALSE]),
    ([mm |-> <<[blk |-> "gone", cap |-> "none", obj |-> "none", val |-> <<>>], [blk |-> "none", cap |-> "none", obj |-> "none", val |-> <<>>]>>,hist |-> <<[op |-> "delete", s |-> 1]>>,ps |-> <<[st |-> "Unalloc", org |-> "none", ty |-> "none"], [st |-> "Unalloc", org |-> "none", ty |-> "none"]>>,bad |-> {"destruct-nonlive", "free-unowned"},fin |-> FALSE])
    >>
----


=============================================================================

---- CONFIG CApi_TTrace_1790195798 ----
CONSTANTS
    Fam = "life"
    NS = 2
    MaxCalls = 4
    Guarded = FALSE
    Closing = FALSE
    OpsLen = 0
    Emit = FALSE

INVARIANT
    _inv

CHECK_DEADLOCK
    \* CHECK_DEADLOCK off because of PROPERTY or INVARIANT above.
    FALSE

INIT
    _init

NEXT
    _next

CONSTANT
    _TETrace <- _trace

ALIAS
    _expression
=============================================================================
\* Generated on Wed Sep 23 20:36:54 UTC 2026