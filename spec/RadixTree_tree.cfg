CONSTANTS
 NS = {2,3,4,5,6}
 CodeMax = 7
 KInits = {1,2}
 Variants = {0}
 Level = 1
 Emit = FALSE
INIT InitTree
NEXT NextTree
INVARIANT TreeInv
INVARIANT TreeSameForAllKInit
CHECK_DEADLOCK FALSE
