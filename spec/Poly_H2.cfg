CONSTANTS Family = "H2"
  G = 4
  MaxV = 2
  Emit = TRUE
  StartRows = {}
INIT Init
NEXT Next
INVARIANT GenValid
INVARIANT PathSimple
INVARIANT RefValid
INVARIANT PickOK
INVARIANT MutantsRejected
CHECK_DEADLOCK FALSE
