CONSTANTS Family = "collapse"
  Emit = TRUE
INIT KInit
NEXT KNext
INVARIANT InputClosed
INVARIANT DoubleStackBreaksLink
CHECK_DEADLOCK FALSE
