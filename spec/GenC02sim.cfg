\* C02: seeded random CSG programs over arbitrary boxes of the 4x4x4 window
CONSTANTS K = 2
  LeafBoxes <- MC_AllBoxes
  GenNames <- GensAll
  OpNames <- AllOps
  MaxLeaf = 3
  MaxNode = 12
  NH = 9
  Depth = 8
  Acts <- ActsC02sim
  LeafProps <- NoProps
  Emit = TRUE
INIT Init
NEXT Next

CHECK_DEADLOCK FALSE
