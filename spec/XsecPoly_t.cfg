\* C11: lattice polygons with diagonal edges (thorough): scenes of all four families, each printed as it is and under one D4 element
CONSTANTS K = 4
  Grid = 3
  LeafFam = "none"
  GenNames <- GensCore
  OpNames <- Ops2
  MaxLeaf = 0
  Depth = 0
  Acts = {}
  ObsModes = {1}
  Sample = FALSE
  Emit = TRUE
  PFams = {"fan", "tipsX", "grid3", "rand"}
  PTier = "t"
INIT PInit
NEXT PNext
INVARIANT PShape
INVARIANT PSetLaws
INVARIANT PRays
INVARIANT PCovariant
CHECK_DEADLOCK FALSE
