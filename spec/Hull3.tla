------------------------------- MODULE Hull3 -------------------------------
(***************************************************************************)
(* C16 - "Hull is the convex hull; Minkowski sum/difference are dilation    *)
(* and erosion", stated on exact integer domains.                           *)
(*                                                                          *)
(* Part 1 (Hull).  Points are integer triples with tiny coordinates (every  *)
(* 3x3 determinant fits easily in TLC's 32-bit integers).  The module       *)
(* defines                                                                  *)
(*   SpansVolume(P)   - the input does not lie in one plane,                *)
(*   IsHullOf(P, m)   - the relation the property states between an input   *)
(*                      point multiset P and a result mesh m:               *)
(*                      m is a closed oriented 2-manifold, every vertex of  *)
(*                      m is an input point, every input point is inside or *)
(*                      on every face plane (orient3d, outward normals),    *)
(*                      every edge is convex (non-reflex), and m is empty   *)
(*                      iff the points span no volume,                      *)
(*   RefMesh(S)       - a brute-force reference hull (supporting planes,    *)
(*                      fan-triangulated facets), used (a) to show that the *)
(*                      relation is satisfiable and not vacuous - TLC       *)
(*                      checks IsHullOf(P, RefMesh) and that damaged meshes *)
(*                      are rejected - and (b) to compute the facts that    *)
(*                      FOLLOW from the statement and are printed as the    *)
(*                      oracle: the extreme points (a convex polytope that  *)
(*                      contains P and whose vertices are in P is conv(P),  *)
(*                      so its vertex set contains every extreme point) and *)
(*                      6*volume.  An independent Caratheodory definition   *)
(*                      of "extreme" is checked against it.                 *)
(* TLC enumerates point multisets (duplicates, collinear, coplanar,         *)
(* clustered) and cell complexes (union-of-cubes inputs) by family and      *)
(* prints them with these facts; drive/hull.cpp runs Manifold::Hull on them.*)
(* Hull3_Trace.cfg reads meshes RETURNED BY THE IMPLEMENTATION and          *)
(* evaluates IsHullOf on them (trace validation of the result relation).    *)
(*                                                                          *)
(* Part 2 (Minkowski).  Solids are sets of unit cells (Lattice.tla).  Only  *)
(* the inclusions of the statement are stated (on cells):                   *)
(*   SumLower(A,B)  every a+b:  cells of A (+) B, must be inside the result *)
(*   SumUpper(A,B)  cells whose centre is not farther from A than reach(B): *)
(*                  the result must be inside                               *)
(*   DiffUpper(A,B) cells c of A with c - b inside A for every b of B:      *)
(*                  the difference must be inside                           *)
(* TLC checks the algebra of these definitions (lower bound within the      *)
(* upper bound, A inside A(+)B when B has the origin, commutativity, the    *)
(* opening/closing adjunction that pins the p-b convention) on every        *)
(* enumerated pair and prints the pairs with the three cell sets.           *)
(***************************************************************************)
EXTENDS Lattice, TLC, Json, Sequences, FiniteSetsExt, SequencesExt, IOUtils

CONSTANTS Families,  \* which families of cases Init enumerates (a set of names)
          Emit       \* print the cases for the driver

(* ======================= exact integer predicates ======================= *)
Sub3(a, b) == << a[1]-b[1], a[2]-b[2], a[3]-b[3] >>
Add3(a, b) == << a[1]+b[1], a[2]+b[2], a[3]+b[3] >>
Cross3(u, v) == << u[2]*v[3]-u[3]*v[2], u[3]*v[1]-u[1]*v[3], u[1]*v[2]-u[2]*v[1] >>
Dot3(u, v) == u[1]*v[1] + u[2]*v[2] + u[3]*v[3]
Det3(u, v, w) == Dot3(Cross3(u, v), w)
Zero3 == <<0,0,0>>
(* orient3d: > 0 iff d is on the side the normal (b-a)x(c-a) points to.    *)
(* A triangle of an outward-oriented mesh has every solid point at <= 0.    *)
Orient3(a, b, c, d) ==      \* = Det3(b-a, c-a, d-a), written out (TLC: no tuples on the hot path)
  LET bx == b[1]-a[1]  by == b[2]-a[2]  bz == b[3]-a[3]
      cx == c[1]-a[1]  cy == c[2]-a[2]  cz == c[3]-a[3]
      dx == d[1]-a[1]  dy == d[2]-a[2]  dz == d[3]-a[3]
  IN (by*cz - bz*cy)*dx + (bz*cx - bx*cz)*dy + (bx*cy - by*cx)*dz
Collinear3(a, b, c) == Cross3(Sub3(b, a), Sub3(c, a)) = Zero3
LexLess(p, q) == \/ p[1] < q[1]
                 \/ p[1] = q[1] /\ p[2] < q[2]
                 \/ p[1] = q[1] /\ p[2] = q[2] /\ p[3] < q[3]

(* ---- affine dimension of a finite point set (greedy: affine hulls)       *)
AffDim(S) ==
  IF S = {} THEN -1
  ELSE LET a == CHOOSE x \in S : TRUE IN
    IF S = {a} THEN 0
    ELSE LET b == CHOOSE x \in S : x # a IN
      IF \A x \in S : Collinear3(a, b, x) THEN 1
      ELSE LET c == CHOOSE x \in S : ~Collinear3(a, b, x) IN
        IF \A x \in S : Orient3(a, b, c, x) = 0 THEN 2 ELSE 3
SpansVolumeS(S) == AffDim(S) = 3
SpansVolume(P) == SpansVolumeS(ToSet(P))
(* the definition in the property's words, used as a cross-check            *)
SpansVolumeDef(S) == \E a, b, c, d \in S : Orient3(a, b, c, d) # 0

(* ---- extreme points, independently (Caratheodory): p is NOT extreme iff  *)
(* it lies in a simplex spanned by other points of S                        *)
InSeg(p, a, b) == a # b /\ Collinear3(a, b, p) /\ Dot3(Sub3(a, p), Sub3(b, p)) <= 0
InTri(p, a, b, c) ==
  LET n == Cross3(Sub3(b, a), Sub3(c, a)) IN
  /\ n # Zero3 /\ Orient3(a, b, c, p) = 0
  /\ Dot3(n, Cross3(Sub3(b, a), Sub3(p, a))) >= 0
  /\ Dot3(n, Cross3(Sub3(c, b), Sub3(p, b))) >= 0
  /\ Dot3(n, Cross3(Sub3(a, c), Sub3(p, c))) >= 0
InTet(p, a, b, c, d) ==
  LET o == Orient3(a, b, c, d) IN
  /\ o # 0
  /\ o * Orient3(a, b, c, p) >= 0 /\ o * Orient3(a, b, p, d) >= 0
  /\ o * Orient3(a, p, c, d) >= 0 /\ o * Orient3(p, b, c, d) >= 0
NonExtreme(p, S) ==     \* (the three tests are symmetric in a, b, c, d: one order per subset)
  LET T == S \ {p} IN
  \/ Cardinality(T) >= 2 /\ \E e \in kSubset(2, T) : LET q == SetToSeq(e) IN InSeg(p, q[1], q[2])
  \/ Cardinality(T) >= 3 /\ \E e \in kSubset(3, T) : LET q == SetToSeq(e) IN InTri(p, q[1], q[2], q[3])
  \/ Cardinality(T) >= 4 /\ \E e \in kSubset(4, T) : LET q == SetToSeq(e) IN InTet(p, q[1], q[2], q[3], q[4])
ExtremeByCaratheodory(S) == { p \in S : ~NonExtreme(p, S) }

(* ======================= meshes and the relation ========================= *)
(* mesh = [v : Seq(point), t : Seq(<<i,j,k>>)], 1-based vertex indices       *)
EmptyMesh == [v |-> <<>>, t |-> <<>>]
Slots(m) == (1..Len(m.t)) \X (1..3)
Nx(e) == (e % 3) + 1
MEdges(m) == { << m.t[s[1]][s[2]], m.t[s[1]][Nx(s[2])] >> : s \in Slots(m) }
Closed2M(m) ==
  LET E == MEdges(m) IN
  /\ \A f \in 1..Len(m.t) : /\ m.t[f][1] # m.t[f][2] /\ m.t[f][2] # m.t[f][3] /\ m.t[f][3] # m.t[f][1]
                            /\ \A e \in 1..3 : m.t[f][e] \in 1..Len(m.v)
  /\ Cardinality(E) = 3 * Len(m.t)              \* no directed edge twice
  /\ \A e \in E : << e[2], e[1] >> \in E          \* every edge has its opposite
  /\ { m.t[s[1]][s[2]] : s \in Slots(m) } = 1..Len(m.v)   \* no unreferenced vertex
TriPts(m, f) == << m.v[m.t[f][1]], m.v[m.t[f][2]], m.v[m.t[f][3]] >>
VertsAreInputs(P, m) == \A i \in 1..Len(m.v) : m.v[i] \in ToSet(P)
ContainsInputs(P, m) ==
  \A f \in 1..Len(m.t) : LET q == TriPts(m, f) IN
     \A p \in ToSet(P) : Orient3(q[1], q[2], q[3], p) <= 0
(* edge (a,b) of face f; the neighbour across it holds (b,a) and a third    *)
(* vertex x: the edge is convex (or flat) iff x is not above f's plane      *)
EdgesConvex(m) ==
  \A s \in Slots(m) : \A r \in Slots(m) :
     ( m.t[r[1]][r[2]] = m.t[s[1]][Nx(s[2])] /\ m.t[r[1]][Nx(r[2])] = m.t[s[1]][s[2]] )
       => LET q == TriPts(m, s[1]) IN
          Orient3(q[1], q[2], q[3], m.v[m.t[r[1]][Nx(Nx(r[2]))]]) <= 0
IsEmptyMesh(m) == Len(m.t) = 0

(* the names of the clauses of the statement that (P, m) violates            *)
FailedClauses(P, m) ==
  IF IsEmptyMesh(m) THEN (IF SpansVolume(P) THEN {"empty-but-spans-volume"} ELSE {})
  ELSE (IF SpansVolume(P) THEN {} ELSE {"not-empty-but-no-volume"})
       \cup (IF Closed2M(m) THEN {} ELSE {"manifold"})
       \cup (IF VertsAreInputs(P, m) THEN {} ELSE {"vertex-not-input"})
       \cup (IF ContainsInputs(P, m) THEN {} ELSE {"input-outside"})
       \cup (IF Closed2M(m) /\ ~EdgesConvex(m) THEN {"reflex-edge"} ELSE {})
IsHullOf(P, m) ==
  IF IsEmptyMesh(m) THEN ~SpansVolume(P)
  ELSE /\ SpansVolume(P) /\ Closed2M(m) /\ VertsAreInputs(P, m)
       /\ ContainsInputs(P, m) /\ EdgesConvex(m)

MeshVol6(m) == FoldSet(LAMBDA f, acc : acc + LET q == TriPts(m, f) IN Det3(q[1], q[2], q[3]),
                       0, 1..Len(m.t))
MeshVertSet(m) == { m.v[i] : i \in 1..Len(m.v) }

(* ======================= the reference hull ============================== *)
(* supporting triples, oriented outwards: every point of S at <= 0           *)
SupTriples(S) ==
  IF Cardinality(S) < 3 THEN {} ELSE
  UNION { LET a == CHOOSE x \in e : TRUE
              b == CHOOSE x \in e : x # a
              c == CHOOSE x \in e : x # a /\ x # b
          IN IF Collinear3(a, b, c) THEN {}
             ELSE IF \A p \in S : Orient3(a, b, c, p) <= 0 THEN { <<a, b, c>> }
             ELSE IF \A p \in S : Orient3(a, b, c, p) >= 0 THEN { <<a, c, b>> }
             ELSE {}
        : e \in kSubset(3, S) }
OnPlane(t, S) == { p \in S : Orient3(t[1], t[2], t[3], p) = 0 }
(* boundary edges of the facet polygon F (normal n), corner to corner, CCW   *)
FacetEdges(F, n) ==
  { e \in F \X F : e[1] # e[2] /\
      \A p \in F : LET s == Dot3(n, Cross3(Sub3(e[2], e[1]), Sub3(p, e[1]))) IN
         \/ s > 0
         \/ s = 0 /\ Dot3(Sub3(p, e[1]), Sub3(e[2], e[1])) >= 0 /\ Dot3(Sub3(p, e[2]), Sub3(e[1], e[2])) >= 0 }
FanOf(F, n) ==
  LET ed == FacetEdges(F, n)
      corners == { e[1] : e \in ed }
      apex == CHOOSE u \in corners : \A w \in corners : u = w \/ LexLess(u, w)
  IN { << apex, e[1], e[2] >> : e \in { x \in ed : x[1] # apex /\ x[2] # apex } }
RefTris(S) ==
  LET sup == SupTriples(S)
      facets == { OnPlane(t, S) : t \in sup }
  IN UNION { LET t == CHOOSE x \in sup : OnPlane(x, S) = F
             IN FanOf(F, Cross3(Sub3(t[2], t[1]), Sub3(t[3], t[1]))) : F \in facets }
RefMesh(S) ==
  IF ~SpansVolumeS(S) THEN EmptyMesh
  ELSE LET tr == RefTris(S)
           vs == SetToSortSeq({ t[i] : t \in tr, i \in 1..3 }, LexLess)
           Idx(p) == CHOOSE i \in 1..Len(vs) : vs[i] = p
       IN [v |-> vs, t |-> SetToSeq({ << Idx(t[1]), Idx(t[2]), Idx(t[3]) >> : t \in tr })]

(* damaged meshes the relation must reject (non-vacuity of IsHullOf)         *)
FlipFirst(m) == [m EXCEPT !.t[1] = << m.t[1][2], m.t[1][1], m.t[1][3] >>]
DropFirst(m) == [m EXCEPT !.t = Tail(m.t)]
(* the "degenerate tetrahedron" of quickhull.cpp:651-667 on <= 4 flat points *)
FlatTetra(P) == LET q == [i \in 1..4 |-> P[IF i <= Len(P) THEN i ELSE Len(P)]]
                IN [v |-> q, t |-> << <<1,2,3>>, <<4,3,2>>, <<1,4,2>>, <<1,3,4>> >>]   \* closed, 4 faces

(* ======================= Minkowski on cells ============================== *)
E8 == {0,1} \X {0,1} \X {0,1}
BoxesCells(bs) == UNION { BoxCells(bs[i]) : i \in 1..Len(bs) }
NegCell(c) == << -c[1]-1, -c[2]-1, -c[3]-1 >>       \* the cell -(c+[0,1]^3)
Reflect(B) == { NegCell(b) : b \in B }
CornersOf(C) == CellSum(C, E8)                      \* lattice points of the closed cells
HasOrigin(C) == Zero3 \in CornersOf(C)              \* the closed solid contains the origin
OriginInterior(C) == \A e \in E8 : << -e[1], -e[2], -e[3] >> \in C
ReachSq(B) == Max({ Dot3(v, v) : v \in CornersOf(B) })   \* reach(B)^2 = max |b|^2
(* a+b over all points a of cell ca, b of cell cb fills cells ca+cb+{0,1}^3  *)
SumLower(A, B) == CellSum(CellSum(A, B), E8)
Ax1(d) == LET a == IF d < 0 THEN -d ELSE d IN IF a = 0 THEN 0 ELSE 2*a - 1
(* (2*distance)^2 from the centre of cell q to the closed cell a             *)
Dist4(q, a) == Ax1(q[1]-a[1])*Ax1(q[1]-a[1]) + Ax1(q[2]-a[2])*Ax1(q[2]-a[2]) + Ax1(q[3]-a[3])*Ax1(q[3]-a[3])
(* cells whose centre is within reach(B) of the solid A: A dilated by the     *)
(* digital ball of cell offsets d with (2*dist(centre(d), cell 0))^2 <= 4*reach^2 *)
Ball4(r4) == { d \in (-4..4) \X (-4..4) \X (-4..4) : Dist4(d, Zero3) <= r4 }
SumUpper(A, B) == CellSum(A, Ball4(4 * ReachSq(B))) \cap Cells
SumUpperDef(A, B) == { q \in Cells : \E a \in A : Dist4(q, a) <= 4 * ReachSq(B) }   \* the definition
(* p - b inside A for the centre p of cell c and every point b of cell cb:   *)
(* the cube p - cb meets exactly the cells c - cb - {0,1}^3                  *)
DiffUpper(A, B) == { c \in A : \A b \in B : \A e \in E8 : Sub3(Sub3(c, b), e) \in A }

(* ======================= families ======================================== *)
Grid(nx, ny, nz) == (0..nx-1) \X (0..ny-1) \X (0..nz-1)
RECURSIVE NonDec(_, _, _)      \* non-decreasing index sequences: multisets
NonDec(m, lo, n) == IF m = 0 THEN { <<>> }
                    ELSE UNION { { <<i>> \o s : s \in NonDec(m-1, i, n) } : i \in lo..n }
RECURSIVE Incr(_, _, _)        \* strictly increasing index sequences: sets
Incr(m, lo, n) == IF m = 0 THEN { <<>> }
                  ELSE UNION { { <<i>> \o s : s \in Incr(m-1, i+1, n) } : i \in lo..n }
PtsOf(G, idx) == LET g == SetToSortSeq(G, LexLess) IN [i \in 1..Len(idx) |-> g[idx[i]]]
MultisetsOn(G, sizes) == UNION { { PtsOf(G, s) : s \in NonDec(m, 1, Cardinality(G)) } : m \in sizes }
SubsetsOn(G, sizes) == UNION { { PtsOf(G, s) : s \in Incr(m, 1, Cardinality(G)) } : m \in sizes }
(* n pseudo-random m-subsets of G (m in sizes): a small LCG (period 7875)    *)
(* drives the choice, so the family is the same in every run                *)
Lcg(x) == (x * 421 + 1663) % 7875
RECURSIVE Draw(_, _, _, _)
Draw(g, x, m, acc) == IF Cardinality(acc) = m THEN acc
                      ELSE Draw(g, Lcg(x), m, acc \cup { g[(x % Len(g)) + 1] })
Pseudo(G, sizes, n, seed) ==
  LET g == SetToSortSeq(G, LexLess) IN
  UNION { { SetToSortSeq(Draw(g, Lcg(Lcg(seed + 97 * j + 13 * m)), m, {}), LexLess) : j \in 1..n } : m \in sizes }

Rep(s, k) == FlattenSeq([i \in 1..Len(s) |-> [j \in 1..k |-> s[i]]])   \* clustered: every point k times
G3 == Grid(3, 3, 3)
Corners3 == { p \in G3 : \A i \in 1..3 : p[i] # 1 }
Named(dummy) ==
  LET S2Q(S) == SetToSortSeq(S, LexLess) IN
  { S2Q(G3),                                                        \* full 3x3x3 grid
    S2Q({ p \in G3 : p # <<1,1,1>> }),                              \* its boundary shell
    S2Q(Corners3 \cup { p \in G3 : Cardinality({ i \in 1..3 : p[i] = 1 }) = 2 }),   \* corners + face centres
    S2Q(Corners3 \cup { p \in G3 : Cardinality({ i \in 1..3 : p[i] = 1 }) = 1 }),   \* corners + edge midpoints
    S2Q({ p \in G3 : Cardinality({ i \in 1..3 : p[i] = 1 }) = 2 } \cup { <<1,1,1>> }),  \* octahedron + centre
    Rep(S2Q({ p \in G3 : Cardinality({ i \in 1..3 : p[i] = 1 }) = 2 }), 2),          \* octahedron, doubled
    Rep(<< <<0,0,0>>, <<2,0,0>>, <<0,2,0>>, <<0,0,2>> >>, 3),       \* clustered tetrahedron
    Rep(<< <<0,0,0>>, <<2,0,0>>, <<0,2,0>>, <<0,0,2>>, <<1,1,0>>, <<1,0,1>>, <<0,1,1>>, <<1,0,0>> >>, 2),
    S2Q({ p \in G3 : p[3] = 0 }),                                   \* 9 coplanar points (axis plane)
    S2Q({ p \in G3 : p[1] + p[2] + p[3] = 3 }),                     \* 7 coplanar points (oblique plane)
    S2Q({ p \in G3 : p[1] = p[2] }),                                \* 9 coplanar points (diagonal plane)
    Rep(S2Q({ p \in G3 : p[1] = p[2] /\ p[2] = p[3] }), 2),         \* 3 collinear points, doubled
    S2Q({ p \in G3 : p[2] = 0 /\ p[3] = 2 }) \o << <<1,0,2>>, <<1,0,2>> >>,   \* collinear on an axis + duplicates
    Rep(<< <<1,2,0>> >>, 6),                                        \* one point six times
    S2Q({ p \in G3 : p[3] = 0 } \cup { <<1,1,2>> }),                \* pyramid over a 3x3 base grid
    S2Q({ p \in G3 : p[3] = 0 } \cup { <<0,0,1>> }),                \* low skew pyramid
    S2Q({ p \in G3 : p[1] + p[2] + p[3] <= 2 }),                    \* lattice simplex with all its points
    S2Q({ p \in G3 : p[3] # 1 } \cup { <<1,1,1>> }) }               \* two 3x3 plates + centre

(* cell complexes for the Hull-of-a-Manifold routes: sets of unit cubes      *)
CellBlock(nx, ny, nz) == (0..nx-1) \X (0..ny-1) \X (0..nz-1)
CellFamilies(name) ==
  CASE name = "C221" -> (SUBSET CellBlock(2, 2, 1)) \ { {} }
    [] name = "C222" -> (SUBSET CellBlock(2, 2, 2)) \ { {} }
    [] name = "C222s" -> { C \in SUBSET CellBlock(2, 2, 2) : C # {} /\ Cardinality(C) <= 3 }

PtsCases(name) ==
  CASE name = "M222" -> MultisetsOn(Grid(2, 2, 2), 1..6)     \* all multisets of <= 6 points of {0,1}^3
    [] name = "M222s" -> MultisetsOn(Grid(2, 2, 2), 1..5)
    [] name = "M222x" -> MultisetsOn(Grid(2, 2, 2), 7..7)
    [] name = "S223s" -> SubsetsOn(Grid(2, 2, 3), 4..5)      \* all 4..5-subsets of {0,1}^2 x {0,1,2}
    [] name = "S223" -> SubsetsOn(Grid(2, 2, 3), 4..6)
    [] name = "S223x" -> SubsetsOn(Grid(2, 2, 3), 7..8)
    [] name = "S333a" -> Pseudo(G3, 4..8, 80, 1)             \* 400 pseudo-random subsets of the 3x3x3 lattice
    [] name = "S333b" -> Pseudo(G3, 4..10, 600, 2)
    [] name = "S333c" -> SubsetsOn(G3, 4..4)
    [] name = "NAMED" -> Named(0)

(* ---- Minkowski pairs ----------------------------------------------------- *)
(* A: every cell subset of the block {0,1}^3 that is a union of <= n boxes    *)
(* with corners in {0,1,2}; the origin is a corner of cell <<0,0,0>> only.    *)
BlockBoxes == { b \in ({0,1,2} \X {0,1,2} \X {0,1,2}) \X ({0,1,2} \X {0,1,2} \X {0,1,2}) :
                  \A i \in 1..3 : b[1][i] < b[2][i] }
BoxCombos(n) == UNION { kSubset(k, BlockBoxes) : k \in 1..n }
UnionOf(combo) == UNION { BoxCells(b) : b \in combo }
(* a smallest set of boxes (out of `boxes`) whose union is the cell set X      *)
RECURSIVE MinCombo(_, _, _)
MinCombo(X, boxes, k) ==
  LET hits == { c \in kSubset(k, boxes) : UnionOf(c) = X }
  IN IF hits # {} THEN CHOOSE c \in hits : TRUE ELSE MinCombo(X, boxes, k + 1)
Decompose(X, boxes) == SetToSeq(MinCombo(X, { b \in boxes : BoxCells(b) \subseteq X }, 1))
ASolids(n) == { Decompose(X, BlockBoxes) : X \in { UnionOf(c) : c \in BoxCombos(n) } }
BSolid(name) ==
  CASE name = "cube2"   -> << << <<-1,-1,-1>>, <<1,1,1>> >> >>                       \* origin interior, convex
    [] name = "cell"    -> << << <<0,0,0>>, <<1,1,1>> >> >>                          \* origin at a corner
    [] name = "slab"    -> << << <<-1,-1,0>>, <<1,1,1>> >> >>                        \* origin on a face
    [] name = "bar"     -> << << <<-1,0,-1>>, <<0,1,1>> >> >>                        \* origin on an edge, asymmetric
    [] name = "Lin"     -> << << <<-1,-1,-1>>, <<1,1,1>> >>, << <<1,-1,-1>>, <<2,0,1>> >> >>   \* L, origin interior
    [] name = "Lflat"   -> << << <<-1,-1,0>>, <<1,0,1>> >>, << <<-1,0,0>>, <<0,1,1>> >> >>     \* L, origin on the reflex edge
    [] name = "Lbig"    -> << << <<-2,-2,-2>>, <<2,2,2>> >>, << <<-3,-2,-2>>, <<-2,0,2>> >> >> \* L thicker than every A of the block
BNames(name) ==
  CASE name = "MKc" -> {"cube2", "cell", "slab", "bar"}      \* convex structuring solids
    [] name = "MKn" -> {"Lin", "Lflat", "Lbig"}              \* non-convex structuring solids
    [] name = "MK2" -> {"cube2", "cell", "slab", "bar", "Lin", "Lflat"}
    [] name = "MKb2" -> {"Lbig"}
(* solids with room for a non-empty erosion: unions of <= n prisms of height 2 *)
(* (z from -1 to 1) over rectangles of the 3x3 grid with corners in -1..2      *)
PrismBoxes == { << <<r[1], r[2], -1>>, <<r[3], r[4], 1>> >> :
                  r \in { q \in (-1..2) \X (-1..2) \X (-1..2) \X (-1..2) : q[1] < q[3] /\ q[2] < q[4] } }
PSolids(n) ==
  LET sets == { UnionOf(c) : c \in UNION { kSubset(k, PrismBoxes) : k \in 1..n } }
  IN { Decompose(X, PrismBoxes) : X \in { Y \in sets : Cardinality(Y) >= 8 } }
MinkCases(name) ==
  IF name = "MD2"
  THEN { [A |-> a, B |-> BSolid(b), bname |-> b, only |-> "diff"] : a \in PSolids(2), b \in {"cell", "slab", "Lflat"} }
  ELSE { [A |-> a, B |-> BSolid(b), bname |-> b, only |-> "all"] :
           a \in ASolids(IF name \in {"MK2", "MKb2"} THEN 2 ELSE 3), b \in BNames(name) }

IsPtsFamily(name) == name \in {"M222","M222s","M222x","S223s","S223","S223x","S333a","S333b","S333c","NAMED"}
IsCellFamily(name) == name \in {"C221","C222","C222s"}
IsMinkFamily(name) == name \in {"MKc","MKn","MK2","MD2","MKb2"}

(* ======================= facts computed by the specification ============== *)
(* two sub-clouds P1 = P without the extreme point e1, P2 = P without e2, both *)
(* still spanning volume: conv(conv(P1) u conv(P2)) = conv(P), the input of    *)
(* Hull(vector<Manifold>); <<>> when P has no two such points                  *)
SplitOf(P, ext) ==
  LET S == ToSet(P)
      cands == { e \in ext : SpansVolumeS(S \ {e}) }
  IN IF Cardinality(cands) < 2 THEN <<>>
     ELSE LET e1 == CHOOSE x \in cands : \A y \in cands : x = y \/ LexLess(x, y)
              e2 == CHOOSE x \in cands : \A y \in cands : x = y \/ LexLess(y, x)
          IN << SelectSeq(P, LAMBDA p : p # e1), SelectSeq(P, LAMBDA p : p # e2) >>
HullFacts(P) ==
  LET S == ToSet(P)
      m == RefMesh(S)
  IN [pts |-> P, dim |-> AffDim(S), spans |-> SpansVolumeS(S),
      ext |-> MeshVertSet(m), vol6 |-> MeshVol6(m), mesh |-> m, split |-> SplitOf(P, MeshVertSet(m))]
CornerSeq(C) == FlattenSeq([i \in 1..Cardinality(C) |->
                  LET c == SetToSortSeq(C, LexLess)[i] IN SetToSortSeq({ Add3(c, e) : e \in E8 }, LexLess)])
MinkFacts(c) ==
  LET A == BoxesCells(c.A)
      B == BoxesCells(c.B)
  IN [A |-> c.A, B |-> c.B, bname |-> c.bname, only |-> c.only, cA |-> A, cB |-> B,
      originA |-> HasOrigin(A), originB |-> HasOrigin(B), interiorB |-> OriginInterior(B),
      reachSqA |-> ReachSq(A), reachSqB |-> ReachSq(B),
      sumLower |-> SumLower(A, B),
      sumUpperAB |-> SumUpper(A, B),                    \* call A.MinkowskiSum(B): structuring solid B
      sumUpperBA |-> IF HasOrigin(A) THEN << SumUpper(B, A) >> ELSE <<>>,   \* call B.MinkowskiSum(A)
      diffUpperAB |-> DiffUpper(A, B),
      diffUpperBA |-> IF HasOrigin(A) THEN << DiffUpper(B, A) >> ELSE <<>>]

(* ======================= trace validation ================================= *)
(* Hull3_Trace.cfg: the ndjson file named by the environment variable         *)
(* HULL3_TRACE holds records [id, pts, v, t (0-based)] written from what the  *)
(* implementation returned (drive/hull.cpp); the TLA+ relation is evaluated   *)
(* on each and printed; checks/C16.py compares it with the driver's verdict.  *)
TraceRecs(dummy) == ndJsonDeserialize(IOEnv.HULL3_TRACE)
TraceVerdict(i) ==
  LET r == TraceRecs(0)[i]
      P == [j \in 1..Len(r.pts) |-> << r.pts[j][1], r.pts[j][2], r.pts[j][3] >>]
      m == [v |-> [j \in 1..Len(r.v) |-> << r.v[j][1], r.v[j][2], r.v[j][3] >>],
            t |-> [j \in 1..Len(r.t) |-> << r.t[j][1] + 1, r.t[j][2] + 1, r.t[j][3] + 1 >>]]
  IN [id |-> r.id, failed |-> FailedClauses(P, m), holds |-> IsHullOf(P, m),
      vol6 |-> IF Closed2M(m) THEN MeshVol6(m) ELSE -1]

VARIABLES cs, done
vars == << cs, done >>

(* Init only enumerates the raw cases (cheap, sequential in TLC); the step   *)
(* computes the facts (parallel workers), so invariants speak about done.   *)
Init ==
  /\ done = FALSE
  /\ \E Family \in Families :
     \/ /\ IsPtsFamily(Family)
        /\ \E P \in PtsCases(Family) : cs = [kind |-> "pts", in |-> P]
     \/ /\ IsCellFamily(Family)
        /\ \E C \in CellFamilies(Family) : cs = [kind |-> "cells", in |-> C]
     \/ /\ IsMinkFamily(Family)
        /\ \E c \in MinkCases(Family) : cs = [kind |-> "mink", in |-> c]
     \/ /\ Family = "TRACE"
        /\ \E i \in 1..Len(TraceRecs(0)) : cs = [kind |-> "trace", in |-> i]
Computed ==
  CASE cs.kind = "pts"   -> [kind |-> "pts", h |-> HullFacts(cs.in)]
    [] cs.kind = "cells" -> [kind |-> "cells", cells |-> cs.in, h |-> HullFacts(CornerSeq(cs.in))]
    [] cs.kind = "mink"  -> [kind |-> "mink", k |-> MinkFacts(cs.in)]
    [] cs.kind = "trace" -> [kind |-> "trace", verdict |-> TraceVerdict(cs.in)]

Box6(b) == << b[1][1], b[1][2], b[1][3], b[2][1], b[2][2], b[2][3] >>
SeqOfSet(S) == SetToSortSeq(S, LexLess)
Emitted(x) ==
  IF x.kind = "trace" THEN x.verdict
  ELSE IF x.kind = "mink" THEN
    LET k == x.k IN
    [kind |-> "mink", A |-> [i \in 1..Len(k.A) |-> Box6(k.A[i])], B |-> [i \in 1..Len(k.B) |-> Box6(k.B[i])],
     bname |-> k.bname, only |-> k.only, cA |-> EncSet(k.cA), cB |-> EncSet(k.cB),
     originA |-> k.originA, originB |-> k.originB, interiorB |-> k.interiorB,
     reachSqA |-> k.reachSqA, reachSqB |-> k.reachSqB,
     sumLower |-> EncSet(k.sumLower), sumUpperAB |-> EncSet(k.sumUpperAB),
     sumUpperBA |-> [i \in 1..Len(k.sumUpperBA) |-> EncSet(k.sumUpperBA[i])],
     diffUpperAB |-> EncSet(k.diffUpperAB),
     diffUpperBA |-> [i \in 1..Len(k.diffUpperBA) |-> EncSet(k.diffUpperBA[i])]]
  ELSE
    LET h == x.h
        base == [kind |-> x.kind, pts |-> h.pts, dim |-> h.dim, spans |-> h.spans,
                 ext |-> SeqOfSet(h.ext), vol6 |-> h.vol6, split |-> h.split]
    IN IF x.kind = "cells" THEN [c \in {"cells"} |-> SeqOfSet(x.cells)] @@ base ELSE base

Next == /\ ~done /\ done' = TRUE /\ cs' = Computed
        /\ (Emit => PrintT(<<"BEH", ToJson(Emitted(cs'))>>))

(* ======================= invariants checked by TLC ======================== *)
IsHullCase == cs.kind \in {"pts", "cells"}
(* the relation holds between every enumerated input and the reference hull   *)
RefIsHull == (IsHullCase /\ done) => IsHullOf(cs.h.pts, cs.h.mesh)
(* ... and nothing else about emptiness: spans <=> non-empty <=> volume > 0   *)
SpansIffVolume == (IsHullCase /\ done) =>
  /\ cs.h.spans = SpansVolumeDef(ToSet(cs.h.pts))
  /\ cs.h.spans = ~IsEmptyMesh(cs.h.mesh)
  /\ cs.h.spans = (cs.h.vol6 > 0)
  /\ (~cs.h.spans => cs.h.vol6 = 0 /\ cs.h.ext = {})
(* the two sub-clouds of the split together have the hull of P              *)
SplitSound == (IsHullCase /\ done /\ cs.h.split # <<>>) =>
  LET m1 == RefMesh(ToSet(cs.h.split[1]))
      m2 == RefMesh(ToSet(cs.h.split[2]))
  IN /\ ~IsEmptyMesh(m1) /\ ~IsEmptyMesh(m2)
     /\ MeshVertSet(m1) # cs.h.ext /\ MeshVertSet(m2) # cs.h.ext
     /\ MeshVertSet(RefMesh(MeshVertSet(m1) \cup MeshVertSet(m2))) = cs.h.ext
(* the printed extreme set is the independent (Caratheodory) one              *)
ExtremeAgree == (IsHullCase /\ done /\ cs.h.spans /\ Cardinality(ToSet(cs.h.pts)) <= 12) =>
  cs.h.ext = ExtremeByCaratheodory(ToSet(cs.h.pts))
(* the relation is not vacuous: it rejects damaged hulls                      *)
RejectsDamaged == (IsHullCase /\ done) =>
  /\ cs.h.spans =>
       /\ ~IsHullOf(cs.h.pts, FlipFirst(cs.h.mesh))
       /\ ~IsHullOf(cs.h.pts, DropFirst(cs.h.mesh))
       /\ ~IsHullOf(cs.h.pts, EmptyMesh)
       /\ \A e \in { CHOOSE x \in cs.h.ext : \A y \in cs.h.ext : x = y \/ LexLess(x, y) } :
            LET R == RefMesh(ToSet(cs.h.pts) \ {e}) IN ~IsHullOf(cs.h.pts, R)   \* hull of the input minus an extreme point
  /\ ~cs.h.spans => ~IsHullOf(cs.h.pts, FlatTetra(cs.h.pts))     \* finding F10's shape

IsMinkCase == cs.kind = "mink"
MinkAlgebra == (IsMinkCase /\ done) =>
  LET k == cs.k IN
  /\ InWindow(k.sumLower)                                   \* the window shows the whole sum
  /\ k.originB
  /\ k.sumLower \subseteq k.sumUpperAB                      \* every a+b is within reach(B) of A
  /\ (Cardinality(k.cA) <= 2 => k.sumUpperAB = SumUpperDef(k.cA, k.cB))   \* ball form = definition
  /\ k.cA \subseteq k.sumLower                              \* "hence A itself"
  /\ k.sumLower = SumLower(k.cB, k.cA)                      \* whichever operand comes first
  /\ k.diffUpperAB \subseteq k.cA                           \* the difference lies inside A
  /\ SumLower(k.diffUpperAB, Reflect(k.cB)) \subseteq k.cA  \* p - b inside A (opening)
  /\ k.cA \subseteq DiffUpper(SumLower(k.cA, Reflect(k.cB)), k.cB)    \* adjunction (closing)
  /\ (k.originA => k.cB \subseteq k.sumLower /\ k.sumLower \subseteq k.sumUpperBA[1])

(* ======================= trace validation (invariant) ===================== *)
(* the two formulations of the relation agree on every implementation mesh   *)
TraceConsistent == (cs.kind = "trace" /\ done) => (cs.verdict.holds = (cs.verdict.failed = {}))
=============================================================================
