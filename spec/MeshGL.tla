------------------------------- MODULE MeshGL -------------------------------
(***************************************************************************)
(* C09: malformed input gives an error Status, never undefined behaviour,   *)
(* and an error is sticky.                                                  *)
(*                                                                          *)
(* An abstract MeshGL is a record of FIELD CLASSES (one class per field);   *)
(* class "ok" is the nominal value taken from a valid exported mesh, every  *)
(* other class is one way the field can be malformed.  Classes are chosen   *)
(* to hit every comparison of the ingest ladder (src/impl.h:317-391,        *)
(* 471-478, 498, 524) and every index use after it.                         *)
(*                                                                          *)
(* Validate(m) transcribes the ladder: the FIRST rung that fires decides    *)
(* the Error.  Rungs "RunIndexContents" and "TangentLength" are demanded by *)
(* the property (no out-of-bounds access) - on the pinned tree they were    *)
(* missing (finding F6).  The status algebra: every operation that          *)
(* consumes an errored object yields a non-NoError, empty object.           *)
(* TLC enumerates all inputs with at most two non-nominal fields and, for   *)
(* each, the consuming programs; the driver concretises and executes them   *)
(* under AddressSanitizer/UBSan.                                            *)
(***************************************************************************)
EXTENDS Naturals, Sequences, FiniteSets, TLC, Json

CONSTANT Emit, MaxBad

Classes == [
  numProp   |-> {"ok", "two", "zero"},
  verts     |-> {"ok", "ragged", "empty", "nanpos", "infpos", "nanprop", "few"},
  tris      |-> {"ok", "ragged", "empty", "idxEqN", "idxHuge", "degenerate", "flipped", "dup"},
  merge     |-> {"ok", "none", "lenDiff", "fromOOB", "toEqN", "toEqNall", "toHuge", "selfLoop"},
  runIndex  |-> {"ok", "none", "noEnd", "single", "tooLong", "beyond", "nonMonotone", "notMult3", "huge"},
  runID     |-> {"ok", "none", "one"},
  runXf     |-> {"ok", "none", "short", "nan", "singular"},
  runFlags  |-> {"ok", "none", "short", "long", "allbits"},
  faceID    |-> {"ok", "none", "short", "long", "huge"},
  tangents  |-> {"none", "ok", "short", "long", "nan", "notMult4", "quadmark1"},   \* quadmark1: a quad mark (w = -1) on ONE halfedge of an edge only
  tolerance |-> {"ok", "negative", "nan", "inf", "huge"} ]
Fields == DOMAIN Classes
Nominal == [f \in Fields |-> IF f = "tangents" THEN "none" ELSE "ok"]

Errors == {"NoError", "NonFiniteVertex", "NotManifold", "VertexOutOfBounds", "PropertiesWrongLength",
           "MissingPositionProperties", "MergeVectorsDifferentLengths", "MergeIndexOutOfBounds",
           "TransformWrongLength", "RunIndexWrongLength", "FaceIDWrongLength", "InvalidConstruction",
           "ResultTooLarge", "InvalidTangents", "Cancelled"}

(* the ladder, in the order of the code.  "Any" = some error or a usable     *)
(* result; the exact code is compared as DRIFT only.                          *)
Validate(m) ==
  IF m.verts = "empty" /\ m.tris = "empty" THEN "NoError"                    \* empty in, empty out
  ELSE IF m.verts \in {"empty", "few"} \/ m.tris = "empty" THEN "NotManifold"       \* < 4 verts or tris
  ELSE IF m.numProp \in {"two", "zero"} THEN "MissingPositionProperties"
  ELSE IF m.merge = "lenDiff" THEN "MergeVectorsDifferentLengths"
  ELSE IF m.runXf = "short" /\ m.runID # "none" THEN "TransformWrongLength"
  ELSE IF m.runIndex \in {"tooLong"} /\ m.runID # "none" THEN "RunIndexWrongLength"
  ELSE IF m.faceID \in {"short", "long"} THEN "FaceIDWrongLength"
  ELSE IF m.tangents \in {"short", "long", "notMult4"} THEN "InvalidTangents"             \* rung TangentLength
  ELSE IF m.verts \in {"nanpos", "infpos", "nanprop"} THEN "NonFiniteVertex"
  ELSE IF m.runXf = "nan" THEN "InvalidConstruction"
  ELSE IF m.tangents = "nan" THEN "InvalidConstruction"
  ELSE IF m.tolerance \in {"nan", "inf"} THEN "InvalidConstruction"
  ELSE IF m.merge \in {"fromOOB", "toEqN", "toEqNall", "toHuge"} THEN "MergeIndexOutOfBounds"
  ELSE IF m.runIndex \in {"beyond", "nonMonotone", "huge"} THEN "RunIndexWrongLength"     \* rung RunIndexContents
  ELSE IF m.tris \in {"idxEqN", "idxHuge"} THEN "VertexOutOfBounds"
  ELSE IF m.tris \in {"ragged", "dup", "flipped"} \/ m.verts = "ragged" \/ m.merge = "none" THEN "Any"
  ELSE "Any"

(* ---- status algebra ------------------------------------------------------- *)
Consumers == {"AddL", "AddR", "SubL", "SubR", "IntL", "IntR", "Batch3", "BatchSubR", "SplitL", "SplitR", "Plane", "Trim",
              "Translate", "Rotate", "Mirror", "Scale", "Warp", "SetProps", "Normals", "Curvature", "Refine", "RefineLen",
              "RefineTol", "SmoothOut", "SmoothNormals", "Simplify", "SetTol", "AsOriginal", "Hull", "HullMany",
              "MinkSumL", "MinkSumR", "MinkDiffL", "Decompose", "Copy", "Then2"}
(* status of Consume(op, e) where e carries error s: always s (never NoError) *)
Consume(op, s) == s
Sticky == \A s \in Errors \ {"NoError"}, op \in Consumers : Consume(op, s) # "NoError"

(* ---- enumeration ----------------------------------------------------------- *)
BadFields(m) == { f \in Fields : m[f] # Nominal[f] }
Inputs == { m \in [Fields -> UNION { Classes[f] : f \in Fields }] :
              /\ \A f \in Fields : m[f] \in Classes[f]
              /\ Cardinality(BadFields(m)) <= MaxBad }
(* built incrementally to avoid the full product: all single and pair deviations *)
Single == { [Nominal EXCEPT ![f] = c] : f \in Fields, c \in UNION { Classes[g] : g \in Fields } }
Devs1 == { m \in Single : \A f \in Fields : m[f] \in Classes[f] }
Devs2 == { [m EXCEPT ![f] = c] : m \in Devs1, f \in Fields, c \in UNION { Classes[g] : g \in Fields } }
Cases == IF MaxBad = 1 THEN Devs1 ELSE { m \in Devs2 : \A f \in Fields : m[f] \in Classes[f] }

VARIABLES m, done
Init == m \in Cases /\ done = FALSE
Next == /\ ~done /\ done' = TRUE /\ UNCHANGED m
        /\ (Emit => PrintT(<<"BEH", ToJson([fields |-> m, expect |-> Validate(m)])>>))
LadderTotal == Validate(m) \in Errors \cup {"Any"}
(* malformed indices/lengths are never accepted silently: these classes must  *)
(* end in an error (the property: never reads or writes out of bounds)        *)
Unsafe(mm) == \/ mm.tris \in {"idxEqN", "idxHuge"} \/ mm.merge \in {"fromOOB", "toEqN", "toEqNall", "toHuge", "lenDiff"}
              \/ mm.runIndex \in {"beyond", "huge", "nonMonotone"} \/ mm.tangents \in {"short", "long", "notMult4"}
              \/ mm.faceID \in {"short", "long"} \/ (mm.runXf = "short" /\ mm.runID # "none")
UnsafeRejected == (Unsafe(m) /\ ~(m.verts = "empty" /\ m.tris = "empty")) => Validate(m) \notin {"NoError", "Any"}
=============================================================================
