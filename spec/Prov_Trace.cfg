INIT Init
NEXT Next
INVARIANT AllOnFace
CHECK_DEADLOCK FALSE
