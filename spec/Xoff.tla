-------------------------------- MODULE Xoff --------------------------------
(***************************************************************************)
(* C12 - "Offset, Hull, Decompose and Simplify of CrossSections mean what   *)
(* they say", stated on the pixel lattice of Xsec.tla (C11), everything in  *)
(* exact integers.                                                          *)
(*                                                                          *)
(* REGIONS are unions of lattice rectangles minus lattice rectangles (holes,*)
(* notches, cuts, pieces touching along an edge or in a vertex); their      *)
(* pixel set is derived from Xsec.tla's winding oracle (RegionIsFill).      *)
(* Distances are squared distances from a pixel CENTRE to a union of closed *)
(* unit squares in DOUBLED coordinates (so they are integers: 4 d^2).       *)
(*                                                                          *)
(* OFFSET (delta > 0; delta < 0 is the same statement on the complement).   *)
(* For every pixel the statement fixes a three-valued demand:               *)
(*   in     the centre must be inside the result                            *)
(*   out    the centre must be outside the result                           *)
(*   maybe  the statement does not decide (centre in the chordal band, on   *)
(*          a bevel, between the edge-dilation and the distance bound)      *)
(*   every join type : in  >= A and A dilated along its edges (EdgeDil),    *)
(*                     out >= centres farther than miterLimit*delta from A  *)
(*   Round           : in  >= centres closer than delta*cos(pi/n)           *)
(*                     out >= centres farther than delta                    *)
(*   Miter           : 90-degree corners never reach the miter limit (>= 2):*)
(*                     the result is the Chebyshev dilation / erosion,      *)
(*                     exactly (maybe = {})                                 *)
(* cos(pi/n) is a CONSTANT table of lower bounds in per cent (CosLB).       *)
(* SHARP convex polygons (acute corners, where the miter limit acts) get    *)
(* the generic clauses with exact rational point-segment distances, and for *)
(* Round, delta > 0, also the inner clause (closer than delta*cos(pi/n)).   *)
(*                                                                          *)
(* CORNER ANGLES: a family of simple polygons in integer coordinates whose  *)
(* corners cover the angle classes of the statement (convex / reflex, each  *)
(* below 30, 30..90 and above 90 degrees, collinear), classified by exact   *)
(* integer cross / dot products; each is placed by similarity transforms    *)
(* (Pythagorean rotations, mirror), as a solid and as a hole in a box, and  *)
(* offset by both signs of delta with several segment counts.  The rule is  *)
(* the statement itself: a point closer than |delta|*cos(pi/n) to S must be *)
(* covered by the dilation of S, a point farther than |delta| must not      *)
(* (S = the region for delta > 0, its complement for delta < 0); cos(pi/n)  *)
(* is a table of lower bounds in 1/10000 whose entries TLC ties together by *)
(* the double-angle identity.  The distances of the probe points (on rays   *)
(* around every corner and beside every edge) are measured by the driver.   *)
(*                                                                          *)
(* HULL of a finite lattice point set: supporting edges in exact integer    *)
(* cross products, cyclic counter-clockwise vertex sequence, twice the area;*)
(* checked against an independent Caratheodory definition of "extreme".     *)
(* DECOMPOSE: edge-connected components of the pixel set.                   *)
(* SIMPLIFY: the relation  SimplifyOK(in, out, tol)  of the statement and a *)
(* reference simplifier (drop the vertex closest to the line through its    *)
(* current neighbours while closer than tol) shown to satisfy it.           *)
(*                                                                          *)
(* TLC enumerates the cases of the chosen Families in Init, computes the    *)
(* demanded facts in Next (parallel workers), checks the invariants at the  *)
(* end of the file on every state and prints every case as JSON for         *)
(* drive/xoff.cpp, which executes the real CrossSection API.                *)
(***************************************************************************)
EXTENDS Integers, Sequences, FiniteSets, TLC, Json, SequencesExt, FiniteSetsExt

CONSTANTS K,         \* half-width of the pixel window (>= 5 for the region families)
          Families,  \* set of family names enumerated by Init
          Emit       \* print the cases

XS(dm) == INSTANCE Xsec WITH K <- K, Grid <- 4, LeafFam <- "none", GenNames <- {}, OpNames <- {},
                         MaxLeaf <- 0, Depth <- 0, Acts <- {}, ObsModes <- {}, Sample <- FALSE, Emit <- FALSE,
                         prog <- <<>>, den <- <<>>, lat <- <<>>, kind <- "", bucket <- 0

Abs(x) == IF x < 0 THEN -x ELSE x
Max0(x) == IF x < 0 THEN 0 ELSE x
Pix(dummy) == XS(0)!Pixels
Enc(S) == XS(0)!PixEncSet(S)

(* ======================== regions ======================================== *)
(* rectangle <<x0,y0,x1,y1>> in lattice coordinates *)
RectsOn(lo, hi) == { r \in (lo..hi) \X (lo..hi) \X (lo..hi) \X (lo..hi) : r[1] < r[3] /\ r[2] < r[4] }
RectPix(r) == (r[1]..(r[3]-1)) \X (r[2]..(r[4]-1))
RectLess(a, b) == \E i \in 1..4 : a[i] < b[i] /\ \A j \in 1..(i-1) : a[j] = b[j]
UnionPix(rs) == UNION { RectPix(rs[i]) : i \in 1..Len(rs) }
Isl(g) == IF "isl" \in DOMAIN g THEN g.isl ELSE << >>
SubB(g) == IF "sub2" \in DOMAIN g THEN g.sub2 ELSE << >>
RegionPix(g) == ((UnionPix(g.add) \ UnionPix(g.sub)) \cup UnionPix(Isl(g))) \ UnionPix(SubB(g))
RectContour(r) == XS(0)!RectCCW(r[1], r[2], r[3], r[4])
Contours(rs) == [i \in 1..Len(rs) |-> RectContour(rs[i])]
Regions(fam) ==
  CASE fam = "r1"  -> { [add |-> <<r>>, sub |-> <<>>] : r \in RectsOn(-2, 2) }
    [] fam = "r2"  -> { [add |-> <<p[1], p[2]>>, sub |-> <<>>] :
                          p \in { q \in RectsOn(-1, 2) \X RectsOn(-1, 2) : RectLess(q[1], q[2]) } }
    [] fam = "rh"  -> { [add |-> <<a>>, sub |-> <<s>>] : a \in {<<-2,-2,2,2>>, <<-2,-2,1,2>>}, s \in RectsOn(-2, 2) }
    \* two rectangles minus one: a thinned-out part of all triples
    [] fam = "r3"  -> { [add |-> <<p[1], p[2]>>, sub |-> <<p[3]>>] :
                          p \in { q \in RectsOn(-1, 2) \X RectsOn(-1, 2) \X RectsOn(-1, 2) :
                                   /\ RectLess(q[1], q[2])
                                   /\ (q[1][1] + 2*q[1][3] + 3*q[2][2] + 5*q[2][4] + 7*q[3][1] + 11*q[3][4] + q[3][2]) % 13 = 0 } }
    [] fam = "r3all" -> { [add |-> <<p[1], p[2]>>, sub |-> <<p[3]>>] :
                          p \in { q \in RectsOn(-1, 2) \X RectsOn(-1, 2) \X RectsOn(-1, 2) : RectLess(q[1], q[2]) } }
    [] fam = "r2big" -> { [add |-> <<p[1], p[2]>>, sub |-> <<>>] :
                          p \in { q \in RectsOn(-2, 2) \X RectsOn(-2, 2) : RectLess(q[1], q[2]) } }
    \* a 6 x 6 block minus a hole plus an island inside the hole (nested outlines; island touching the hole's rim)
    [] fam = "nest" -> { [add |-> << <<-3,-3,3,3>> >>, sub |-> <<p[1]>>, isl |-> <<p[2]>>] :
                          p \in { q \in RectsOn(-2, 2) \X RectsOn(-2, 2) :
                                   /\ q[1][3] - q[1][1] >= 2 /\ q[1][4] - q[1][2] >= 2
                                   /\ q[2][3] - q[2][1] <= 2 /\ q[2][4] - q[2][2] <= 2
                                   /\ RectPix(q[2]) \subseteq RectPix(q[1]) /\ q[1] # q[2] } }
    \* two levels of nesting (a hole inside an island inside a hole) and two holed blocks side by side / touching
    [] fam = "nest2" ->
         { [add |-> << <<-4,-4,3,3>> >>, sub |-> << <<-3,-3,2,2>> >>, isl |-> <<p[1]>>, sub2 |-> <<p[2]>>] :
             p \in { q \in RectsOn(-3, 2) \X RectsOn(-2, 1) :
                      /\ q[1][3] - q[1][1] >= 3 /\ q[1][4] - q[1][2] >= 3
                      /\ q[2][3] - q[2][1] = 1 /\ q[2][4] - q[2][2] <= 2
                      /\ q[1][1] < q[2][1] /\ q[2][3] < q[1][3] /\ q[1][2] < q[2][2] /\ q[2][4] < q[1][4] } }
         \cup
         { [add |-> << <<-4,-4,-1,-1>>, <<x, y, x + 3, y + 3>> >>, sub |-> << <<-3,-3,-2,-2>>, <<x + 1, y + 1, x + 2, y + 2>> >>] :
             x \in {-1, 0}, y \in {-4, -1, 0} }
         \cup  \* an L whose hole touches the outline in the reflex vertex (0,0), in four orientations
         { [add |-> << <<-3,-3,3,0>>, <<-3,-3,0,3>> >>, sub |-> << <<-2,-2,0,0>> >>],
           [add |-> << <<-3,0,3,3>>, <<-3,-3,0,3>> >>, sub |-> << <<-2,0,0,2>> >>],
           [add |-> << <<-3,0,3,3>>, <<0,-3,3,3>> >>, sub |-> << <<0,0,2,2>> >>],
           [add |-> << <<-3,-3,3,0>>, <<0,-3,3,3>> >>, sub |-> << <<0,-2,1,0>> >>] }
    [] OTHER -> {}
RegionFams == {"r1", "r2", "rh", "r3", "r3all", "r2big"}

(* ======================== distances and morphology ======================= *)
(* 4 * squared distance from the centre of pixel p to the closed unit square s *)
DD(p, s) == LET ax == Max0(2 * Abs(p[1] - s[1]) - 1)  ay == Max0(2 * Abs(p[2] - s[2]) - 1) IN ax * ax + ay * ay
Far == 100000
MinOf(S) == IF S = {} THEN Far ELSE Min(S)
D2(p, S) == MinOf({ DD(p, s) : s \in S })
Cheb(S, d) == { p \in Pix(0) : \E dx \in (-d)..d, dy \in (-d)..d : << p[1] + dx, p[2] + dy >> \in S }
(* S and the rectangles swept by the boundary edges of S along their outward normals by d *)
EdgeDil(S, d) == { p \in Pix(0) : \E t \in (-d)..d : << p[1] + t, p[2] >> \in S \/ << p[1], p[2] + t >> \in S }
ErodeCheb(S, e) == { p \in S : \A dx \in (-e)..e, dy \in (-e)..e : << p[1] + dx, p[2] + dy >> \in S }

(* lower bounds of 100*cos(pi/n) *)
CosLB(n) == CASE n = 3 -> 50 [] n = 4 -> 70 [] n = 5 -> 80 [] n = 6 -> 86 [] n = 8 -> 92 [] n = 12 -> 96
              [] n = 16 -> 98 [] n = 32 -> 99 [] OTHER -> 0
Joins == {"Miter", "Round", "Square", "Bevel"}

(* the demand for "grow S by e > 0" inside the universe of pixels: <<in, out>>.              *)
(* dist is the function p |-> D2(p, S) for p outside S; ch = Cheb(S, e), ed = EdgeDil(S, e). *)
GrowDemand(S, dist, ch, ed, e, jt, ml10, seg) ==
  LET notS == Pix(0) \ S
      near(th) == { p \in notS : dist[p] * 10000 < th }         \* th = 10000 * 4 * radius^2
      far(th)  == { p \in notS : dist[p] * 100 > th }           \* th = 100 * 4 * radius^2
  IN CASE jt = "Miter" -> << ch, Pix(0) \ ch >>
       [] jt = "Round" -> << ed \cup near(4 * e * e * CosLB(seg) * CosLB(seg)), far(400 * e * e) >>
       [] OTHER        -> << ed, far(4 * e * e * ml10 * ml10) >>

(* Offset(delta) of the region with pixel set A: [d, in, out]; T = the morphology tables *)
OffDemand(A, T, d, jt, ml10, seg) ==
  IF d = 0 THEN [d |-> 0, in |-> A, out |-> Pix(0) \ A]
  ELSE IF d > 0 THEN LET g == GrowDemand(A, T.dA, T.chA[d], T.edA[d], d, jt, ml10, seg) IN [d |-> d, in |-> g[1], out |-> g[2]]
  ELSE LET g == GrowDemand(Pix(0) \ A, T.dC, T.chC[-d], T.edC[-d], -d, jt, ml10, seg) IN [d |-> d, in |-> g[2], out |-> g[1]]

Deltas == << -2, -1, 0, 1, 2 >>
Variants(quick) ==
  << [jt |-> "Miter", ml10 |-> 20, seg |-> 0], [jt |-> "Miter", ml10 |-> 35, seg |-> 0],
     [jt |-> "Round", ml10 |-> 20, seg |-> 5], [jt |-> "Round", ml10 |-> 20, seg |-> 8],
     [jt |-> "Round", ml10 |-> 20, seg |-> 16], [jt |-> "Round", ml10 |-> 20, seg |-> 3],
     [jt |-> "Square", ml10 |-> 20, seg |-> 0], [jt |-> "Bevel", ml10 |-> 20, seg |-> 0] >>

(* the tables are computed by a step of their own (OffTables) so that TLC holds them as values *)
OffTables(g) ==
  LET A == RegionPix(g)
      C == Pix(0) \ A
  IN [A |-> A, dA |-> [p \in C |-> D2(p, A)], dC |-> [p \in A |-> D2(p, C)],
      chA |-> << Cheb(A, 1), Cheb(A, 2) >>, edA |-> << EdgeDil(A, 1), EdgeDil(A, 2) >>,
      chC |-> << Cheb(C, 1), Cheb(C, 2) >>, edC |-> << EdgeDil(C, 1), EdgeDil(C, 2) >>]
OffFacts(g, T) ==
  LET vs == Variants(TRUE)
  IN [kind |-> "off", g |-> g, A |-> T.A,
      vars |-> [i \in 1..Len(vs) |->
                 [jt |-> vs[i].jt, ml10 |-> vs[i].ml10, seg |-> vs[i].seg,
                  ds |-> [k \in 1..Len(Deltas) |-> OffDemand(T.A, T, Deltas[k], vs[i].jt, vs[i].ml10, vs[i].seg)]]]]

(* ======================== sharp convex polygons ========================== *)
(* contours in DOUBLED coordinates, counter-clockwise, convex, with acute corners *)
SharpSet ==
  { XS(0)!Tri,                                              \* 45-45-90
    XS(0)!TriA,                                             \* 26.6 degrees
    XS(0)!Lat(<< <<-2,0>>, <<2,0>>, <<2,1>> >>),            \* 14 degrees
    XS(0)!Lat(<< <<-2,-1>>, <<2,0>>, <<-2,1>> >>),          \* isosceles spike 28 degrees
    XS(0)!Lat(<< <<0,-2>>, <<1,0>>, <<0,2>>, <<-1,0>> >>),  \* rhombus 53 / 127 degrees
    XS(0)!Diam }                                            \* 90-degree diamond (45-degree edges)
Sub2(a, b) == << a[1] - b[1], a[2] - b[2] >>
Dot2(a, b) == a[1] * b[1] + a[2] * b[2]
(* squared distance of q to the closed segment a-b as a fraction <<num, den>> (doubled coordinates) *)
SegD2(q, a, b) ==
  LET d == Sub2(b, a)  t == Dot2(Sub2(q, a), d)  L == Dot2(d, d)  c == XS(0)!Cross2(a, b, q) IN
  IF t <= 0 THEN << Dot2(Sub2(q, a), Sub2(q, a)), 1 >>
  ELSE IF t >= L THEN << Dot2(Sub2(q, b), Sub2(q, b)), 1 >>
  ELSE << c * c, L >>
FracLt(f, g) == f[1] * g[2] < g[1] * f[2]
(* squared distance of the centre of p to the boundary of contour c (the smallest fraction) *)
BoundaryD2(c, p) == LET F == { SegD2(XS(0)!Centre2(p), c[i], XS(0)!NextV(c, i)) : i \in 1..Len(c) } IN
                    CHOOSE f \in F : \A g \in F : ~FracLt(g, f)
SharpVariants ==
  << [jt |-> "Miter", ml10 |-> 20, seg |-> 0], [jt |-> "Miter", ml10 |-> 30, seg |-> 0],
     [jt |-> "Miter", ml10 |-> 50, seg |-> 0], [jt |-> "Miter", ml10 |-> 100, seg |-> 0],
     [jt |-> "Round", ml10 |-> 20, seg |-> 8], [jt |-> "Square", ml10 |-> 20, seg |-> 0],
     [jt |-> "Bevel", ml10 |-> 20, seg |-> 0],
     [jt |-> "Round", ml10 |-> 20, seg |-> 16], [jt |-> "Round", ml10 |-> 20, seg |-> 5] >>
(* bd = [p |-> BoundaryD2(c, p)]; farther than bound/10 * |d| : f[1]/f[2] > 4 d^2 bound^2 / 100 *)
SharpDemand(bd, A, d, v) ==
  LET bound == IF v.jt = "Round" THEN 10 ELSE v.ml10       \* in tenths of |delta|
      rn == 4 * d * d * bound * bound
      farOut == { p \in Pix(0) \ A : bd[p][1] * 100 > rn * bd[p][2] }
      farIn  == { p \in A : bd[p][1] * 100 > rn * bd[p][2] }
      \* Round, d > 0: centres closer than d*cos(pi/n) to the polygon are covered (the floor only shrinks the set)
      nearOut == IF v.jt = "Round" /\ d > 0
                 THEN { p \in Pix(0) \ A : bd[p][1] < (bd[p][2] * 4 * d * d * CosLB(v.seg) * CosLB(v.seg)) \div 10000 }
                 ELSE {}
  IN IF d = 0 THEN [d |-> 0, in |-> A, out |-> Pix(0) \ A]
     ELSE IF d > 0 THEN [d |-> d, in |-> A \cup nearOut, out |-> farOut]
     ELSE [d |-> d, in |-> farIn, out |-> Pix(0) \ A]
SharpTables(c) == [A |-> XS(0)!Fill("Positive", <<c>>), bd |-> [p \in Pix(0) |-> BoundaryD2(c, p)]]
SharpFacts(c, T) ==
  [kind |-> "sharp", c |-> c, A |-> T.A,
   vars |-> [i \in 1..Len(SharpVariants) |->
              [jt |-> SharpVariants[i].jt, ml10 |-> SharpVariants[i].ml10, seg |-> SharpVariants[i].seg,
               ds |-> [k \in 1..Len(Deltas) |-> SharpDemand(T.bd, T.A, Deltas[k], SharpVariants[i])]]]]

(* ======================== Hull =========================================== *)
Cr(a, b, c) == XS(0)!Cross2(a, b, c)
Dim2(P) == \E a \in P, b \in P, c \in P : Cr(a, b, c) # 0
(* a -> b is a directed edge of the hull: everything left of or on it, a and b the extremes on its line *)
HullEdges(P) == { e \in P \X P : /\ e[1] # e[2]
                                  /\ \A p \in P : /\ Cr(e[1], e[2], p) >= 0
                                                  /\ (Cr(e[1], e[2], p) = 0 => XS(0)!OnSeg(e[1], e[2], p)) }
HullVerts(P) == IF Dim2(P) THEN { e[1] : e \in HullEdges(P) } ELSE {}
LexLess(a, b) == a[1] < b[1] \/ (a[1] = b[1] /\ a[2] < b[2])
LexMin(S) == CHOOSE a \in S : \A b \in S : a = b \/ LexLess(a, b)
RECURSIVE Walk(_, _, _)
Walk(E, start, acc) ==
  LET nxt == (CHOOSE e \in E : e[1] = acc[Len(acc)])[2] IN
  IF nxt = start \/ Len(acc) > Cardinality(E) THEN acc ELSE Walk(E, start, Append(acc, nxt))
HullCycle(P) == IF ~Dim2(P) THEN <<>> ELSE LET s == LexMin(HullVerts(P)) IN Walk(HullEdges(P), s, <<s>>)
Area2(c) == XS(0)!SumSeq([i \in 1..Len(c) |-> c[i][1] * XS(0)!NextV(c, i)[2] - XS(0)!NextV(c, i)[1] * c[i][2]])
(* independent (Caratheodory): p is extreme iff it is in no segment / triangle of OTHER points *)
InTri(a, b, c, p) == LET s1 == Cr(a, b, p)  s2 == Cr(b, c, p)  s3 == Cr(c, a, p) IN
                     (s1 >= 0 /\ s2 >= 0 /\ s3 >= 0) \/ (s1 <= 0 /\ s2 <= 0 /\ s3 <= 0)
Extreme(p, P) == LET Q == P \ {p} IN
  /\ ~\E a \in Q, b \in Q : a # b /\ XS(0)!OnSeg(a, b, p)
  /\ ~\E a \in Q, b \in Q, c \in Q : Cr(a, b, c) # 0 /\ InTri(a, b, c, p)
HGrid == 0..3
HPoints == HGrid \X HGrid
HullCases(fam) ==
  CASE fam = "h3" -> { S \in SUBSET HPoints : Cardinality(S) = 3 }
    [] fam = "h4" -> { S \in SUBSET HPoints : Cardinality(S) = 4 }
    [] fam = "h5" -> { S \in SUBSET HPoints : Cardinality(S) = 5 }
    [] fam = "h6" -> { S \in SUBSET HPoints : Cardinality(S) = 6 }
    [] fam = "h12" -> { S \in SUBSET HPoints : Cardinality(S) <= 2 }
    [] fam = "hbig" -> { HPoints \ T : T \in { S \in SUBSET HPoints : Cardinality(S) <= 2 } }
    [] OTHER -> {}
HullFams == {"h3", "h4", "h5", "h6", "h12", "hbig"}
HullFacts(P) == [kind |-> "hull", pts |-> SetToSortSeq(P, LexLess), hull |-> HullCycle(P),
                 area2 |-> Area2(HullCycle(P)), P |-> P]
(* hull of rectangles given as CrossSections: the points are the corners *)
Corners(r) == { <<r[1], r[2]>>, <<r[3], r[2]>>, <<r[3], r[4]>>, <<r[1], r[4]>> }
HullRectFacts(g) == LET P == UNION { Corners(g.add[i]) : i \in 1..Len(g.add) } IN
  [kind |-> "hullx", rects |-> g.add, pts |-> SetToSortSeq(P, LexLess), hull |-> HullCycle(P),
   area2 |-> Area2(HullCycle(P)), P |-> P]

(* ======================== Decompose ====================================== *)
Adj(p, q) == Abs(p[1] - q[1]) + Abs(p[2] - q[2]) = 1
RECURSIVE Grow(_, _), Comps(_)
Grow(S, A) == LET N == S \cup { p \in A : \E s \in S : Adj(p, s) } IN IF N = S THEN S ELSE Grow(N, A)
Comps(A) == IF A = {} THEN {} ELSE LET c == Grow({LexMin(A)}, A) IN {c} \cup Comps(A \ c)
DecFacts(g) == LET A == RegionPix(g) IN
  [kind |-> "dec", g |-> g, A |-> A, comps |-> Comps(A)]

(* ======================== Simplify ======================================= *)
(* rings are sequences of integer points (real coordinates), tol = tn/td                     *)
CPrev(c, i) == c[IF i = 1 THEN Len(c) ELSE i - 1]
(* squared deviation of vertex i from the line through its neighbours, as a fraction; a      *)
(* vertex whose neighbours coincide has deviation 0 (as the code defines it)                 *)
Dev(c, i) == LET P == CPrev(c, i)  N == XS(0)!NextV(c, i)  pn == Sub2(N, P)  L == Dot2(pn, pn)
                 cr == Cr(P, N, c[i]) IN IF L = 0 THEN << 0, 1 >> ELSE << cr * cr, L >>
FracLess(f, g) == f[1] * g[2] < g[1] * f[2]
Closer(c, i, tn, td) == FracLess(Dev(c, i), << tn * tn, td * td >>)
NoCloseVertex(c, tn, td) == Len(c) > 3 => \A i \in 1..Len(c) : ~Closer(c, i, tn, td)
(* out is an in-order (cyclic) subsequence of in: some rotation of `in` has `out` as a subsequence *)
RECURSIVE SubseqFrom(_, _, _, _)
SubseqFrom(a, b, i, j) == \* b[j..] is a subsequence of a[i..]
  IF j > Len(b) THEN TRUE ELSE IF i > Len(a) THEN FALSE
  ELSE IF a[i] = b[j] THEN SubseqFrom(a, b, i + 1, j + 1) ELSE SubseqFrom(a, b, i + 1, j)
Rot(c, k) == [i \in 1..Len(c) |-> c[((i + k - 1) % Len(c)) + 1]]
CyclicSubseq(a, b) == Len(b) = 0 \/ \E k \in 0..(Len(a) - 1) : SubseqFrom(Rot(a, k), b, 1, 1)
SimplifyOK(in, out, tn, td) == CyclicSubseq(in, out) /\ NoCloseVertex(out, tn, td)
(* reference: drop the vertex closest to the line through its current neighbours (ties: lowest index) *)
DropAt(c, i) == [k \in 1..(Len(c) - 1) |-> IF k < i THEN c[k] ELSE c[k + 1]]
RECURSIVE RefSimplify(_, _, _)
RefSimplify(c, tn, td) ==
  IF Len(c) <= 3 THEN c
  ELSE LET best == CHOOSE i \in 1..Len(c) : \A j \in 1..Len(c) :
                     \/ FracLess(Dev(c, i), Dev(c, j))
                     \/ (~FracLess(Dev(c, j), Dev(c, i)) /\ i <= j)
       IN IF Closer(c, best, tn, td) THEN RefSimplify(DropAt(c, best), tn, td) ELSE c
(* ring families *)
Tols == { <<1, 2>>, <<1, 1>>, <<3, 2>>, <<2, 1>> }
(* (a) rectangle w x h whose sides are subdivided at the lattice points selected by mask *)
RectRing(w, h) ==
  [i \in 1..w |-> << i - 1, 0 >>] \o [i \in 1..h |-> << w, i - 1 >>] \o
  [i \in 1..w |-> << w + 1 - i, h >>] \o [i \in 1..h |-> << 0, h + 1 - i >>]
IsCorner(v, w, h) == v[1] \in {0, w} /\ v[2] \in {0, h}
SubdivRings(wmax) ==
  UNION { LET full == RectRing(wh[1], wh[2])
              mids == { i \in 1..Len(full) : ~IsCorner(full[i], wh[1], wh[2]) }
          IN { SelectSeq(full, LAMBDA v : IsCorner(v, wh[1], wh[2]) \/ \E i \in keep : full[i] = v) : keep \in SUBSET mids }
          : wh \in { x \in (1..wmax) \X (1..wmax) : x[1] >= x[2] } }
(* (b) a 6 x 4 box with near-collinear vertices on the bottom, the top and the left side *)
WobbleRings(R) ==
  { << <<0,0>>, <<2,a>>, <<4,b>>, <<6,0>>, <<6,4>>, <<3,4+c>>, <<0,4>>, <<e,2>> >> :
      a \in R, b \in R, c \in R, e \in R }
(* (c) a staircase: many vertices at deviation 1/sqrt2 from their neighbours' line *)
StairRing(n) == [k \in 1..(2 * n) |-> << k \div 2, (k - 1) \div 2 >>] \o << << n, n + 2 >>, << -2, n + 2 >>, << -2, 0 >> >>
SimpCases(fam) ==
  CASE fam = "s_sub"  -> SubdivRings(3) \X Tols
    [] fam = "s_subq" -> SubdivRings(2) \X Tols
    [] fam = "s_wob"  -> WobbleRings({-1, 0, 1}) \X Tols
    [] fam = "s_wob2" -> WobbleRings({-2, -1, 0, 1}) \X (Tols \cup {<<5, 2>>, <<3, 1>>})
    [] fam = "s_stair" -> { StairRing(n) : n \in 2..5 } \X (Tols \cup {<<3, 4>>})
    [] OTHER -> {}
SimpFams == {"s_sub", "s_subq", "s_wob", "s_wob2", "s_stair"}
SimpFacts(x) == LET ref == RefSimplify(x[1], x[2][1], x[2][2]) IN
  [kind |-> "simp", ring |-> x[1], tn |-> x[2][1], td |-> x[2][2], ref |-> ref, nrem |-> Len(x[1]) - Len(ref)]

(* ======================== corner angles ================================== *)
(* Simple counter-clockwise polygons in integer coordinates.  The angle at a vertex V between the edges towards *)
(* its neighbours P and N is the interior angle of the solid at a convex corner and the interior angle of the   *)
(* COMPLEMENT at a reflex corner (a notch): these are the corners that Offset rounds for delta > 0 / delta < 0.  *)
Needle(L, h)  == << <<0, -h>>, <<L, 0>>, <<0, h>> >>                       \* isosceles, tip 2 atan(h/L)
RNeedle(L, h) == << <<0, 0>>, <<L, 0>>, <<0, h>> >>                        \* right-angled, tip atan(h/L)
Spiked(L)  == << <<0,0>>, <<10,0>>, <<10,4>>, <<10 + L,5>>, <<10,6>>, <<10,10>>, <<0,10>> >>      \* spike on a body
Notched(L) == << <<0,0>>, <<L + 6,0>>, <<L + 6,4>>, <<6,5>>, <<L + 6,6>>, <<L + 6,10>>, <<0,10>> >>  \* V-notch cut into a body
Saw(L) == << <<0,-6>>, <<8,-6>>, <<8,0>>, <<7,L>>, <<6,0>>, <<5,L>>, <<4,0>>, <<3,L>>, <<2,0>>, <<1,L>>, <<0,0>> >>  \* teeth and notches of equal angle
Star(R, r) == << <<R,0>>, <<r,r>>, <<0,R>>, <<-r,r>>, <<-R,0>>, <<-r,-r>>, <<0,-R>>, <<r,-r>> >>
CornerPolys ==
  << [name |-> "needle2",    c |-> Needle(57, 1)],   [name |-> "needle6",   c |-> Needle(19, 1)],
     [name |-> "needle11",   c |-> Needle(10, 1)],   [name |-> "needle23",  c |-> Needle(10, 2)],
     [name |-> "needle28",   c |-> Needle(8, 2)],    [name |-> "needle29.9", c |-> Needle(15, 4)],
     [name |-> "needle30.5", c |-> Needle(11, 3)],   [name |-> "needle37",  c |-> Needle(9, 3)],
     [name |-> "needle53",   c |-> Needle(8, 4)],    [name |-> "needle67",  c |-> Needle(9, 6)],
     [name |-> "needle90",   c |-> Needle(6, 6)],    [name |-> "needle127", c |-> Needle(4, 8)],
     [name |-> "needle152",  c |-> Needle(3, 12)],
     [name |-> "rneedle1",   c |-> RNeedle(57, 1)],  [name |-> "rneedle5.7", c |-> RNeedle(20, 2)],
     [name |-> "rneedle17",  c |-> RNeedle(10, 3)],  [name |-> "rneedle26.6", c |-> RNeedle(10, 5)],
     [name |-> "rneedle29.7", c |-> RNeedle(14, 8)], [name |-> "rneedle30.3", c |-> RNeedle(12, 7)],
     [name |-> "spiked28",   c |-> Spiked(4)],       [name |-> "spiked11",  c |-> Spiked(10)],
     [name |-> "spiked5.7",  c |-> Spiked(20)],
     [name |-> "notched90",  c |-> Notched(1)],      [name |-> "notched53", c |-> Notched(2)],
     [name |-> "notched28",  c |-> Notched(4)],      [name |-> "notched11", c |-> Notched(10)],
     [name |-> "notched5.7", c |-> Notched(20)],
     [name |-> "saw53",      c |-> Saw(2)],          [name |-> "saw28",     c |-> Saw(4)],
     [name |-> "saw14",      c |-> Saw(8)],
     [name |-> "star23",     c |-> Star(12, 2)],     [name |-> "star37",    c |-> Star(12, 3)],
     [name |-> "octagon",    c |-> << <<4,0>>, <<8,0>>, <<12,4>>, <<12,8>>, <<8,12>>, <<4,12>>, <<0,8>>, <<0,4>> >>],
     [name |-> "hexagon",    c |-> << <<2,0>>, <<6,0>>, <<8,3>>, <<6,6>>, <<2,6>>, <<0,3>> >>],
     [name |-> "roof176",    c |-> << <<0,0>>, <<60,0>>, <<60,10>>, <<30,11>>, <<0,10>> >>],
     [name |-> "dent184",    c |-> << <<0,0>>, <<60,0>>, <<60,10>>, <<30,9>>, <<0,10>> >>],
     [name |-> "collinear",  c |-> << <<0,0>>, <<5,0>>, <<10,0>>, <<10,4>>, <<10,8>>, <<5,8>>, <<0,8>>, <<0,3>> >>],
     [name |-> "ell",        c |-> << <<0,0>>, <<10,0>>, <<10,4>>, <<4,4>>, <<4,10>>, <<0,10>> >>] >>

Len2(a) == Dot2(a, a)
(* class of corner i: exact; "lt30" <=> cos > sqrt(3)/2 <=> dot > 0 /\ 4 dot^2 > 3 |a|^2 |b|^2 *)
CornerClass(c, i) ==
  LET P == CPrev(c, i)  V == c[i]  N == XS(0)!NextV(c, i)
      a == Sub2(P, V)  b == Sub2(N, V)
      cr == Cr(P, V, N)
      dt == Dot2(a, b)
      ang == IF dt < 0 THEN "gt90" ELSE IF 4 * dt * dt > 3 * Len2(a) * Len2(b) THEN "lt30" ELSE "30to90"
  IN IF cr = 0 THEN (IF dt < 0 THEN "collinear" ELSE "reversal")
     ELSE (IF cr > 0 THEN "convex_" ELSE "reflex_") \o ang
CornerClasses(c) == [i \in 1..Len(c) |-> CornerClass(c, i)]
RequiredClasses == { "convex_lt30", "convex_30to90", "convex_gt90", "reflex_lt30", "reflex_30to90", "reflex_gt90", "collinear" }
(* closed segments a-b and c-d have a point in common *)
Sgn(x) == IF x > 0 THEN 1 ELSE IF x < 0 THEN -1 ELSE 0
SegsMeet(a, b, c, d) ==
  \/ (Sgn(Cr(a, b, c)) * Sgn(Cr(a, b, d)) < 0 /\ Sgn(Cr(c, d, a)) * Sgn(Cr(c, d, b)) < 0)
  \/ XS(0)!OnSeg(a, b, c) \/ XS(0)!OnSeg(a, b, d) \/ XS(0)!OnSeg(c, d, a) \/ XS(0)!OnSeg(c, d, b)
SimpleCCW(c) ==
  /\ Len(c) >= 3 /\ Area2(c) > 0
  /\ \A i \in 1..Len(c) : CornerClass(c, i) # "reversal" /\ c[i] # XS(0)!NextV(c, i)
  /\ \A i \in 1..Len(c), j \in 1..Len(c) :
        (i < j /\ j # i + 1 /\ ~(i = 1 /\ j = Len(c))) => ~SegsMeet(c[i], XS(0)!NextV(c, i), c[j], XS(0)!NextV(c, j))

(* similarity transforms: optional mirror x -> -x (vertex order reversed), then the rotation (a -b; b a) / s with *)
(* a^2 + b^2 = s^2 (a Pythagorean triple: the driver divides by s, distances and angles are those of the model)   *)
CornerRot == << <<1,0,1>>, <<0,1,1>>, <<3,4,5>>, <<-5,12,13>>, <<-15,-8,17>>, <<20,-21,29>> >>

(* lower bounds of 10000*cos(pi/n) *)
CosLB4(n) == CASE n = 3 -> 5000 [] n = 4 -> 7071 [] n = 5 -> 8090 [] n = 6 -> 8660 [] n = 8 -> 9238 [] n = 12 -> 9659
               [] n = 16 -> 9807 [] n = 32 -> 9951 [] n = 64 -> 9987 [] OTHER -> 0
CosDoubling == { <<3,6>>, <<6,12>>, <<4,8>>, <<8,16>>, <<16,32>>, <<32,64>> }
(* every entry c is floor(10000 cos(pi/n)): exact anchors for n = 3, 4, 5 (cos 36 = (1 + sqrt 5)/4) and           *)
(* cos(pi/n) = 2 cos(pi/2n)^2 - 1 for the rest; in particular no entry exceeds the true value                    *)
CosTableSound ==
  /\ CosLB4(3) = 5000
  /\ 2 * CosLB4(4) * CosLB4(4) <= 100000000 /\ 2 * (CosLB4(4) + 1) * (CosLB4(4) + 1) > 100000000
  /\ LET x == 4 * CosLB4(5) - 10000 IN x * x <= 500000000 /\ (x + 4) * (x + 4) > 500000000
  /\ \A p \in CosDoubling :
        /\ 2 * CosLB4(p[2]) * CosLB4(p[2]) - 100000000 < 10000 * (CosLB4(p[1]) + 1)
        /\ 2 * (CosLB4(p[2]) + 1) * (CosLB4(p[2]) + 1) - 100000000 > 10000 * CosLB4(p[1])
(* Quality::GetCircularSegments(r) with the library's defaults (minimum angle 10 degrees, minimum edge length 1): *)
(* min(36, 2 pi r) + 3 rounded down to a multiple of 4, at least 4 -- for the radii used here                    *)
DefaultSeg(dn, dd) == CASE Abs(dn) * 4 <= 2 * dd -> 4   \* r <= 1/2 : 2 pi r + 3 < 8
                        [] Abs(dn) = dd -> 8            \* r = 1   : 9.28
                        [] Abs(dn) = 2 * dd -> 12       \* r = 2   : 15.57
                        [] OTHER -> 0
SegOf(seg, dn, dd) == IF seg >= 3 THEN seg ELSE DefaultSeg(dn, dd)

(* does the offset leave something of the contour?  (a contour that must vanish entirely is the known double-    *)
(* inversion defect's territory, judged on the lattice families.)  q, contour in DOUBLED coordinates: q is       *)
(* strictly inside and farther than |dn/dd| from every edge:  num/den > 4 dn^2/dd^2                               *)
Dbl(c) == [i \in 1..Len(c) |-> << 2 * c[i][1], 2 * c[i][2] >>]
ClearAt(c2, q, dn, dd) ==
  /\ \A i \in 1..Len(c2) : LET f == SegD2(q, c2[i], XS(0)!NextV(c2, i)) IN f[1] * dd * dd > 4 * dn * dn * f[2]
  /\ XS(0)!WindCX(c2, q) = 1
BBox(c) == LET xs == { c[i][1] : i \in 1..Len(c) }  ys == { c[i][2] : i \in 1..Len(c) } IN << Min(xs), Min(ys), Max(xs), Max(ys) >>
Survives(c, dn, dd) == LET b == BBox(c)  c2 == Dbl(c) IN
  \E x \in (2 * b[1] + 1)..(2 * b[3] - 1), y \in (2 * b[2] + 1)..(2 * b[4] - 1) :
     ClearAt(c2, <<x, y>>, dn, dd)
CornerGrow   == << <<1,2>>, <<1,1>>, <<2,1>> >>      \* |delta| that enlarges the polygon's side
CornerShrink == << <<1,4>>, <<1,2>>, <<1,1>> >>      \* |delta| that shrinks the polygon: only those that it survives
CornerSegs == << 3, 4, 5, 6, 8, 12, 16, 32, 64, 0 >>
(* deltas of a case: hole = 0: the polygon is the solid; hole = 1: it is a hole in a box 4 wider than its bounding box *)
(* (computed by a step of its own, CornerTables, so that TLC holds the result as a value) *)
CornerDeltas(c, hole) ==
  LET sh == SelectSeq(CornerShrink, LAMBDA d : Survives(c, d[1], d[2]))
      sg == IF hole = 0 THEN 1 ELSE -1
  IN [k \in 1..Len(CornerGrow) |-> << sg * CornerGrow[k][1], CornerGrow[k][2] >>] \o
     [k \in 1..Len(sh) |-> << -sg * sh[k][1], sh[k][2] >>]
CornerTables(x) == [ds |-> CornerDeltas(CornerPolys[x[1]].c, x[4])]
(* all (join, delta, segments) of a case, then thinned: variant j is kept iff (j + polygon number + phase) % thin = 0 *)
CornerVariantsAll(ds) ==
  LET rnd == [k \in 1..(Len(ds) * Len(CornerSegs)) |->
                LET d == ds[((k - 1) \div Len(CornerSegs)) + 1]  sg == CornerSegs[((k - 1) % Len(CornerSegs)) + 1]
                IN [jt |-> "Round", ml10 |-> 20, seg |-> sg, n |-> SegOf(sg, d[1], d[2]), cos4 |-> CosLB4(SegOf(sg, d[1], d[2])),
                    dn |-> d[1], dd |-> d[2]]]
      oth == << "Miter", "Miter", "Square", "Bevel" >>
      oml == << 20, 50, 20, 20 >>
      gen == [k \in 1..(Len(ds) * 4) |->
                LET d == ds[((k - 1) \div 4) + 1]  j == ((k - 1) % 4) + 1
                IN [jt |-> oth[j], ml10 |-> oml[j], seg |-> 0, n |-> 0, cos4 |-> 10000, dn |-> d[1], dd |-> d[2]]]
  IN rnd \o gen
Thin(sq, cn, thin) == LET idx == { j \in 1..Len(sq) : (j + cn) % thin = 0 } IN
                      [k \in 1..Cardinality(idx) |-> sq[CHOOSE j \in idx : Cardinality({ i \in idx : i < j }) = k - 1]]
(* the cases: <<polygon, rotation, mirror, hole, thin, phase>> *)
CornerCases(fam) ==
  CASE fam = "corner_q" ->   \* per polygon: two placements as a solid, one as a hole; a third of the variants each
         UNION { { << pi, (pi % 6) + 1, pi % 2, 0, 3, 0 >>, << pi, ((pi + 2) % 6) + 1, (pi + 1) % 2, 0, 3, 1 >>,
                   << pi, ((pi + 3) % 6) + 1, (pi + 1) % 2, 1, 3, 2 >> } : pi \in 1..Len(CornerPolys) }
    [] fam = "corner_t" -> { << pi, ri, mi, ho, 2, (ri + mi) % 2 >> :
                               pi \in 1..Len(CornerPolys), ri \in 1..Len(CornerRot), mi \in {0, 1}, ho \in {0, 1} }
    [] OTHER -> {}
CornerFams == {"corner_q", "corner_t"}
CornerFacts(x, T) ==
  LET p == CornerPolys[x[1]]  c == p.c  b == BBox(c)
      all == CornerVariantsAll(T.ds)
  IN [kind |-> "corner", name |-> p.name, c |-> c, rot |-> CornerRot[x[2]], mirror |-> x[3], hole |-> x[4],
      box |-> << b[1] - 4, b[2] - 4, b[3] + 4, b[4] + 4 >>, cls |-> CornerClasses(c),
      ds |-> T.ds, nall |-> Len(all), vars |-> Thin(all, x[1] + x[6], x[5]),
      rays |-> 180, epts |-> 5, mppm |-> 1]
(* one more state per family: what the enumerated polygons cover *)
CornerCoverFacts(fam) ==
  [kind |-> "cornercov", fam |-> fam, polys |-> { x[1] : x \in CornerCases(fam) },
   classes |-> UNION { { CornerClass(CornerPolys[x[1]].c, i) : i \in 1..Len(CornerPolys[x[1]].c) } : x \in CornerCases(fam) }]

(* ======================== cases ========================================== *)
VARIABLES cs, done      \* done: 0 = raw case, 1 = tables computed, 2 = facts computed and printed
vars == << cs, done >>
Init ==
  /\ done = 0
  /\ \E fam \in Families :
       \/ /\ fam \in RegionFams
          /\ \E g \in Regions(fam), k \in {"off", "dec", "hullx"} : cs = [kind |-> k, in |-> g]
       \/ /\ fam \in {"nest", "nest2"} /\ \E g \in Regions(fam) : cs = [kind |-> "dec", in |-> g]
       \/ /\ fam = "sharp" /\ \E c \in SharpSet : cs = [kind |-> "sharp", in |-> c]
       \/ /\ fam \in HullFams /\ \E P \in HullCases(fam) : cs = [kind |-> "hull", in |-> P]
       \/ /\ fam \in SimpFams /\ \E x \in SimpCases(fam) : cs = [kind |-> "simp", in |-> x]
       \/ /\ fam \in CornerFams /\ \E x \in CornerCases(fam) : cs = [kind |-> "corner", in |-> x]
       \/ /\ fam \in CornerFams /\ cs = [kind |-> "cornercov", in |-> fam]
Tables == CASE cs.kind = "off" -> OffTables(cs.in) [] cs.kind = "sharp" -> SharpTables(cs.in)
            [] cs.kind = "corner" -> CornerTables(cs.in) [] OTHER -> << >>
Computed ==
  CASE cs.kind = "off"   -> OffFacts(cs.in, cs.T)
    [] cs.kind = "dec"   -> DecFacts(cs.in)
    [] cs.kind = "hullx" -> HullRectFacts(cs.in)
    [] cs.kind = "sharp" -> SharpFacts(cs.in, cs.T)
    [] cs.kind = "hull"  -> HullFacts(cs.in)
    [] cs.kind = "simp"  -> SimpFacts(cs.in)
    [] cs.kind = "corner" -> CornerFacts(cs.in, cs.T)
    [] cs.kind = "cornercov" -> CornerCoverFacts(cs.in)
(* what is printed: `maybe` instead of `out` (it is small) *)
DsOut(ds) == [k \in 1..Len(ds) |-> [d |-> ds[k].d, in |-> Enc(ds[k].in),
                                    maybe |-> Enc(Pix(0) \ (ds[k].in \cup ds[k].out))]]
VarsOut(vs) == [i \in 1..Len(vs) |-> [jt |-> vs[i].jt, ml10 |-> vs[i].ml10, seg |-> vs[i].seg, ds |-> DsOut(vs[i].ds)]]
Emitted(x) ==
  CASE x.kind = "off"   -> [kind |-> "off", K |-> K, add |-> x.g.add, sub |-> x.g.sub, A |-> Enc(x.A), vars |-> VarsOut(x.vars)]
    [] x.kind = "sharp" -> [kind |-> "sharp", K |-> K, c |-> x.c, A |-> Enc(x.A), vars |-> VarsOut(x.vars)]
    [] x.kind = "dec"   -> [kind |-> "dec", K |-> K, add |-> x.g.add, sub |-> x.g.sub, isl |-> Isl(x.g), sub2 |-> SubB(x.g), A |-> Enc(x.A),
                            comps |-> { Enc(c) : c \in x.comps }, n |-> Cardinality(x.comps)]
    [] x.kind = "hull"  -> [kind |-> "hull", pts |-> x.pts, hull |-> x.hull, area2 |-> x.area2]
    [] x.kind = "hullx" -> [kind |-> "hullx", rects |-> x.rects, pts |-> x.pts, hull |-> x.hull, area2 |-> x.area2]
    [] x.kind = "simp"  -> [kind |-> "simp", ring |-> x.ring, tn |-> x.tn, td |-> x.td, ref |-> x.ref, nrem |-> x.nrem]
    [] x.kind = "corner" -> x
    [] x.kind = "cornercov" -> [kind |-> "cornercov", fam |-> x.fam, npolys |-> Cardinality(x.polys), classes |-> x.classes]
Step1 == done = 0 /\ done' = 1 /\ cs' = [kind |-> cs.kind, in |-> cs.in, T |-> Tables]
Step2 == /\ done = 1 /\ done' = 2 /\ cs' = Computed
         /\ (Emit => PrintT(<<"BEH", ToJson(Emitted(cs'))>>))
Next == Step1 \/ Step2

(* ======================== what TLC checks ================================ *)
IsK(k) == done = 2 /\ cs.kind = k
RegionCase == done = 2 /\ cs.kind \in {"off", "dec"}
(* the pixel set of a region is what Xsec.tla's winding oracle says about its rectangles *)
RegionIsFill == RegionCase =>
  /\ cs.A = ((XS(0)!Fill("Positive", Contours(cs.g.add)) \ XS(0)!Fill("Positive", Contours(cs.g.sub)))
              \cup XS(0)!Fill("Positive", Contours(Isl(cs.g)))) \ XS(0)!Fill("Positive", Contours(SubB(cs.g)))
  /\ cs.kind = "off" => \A s \in cs.A : << s[1] - 3, s[2] - 3 >> \in Pix(0) /\ << s[1] + 3, s[2] + 3 >> \in Pix(0)  \* room for every offset
(* no pixel is demanded both inside and outside; demands are monotone in delta *)
DemandsConsistent == (IsK("off") \/ IsK("sharp")) =>
  \A i \in 1..Len(cs.vars) : LET ds == cs.vars[i].ds IN
     /\ \A k \in 1..Len(ds) : ds[k].in \cap ds[k].out = {}
     /\ \A k \in 1..Len(ds), m \in 1..Len(ds) : k <= m => ds[k].in \cap ds[m].out = {}
     /\ \A k \in 1..Len(ds) : /\ (ds[k].d >= 0 => cs.A \subseteq ds[k].in)
                              /\ (ds[k].d <= 0 => ds[k].in \subseteq cs.A)
(* Miter is exact on the lattice and satisfies every generic clause; Round lies between the  *)
(* edge dilation and the Chebyshev dilation; erosion is dilation of the complement           *)
MiterIsSandwiched == IsK("off") =>
  LET mit == cs.vars[1].ds IN
  /\ \A k \in 1..Len(mit) : mit[k].in \cup mit[k].out = Pix(0)
  /\ \A i \in 2..Len(cs.vars), k \in 1..Len(mit) :
        /\ cs.vars[i].ds[k].d = mit[k].d
        /\ (cs.vars[i].jt # "Miter" /\ mit[k].d > 0 =>
              /\ cs.vars[i].ds[k].in \subseteq mit[k].in          \* lower bounds inside the miter result
              /\ (cs.vars[i].jt \in {"Square", "Bevel"} => mit[k].in \cap cs.vars[i].ds[k].out = {})
              /\ EdgeDil(cs.A, mit[k].d) \subseteq cs.vars[i].ds[k].in)
        /\ (cs.vars[i].jt # "Miter" /\ mit[k].d < 0 =>
              /\ mit[k].in \subseteq Pix(0) \ cs.vars[i].ds[k].out)
        /\ (cs.vars[i].jt = "Miter" => cs.vars[i].ds[k].in = mit[k].in)   \* the limit does not act on 90 degrees
MorphologyLaws == IsK("off") =>
  /\ Cheb(Cheb(cs.A, 1), 1) = Cheb(cs.A, 2)
  /\ \A e \in 1..2 : ErodeCheb(cs.A, e) = Pix(0) \ Cheb(Pix(0) \ cs.A, e)
  /\ \A e \in 1..2 : cs.vars[1].ds[3 - e].in = ErodeCheb(cs.A, e)
  /\ \A e \in 1..2 : cs.vars[1].ds[3 + e].in = Cheb(cs.A, e)
  \* Euclidean balls sit between the cross and the square
  /\ \A p \in Pix(0) \ cs.A : (D2(p, cs.A) <= 4 => p \in Cheb(cs.A, 1)) /\ (p \in EdgeDil(cs.A, 1) => D2(p, cs.A) <= 1)
(* sharp polygons: no pixel centre on an edge; convex and counter-clockwise *)
SharpSound == IsK("sharp") =>
  /\ \A p \in Pix(0) : XS(0)!CentreOffContour(cs.c, p)
  /\ \A i \in 1..Len(cs.c) : Cr(cs.c[i], XS(0)!NextV(cs.c, i), XS(0)!NextV(cs.c, i + 1)) > 0
  /\ cs.A # {}
(* Hull: the cycle is the vertex set, strictly convex, counter-clockwise, contains every point, and *)
(* agrees with the independent definition of extreme points                                         *)
HullCase == done = 2 /\ cs.kind \in {"hull", "hullx"}
HullSound == HullCase =>
  LET h == cs.hull  P == cs.P IN
  IF ~Dim2(P) THEN h = <<>> /\ cs.area2 = 0
  ELSE /\ ToSet(h) = HullVerts(P) /\ Len(h) = Cardinality(HullVerts(P)) /\ Len(h) >= 3
       /\ ToSet(h) \subseteq P
       /\ \A i \in 1..Len(h) : /\ Cr(h[i], XS(0)!NextV(h, i), XS(0)!NextV(h, i + 1)) > 0
                               /\ \A p \in P : Cr(h[i], XS(0)!NextV(h, i), p) >= 0
       /\ cs.area2 > 0
ExtremeAgree == HullCase => (Dim2(cs.P) => HullVerts(cs.P) = { p \in cs.P : Extreme(p, cs.P) })
(* Decompose: the components partition the region, are edge-connected and maximal *)
DecSound == IsK("dec") =>
  /\ UNION cs.comps = cs.A
  /\ \A c \in cs.comps, e \in cs.comps : c = e \/ (c \cap e = {} /\ ~\E p \in c, q \in e : Adj(p, q))
  /\ \A c \in cs.comps : c # {} /\ Grow({LexMin(c)}, c) = c
  /\ FoldSet(LAMBDA c, acc : acc + Cardinality(c), 0, cs.comps) = Cardinality(cs.A)
(* Simplify: the reference simplifier satisfies the statement's relation; the relation rejects *)
(* results that keep a close vertex, reorder or invent vertices                                *)
SimpSound == IsK("simp") =>
  /\ SimplifyOK(cs.ring, cs.ref, cs.tn, cs.td)
  /\ (cs.nrem > 0 => ~NoCloseVertex(cs.ring, cs.tn, cs.td))
  /\ (Len(cs.ref) > 3 => ~SimplifyOK(cs.ring, Reverse(cs.ref), cs.tn, cs.td))
  /\ ~CyclicSubseq(cs.ring, Append(cs.ref, <<99, 99>>))
(* corner family: simple counter-clockwise polygons, no degenerate corner, the rotations are similarities, every   *)
(* delta that shrinks the polygon leaves something of it, every Round variant has a segment count and a cosine      *)
(* bound; the family as a whole covers every angle class                                                            *)
CornerSound == IsK("corner") =>
  /\ SimpleCCW(cs.c)
  /\ cs.rot[1] * cs.rot[1] + cs.rot[2] * cs.rot[2] = cs.rot[3] * cs.rot[3] /\ cs.rot[3] > 0
  /\ \A i \in 1..Len(cs.cls) : cs.cls[i] \in RequiredClasses
  /\ Len(cs.vars) > 0 /\ 3 * Len(cs.vars) + 3 > cs.nall
  /\ \E k \in 1..Len(cs.vars) : cs.vars[k].dn > 0
  /\ \E k \in 1..Len(cs.vars) : cs.vars[k].dn < 0
  /\ \A k \in 1..Len(cs.vars) : LET v == cs.vars[k] IN
        /\ v.dd > 0 /\ v.dn # 0
        /\ (v.jt = "Round" => v.n >= 3 /\ v.cos4 = CosLB4(v.n) /\ v.cos4 >= 5000 /\ v.cos4 < 10000)
        /\ \E j \in 1..Len(cs.ds) : cs.ds[j] = << v.dn, v.dd >>
  /\ \A j \in 1..Len(cs.ds) : (IF cs.hole = 0 THEN cs.ds[j][1] < 0 ELSE cs.ds[j][1] > 0) => Survives(cs.c, cs.ds[j][1], cs.ds[j][2])
  /\ CosTableSound
CornerCoverage == IsK("cornercov") =>
  /\ RequiredClasses \subseteq cs.classes
  /\ cs.polys = 1..Len(CornerPolys)
=============================================================================
