--------------------------- MODULE Halfedge_Trace ---------------------------
(* Meshes recorded from the real code (every live handle of TLC-generated      *)
(* programs: drive/prog.cpp --trace) judged by Halfedge.tla!Closed2Manifold    *)
(* and CountsAgree.                                                            *)
EXTENDS Halfedge, Json, IOUtils
Meshes == ndJsonDeserialize(IOEnv.TRACE)
VARIABLE l
TInit == l = 1 /\ x = 0
TNext == l <= Len(Meshes) /\ l' = l + 1 /\ UNCHANGED x
MeshOK == l <= Len(Meshes) =>
            LET m == Meshes[l] IN (m.status = "NoError" => (Closed2Manifold(m) /\ CountsAgree(m) /\ m.finite))
                                  /\ (m.status # "NoError" => Len(m.tris) = 0)
=============================================================================
