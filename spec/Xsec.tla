-------------------------------- MODULE Xsec --------------------------------
(***************************************************************************)
(* CrossSections on the pixel lattice: the 2-D analogue of Lattice.tla +    *)
(* Program.tla (property C11; C12 builds on it).                            *)
(*                                                                          *)
(* DOMAIN.  A pixel <<i,j>> is the unit square [i,i+1] x [j,j+1]; the        *)
(* window is -K..K-1 in both axes (symmetric, so that the dihedral group D4 *)
(* and small integer translations act on it).  A CrossSection VALUE is a    *)
(* finite set of pixels (the pixels whose centre it contains).              *)
(*                                                                          *)
(* CONTOURS are sequences of vertices in DOUBLED integer coordinates        *)
(* <<X,Y>> (real position X/2, Y/2), implicitly closed; they may be         *)
(* clockwise, self-intersecting, self-overlapping, may repeat vertices and  *)
(* carry zero-width spikes.  "Lattice" contours have even coordinates.      *)
(* The centre of pixel <<i,j>> is <<2i+1,2j+1>> in doubled coordinates.     *)
(*                                                                          *)
(* MEANING (what C11 says, on this domain):                                 *)
(*   Wind(cs, p)   winding number of the centre of pixel p w.r.t. the       *)
(*                 contour sequence cs, by exact integer crossing counting; *)
(*   Fill(r, cs)   the pixels whose winding is positive ("Positive", the    *)
(*                 rule of the CrossSection(Polygons) constructor) or odd   *)
(*                 ("EvenOdd", CrossSection::EvenOdd);                      *)
(*   BoolSem / BatchSem   Boolean / BatchBoolean are the set formulas       *)
(*                 (same formulas as Lattice.tla);                          *)
(*   ApPixSet(g,S) Rotate(90k) / Mirror / Scale(-1,1) / Transform(mat2x3) / *)
(*                 Translate(integers) permute pixels;                      *)
(*   Area          = Cardinality (for lattice-rectilinear values).          *)
(* The property's "farther than epsilon from the input edges" is the        *)
(* assumption CentresOffEdges: no pixel centre lies on an input edge; TLC   *)
(* checks it for every contour the generator uses (centres are then >= 0.35 *)
(* away from every input edge).  By the same clause every demanded pixel    *)
(* set is unchanged when each input vertex is displaced by less than the    *)
(* operation's epsilon: the driver's --jitter mode replays the programs     *)
(* with vertices displaced by < 1e-13 against the same demands.             *)
(*                                                                          *)
(* The module is a generator + model: TLC enumerates (BFS) or samples       *)
(* (-simulate) straight-line programs                                       *)
(*     Leaf(contours, rule) | Bool(op,x,y) | Batch(op,xs) | Xf(g,x)         *)
(* over earlier steps, evaluates each step's pixel set, checks the          *)
(* invariants at the end of this file on every state, and prints each       *)
(* complete program with the demanded pixel sets as JSON.  drive/xsec.cpp   *)
(* executes them on the real CrossSection API.                              *)
(*                                                                          *)
(* EXTENDING (C12 ...).  A new unary operation on values is one more name   *)
(* in Gen2 (if it is a lattice-group element or value-preserving) bound in  *)
(* drive/xsec.h!ApplyGen, or a new step kind: an action that calls          *)
(* Push(record, pixel set, lattice-rectilinear?) plus a line in Can/Next    *)
(* and a case in drive/xsec.cpp.  Every step record is printed with         *)
(* pix / n / lat (Demand) and is judged by the driver's final sweep.        *)
(* Configurations (Xsec_*.cfg) choose the leaf family, the enabled step     *)
(* kinds, the bounds, and exhaustive BFS (Sample = FALSE) or -simulate      *)
(* sampling (Sample = TRUE).  K must be >= KC = 4 (the catalogue's square). *)
(***************************************************************************)
EXTENDS Integers, Sequences, FiniteSets, TLC, Json, SequencesExt

CONSTANTS
  K,         \* half-width of the pixel window
  Grid,      \* 3 or 4: the rectangle catalogue lives on a Grid x Grid lattice
  LeafFam,   \* name of the family of leaves the Leaf action may choose (FamSingles, FamPairs)
  GenNames,  \* transform generators usable by Xf (subset of AllGens2)
  OpNames,   \* subset of Ops2
  MaxLeaf,   \* programs start with exactly MaxLeaf Leaf steps
  Depth,     \* programs are printed when they have this many steps
  Acts,      \* enabled step kinds, subset of {"Leaf","Bool","Batch","Xf"}
  ObsModes,  \* subset of {0,1}: 1 = the driver observes the new object at once, 0 = only at the end
  Sample,    \* TRUE (only with -simulate): every step draws ONE random instance instead of offering all of them
  Emit       \* TRUE: print programs (generation)

(* ======================== pixels ========================================= *)
PCoord == (-K)..(K-1)
Pixels == PCoord \X PCoord
PW == 2 * K
PixEnc(p) == (p[1] + K) + PW * (p[2] + K)        \* shared with drive/xsec.h
PixEncSet(S) == { PixEnc(p) : p \in S }
Centre2(p) == << 2 * p[1] + 1, 2 * p[2] + 1 >>   \* doubled coordinates
InWin(S) == S \subseteq Pixels

(* ======================== exact winding number =========================== *)
Cross2(a, b, c) == (b[1] - a[1]) * (c[2] - a[2]) - (b[2] - a[2]) * (c[1] - a[1])
NextV(c, i) == c[(i % Len(c)) + 1]
Min2(x, y) == IF x < y THEN x ELSE y
Max2(x, y) == IF x < y THEN y ELSE x
(* q on the closed segment a-b *)
OnSeg(a, b, q) == /\ Cross2(a, b, q) = 0
                  /\ Min2(a[1], b[1]) <= q[1] /\ q[1] <= Max2(a[1], b[1])
                  /\ Min2(a[2], b[2]) <= q[2] /\ q[2] <= Max2(a[2], b[2])
(* contribution of the directed edge a->b to the winding number of q: the   *)
(* ray from q towards +x (half-open rule in y) ...                          *)
EdgeWX(a, b, q) ==
  IF a[2] <= q[2] /\ q[2] < b[2] THEN (IF Cross2(a, b, q) > 0 THEN 1 ELSE 0)
  ELSE IF b[2] <= q[2] /\ q[2] < a[2] THEN (IF Cross2(a, b, q) < 0 THEN -1 ELSE 0)
  ELSE 0
(* ... and, independently, the ray towards +y (half-open rule in x).  The   *)
(* two counts agree for every q off the contour (invariant RayIndependent). *)
EdgeWY(a, b, q) ==
  IF b[1] <= q[1] /\ q[1] < a[1] THEN (IF Cross2(a, b, q) > 0 THEN 1 ELSE 0)
  ELSE IF a[1] <= q[1] /\ q[1] < b[1] THEN (IF Cross2(a, b, q) < 0 THEN -1 ELSE 0)
  ELSE 0
RECURSIVE WAccX(_, _, _, _), WAccY(_, _, _, _), SumAcc(_, _, _)
WAccX(c, q, i, acc) == IF i > Len(c) THEN acc ELSE WAccX(c, q, i + 1, acc + EdgeWX(c[i], NextV(c, i), q))
WAccY(c, q, i, acc) == IF i > Len(c) THEN acc ELSE WAccY(c, q, i + 1, acc + EdgeWY(c[i], NextV(c, i), q))
SumAcc(f, i, acc) == IF i > Len(f) THEN acc ELSE SumAcc(f, i + 1, acc + f[i])
WindCX(c, q) == WAccX(c, q, 1, 0)       \* winding number of q w.r.t. the closed contour c, +x ray
WindCY(c, q) == WAccY(c, q, 1, 0)       \* the same by the +y ray
SumSeq(f) == SumAcc(f, 1, 0)
(* winding number of the centre of pixel p w.r.t. the contour sequence cs   *)
Wind(cs, p) == SumSeq([k \in 1..Len(cs) |-> WindCX(cs[k], Centre2(p))])
CentreOffContour(c, p) == \A i \in 1..Len(c) : ~OnSeg(c[i], NextV(c, i), Centre2(p))

Rules == {"Positive", "EvenOdd"}
Inside(rule, w) == IF rule = "Positive" THEN w > 0 ELSE w % 2 = 1
Fill(rule, cs) == { p \in Pixels : Inside(rule, Wind(cs, p)) }

(* ======================== Boolean algebra (as Lattice.tla) ============== *)
Ops2 == {"Add", "Subtract", "Intersect"}
BoolSem(op, A, B) ==
  CASE op = "Add"       -> A \cup B
    [] op = "Subtract"  -> A \ B
    [] op = "Intersect" -> A \cap B
(* BatchBoolean (cross_section.cpp): empty batch = empty; Subtract = head    *)
(* minus all of the tail                                                     *)
BatchSem(op, ds) ==
  IF Len(ds) = 0 THEN {}
  ELSE CASE op = "Add"       -> UNION { ds[i] : i \in 1..Len(ds) }
         [] op = "Intersect" -> { c \in ds[1] : \A i \in 1..Len(ds) : c \in ds[i] }
         [] op = "Subtract"  -> ds[1] \ UNION { ds[i] : i \in 2..Len(ds) }
Symmetric(op) == op \in {"Add", "Intersect"}     \* operand order must not matter

(* ======================== the lattice group in 2-D ====================== *)
(* g = [ax, sg, tr] maps the real point p to p'[i] = sg[i]*p[ax[i]] + tr[i] *)
Id2 == [ax |-> <<1,2>>, sg |-> <<1,1>>, tr |-> <<0,0>>]
ApVert(g, v) == << g.sg[1] * v[g.ax[1]] + 2 * g.tr[1], g.sg[2] * v[g.ax[2]] + 2 * g.tr[2] >>  \* doubled coords
ApContour(g, c) == [i \in 1..Len(c) |-> ApVert(g, c[i])]      \* same vertex order
ApPix1(g, p, i) == IF g.sg[i] = 1 THEN p[g.ax[i]] + g.tr[i] ELSE -p[g.ax[i]] - 1 + g.tr[i]
ApPix(g, p) == << ApPix1(g, p, 1), ApPix1(g, p, 2) >>
ApPixSet(g, S) == { ApPix(g, p) : p \in S }
Det2(g) == (IF g.ax = <<1,2>> THEN 1 ELSE -1) * g.sg[1] * g.sg[2]
(* generators and the API call the driver binds them to                      *)
Gen2(name) ==
  CASE name = "R90"   -> [ax |-> <<2,1>>, sg |-> <<-1,1>>,  tr |-> <<0,0>>]   \* Rotate(90): (x,y)->(-y,x)
    [] name = "R180"  -> [ax |-> <<1,2>>, sg |-> <<-1,-1>>, tr |-> <<0,0>>]   \* Rotate(180)
    [] name = "R270"  -> [ax |-> <<2,1>>, sg |-> <<1,-1>>,  tr |-> <<0,0>>]   \* Rotate(-90): (x,y)->(y,-x)
    [] name = "MX"    -> [ax |-> <<1,2>>, sg |-> <<-1,1>>,  tr |-> <<0,0>>]   \* Mirror({1,0})
    [] name = "MY"    -> [ax |-> <<1,2>>, sg |-> <<1,-1>>,  tr |-> <<0,0>>]   \* Mirror({0,1})
    [] name = "SXN"   -> [ax |-> <<1,2>>, sg |-> <<-1,1>>,  tr |-> <<0,0>>]   \* Scale({-1,1})
    [] name = "SYN"   -> [ax |-> <<1,2>>, sg |-> <<1,-1>>,  tr |-> <<0,0>>]   \* Scale({1,-1})
    [] name = "SWAP"  -> [ax |-> <<2,1>>, sg |-> <<1,1>>,   tr |-> <<0,0>>]   \* Transform(mat2x3 (x,y)->(y,x))
    [] name = "ASWAP" -> [ax |-> <<2,1>>, sg |-> <<-1,-1>>, tr |-> <<0,0>>]   \* Transform(mat2x3 (x,y)->(-y,-x))
    [] name = "TXP"   -> [ax |-> <<1,2>>, sg |-> <<1,1>>,   tr |-> <<1,0>>]   \* Translate({1,0})
    [] name = "TXM"   -> [ax |-> <<1,2>>, sg |-> <<1,1>>,   tr |-> <<-1,0>>]
    [] name = "TYP"   -> [ax |-> <<1,2>>, sg |-> <<1,1>>,   tr |-> <<0,1>>]
    [] name = "TYM"   -> [ax |-> <<1,2>>, sg |-> <<1,1>>,   tr |-> <<0,-1>>]
    [] name = "TPM"   -> [ax |-> <<1,2>>, sg |-> <<1,1>>,   tr |-> <<1,-1>>]  \* Transform(mat2x3 identity + (1,-1))
    \* derivations that must not change the value: a CrossSection's own contours have winding 0/1, so
    \* reading them again under either rule, or warping by the identity, gives the same pixel set
    [] name = "REPOS" -> Id2                                                   \* CrossSection(x.ToPolygons())
    [] name = "REEO"  -> Id2                                                   \* CrossSection::EvenOdd(x.ToPolygons())
    [] name = "WARPID" -> Id2                                                  \* x.Warp(identity)
    [] name = "WARPX" -> [ax |-> <<1,2>>, sg |-> <<1,1>>,   tr |-> <<1,0>>]   \* x.Warp(v.x += 1)
AllGens2 == {"R90","R180","R270","MX","MY","SXN","SYN","SWAP","ASWAP","TXP","TXM","TYP","TYM","TPM",
             "REPOS","REEO","WARPID","WARPX"}
GensCore == {"R90", "MX", "TXP", "TYM"}      \* generate the whole group
GensSome == {"R90", "R180", "MY", "SXN", "SWAP", "TXP", "TYM", "REEO"}

(* ======================== the catalogue of contours ===================== *)
Lat(c) == [i \in 1..Len(c) |-> << 2 * c[i][1], 2 * c[i][2] >>]   \* real lattice coordinates -> doubled
Rev(c) == [i \in 1..Len(c) |-> c[Len(c) + 1 - i]]
GridC == IF Grid = 4 THEN (-2)..2 ELSE (-1)..2
RectCCW(x0, y0, x1, y1) == Lat(<< <<x0,y0>>, <<x1,y0>>, <<x1,y1>>, <<x0,y1>> >>)
Rects == { RectCCW(r[1], r[2], r[3], r[4]) :
             r \in { q \in GridC \X GridC \X GridC \X GridC : q[1] < q[3] /\ q[2] < q[4] } }
(* lattice-rectilinear specials *)
RBow   == Lat(<< <<0,0>>, <<2,0>>, <<2,2>>, <<1,2>>, <<1,-1>>, <<0,-1>> >>)    \* bow-tie: lobes of winding +1 and -1
RLoop2 == Lat(<< <<-2,-2>>, <<2,-2>>, <<2,2>>, <<-1,2>>, <<-1,-1>>, <<1,-1>>, <<1,1>>, <<-2,1>> >>)
                                                                               \* self-overlapping loop: winding 2 inside
RSpike == Lat(<< <<-1,-1>>, <<1,-1>>, <<1,1>>, <<0,1>>, <<0,2>>, <<0,1>>, <<-1,1>> >>)  \* zero-width antenna
RPinch == Lat(<< <<-1,-1>>, <<0,-1>>, <<0,0>>, <<1,0>>, <<1,1>>, <<0,1>>, <<0,0>>, <<-1,0>> >>)  \* passes (0,0) twice
RCol   == Lat(<< <<-2,0>>, <<0,0>>, <<0,0>>, <<1,0>>, <<1,1>>, <<-1,1>>, <<-2,1>> >>)   \* duplicate + collinear vertices
RComb  == Lat(<< <<-2,-2>>, <<2,-2>>, <<2,1>>, <<1,1>>, <<1,-1>>, <<0,-1>>, <<0,1>>, <<-1,1>>, <<-1,-1>>, <<-2,-1>> >>)  \* comb
(* half-lattice contours with 45-degree edges: diagonals x-y = odd/2, x+y = odd/2 never meet a pixel centre *)
DBow   == << <<-2,-3>>, <<2,1>>, <<2,-3>>, <<-2,1>> >>          \* true X crossing at (0,-1/2)
Diam   == << <<3,0>>, <<0,3>>, <<-3,0>>, <<0,-3>> >>
DiamL  == << <<5,0>>, <<0,5>>, <<-5,0>>, <<0,-5>> >>
Tri    == << <<-3,0>>, <<3,0>>, <<0,3>> >>
(* three edges concurrent in the non-dyadic point (2/3,1/3) (lines x-2y=0, x+4y=2, 2x-y=1), none through a  *)
(* pixel centre: the crossing point is not representable, so the sweep meets a near-concurrent event        *)
Star3  == Lat(<< <<-2,-1>>, <<2,1>>, <<2,0>>, <<-2,1>>, <<1,1>>, <<0,-1>> >>)
TriA   == Lat(<< <<-2,-1>>, <<2,-1>>, <<2,1>> >>)      \* hypotenuse on x-2y=0
TriB   == Lat(<< <<0,-1>>, <<1,1>>, <<0,1>> >>)        \* edge on 2x-y=1
TriC   == Lat(<< <<2,0>>, <<-2,1>>, <<-2,0>> >>)       \* edge on x+4y=2
Specials == {RBow, RLoop2, RSpike, RPinch, RCol, RComb, DBow, Diam, DiamL, Tri, Star3, TriA, TriB, TriC}
CatSet == Rects \cup { Rev(c) : c \in Rects } \cup Specials \cup { Rev(c) : c \in Specials }
Cat == SetToSeq(CatSet)                  \* the catalogue, indexed
NCat == Len(Cat)

IsLatVert(v) == v[1] % 2 = 0 /\ v[2] % 2 = 0
(* lattice-rectilinear: even coordinates, every edge axis-parallel: the filled region is a union of whole pixels *)
IsLatContour(c) == \A i \in 1..Len(c) : /\ IsLatVert(c[i])
                                         /\ (c[i][1] = NextV(c, i)[1] \/ c[i][2] = NextV(c, i)[2])

(* winding numbers of the catalogue, computed once *)
(* (TLCEval: materialise the tables once instead of re-evaluating the lazy function bodies) *)
(* (the catalogue lives inside the square -KC..KC; its tables do not depend on the window K >= KC) *)
KC == 4
CatPixels == ((-KC)..(KC-1)) \X ((-KC)..(KC-1))
ASSUME K >= KC
CW == TLCEval([k \in 1..NCat |-> TLCEval([p \in CatPixels |-> WindCX(Cat[k], Centre2(p))])])
CLat == TLCEval([k \in 1..NCat |-> IsLatContour(Cat[k])])

(* ---- leaves: a sequence of catalogue indices read under a fill rule ----- *)
(* (pixels outside the support of every contour have winding 0 and are never filled) *)
Supp == TLCEval([k \in 1..NCat |-> { p \in CatPixels : CW[k][p] # 0 }])
LeafWind(ids, p) == IF Len(ids) = 1 THEN CW[ids[1]][p]
                    ELSE IF Len(ids) = 2 THEN CW[ids[1]][p] + CW[ids[2]][p]
                    ELSE SumSeq([k \in 1..Len(ids) |-> CW[ids[k]][p]])
LeafDen(l) == { p \in UNION { Supp[l.ids[k]] : k \in 1..Len(l.ids) } : Inside(l.rule, LeafWind(l.ids, p)) }
LeafLat(l) == \A k \in 1..Len(l.ids) : CLat[l.ids[k]]
LeafContours(l) == [k \in 1..Len(l.ids) |-> Cat[l.ids[k]]]
IdxOf(S) == { i \in 1..NCat : Cat[i] \in S }
(* a small varied set for exhaustive program enumeration *)
SmallSet == { RectCCW(-1,-1,1,1), Rev(RectCCW(0,0,2,2)), RectCCW(0,-1,2,1), RectCCW(-1,0,0,2),
              RBow, Rev(RLoop2), RPinch, DBow, Diam, Star3, TriB }
TinySet == { RectCCW(-1,-1,1,1), Rev(RectCCW(0,0,2,2)), RBow, Diam }
(* A leaf family = which single contours and which unordered pairs of contours (with       *)
(* repetition) may be read under which rules.  Families are given by index sets so that    *)
(* TLC enumerates them with nested quantifiers instead of building sets of records.        *)
FamSingles(fam) == CASE fam = "small" -> IdxOf(SmallSet) [] fam \in {"tiny", "tinyq", "micro"} -> IdxOf(TinySet)
                     [] fam \in {"single", "fill", "sim"} -> 1..NCat [] OTHER -> {}
FamPairs(fam) ==   CASE fam = "fill" -> 1..NCat                  \* every contour set of <= 2 contours
                     [] fam = "sim"  -> IdxOf(SmallSet \cup Specials)
                     [] fam = "tiny" -> IdxOf({RectCCW(-1,-1,1,1), Rev(RectCCW(0,0,2,2))})
                     [] OTHER -> {}
FamRules(fam, npair) == IF fam = "tiny" THEN (IF npair = 1 THEN {"Positive"} ELSE {"EvenOdd"})
                        ELSE IF fam \in {"tinyq", "micro"} THEN {"EvenOdd"} ELSE Rules
(* which of the two contours of a pair comes first alternates *)
PairIds(i, j) == IF (i + j) % 2 = 0 THEN <<i, j>> ELSE <<j, i>>

(* ---- staircase ribbons (large inputs: > 1024 edges reach the BVH broad phase) ---------- *)
(* Ribbon(n, w): n columns, column i = pixels x0+i, y0+i .. y0+i+w-1.  Its pixel set is     *)
(* given by formula (TLC cannot count crossings of 10^5 pixels x 10^3 edges); invariant     *)
(* StairSound checks the formula against Fill on every small instance (family "stairMC").   *)
StairX0(s) == -(s.n \div 2)
StairY0(s) == -((s.n + s.w) \div 2)
StairPix(s) == { << StairX0(s) + i, StairY0(s) + i + d >> : i \in 0..(s.n - 1), d \in 0..(s.w - 1) }
StairContour(s) ==
  LET n == s.n  x0 == StairX0(s)  y0 == StairY0(s)
      V(k) == IF k <= 2 * n
              THEN LET i == (k - 1) \div 2 IN
                   IF k % 2 = 1 THEN << x0 + i, y0 + i >> ELSE << x0 + i + 1, y0 + i >>        \* lower steps, rightwards
              ELSE LET m == k - 2 * n - 1  i == n - 1 - (m \div 2) IN
                   IF m % 2 = 0 THEN << x0 + i + 1, y0 + i + s.w >> ELSE << x0 + i, y0 + i + s.w >>  \* upper steps, leftwards
  IN Lat([k \in 1..(4 * n) |-> V(k)])
StairParams(fam) ==
  CASE fam = "stairMC" -> { [n |-> n, w |-> w] : n \in 1..4, w \in 1..2 }
    [] fam = "stair"   -> { [n |-> 260, w |-> 2], [n |-> 300, w |-> 1] }
    [] fam = "stairL"  -> { [n |-> 300, w |-> 2], [n |-> 520, w |-> 1], [n |-> 400, w |-> 3] }
    [] OTHER -> {}
StairName(s) == "ribbon staircase n=" \o ToString(s.n) \o " w=" \o ToString(s.w)

(* ======================== programs ====================================== *)
VARIABLES
  prog,   \* Seq of step records, each carrying what the specification demands of it
  den,    \* den[k] = pixel set of step k
  lat,    \* lat[k] = step k is lattice-rectilinear (region = union of whole pixels; Area = pixel count)
  kind,   \* scheduling of the generator (see Pick)
  bucket  \* which slice of the leaf family the next Leaf step draws from (see Pick)
vars == <<prog, den, lat, kind, bucket>>

Demand(d, l) == [pix |-> PixEncSet(d), n |-> Cardinality(d), lat |-> l]
Push(rec, d, l) == /\ prog' = Append(prog, rec @@ Demand(d, l))
                   /\ den' = Append(den, d) /\ lat' = Append(lat, l)
Steps == 1..Len(prog)
NB == 16      \* number of slices of the leaf family (see Pick)
NLeaves == Cardinality({ k \in Steps : prog[k].a = "Leaf" })
Ready == NLeaves = MaxLeaf
Room == Len(prog) < Depth

(* the instances a step may choose from: all of them (exhaustive BFS) or one drawn at random (-simulate), *)
(* so that a simulation step does not evaluate thousands of successors it will not take                  *)
Pool(S) == IF Sample /\ S # {} THEN {RandomElement(S)} ELSE S
(* TLC restarts RandomElement's generator for every simulated behaviour; drawing `bucket` (chosen by the  *)
(* simulator itself in Pick) throw-away numbers first makes the behaviours differ                         *)
Burn(n) == Sample => \A i \in 1..n : RandomElement(1..2) \in {1, 2}

Init == prog = <<>> /\ den = <<>> /\ lat = <<>> /\ kind = "" /\ bucket = 0

(* which constructor the driver uses ("however constructed"): the Polygons / SimplePolygon overloads of     *)
(* CrossSection(..) and CrossSection::EvenOdd(..); a counter-clockwise lattice rectangle read by the        *)
(* Positive rule may also come from CrossSection(Rect) or from Square(size).Translate(corner) (a leaf with  *)
(* a pending lazy transform).  The choice is a function of the leaf, not a further dimension of the search. *)
LeafVia(l) ==
  IF Len(l.ids) # 1 THEN "polys"
  ELSE IF Cat[l.ids[1]] \in Rects /\ l.rule = "Positive"
       THEN << "rect", "square", "simple", "polys" >>[1 + (l.ids[1] % 4)]
       ELSE << "simple", "polys" >>[1 + (l.ids[1] % 2)]
PushLeaf(l) == Push([a |-> "Leaf", rule |-> l.rule, cs |-> LeafContours(l), via |-> LeafVia(l),
                    o |-> IF LeafVia(l) = "square" THEN 0 ELSE 1],      \* (the translated Square stays lazy)
                   LeafDen(l), LeafLat(l))
Leaf == /\ kind = "Leaf" /\ Burn(bucket) /\ kind' = "" /\ bucket' = 0 /\ Room /\ NLeaves < MaxLeaf
        /\ \/ \E i \in Pool({ ii \in FamSingles(LeafFam) : ii % NB = bucket }), r \in Pool(FamRules(LeafFam, 1)) :
                PushLeaf([ids |-> <<i>>, rule |-> r])
           \/ \E i \in Pool({ ii \in FamPairs(LeafFam) : ii % NB = bucket }), j \in Pool(FamPairs(LeafFam)),
                 r \in Pool(FamRules(LeafFam, 2)) :
                (Sample \/ i <= j) /\ PushLeaf([ids |-> PairIds(Min2(i, j), Max2(i, j)), rule |-> r])
           \/ \E s \in Pool(StairParams(LeafFam)), r \in Pool(Rules), rv \in Pool({FALSE, TRUE}) :
                LET c == IF rv THEN Rev(StairContour(s)) ELSE StairContour(s) IN
                Push([a |-> "Leaf", rule |-> r, cs |-> <<c>>, via |-> "polys", name |-> StairName(s), o |-> 1],
                     IF rv /\ r = "Positive" THEN {} ELSE StairPix(s), TRUE)

Bool == /\ kind = "Bool" /\ Burn(bucket) /\ kind' = "" /\ UNCHANGED bucket /\ Room /\ Ready
        /\ \E x \in Pool(Steps), y \in Pool(Steps), op \in Pool(OpNames) :
             Push([a |-> "Bool", op |-> op, x |-> x, y |-> y, sym |-> Symmetric(op), o |-> 1,
                   \* spelling of the call: x.Boolean(y, op) | x + y, x - y, x ^ y | t = x; t += y ...
                   form |-> << "method", "operator", "assign" >>[1 + ((x + y + Len(prog)) % 3)]],
                  BoolSem(op, den[x], den[y]), lat[x] /\ lat[y])

(* BatchBoolean over 0, 1 or 3 earlier steps (repetition allowed) *)
Batch == /\ kind = "Batch" /\ Burn(bucket) /\ kind' = "" /\ UNCHANGED bucket /\ Room /\ Ready
         /\ \E n \in Pool({0, 1, 3}), op \in Pool(OpNames) :
              \E xs \in Pool([1..n -> Steps]) :
                Push([a |-> "Batch", op |-> op, xs |-> xs, sym |-> Symmetric(op), o |-> 1],
                     BatchSem(op, [i \in 1..n |-> den[xs[i]]]), \A i \in 1..n : lat[xs[i]])

Xf == /\ kind = "Xf" /\ Burn(bucket) /\ kind' = "" /\ UNCHANGED bucket /\ Room /\ Ready
      /\ \E x \in Pool(Steps), g \in Pool(GenNames), o \in Pool(ObsModes) :
           /\ InWin(ApPixSet(Gen2(g), den[x]))
           /\ Push([a |-> "Xf", g |-> g, x |-> x, o |-> o], ApPixSet(Gen2(g), den[x]), lat[x])

(* "pick a step kind, then one instance of it": makes -simulate choose the   *)
(* KIND uniformly; does not change the set of programs (as in Program.tla).  *)
(* A Leaf step is picked together with one of NB slices of the leaf family   *)
(* (by first catalogue index): TLC's workers then share the enumeration of   *)
(* a large family, and -simulate does not enumerate the whole family.        *)
Can(k) ==
  CASE k = "Leaf"  -> Room /\ NLeaves < MaxLeaf
    [] k = "Bool"  -> Room /\ Ready
    [] k = "Batch" -> Room /\ Ready
    [] k = "Xf"    -> Room /\ Ready
Pick == /\ kind = "" /\ Room
        /\ \E k \in Acts : /\ Can(k) /\ kind' = k
                           /\ bucket' \in (IF k = "Leaf" \/ Sample THEN 0..(NB-1) ELSE {0})
        /\ UNCHANGED <<prog, den, lat>>
Finish == /\ kind = "" /\ Len(prog) = Depth
          /\ (Emit => PrintT(<<"BEH", ToJson([K |-> K, prog |-> prog])>>))
          /\ kind' = "done"
          /\ UNCHANGED <<prog, den, lat, bucket>>
Next == Pick \/ Finish \/ Leaf \/ Bool \/ Batch \/ Xf
Spec == Init /\ [][Next]_vars

(* ======================== what TLC checks ================================ *)
LastIs(a) == kind = "" /\ Len(prog) > 0 /\ prog[Len(prog)].a = a   \* (checked once per program prefix)
LastStep == prog[Len(prog)]
(* -- the exact oracle itself (families "single"/"fill": one Leaf per state) -- *)
(* C11's "farther than epsilon from the input edges": no pixel centre on an input edge *)
CentresOffEdges ==
  LastIs("Leaf") => \A k \in 1..Len(LastStep.cs), p \in Pixels : CentreOffContour(LastStep.cs[k], p)
(* the winding number does not depend on the ray used to count crossings *)
RayIndependent ==
  LastIs("Leaf") => \A k \in 1..Len(LastStep.cs), p \in Pixels :
     WindCX(LastStep.cs[k], Centre2(p)) = WindCY(LastStep.cs[k], Centre2(p))
(* reversing a contour negates its winding number: clockwise input is not filled by the
   Positive rule and is filled by EvenOdd *)
ReverseNegates ==
  LastIs("Leaf") => \A k \in 1..Len(LastStep.cs), p \in Pixels :
     WindCX(Rev(LastStep.cs[k]), Centre2(p)) = -WindCX(LastStep.cs[k], Centre2(p))
(* the lattice group acts on contours and pixels compatibly (orientation-reversing
   elements negate the winding number) *)
GroupCovariant ==
  LastIs("Leaf") => \A k \in 1..Len(LastStep.cs), gn \in GensCore :
     LET g == Gen2(gn)
         c == LastStep.cs[k]
         gc == ApContour(g, c)
     IN \A p \in Pixels :
          ApPix(g, p) \in Pixels => WindCX(gc, Centre2(ApPix(g, p))) = Det2(g) * WindCX(c, Centre2(p))
(* what the leaf demands is the fill rule applied to the winding number *)
FillIsRule ==
  LastIs("Leaf") => /\ den[Len(prog)] = Fill(LastStep.rule, LastStep.cs)
                    /\ (LastStep.rule = "Positive" => den[Len(prog)] \cap Fill("Positive", [k \in 1..Len(LastStep.cs) |-> Rev(LastStep.cs[k])]) = {})
                    /\ Fill("EvenOdd", LastStep.cs) = Fill("EvenOdd", [k \in 1..Len(LastStep.cs) |-> Rev(LastStep.cs[k])])
EverythingInWindow == \A k \in Steps : InWin(den[k])
(* contours stay inside the window's closed square *)
ContoursInWindow ==
  LastIs("Leaf") => \A k \in 1..Len(LastStep.cs) : \A i \in 1..Len(LastStep.cs[k]) :
     /\ -2 * K <= LastStep.cs[k][i][1] /\ LastStep.cs[k][i][1] <= 2 * K
     /\ -2 * K <= LastStep.cs[k][i][2] /\ LastStep.cs[k][i][2] <= 2 * K
(* the staircase formula is the fill of the staircase contour (small instances) *)
StairSound ==
  (LastIs("Leaf") /\ "name" \in DOMAIN LastStep /\ Len(LastStep.cs[1]) <= 24) =>
     den[Len(prog)] = Fill(LastStep.rule, LastStep.cs)
(* -- set laws behind "independent of operand order" and Area (program families) -- *)
SetLaws ==
  /\ LastIs("Bool") =>
       LET A == den[LastStep.x]  B == den[LastStep.y] IN
       /\ Symmetric(LastStep.op) => BoolSem(LastStep.op, A, B) = BoolSem(LastStep.op, B, A)
       /\ Cardinality(A \cup B) + Cardinality(A \cap B) = Cardinality(A) + Cardinality(B)
       /\ Cardinality(A \ B) + Cardinality(A \cap B) = Cardinality(A)
  /\ LastIs("Batch") =>
       LET ds == [i \in 1..Len(LastStep.xs) |-> den[LastStep.xs[i]]] IN
       /\ Symmetric(LastStep.op) => BatchSem(LastStep.op, Reverse(ds)) = BatchSem(LastStep.op, ds)
       /\ Len(ds) = 3 => BatchSem(LastStep.op, ds) = BoolSem(LastStep.op, BoolSem(LastStep.op, ds[1], ds[2]), ds[3])
  /\ LastIs("Xf") => Cardinality(den[Len(prog)]) = Cardinality(den[LastStep.x])
=============================================================================
