CONSTANTS K = 5
  Families = {"corner_q"}
  Emit = TRUE
INIT Init
NEXT Next
INVARIANT RegionIsFill
INVARIANT DemandsConsistent
INVARIANT MiterIsSandwiched
INVARIANT MorphologyLaws
INVARIANT SharpSound
INVARIANT HullSound
INVARIANT ExtremeAgree
INVARIANT DecSound
INVARIANT SimpSound
CHECK_DEADLOCK FALSE
INVARIANT CornerSound
INVARIANT CornerCoverage
