CONSTANTS Threads <- T3
  Variant = "pinned"
  Programs <- P_ctx
INIT Init
NEXT Next
INVARIANT NoDataRace
