------------------------------- MODULE Kernel -------------------------------
(***************************************************************************)
(* C01, the topological kernel under stress: inputs on which the simplifier *)
(* (edge collapse with its link-condition repair) and the hull's degenerate *)
(* fallbacks have to work, enumerated from the combinatorics.               *)
(*                                                                          *)
(* (1) collapse family: a closed seed triangulation T, a designated edge    *)
(* a-b that the driver embeds with length ~1e-13 (a "short merge edge"),    *)
(* and 0, 1 or 2 faces next to it STACKED (a vertex inserted in the face).  *)
(* Stacking both faces adjacent to a-b gives the endpoints FOUR common      *)
(* neighbours: the link condition of Halfedge.tla fails with two extra      *)
(* shared neighbours, the case CollapseEdge repairs with FormLoop.  TLC     *)
(* checks that every generated input IS a closed 2-manifold and classifies  *)
(* the designated edge (LinkOK / number of common neighbours).  The driver  *)
(* imports it and runs Simplify / SetTolerance / Booleans; the property     *)
(* demands a closed 2-manifold (or an empty error) whatever the geometry.   *)
(* (2) hull family: point sequences spanning no volume (collinear, coplanar,*)
(* duplicates) in EVERY order: the result must be empty or a closed         *)
(* 2-manifold.                                                              *)
(***************************************************************************)
EXTENDS Halfedge, Json

CONSTANT Family, Emit

Prism == << <<0,2,1>>, <<3,4,5>>, <<0,1,4>>, <<0,4,3>>, <<1,2,5>>, <<1,5,4>>, <<2,0,3>>, <<2,3,5>> >>
Bipyr5 == << <<0,1,5>>, <<1,2,5>>, <<2,3,5>>, <<3,4,5>>, <<4,0,5>>, <<1,0,6>>, <<2,1,6>>, <<3,2,6>>, <<4,3,6>>, <<0,4,6>> >>
KSeeds == << Tetra, Octa, Bipyr, Prism, Bipyr5 >>

FaceWith(T, a, b) == CHOOSE t \in 1..Len(T) : \E k \in 1..3 : T[t][k] = a /\ T[t][(k % 3) + 1] = b
StackFace(T, t, v) == LET f == T[t] IN
  [i \in 1..(Len(T) + 2) |-> IF i = t THEN <<f[1], f[2], v>> ELSE IF i = Len(T) + 1 THEN <<f[2], f[3], v>>
                             ELSE IF i = Len(T) + 2 THEN <<f[3], f[1], v>> ELSE T[i]]
NV(T) == Cardinality(Verts(T))
(* stack the face left of a->b (s1) and/or the face left of b->a (s2), optionally twice *)
Build(T, a, b, s1, s2) ==
  LET T1 == IF s1 >= 1 THEN StackFace(T, FaceWith(T, a, b), NV(T)) ELSE T
      T2 == IF s2 >= 1 THEN StackFace(T1, FaceWith(T1, b, a), NV(T1)) ELSE T1
      T3 == IF s1 >= 2 THEN StackFace(T2, FaceWith(T2, a, b), NV(T2)) ELSE T2
  IN T3
UEdges(T) == { e \in DirEdges(T) : e[1] < e[2] }
CollapseCases == { [seed |-> s, a |-> e[1], b |-> e[2], s1 |-> s1, s2 |-> s2] :
                     s \in 1..Len(KSeeds), e \in UNION { UEdges(KSeeds[sx]) : sx \in 1..Len(KSeeds) }, s1 \in 0..2, s2 \in 0..1 }
ValidCase(c) == <<c.a, c.b>> \in DirEdges(KSeeds[c.seed])
Common(T, a, b) == Cardinality(Nbrs(T, a) \cap Nbrs(T, b))

(* hull family: point sequences in every order *)
Perms(S) == { f \in [1..Cardinality(S) -> S] : \A i, j \in 1..Cardinality(S) : i # j => f[i] # f[j] }
Lines == { { <<0,0,0>>, <<1,0,0>>, <<2,0,0>>, <<3,0,0>> }, { <<0,0,0>>, <<1,1,1>>, <<2,2,2>>, <<3,3,3>>, <<4,4,4>> },
           { <<0,1,2>>, <<0,2,4>>, <<0,3,6>>, <<0,0,0>> } }
Planes == { { <<0,0,0>>, <<1,0,0>>, <<0,1,0>>, <<1,1,0>> }, { <<0,0,0>>, <<2,0,0>>, <<0,2,0>>, <<1,1,0>>, <<2,2,0>> } }
HullCases == UNION { { [pts |-> p, kind |-> "line"] : p \in Perms(L) } : L \in Lines } \cup
             UNION { { [pts |-> p, kind |-> "plane"] : p \in Perms(P) } : P \in Planes }

VARIABLES c, done
KInit == /\ c \in (IF Family = "collapse" THEN { k \in CollapseCases : ValidCase(k) } ELSE HullCases) /\ done = FALSE /\ x = 0
KNext == /\ ~done /\ done' = TRUE /\ UNCHANGED <<c, x>>
         /\ (Emit => PrintT(<<"BEH", ToJson(
               IF Family = "collapse"
                 THEN LET T == Build(KSeeds[c.seed], c.a, c.b, c.s1, c.s2) IN
                      [k |-> "collapse", seed |-> c.seed, tris |-> T, nv |-> NV(T), a |-> c.a, b |-> c.b,
                       linkok |-> LinkOK(T, c.a, c.b), common |-> Common(T, c.a, c.b)]
                 ELSE [k |-> "hull", pts |-> c.pts, kind |-> c.kind])>>))
InputClosed == Family = "collapse" => LET T == Build(KSeeds[c.seed], c.a, c.b, c.s1, c.s2) IN IsClosed(T) /\ <<c.a, c.b>> \in DirEdges(T)
DoubleStackBreaksLink == (Family = "collapse" /\ c.s1 >= 1 /\ c.s2 >= 1) =>
                            Common(Build(KSeeds[c.seed], c.a, c.b, c.s1, c.s2), c.a, c.b) >= 4
=============================================================================
