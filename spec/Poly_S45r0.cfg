CONSTANTS Family = "S"
  G = 4
  MaxV = 5
  Emit = TRUE
  StartRows = {0}
INIT Init
NEXT Next
INVARIANT GenValid
INVARIANT PathSimple
INVARIANT RefValid
INVARIANT PickOK
CHECK_DEADLOCK FALSE
