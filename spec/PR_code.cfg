CONSTANTS N = 4
  Keys = {1, 2, 3}
  InitVal = 100
  IdentityArg = "init"
  Emit = FALSE
INIT Init
NEXT Next
INVARIANT SortCorrect
INVARIANT ReduceOK
CHECK_DEADLOCK FALSE
