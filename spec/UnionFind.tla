----------------------------- MODULE UnionFind -----------------------------
(***************************************************************************)
(* src/disjoint_sets.h, one TLA+ step per atomic access of mData (C13).     *)
(* Threads run a fixed list of unite(a,b) calls each.  Entry = <<rank,      *)
(* parent>> packed in one 64-bit atomic word, so a CAS compares both.       *)
(*                                                                          *)
(*  unite:  F1 id1 := findImpl(id1) ; F2 id2 := findImpl(id2)               *)
(*          EQ if id1 = id2 return                                          *)
(*          RK r1 := rank(id1) ; r2 := rank(id2)      (two loads)           *)
(*             order so that id1 is the lower rank (ties: the LARGER id)    *)
(*          C1 CAS(mData[id1], <<r1,id1>> -> <<r1,id2>>)  fail -> restart   *)
(*          C2 if r1 = r2: CAS(mData[id2], <<r2,id2>> -> <<r2+1,id2>>)      *)
(*                fail and r2 = 0 -> restart                                *)
(*  findImpl: while id # parent(id): v := mData[id]; np := parent(v.parent) *)
(*            weak CAS(mData[id], v -> <<v.rank, np>>) (may fail); id := np *)
(*                                                                          *)
(* CONSTANT RankCas: TRUE = the code (CAS), FALSE = a plain store of        *)
(* <<r2+1,id2>> (the regression class "lost union"); TLC refutes            *)
(* PartitionCorrect for FALSE.                                              *)
(* The behaviours are also SCHEDULES: with Emit, every terminated           *)
(* behaviour with at most MaxSwitch context switches is printed and         *)
(* replayed on the real class under a deterministic scheduler               *)
(* (drive/par.cpp, hook MANIFOLD_VERIF_ATOMIC_POINT).                       *)
(***************************************************************************)
EXTENDS Naturals, Sequences, FiniteSets, TLC, Json

CONSTANTS N,          \* elements 0..N-1
          Work,       \* Work[t] = sequence of <<a,b>> pairs of thread t
          RankCas, Emit, MaxSwitch

Thr == 1..Len(Work)
Elem == 0..(N-1)

VARIABLES data,     \* [Elem -> <<rank, parent>>]
          pc, job,  \* per thread: step label, index into Work[t]
          id1, id2, r1, r2, v, cur, which,   \* per-thread locals
          sched, last, switches              \* history: schedule so far
vars == <<data, pc, job, id1, id2, r1, r2, v, cur, which, sched, last, switches>>

Rank(e) == data[e][1]
Par(e) == data[e][2]

Init == /\ data = [e \in Elem |-> <<0, e>>]
        /\ pc = [t \in Thr |-> "Start"] /\ job = [t \in Thr |-> 1]
        /\ id1 = [t \in Thr |-> 0] /\ id2 = [t \in Thr |-> 0]
        /\ r1 = [t \in Thr |-> 0] /\ r2 = [t \in Thr |-> 0]
        /\ v = [t \in Thr |-> <<0,0>>] /\ cur = [t \in Thr |-> 0] /\ which = [t \in Thr |-> 1]
        /\ sched = <<>> /\ last = 0 /\ switches = 0

(* the schedule is history: only carried when schedules are emitted, so that   *)
(* exhaustive checking explores the states of the data structure, not histories *)
Sched(t) == IF Emit THEN /\ sched' = Append(sched, t)
                         /\ switches' = IF last # 0 /\ last # t THEN switches + 1 ELSE switches
                         /\ last' = t
            ELSE UNCHANGED <<sched, last, switches>>

(* begin the next unite, or finish *)
Start(t) == /\ pc[t] = "Start"
            /\ IF job[t] > Len(Work[t]) THEN pc' = [pc EXCEPT ![t] = "Done"] /\ UNCHANGED <<id1, id2, cur, which>>
               ELSE /\ id1' = [id1 EXCEPT ![t] = Work[t][job[t]][1]]
                    /\ id2' = [id2 EXCEPT ![t] = Work[t][job[t]][2]]
                    /\ cur' = [cur EXCEPT ![t] = Work[t][job[t]][1]] /\ which' = [which EXCEPT ![t] = 1]
                    /\ pc' = [pc EXCEPT ![t] = "FindTest"]
            /\ UNCHANGED <<data, job, r1, r2, v, sched, last, switches>>

(* findImpl: while (id != parent(id))            -- one load *)
FindTest(t) == /\ pc[t] = "FindTest"
               /\ IF cur[t] = Par(cur[t])
                    THEN IF which[t] = 1
                           THEN /\ id1' = [id1 EXCEPT ![t] = cur[t]]
                                /\ cur' = [cur EXCEPT ![t] = id2[t]] /\ which' = [which EXCEPT ![t] = 2]
                                /\ pc' = pc /\ UNCHANGED id2
                           ELSE /\ id2' = [id2 EXCEPT ![t] = cur[t]]
                                /\ pc' = [pc EXCEPT ![t] = "Eq"] /\ UNCHANGED <<id1, cur, which>>
                    ELSE pc' = [pc EXCEPT ![t] = "FindLoad"] /\ UNCHANGED <<id1, id2, cur, which>>
               /\ Sched(t) /\ UNCHANGED <<data, job, r1, r2, v>>
(* value = mData[id]                              -- one load *)
FindLoad(t) == /\ pc[t] = "FindLoad"
               /\ v' = [v EXCEPT ![t] = data[cur[t]]]
               /\ pc' = [pc EXCEPT ![t] = "FindGrand"]
               /\ Sched(t) /\ UNCHANGED <<data, job, id1, id2, r1, r2, cur, which>>
(* new_parent = parent(value.parent)              -- one load ; then weak CAS *)
FindGrand(t) == /\ pc[t] = "FindGrand"
                /\ LET np == Par(v[t][2]) IN
                   /\ \/ (* CAS succeeds (only if the word is unchanged) or is skipped when nothing to do *)
                         /\ data' = IF data[cur[t]] = v[t] /\ np # v[t][2]
                                      THEN [data EXCEPT ![cur[t]] = <<v[t][1], np>>] ELSE data
                      \/ (* weak CAS fails spuriously / loses the race: no change *)
                         /\ data' = data
                   /\ cur' = [cur EXCEPT ![t] = np]
                /\ pc' = [pc EXCEPT ![t] = "FindTest"]
                /\ Sched(t) /\ UNCHANGED <<job, id1, id2, r1, r2, v, which>>

Eq(t) == /\ pc[t] = "Eq"
         /\ IF id1[t] = id2[t] THEN pc' = [pc EXCEPT ![t] = "Start"] /\ job' = [job EXCEPT ![t] = job[t] + 1]
            ELSE pc' = [pc EXCEPT ![t] = "Rk1"] /\ job' = job
         /\ UNCHANGED <<data, id1, id2, r1, r2, v, cur, which, sched, last, switches>>
Rk1(t) == /\ pc[t] = "Rk1" /\ r1' = [r1 EXCEPT ![t] = Rank(id1[t])] /\ pc' = [pc EXCEPT ![t] = "Rk2"]
          /\ Sched(t) /\ UNCHANGED <<data, job, id1, id2, r2, v, cur, which>>
Rk2(t) == /\ pc[t] = "Rk2"
          /\ LET rr2 == Rank(id2[t])
                 swap == r1[t] > rr2 \/ (r1[t] = rr2 /\ id1[t] < id2[t]) IN
             /\ r1' = [r1 EXCEPT ![t] = IF swap THEN rr2 ELSE r1[t]]
             /\ r2' = [r2 EXCEPT ![t] = IF swap THEN r1[t] ELSE rr2]
             /\ id1' = [id1 EXCEPT ![t] = IF swap THEN id2[t] ELSE id1[t]]
             /\ id2' = [id2 EXCEPT ![t] = IF swap THEN id1[t] ELSE id2[t]]
          /\ pc' = [pc EXCEPT ![t] = "Cas1"]
          /\ Sched(t) /\ UNCHANGED <<data, job, v, cur, which>>
Restart(t) == /\ cur' = [cur EXCEPT ![t] = id1[t]] /\ which' = [which EXCEPT ![t] = 1]
              /\ pc' = [pc EXCEPT ![t] = "FindTest"]
Cas1(t) == /\ pc[t] = "Cas1"
           /\ IF data[id1[t]] = <<r1[t], id1[t]>>
                THEN /\ data' = [data EXCEPT ![id1[t]] = <<r1[t], id2[t]>>]
                     /\ IF r1[t] = r2[t] THEN pc' = [pc EXCEPT ![t] = "Cas2"] /\ UNCHANGED job
                        ELSE pc' = [pc EXCEPT ![t] = "Start"] /\ job' = [job EXCEPT ![t] = job[t] + 1]
                     /\ UNCHANGED <<cur, which>>
                ELSE data' = data /\ Restart(t) /\ UNCHANGED job
           /\ Sched(t) /\ UNCHANGED <<id1, id2, r1, r2, v>>
Cas2(t) == /\ pc[t] = "Cas2"
           /\ IF RankCas
                THEN IF data[id2[t]] = <<r2[t], id2[t]>>
                       THEN /\ data' = [data EXCEPT ![id2[t]] = <<r2[t] + 1, id2[t]>>]
                            /\ pc' = [pc EXCEPT ![t] = "Start"] /\ job' = [job EXCEPT ![t] = job[t] + 1] /\ UNCHANGED <<cur, which>>
                       ELSE /\ data' = data
                            /\ IF r2[t] = 0 THEN Restart(t) /\ UNCHANGED job
                               ELSE pc' = [pc EXCEPT ![t] = "Start"] /\ job' = [job EXCEPT ![t] = job[t] + 1] /\ UNCHANGED <<cur, which>>
                ELSE /\ data' = [data EXCEPT ![id2[t]] = <<r2[t] + 1, id2[t]>>]     \* regression: plain store
                     /\ pc' = [pc EXCEPT ![t] = "Start"] /\ job' = [job EXCEPT ![t] = job[t] + 1] /\ UNCHANGED <<cur, which>>
           /\ Sched(t) /\ UNCHANGED <<id1, id2, r1, r2, v>>

Step(t) == Start(t) \/ FindTest(t) \/ FindLoad(t) \/ FindGrand(t) \/ Eq(t) \/ Rk1(t) \/ Rk2(t) \/ Cas1(t) \/ Cas2(t)
AllDone == \A t \in Thr : pc[t] = "Done"
Finish == /\ AllDone /\ last # 99
          /\ (Emit => PrintT(<<"BEH", ToJson([sched |-> sched, n |-> N, work |-> Work])>>))
          /\ last' = 99 /\ UNCHANGED <<data, pc, job, id1, id2, r1, r2, v, cur, which, sched, switches>>
Next == (\E t \in Thr : Step(t)) \/ Finish
Spec == Init /\ [][Next]_vars /\ WF_vars(Next)
SwitchBound == switches <= MaxSwitch

(* ---- sequential specification ------------------------------------------- *)
RECURSIVE Root(_)
Root(e) == IF Par(e) = e THEN e ELSE Root(Par(e))
RECURSIVE Up(_, _)
Up(x, i) == IF i = 0 THEN x ELSE Up(Par(x), i - 1)
Acyclic == \A e \in Elem : Par(Up(e, N)) = Up(e, N)
AllPairs == UNION { { Work[t][i] : i \in 1..Len(Work[t]) } : t \in Thr }
RECURSIVE Closure(_)
Closure(R) == LET R2 == R \cup { ac \in Elem \X Elem : \E m \in Elem : <<ac[1], m>> \in R /\ <<m, ac[2]>> \in R }
              IN IF R2 = R THEN R ELSE Closure(R2)
Sym(R) == R \cup { <<p[2], p[1]>> : p \in R } \cup { <<e, e>> : e \in Elem }
SeqSame == Closure(Sym(AllPairs))      \* the partition a sequential run yields, as an equivalence relation
PartitionCorrect == AllDone => \A a, b \in Elem : (Root(a) = Root(b)) <=> (<<a, b>> \in SeqSame)
(* what connectedComponents relies on: a root of a set with > 1 element has rank >= 1 *)
RootRank == AllDone => \A e \in Elem : (Par(e) = e /\ \E f \in Elem : f # e /\ Root(f) = e) => Rank(e) >= 1
Termination == <>AllDone
=============================================================================
