CONSTANTS Mode = "accept"
INIT Init
NEXT Next
INVARIANT Accept
INVARIANT SameClause
CHECK_DEADLOCK FALSE
