CONSTANTS N = 4
  Work <- W_3
  RankCas = TRUE
  Emit = FALSE
  MaxSwitch = 99
INIT Init
NEXT Next
INVARIANT PartitionCorrect
INVARIANT RootRank
INVARIANT Acyclic

CHECK_DEADLOCK FALSE
