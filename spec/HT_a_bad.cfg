CONSTANTS Size = 8
  StepC = 1
  Work <- W_a
  Claim = "loadstore"
  Emit = FALSE
  MaxSwitch = 99
INIT Init
NEXT Next
INVARIANT Retrievable
INVARIANT UsedCountsClaims
INVARIANT NoDuplicateKeys

CHECK_DEADLOCK FALSE
