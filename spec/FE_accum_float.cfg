CONSTANTS Items <- ItemsNum
  NChunks = 4
  Workers <- W3
  Idiom = "accum"
  TotalKey = TRUE
  Accum = "float"
INIT Init
NEXT Next
INVARIANT Deterministic
