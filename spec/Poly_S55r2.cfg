CONSTANTS Family = "S"
  G = 5
  MaxV = 5
  Emit = TRUE
  StartRows = {2}
INIT Init
NEXT Next
INVARIANT GenValid
INVARIANT PathSimple
INVARIANT RefValid
INVARIANT PickOK
CHECK_DEADLOCK FALSE
