CONSTANTS NB = 2
  NP = 3
  PostCheck = TRUE
SPECIFICATION Spec
INVARIANT AllOrNothing
INVARIANT NoPartialEscapes
INVARIANT ProgressBounded
INVARIANT CompletedMeansOne
INVARIANT ShortCircuit
PROPERTY ProgressMonotone
PROPERTY CancelSticky
PROPERTY Terminates
CHECK_DEADLOCK FALSE
