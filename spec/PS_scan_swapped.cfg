CONSTANTS N = 5
  Kind = "scan"
  JoinOrder = "swapped"
  Emit = FALSE
INIT Init
NEXT Next
INVARIANT EqualsSequential
CHECK_DEADLOCK FALSE
