CONSTANTS K = 5
  Families = {"nest", "nest2", "h12", "h3", "h4", "h5", "h6", "hbig", "s_sub", "s_wob", "s_wob2", "s_stair"}
  Emit = TRUE
INIT Init
NEXT Next
INVARIANT RegionIsFill
INVARIANT DemandsConsistent
INVARIANT MiterIsSandwiched
INVARIANT MorphologyLaws
INVARIANT SharpSound
INVARIANT HullSound
INVARIANT ExtremeAgree
INVARIANT DecSound
INVARIANT SimpSound
CHECK_DEADLOCK FALSE
