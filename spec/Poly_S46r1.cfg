CONSTANTS Family = "S"
  G = 4
  MaxV = 6
  Emit = TRUE
  StartRows = {1}
INIT Init
NEXT Next
INVARIANT GenValid
INVARIANT PathSimple
INVARIANT RefValid
INVARIANT PickOK
CHECK_DEADLOCK FALSE
