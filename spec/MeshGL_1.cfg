CONSTANTS Emit = TRUE
  MaxBad = 1
INIT Init
NEXT Next
INVARIANT LadderTotal
INVARIANT UnsafeRejected
INVARIANT Sticky
CHECK_DEADLOCK FALSE
