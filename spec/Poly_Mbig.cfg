CONSTANTS Family = "M"
  G = 5
  MaxV = 0
  Emit = TRUE
  StartRows = {}
INIT Init
NEXT Next
INVARIANT GenValid
INVARIANT PathSimple
INVARIANT RefValid
INVARIANT PickOK
INVARIANT MutantsRejected
INVARIANT PlaceNumbers
INVARIANT PlaceValid
CHECK_DEADLOCK FALSE
