CONSTANTS Family = "D"
  G = 4
  MaxV = 0
  Emit = TRUE
  StartRows = {}
INIT Init
NEXT Next
INVARIANT GenValid
INVARIANT PathSimple
INVARIANT RefValid
INVARIANT PickOK
INVARIANT MutantsRejected
CHECK_DEADLOCK FALSE
