CONSTANTS K = 2
  Families = {}
  MaxTri = 1
  MaxQuad = 1
  FwdAll = FALSE
  Emit = TRUE
INIT TInit
NEXT TNext
INVARIANT TraceConsistent
CHECK_DEADLOCK FALSE
