------------------------------ MODULE ForEach ------------------------------
(***************************************************************************)
(* C04: why the library's parallel loops give schedule-independent output.  *)
(* A parallel loop is a set of chunks executed in any order on any worker.  *)
(* The three output idioms of the library:                                  *)
(*  A "store"   each worker appends its items to a thread-local store       *)
(*              (tbb::combinable / enumerable_thread_specific); the stores  *)
(*              are combined in ARBITRARY order; then the result is         *)
(*              stable-sorted by a key (boolean3.cpp Kernel12Recorder,      *)
(*              edge_op.cpp FlagStore, boolean2.cpp)                        *)
(*  B "cursor"  a chunk claims output slots with an atomic fetch_add; slot  *)
(*              order is the claim order; a canonical sort follows          *)
(*              (impl.cpp CreateHalfedges large path, boolean_result.cpp    *)
(*              AddNewEdgeVerts -> PairUp)                                  *)
(*  C "accum"   chunks accumulate into a shared cell atomically: integer    *)
(*              addition commutes, floating-point addition does not         *)
(*              (properties.cpp CalculateCurvature on the pinned tree: F2)  *)
(* Items are <<key, id>>; the sort compares `key` only when TotalKey=FALSE  *)
(* (ties!) and <<key, id>> when TotalKey=TRUE.  TLC explores every chunk    *)
(* order / worker assignment / combine order and checks that the output is  *)
(* the one a sequential run gives.  Refuted for TotalKey=FALSE (the class   *)
(* of regression "tie-break dropped") and for Accum="float".                *)
(***************************************************************************)
EXTENDS Naturals, Sequences, FiniteSets, TLC

CONSTANTS Items,      \* sequence of <<key, id>> in loop-index order
          NChunks, Workers, Idiom, TotalKey, Accum

N == Len(Items)
ChunkOf(i) == ((i - 1) * NChunks) \div N + 1
ChunkItems(c) == SelectSeq(Items, LAMBDA it : \E i \in 1..N : Items[i] = it /\ ChunkOf(i) = c)

Less(a, b) == IF TotalKey THEN a[1] < b[1] \/ (a[1] = b[1] /\ a[2] < b[2]) ELSE a[1] < b[1]
RECURSIVE InsStable(_, _)
InsStable(x, s) == IF s = <<>> THEN <<x>> ELSE IF Less(x, Head(s)) THEN <<x>> \o s ELSE <<Head(s)>> \o InsStable(x, Tail(s))
RECURSIVE StableSort(_)
StableSort(s) == IF s = <<>> THEN <<>> ELSE InsStable(Head(s), StableSort(Tail(s)))
(* note: inserting from the right keeps equal keys in their sequence order *)

(* a tiny non-associative "float": values saturate at 3 going up, so (a+b)+c # a+(b+c) for some orders *)
FAdd(a, b) == IF Accum = "float" THEN (IF a + b > 3 THEN 3 + ((a + b) % 2) ELSE a + b) ELSE a + b

VARIABLES todo, store, slots, cell, out, phase
vars == <<todo, store, slots, cell, out, phase>>
Init == /\ todo = 1..NChunks /\ store = [w \in Workers |-> <<>>] /\ slots = <<>> /\ cell = 0
        /\ out = <<>> /\ phase = "loop"

RunChunk == /\ phase = "loop" /\ todo # {}
            /\ \E c \in todo, w \in Workers :
                 /\ todo' = todo \ {c}
                 /\ store' = [store EXCEPT ![w] = store[w] \o ChunkItems(c)]
                 /\ slots' = slots \o ChunkItems(c)
                 /\ cell' = LET RECURSIVE Acc(_, _)
                                Acc(v, s) == IF s = <<>> THEN v ELSE Acc(FAdd(v, Head(s)[1]), Tail(s))
                            IN Acc(cell, ChunkItems(c))
            /\ UNCHANGED <<out, phase>>
EndLoop == /\ phase = "loop" /\ todo = {} /\ phase' = "combine" /\ UNCHANGED <<todo, store, slots, cell, out>>
Combine == /\ phase = "combine"
           /\ IF \A w \in Workers : store[w] = <<>> THEN phase' = "sort" /\ UNCHANGED <<store, out>>
              ELSE \E w \in Workers : store[w] # <<>> /\ out' = out \o store[w] /\ store' = [store EXCEPT ![w] = <<>>] /\ phase' = phase
           /\ UNCHANGED <<todo, slots, cell>>
Sort == /\ phase = "sort" /\ phase' = "done"
        /\ out' = IF Idiom = "store" THEN StableSort(out) ELSE IF Idiom = "cursor" THEN StableSort(slots) ELSE out
        /\ UNCHANGED <<todo, store, slots, cell>>
Next == RunChunk \/ EndLoop \/ Combine \/ Sort \/ (phase = "done" /\ UNCHANGED vars)
Spec == Init /\ [][Next]_vars

SeqCell == LET RECURSIVE Acc(_, _)
               Acc(v, s) == IF s = <<>> THEN v ELSE Acc(FAdd(v, Head(s)[1]), Tail(s))
           IN Acc(0, Items)
Deterministic == phase = "done" =>
                   IF Idiom = "accum" THEN cell = SeqCell ELSE out = StableSort(Items)
=============================================================================
