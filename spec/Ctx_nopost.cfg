CONSTANTS NB = 2
  NP = 3
  PostCheck = FALSE
SPECIFICATION Spec
INVARIANT AllOrNothing
CHECK_DEADLOCK FALSE
