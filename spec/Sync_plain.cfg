CONSTANTS Threads <- T3
  Variant = "fixed"
  Programs <- P_plain
INIT Init
NEXT Next
INVARIANT NoDataRace
