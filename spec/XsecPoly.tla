------------------------------ MODULE XsecPoly ------------------------------
(***************************************************************************)
(* C11 on LATTICE POLYGONS WITH DIAGONAL EDGES (extends Xsec.tla).          *)
(*                                                                          *)
(* DOMAIN.  Contours are triangles / quadrilaterals (either orientation,    *)
(* quadrilaterals may be bow-ties) whose vertices are integer points of the *)
(* lattice -K..K.  Different contours share vertices EXACTLY (coincident    *)
(* tips, several edges ending / starting in one point), have collinear      *)
(* overlapping diagonal edges, and cross in non-lattice rational points.    *)
(*                                                                          *)
(* MEANING.  As in Xsec.tla, but a value is the set of SAMPLE POINTS it      *)
(* contains.  Every pixel carries the 8 samples  centre + (+-u,+-v),        *)
(* centre + (+-v,+-u)  with (u,v) = (16,21)/64 (one orbit of the dihedral   *)
(* group D4, so that D4 permutes the samples).  In coordinates scaled by    *)
(* SS = 64 everything is an integer.  ASSUME SamplesGeneric proves that no  *)
(* sample lies on ANY line through two lattice points of the window (so it  *)
(* is >= 1/(64*sqrt(128)) > 0.0013 away from every input edge and from the  *)
(* extension of every input edge): this is the property's "for every point  *)
(* farther than epsilon from the input edges".  The winding number of a     *)
(* sample is counted exactly (Xsec!WindCX), the fill rules, Boolean and     *)
(* BatchBoolean are the set formulas of Xsec.tla (Inside, BoolSem,          *)
(* BatchSem) on sample sets.  Areas: the doubled area of a triangle is its  *)
(* shoelace determinant (area2), and the set formulas imply the linear      *)
(* relations `arel` between the areas of steps (inclusion-exclusion).       *)
(*                                                                          *)
(* A SCENE is a sequence of contours; its PROGRAM (ProgRec) is              *)
(*    1 Positive(all)  2 EvenOdd(all)  3.. EvenOdd(c_i) each alone          *)
(*    BatchAdd(singles)  BatchSubtract(singles)  BatchIntersect(singles)    *)
(*    X = Positive(odd-numbered contours)  Y = Positive(even-numbered)      *)
(*    X+Y  X^Y  X-Y  Y-X                                                    *)
(* Every scene is printed twice: as it is, and mapped by one element g of   *)
(* D4 (contours AND demanded samples; reflections reverse the vertex order  *)
(* so that winding numbers are kept): "ends" become "starts", horizontal    *)
(* configurations become vertical ones.                                     *)
(*                                                                          *)
(* FAMILIES of scenes (PFam; all indices are drawn by the deterministic     *)
(* hash HH, Reps scenes per catalogue entry):                               *)
(*   fan     3-4 triangles with the common vertex (0,0), other vertices at  *)
(*           Chebyshev distance 1 or 2: many edges start / end in one point *)
(*           and overlap collinearly;                                       *)
(*   tipsX   2-3 triangles whose lexicographically largest vertex is the    *)
(*           common tip (0,0) + two triangles with an edge passing above    *)
(*           resp. below the tip that cross to the right of it;             *)
(*   grid3   3-4 triangles on the 3 x 3 point grid of spacing 3;            *)
(*   rand    3-4 triangles / quadrilaterals on arbitrary lattice points.    *)
(*                                                                          *)
(* TLC CHECKS on every scene: PSetLaws (commutativity, De Morgan and         *)
(* inclusion-exclusion on the sample universe, EvenOdd(all) = symmetric     *)
(* difference of the single fills, BatchSem = folded BoolSem), PRays (the   *)
(* winding number does not depend on the ray), PCovariant (winding numbers  *)
(* of the mapped contours at the mapped samples, recomputed directly),      *)
(* PShape (contours are non-degenerate and inside the window).              *)
(***************************************************************************)
EXTENDS Xsec

CONSTANTS
  PFams,   \* the families to generate: subset of {"fan", "tipsX", "grid3", "rand"}
  PTier    \* "q" | "t": how many scenes per catalogue entry (RepsOf)

VARIABLES scene,   \* <<family, i, r>>
          gden     \* the sample sets of the steps mapped by the scene's D4 element
pvars == <<prog, den, lat, kind, bucket, scene, gden>>

(* ======================== samples ======================================== *)
SS == 64
SOffs == << <<16,21>>, <<16,-21>>, <<-16,21>>, <<-16,-21>>, <<21,16>>, <<21,-16>>, <<-21,16>>, <<-21,-16>> >>
NOff == 8
NSamp == PW * PW * NOff
SampIds == 0..(NSamp - 1)
SampId(p, k) == PixEnc(p) * NOff + (k - 1)
(* scaled integer coordinates of sample id *)
SXY == TLCEval([id \in SampIds |->
         LET e == id \div NOff  k == (id % NOff) + 1  i == (e % PW) - K  j == (e \div PW) - K
         IN << SS * i + (SS \div 2) + SOffs[k][1], SS * j + (SS \div 2) + SOffs[k][2] >>])
XY2Id == TLCEval([xy \in { SXY[id] : id \in SampIds } |-> CHOOSE id \in SampIds : SXY[id] = xy])
RECURSIVE Gcd(_, _)
Gcd(a, b) == IF b = 0 THEN a ELSE Gcd(b, a % b)
Abs(x) == IF x < 0 THEN -x ELSE x
(* a line through two lattice points of the window is a*x + b*y = c with coprime |a|,|b| <= 2K and integer c; *)
(* in scaled coordinates a*X + b*Y = SS*c.  No sample satisfies any such equation:                            *)
SamplesGeneric ==
  \A k \in 1..NOff, a \in (-2*K)..(2*K), b \in (-2*K)..(2*K) :
     (Gcd(Abs(a), Abs(b)) = 1) =>
        ((a * ((SS \div 2) + SOffs[k][1]) + b * ((SS \div 2) + SOffs[k][2])) % SS) # 0
ASSUME SamplesGeneric
ASSUME K = 4      \* (the offsets were chosen for |a|,|b| <= 8)

(* ======================== D4 ============================================= *)
D4Names == << "R90", "R180", "R270", "MX", "MY", "SWAP", "ASWAP" >>
(* ApVert with tr = 0 is linear: it acts on lattice, doubled and scaled coordinates alike *)
GMap == TLCEval([n \in 1..Len(D4Names) |-> [id \in SampIds |-> XY2Id[ApVert(Gen2(D4Names[n]), SXY[id])]]])
GMapSet(n, D) == { GMap[n][id] : id \in D }
(* the image of a contour: reflections reverse the vertex order so that winding numbers are kept *)
GContour(n, c) == LET g == Gen2(D4Names[n])  gc == ApContour(g, c) IN IF Det2(g) = 1 THEN gc ELSE Rev(gc)

(* ======================== contours ======================================= *)
LPts == ((-K)..K) \X ((-K)..K)
Sc(c) == [i \in 1..Len(c) |-> << SS * c[i][1], SS * c[i][2] >>]
RECURSIVE MinOf(_, _, _, _), MaxOf(_, _, _, _)
MinOf(c, ax, i, acc) == IF i > Len(c) THEN acc ELSE MinOf(c, ax, i + 1, Min2(acc, c[i][ax]))
MaxOf(c, ax, i, acc) == IF i > Len(c) THEN acc ELSE MaxOf(c, ax, i + 1, Max2(acc, c[i][ax]))
(* samples of the pixels inside the bounding box of c: outside it the winding number is 0 *)
BoxIds(c) == { SampId(<<i, j>>, k) : i \in MinOf(c, 1, 1, K)..(MaxOf(c, 1, 1, -K) - 1),
                                     j \in MinOf(c, 2, 1, K)..(MaxOf(c, 2, 1, -K) - 1), k \in 1..NOff }
(* winding number of every sample w.r.t. contour c (a table over SampIds).                                  *)
(* (TLC passes operator arguments and LET definitions BY NAME; binding a value with  v \in {e}  evaluates  *)
(* it once.  Val(S) is the element of the singleton S.)                                                    *)
Val(S) == CHOOSE v \in S : TRUE
WTab(c) == Val({ TLCEval([id \in SampIds |-> LET q == SXY[id] IN
                           IF bx[1] < q[1] /\ q[1] < bx[2] /\ bx[3] < q[2] /\ q[2] < bx[4] THEN WindCX(sc, q) ELSE 0]) :
                 sc \in {Sc(c)},
                 bx \in {<< SS * MinOf(c, 1, 1, K), SS * MaxOf(c, 1, 1, -K), SS * MinOf(c, 2, 1, K), SS * MaxOf(c, 2, 1, -K) >>} })
Shoelace2(c) == SumSeq([i \in 1..Len(c) |-> c[i][1] * NextV(c, i)[2] - c[i][2] * NextV(c, i)[1]])
NonDegenerate(c) ==
  /\ \A i \in 1..Len(c) : c[i] \in LPts
  /\ \A i \in 1..Len(c), j \in 1..Len(c) : i # j => c[i] # c[j]
  /\ \A i \in 1..Len(c) : Cross2(c[i], NextV(c, i), NextV(c, i + 1)) # 0

(* ======================== hashing ======================================== *)
(* deterministic mixing of small integers (all intermediate values < 2^31) *)
HH(i, r, s) == LET x == (i * 131 + r * 31 + s * 17 + 7) % 10007
                   y == (x * x + 3 * x + s) % 10007
                   z == (y * y + r + 5 * s) % 10007
               IN (z * z + x) % 10007
Nth(seq, h) == seq[(h % Len(seq)) + 1]

(* ======================== families ======================================= *)
T0 == <<0, 0>>
Cheb(p) == Max2(Abs(p[1]), Abs(p[2]))
(* -- fan: triangles (T0, p, q), both orientations (ordered pairs) -- *)
FanCat == SetToSeq({ c \in { <<T0, p, q>> : p, q \in { v \in LPts : Cheb(v) \in {1, 2} } } :
                       Cross2(c[1], c[2], c[3]) # 0 })
(* -- tips: triangles whose lexicographically largest vertex is T0 -- *)
TipPts == { v \in LPts : v[1] \in {-4, -3, -2} /\ Abs(v[2]) <= 3 }
TipCat == SetToSeq({ c \in { <<p, q, T0>> : p, q \in TipPts } :
                       /\ Cross2(c[1], c[2], c[3]) # 0
                       /\ Abs(c[1][1] - c[2][1]) <= 1 /\ Abs(c[1][2] - c[2][2]) <= 2 })
(* -- segments from the left part of the window to the right part -- *)
SegCat == SetToSeq({ <<s, e>> : s \in { v \in LPts : v[1] \in {-4, -3} }, e \in { v \in LPts : v[1] \in {2, 3, 4} } })
(* seg1 passes strictly above T0, seg2 strictly below, and they cross properly to the right of T0 *)
CrossRightOfTip(s1, s2) ==
  /\ Cross2(s1[1], s1[2], T0) < 0
  /\ Cross2(s2[1], s2[2], T0) > 0
  /\ Cross2(s1[1], s1[2], s2[1]) < 0 /\ Cross2(s1[1], s1[2], s2[2]) > 0     \* seg2 crosses the line of seg1 upwards
  /\ Cross2(s2[1], s2[2], s1[1]) > 0 /\ Cross2(s2[1], s2[2], s1[2]) < 0     \* seg1 crosses the line of seg2 downwards
(* third vertex of a triangle over a segment: the first candidate (from a hashed start) that is not collinear *)
ThirdCands == << <<4,4>>, <<4,-4>>, <<4,0>>, <<1,4>>, <<1,-4>>, <<4,2>>, <<4,-2>>, <<-1,4>>, <<-1,-4>>, <<3,3>>, <<3,-3>> >>
RECURSIVE ThirdFrom(_, _, _)
ThirdFrom(seg, h, tries) ==
  LET t == Nth(ThirdCands, h) IN
  IF tries = 0 \/ (t # seg[1] /\ t # seg[2] /\ Cross2(seg[1], seg[2], t) # 0) THEN t ELSE ThirdFrom(seg, h + 1, tries - 1)
SegTri(seg, h) == LET t == ThirdFrom(seg, h, Len(ThirdCands)) IN
                  IF h % 2 = 0 THEN << seg[1], seg[2], t >> ELSE << seg[2], seg[1], t >>
(* -- grid3: triangles on the 3 x 3 grid of spacing 3 -- *)
G3Pts == { <<3 * i, 3 * j>> : i, j \in {-1, 0, 1} }
G3Cat == SetToSeq({ c \in { <<p, q, t>> : p, q, t \in G3Pts } : Cross2(c[1], c[2], c[3]) # 0 })
(* -- rand: any lattice points -- *)
PtSeq == SetToSeq(LPts)
RandContour(i, r, s) ==
  LET nv == IF HH(i, r, 90 + s) % 3 = 0 THEN 4 ELSE 3 IN
  [m \in 1..nv |-> Nth(PtSeq, HH(i, r, 10 * s + m))]

FamSize(f) == CASE f = "fan" -> Len(FanCat) [] f = "tipsX" -> Len(SegCat) [] f = "grid3" -> Len(G3Cat) [] f = "rand" -> 64
(* the contours of scene <<f, i, r>> *)
SceneContours(sc) ==
  LET f == sc[1]  i == sc[2]  r == sc[3] IN
  CASE f = "fan" ->
         LET n == 3 + (HH(i, r, 1) % 2) IN
         [m \in 1..n |-> IF m = 1 THEN FanCat[i] ELSE Nth(FanCat, HH(i, r, 10 + m))]
    [] f = "tipsX" ->
         LET s1 == SegCat[i]
             s2 == Nth(SegCat, HH(i, r, 2))
             nt == 2 + (IF HH(i, r, 3) % 3 = 0 THEN 1 ELSE 0)
         IN << SegTri(s1, HH(i, r, 4)), SegTri(s2, HH(i, r, 5)) >> \o [m \in 1..nt |-> Nth(TipCat, HH(i, r, 20 + m))]
    [] f = "grid3" ->
         LET n == 3 + (HH(i, r, 1) % 2) IN
         [m \in 1..n |-> IF m = 1 THEN G3Cat[i] ELSE Nth(G3Cat, HH(i, r, 10 + m))]
    [] f = "rand" ->
         LET n == 3 + (HH(i, r, 1) % 2) IN [m \in 1..n |-> RandContour(i, r, m)]
SceneOk(sc) ==
  /\ sc[1] = "tipsX" => CrossRightOfTip(SegCat[sc[2]], Nth(SegCat, HH(sc[2], sc[3], 2)))
  /\ LET cs == SceneContours(sc) IN \A k \in 1..Len(cs) : NonDegenerate(cs[k])
(* quick: every fourth catalogue entry of the big catalogues *)
RepsOf(f) == IF PTier = "q" THEN (CASE f = "fan" -> 1 [] f = "tipsX" -> 20 [] f = "grid3" -> 1 [] f = "rand" -> 2)
             ELSE (CASE f = "fan" -> 6 [] f = "tipsX" -> 200 [] f = "grid3" -> 6 [] f = "rand" -> 40)
FamIdx(f) == IF PTier = "q" /\ f \in {"fan", "grid3"} THEN { i \in 1..FamSize(f) : i % 4 = 1 } ELSE 1..FamSize(f)
Scenes(f) == { sc \in { <<f, i, r>> : i \in FamIdx(f), r \in 1..RepsOf(f) } : SceneOk(sc) }
(* the D4 element a scene is printed under (besides the identity) *)
SceneG(sc) == (HH(sc[2], sc[3], 77) % Len(D4Names)) + 1

(* ======================== the program of a scene ========================= *)
(* printed demand: per pixel with a sample inside, PixEnc * 256 + (bit k-1 set iff sample k is inside) *)
Pow2 == << 1, 2, 4, 8, 16, 32, 64, 128 >>
MaskEnc(D) == { e * 256 + SumSeq([k \in 1..NOff |-> IF e * NOff + (k - 1) \in D THEN Pow2[k] ELSE 0]) :
                e \in { id \div NOff : id \in D } }
PDemand(D) == [pix |-> MaskEnc(D), n |-> Cardinality(D), lat |-> FALSE]
Odds(n) == { i \in 1..n : i % 2 = 1 }
Evens(n) == { i \in 1..n : i % 2 = 0 }
(* the sample sets of the steps of a scene with contours cs *)
FillOf(w, rule) == { id \in SampIds : Inside(rule, w[id]) }
TotOf(wt, I) == TLCEval([id \in SampIds |-> SumSeq([i \in 1..Len(wt) |-> IF i \in I THEN wt[i][id] ELSE 0])])
DensOfTabs(wt) ==
  Val({ << FillOf(wAll, "Positive"), FillOf(wAll, "EvenOdd") >> \o single \o
        << BatchSem("Add", single), BatchSem("Subtract", single), BatchSem("Intersect", single),
           X, Y, BoolSem("Add", X, Y), BoolSem("Intersect", X, Y), BoolSem("Subtract", X, Y), BoolSem("Subtract", Y, X) >> :
        wAll \in {TotOf(wt, 1..Len(wt))},
        single \in {TLCEval([i \in 1..Len(wt) |-> FillOf(wt[i], "EvenOdd")])},
        X \in {FillOf(TotOf(wt, Odds(Len(wt))), "Positive")},
        Y \in {FillOf(TotOf(wt, Evens(Len(wt))), "Positive")} })
SceneDens(cs) == Val({ DensOfTabs(wt) : wt \in {TLCEval([i \in 1..Len(cs) |-> WTab(cs[i])])} })
PickSeq(cs, I) == SelectSeq([i \in 1..Len(cs) |-> <<i, cs[i]>>], LAMBDA t : t[1] \in I)
ContoursOfSet(cs, I) == LET ps == PickSeq(cs, I) IN [k \in 1..Len(ps) |-> Lat(ps[k][2])]
LeafRec(cs, I, rule) == [a |-> "Leaf", rule |-> rule, cs |-> ContoursOfSet(cs, I), via |-> "polys", o |-> 1]
(* the step records (without demands) *)
SceneSteps(cs) ==
  LET n == Len(cs)
      sing == [i \in 1..n |-> i + 2]
      b == n + 2
      bool(op, x, y, rel) == [a |-> "Bool", op |-> op, x |-> x, y |-> y, sym |-> Symmetric(op), o |-> 1,
                              form |-> << "method", "operator", "assign" >>[1 + ((x + y + n) % 3)], arel |-> rel]
      batch(op) == [a |-> "Batch", op |-> op, xs |-> sing, sym |-> Symmetric(op), o |-> 1]
  IN << LeafRec(cs, 1..n, "Positive"), LeafRec(cs, 1..n, "EvenOdd") >> \o
     [i \in 1..n |-> IF Len(cs[i]) = 3 THEN LeafRec(cs, {i}, "EvenOdd") @@ [area2 |-> Abs(Shoelace2(cs[i]))]
                     ELSE LeafRec(cs, {i}, "EvenOdd")] \o
     << batch("Add"), batch("Subtract"), batch("Intersect"),
        LeafRec(cs, Odds(n), "Positive"), LeafRec(cs, Evens(n), "Positive"),
        \* |X u Y| + |X n Y| = |X| + |Y|;  |X \ Y| + |X n Y| = |X|;  |Y \ X| + |X n Y| = |Y|
        bool("Add", b + 4, b + 5, << <<1, b + 6>>, <<1, b + 7>>, <<-1, b + 4>>, <<-1, b + 5>> >>),
        bool("Intersect", b + 4, b + 5, << >>),
        bool("Subtract", b + 4, b + 5, << <<1, b + 8>>, <<1, b + 7>>, <<-1, b + 4>> >>),
        bool("Subtract", b + 5, b + 4, << <<1, b + 9>>, <<1, b + 7>>, <<-1, b + 5>> >>) >>
ProgRec(cs, ds) == LET st == SceneSteps(cs) IN [k \in 1..Len(st) |-> st[k] @@ PDemand(ds[k])]

(* ======================== generator ====================================== *)
(* (TLC passes operator arguments and LET definitions by name: everything that is expensive is computed in *)
(* one step, stored in a state variable and only looked up afterwards)                                    *)
PInit == /\ scene \in UNION { Scenes(f) : f \in PFams }
         /\ prog = <<>> /\ den = <<>> /\ gden = <<>> /\ lat = <<>> /\ kind = "" /\ bucket = 0
PBuild == /\ kind = ""
          /\ den' = SceneDens(SceneContours(scene))
          /\ kind' = "dens" /\ UNCHANGED <<prog, gden, lat, bucket, scene>>
PImage == /\ kind = "dens"
          /\ gden' = [k \in 1..Len(den) |-> GMapSet(SceneG(scene), den[k])]
          /\ prog' = ProgRec(SceneContours(scene), den)
          /\ lat' = [k \in 1..Len(den) |-> FALSE]
          /\ kind' = "built" /\ UNCHANGED <<den, bucket, scene>>
PHeader(g) == [K |-> K, S |-> SS, offs |-> SOffs, fam |-> scene[1], g |-> g]
PFinish == /\ kind = "built"
           /\ (Emit => /\ PrintT(<<"BEH", ToJson(PHeader("ID") @@ [prog |-> prog])>>)
                       /\ LET gn == SceneG(scene)
                              cs == SceneContours(scene)
                          IN PrintT(<<"BEH", ToJson(PHeader(D4Names[gn]) @@
                                       [prog |-> ProgRec([k \in 1..Len(cs) |-> GContour(gn, cs[k])], gden)])>>))
           /\ kind' = "done" /\ UNCHANGED <<prog, den, gden, lat, bucket, scene>>
PNext == PBuild \/ PImage \/ PFinish
PSpec == PInit /\ [][PNext]_pvars

(* ======================== what TLC checks ================================ *)
Built == kind = "built"
PShape == Built => \A k \in 1..Len(SceneContours(scene)) : NonDegenerate(SceneContours(scene)[k])
PSetLaws ==
  Built =>
    LET n == Len(SceneContours(scene))
        sing == [i \in 1..n |-> den[i + 2]]
        b == n + 2
        X == den[b + 4]  Y == den[b + 5]
        Co(D) == SampIds \ D
        RECURSIVE XorFold(_, _)
        XorFold(i, acc) == IF i > n THEN acc ELSE XorFold(i + 1, (acc \ sing[i]) \cup (sing[i] \ acc))
        RECURSIVE Fold(_, _, _)
        Fold(op, i, acc) == IF i > n THEN acc ELSE Fold(op, i + 1, BoolSem(op, acc, sing[i]))
    IN /\ \A k \in 1..Len(den) : den[k] \subseteq SampIds
       /\ BoolSem("Add", X, Y) = BoolSem("Add", Y, X) /\ BoolSem("Intersect", X, Y) = BoolSem("Intersect", Y, X)
       /\ den[b + 6] = BoolSem("Add", X, Y) /\ den[b + 7] = BoolSem("Intersect", X, Y)
       /\ Co(den[b + 6]) = Co(X) \cap Co(Y)                       \* De Morgan
       /\ Co(den[b + 7]) = Co(X) \cup Co(Y)
       /\ den[b + 8] = X \cap Co(Y) /\ den[b + 9] = Y \cap Co(X)
       /\ Cardinality(den[b + 6]) + Cardinality(den[b + 7]) = Cardinality(X) + Cardinality(Y)
       /\ Cardinality(den[b + 8]) + Cardinality(den[b + 7]) = Cardinality(X)
       /\ den[2] = XorFold(1, {})                                 \* EvenOdd(all) = symmetric difference of the singles
       /\ den[1] \subseteq den[b + 1]                             \* positive winding => inside some contour
       /\ den[b + 1] = Fold("Add", 2, sing[1])
       /\ den[b + 2] = Fold("Subtract", 2, sing[1])
       /\ den[b + 3] = Fold("Intersect", 2, sing[1])
Audited == Built /\ (PTier # "q" \/ HH(scene[2], scene[3], 99) % 8 = 0)      \* (quick: every eighth scene)
PRays ==
  Audited => \A k \in 1..Len(SceneContours(scene)) :
     LET c == SceneContours(scene)[k]  sc == Sc(c) IN
     \A id \in BoxIds(c) : WindCX(sc, SXY[id]) = WindCY(sc, SXY[id])
(* winding numbers of the mapped contours at the mapped samples, recomputed directly *)
PCovariant ==
  Audited => LET gn == SceneG(scene) IN
     \A k \in 1..Len(SceneContours(scene)) :
        LET c == SceneContours(scene)[k]  sc == Sc(c)  gsc == Sc(GContour(gn, c)) IN
        \A id \in BoxIds(c) : WindCX(gsc, SXY[GMap[gn][id]]) = WindCX(sc, SXY[id])
=============================================================================
