----------------------------- MODULE Ctx_Trace -----------------------------
(* Validation of runs recorded from the real code (drive/cancel.cpp, the     *)
(* MANIFOLD_VERIF probe in IsCancelled) against the properties of Ctx.tla.   *)
(* One record per run: cancel injected at check k (k = 0: never), K checks   *)
(* in the uncancelled run, final status, emptiness, whether the export is    *)
(* bit-identical to the uncancelled run, and the (done,total) counters       *)
(* sampled at every check of the run.                                        *)
EXTENDS Naturals, Sequences, TLC, Json, IOUtils

Runs == ndJsonDeserialize(IOEnv.TRACE)
VARIABLE l
Init == l = 1
Next == l <= Len(Runs) /\ l' = l + 1

Monotone(s) == \A i \in 1..(Len(s) - 1) :
                  \/ s[i+1][2] # s[i][2]                      \* counters were reset for a new evaluation
                  \/ s[i+1][1] = 0                           \*   (the reset stores 0; consecutive sub-evaluations may have equal totals)
                  \/ s[i+1][1] >= s[i][1]
Bounded(s) == \A i \in 1..Len(s) : s[i][1] <= s[i][2] \/ s[i][2] = 0
RunOK(r) ==
  /\ r.st \in {"NoError", "Cancelled"}                               \* AllOrNothing:
  /\ (r.st = "Cancelled" => r.empty)                                 \*   nothing, or
  /\ (r.st = "NoError" => r.same)                                    \*   all (identical to the uncancelled run)
  /\ (r.k = 0 => r.st = "NoError" /\ r.fdone = r.ftotal)             \* CompletedMeansOne
  /\ (r.pre => r.st = "Cancelled")                                   \* ShortCircuit
  /\ r.fdone <= r.ftotal
  /\ Bounded(r.s)
  /\ (r.mono => Monotone(r.s))                                       \* ProgressMonotone within one evaluation
AllRunsOK == l <= Len(Runs) => RunOK(Runs[l])
Accepted == l = Len(Runs) + 1
=============================================================================
