---------------------------- MODULE MCProgram ----------------------------
(* Model-checking / generation instances of Program.tla.                  *)
EXTENDS Program

(* catalogue used for C03/C05: boxes of the K=2 window chosen so that      *)
(* overlap, face/edge/vertex contact, nesting, bbox-disjointness and       *)
(* whole-copy coincidence all occur                                        *)
Cat8 == { << <<-2,-2,-2>>, <<0,0,0>> >>,     \* A
          << <<-1,-1,-1>>, <<1,1,1>> >>,     \* B overlaps A in one cell
          << <<0,-2,-2>>,  <<2,0,0>> >>,     \* C shares a face with A
          << <<0,0,-2>>,   <<2,2,0>> >>,     \* D shares an edge with A
          << <<0,0,0>>,    <<2,2,2>> >>,     \* E shares a vertex with A
          << <<-2,-2,-2>>, <<2,2,2>> >>,     \* F the whole window (contains all)
          << <<-1,-1,-1>>, <<0,0,0>> >>,     \* G one cell inside A
          << <<1,1,1>>,    <<2,2,2>> >> }    \* H far corner cell, bbox-disjoint from A
Cat4 == { << <<-2,-2,-2>>, <<0,0,0>> >>, << <<-1,-1,-1>>, <<1,1,1>> >>,
          << <<0,-2,-2>>,  <<2,0,0>> >>, << <<1,1,1>>,    <<2,2,2>> >> }
MC_AllBoxes == AllBoxes
GensSmall == {"RZ", "MX", "TXP"}
GensAll == AllGens
AllOps == Ops
ActsC02 == {"Leaf", "Bool", "Force"}
ActsBool == {"Leaf", "Bool"}
ActsAll == AllActs
NoProps == {0}
BothProps == {0, 1}
ActsC03 == {"Leaf", "Bool", "BoolAssign", "Batch", "Xf", "XfAssign", "Copy", "Drop", "Force"}
ActsC05 == AllActs
ActsMC == {"Leaf","Bool","Xf","Copy","Assign","Drop","Force","Same","Split","Plane","BoolAssign"}
Cat2 == { << <<-1,-1,-1>>, <<0,0,1>> >>, << <<-1,-1,0>>, <<1,1,1>> >>, << <<0,0,0>>, <<1,1,1>> >> }
GensTiny == {"RZ", "MX"}
ActsC02sim == {"Leaf", "Bool", "Batch", "Split", "Plane", "Xf", "BoolAssign"}
(* C02 "derived operand" family: four bars/slabs of the K=2 window whose faces, edges and vertices   *)
(* coincide pairwise (every pair shares a plane; vertices of one lie on edges of another), so that  *)
(* operands that are themselves Boolean RESULTS (halfedge order decided by the Boolean, not by      *)
(* Cube) meet exact vertex-on-edge ties in the next Boolean.                                        *)
CatDerived == { << <<-1,0,-2>>,  <<0,2,1>> >>, << <<-1,0,-1>>,  <<0,2,2>> >>,
                << <<-1,-2,-1>>, <<1,0,1>> >>, << <<-2,-2,-1>>, <<1,1,0>> >> }
CatDerivedSeq == << << <<-1,0,-2>>,  <<0,2,1>> >>, << <<-1,0,-1>>,  <<0,2,2>> >>,
                    << <<-1,-2,-1>>, <<1,0,1>> >>, << <<-2,-2,-1>>, <<1,1,0>> >> >>
(* ACTION_CONSTRAINT of GenC02chain.cfg: the four boxes once each, in catalogue order, then a CHAIN *)
(* of three Booleans: every operand is used exactly once and, after the first Boolean, one operand  *)
(* is the newest result (a derived operand).  36 x 12 x 6 = 2592 programs, enumerated exhaustively.  *)
ChainAC ==
  /\ (kind = "" /\ kind' = "Bool") => NLeaves = 4
  /\ (Len(nodes') > Len(nodes)) =>
       LET nd == nodes'[Len(nodes')] IN
       /\ (nd.k = "leaf") => nd.box = CatDerivedSeq[Len(nodes')]
       /\ (nd.k = "op") =>
            /\ nd.ch[1] # nd.ch[2]
            /\ \A m \in 1..Len(nodes) : nodes[m].k = "op" =>
                 \A i \in 1..Len(nodes[m].ch) : nodes[m].ch[i] \notin {nd.ch[1], nd.ch[2]}
            /\ (Len(nodes) > 4) => Len(nodes) \in {nd.ch[1], nd.ch[2]}
=============================================================================
