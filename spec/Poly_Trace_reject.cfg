CONSTANTS Mode = "reject"
INIT Init
NEXT Next
INVARIANT Reject
INVARIANT SameClause
CHECK_DEADLOCK FALSE
