CONSTANTS N = 5
  Kind = "copyif"
  JoinOrder = "swapped"
  Emit = FALSE
INIT Init
NEXT Next
INVARIANT EqualsSequential
CHECK_DEADLOCK FALSE
