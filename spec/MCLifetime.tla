----------------------------- MODULE MCLifetime -----------------------------
EXTENDS Lifetime
T2 == {1, 2}
T3 == {1, 2, 3}
(* a context-carrying copy of H1 is evaluated while another thread evaluates copies of H2 and H1 *)
P_two == [t \in T2 |-> IF t = 1 THEN << <<"evalctx", "R1">> >> ELSE << <<"eval", "R2">>, <<"eval", "R1">> >>]
(* both roots observed through contexts, a third thread evaluates copies of both *)
P_three == [t \in T3 |-> CASE t = 1 -> << <<"evalctx", "R1">>, <<"eval", "R2">> >>
                            [] t = 2 -> << <<"evalctx", "R2">> >>
                            [] t = 3 -> << <<"eval", "R1">>, <<"evalctx", "R2">> >>]
(* no contexts at all: NumLeaves never runs *)
P_plain == [t \in T3 |-> CASE t = 1 -> << <<"eval", "R1">>, <<"eval", "R2">> >>
                            [] t = 2 -> << <<"eval", "R2">>, <<"eval", "R1">> >>
                            [] t = 3 -> << <<"eval", "R1">> >>]
=============================================================================
