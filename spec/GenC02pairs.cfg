\* C02: ALL ordered pairs of the 27 boxes of the 2x2x2 window x 3 operations
CONSTANTS K = 1
  LeafBoxes <- MC_AllBoxes
  GenNames <- GensSmall
  OpNames <- AllOps
  MaxLeaf = 2
  MaxNode = 3
  NH = 3
  Depth = 3
  Acts <- ActsBool
  LeafProps <- NoProps
  Emit = TRUE
INIT Init
NEXT Next

CHECK_DEADLOCK FALSE
