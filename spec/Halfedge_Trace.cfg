INIT TInit
NEXT TNext
INVARIANT MeshOK
CHECK_DEADLOCK FALSE
