\* C11: seeded programs over staircase ribbons with > 1024 edges (BVH broad phase of boolean2.cpp)
CONSTANTS K = 156
  Grid = 3
  LeafFam = "stair"
  GenNames = {"MX", "R90", "TXP", "TYM", "SWAP"}
  OpNames <- Ops2
  MaxLeaf = 2
  Depth = 4
  Acts = {"Leaf", "Bool", "Batch", "Xf"}
  ObsModes = {0, 1}
  Sample = TRUE
  Emit = TRUE
INIT Init
NEXT Next
INVARIANT EverythingInWindow
INVARIANT SetLaws
CHECK_DEADLOCK FALSE
