\* C03: seeded random expression DAGs x forcing orders x handle lifetimes
CONSTANTS K = 2
  LeafBoxes <- Cat8
  GenNames <- GensSmall
  OpNames <- AllOps
  MaxLeaf = 3
  MaxNode = 14
  NH = 8
  Depth = 11
  Acts <- ActsC03
  LeafProps <- NoProps
  Emit = TRUE
INIT Init
NEXT Next
CHECK_DEADLOCK FALSE
