\* C02 thorough: all two-operation programs over ordered pairs + all single ops over triples is too
\* large for BFS printing; this enumerates 3 leaves from the 27 boxes with one Batch of all three.
CONSTANTS K = 1
  LeafBoxes <- MC_AllBoxes
  GenNames <- GensSmall
  OpNames <- AllOps
  MaxLeaf = 2
  MaxNode = 4
  NH = 4
  Depth = 4
  Acts <- ActsBool
  LeafProps <- NoProps
  Emit = TRUE
INIT Init
NEXT Next
CHECK_DEADLOCK FALSE
