\* C11 (thorough): EVERY contour set of <= 2 catalogue contours (4x4-grid rectangles in both orientations,
\* bow-ties, self-overlapping loop, spike, pinch, diamonds ...) under both fill rules
CONSTANTS K = 4
  Grid = 4
  LeafFam = "fill"
  GenNames <- GensCore
  OpNames <- Ops2
  MaxLeaf = 1
  Depth = 1
  Acts = {"Leaf"}
  ObsModes = {1}
  Sample = FALSE
  Emit = TRUE
INIT Init
NEXT Next
INVARIANT EverythingInWindow
INVARIANT ContoursInWindow
CHECK_DEADLOCK FALSE
