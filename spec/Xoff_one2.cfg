CONSTANTS K = 5
  Families = {"r1"}
  Emit = TRUE
INIT Init
NEXT Next
CHECK_DEADLOCK FALSE
