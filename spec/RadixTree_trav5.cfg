CONSTANTS
 NS = {2,3,4,5}
 CodeMax = 7
 KInits = {128}
 Variants = {0}
 Level = 2
 Emit = FALSE
INIT InitTrav
NEXT NextTrav
INVARIANT TravInv
CHECK_DEADLOCK FALSE
