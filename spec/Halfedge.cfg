INIT Init
NEXT Next
INVARIANT SeedsClosed
INVARIANT CollapseLemma
INVARIANT CollapseNeedsLink
