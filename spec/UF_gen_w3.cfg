CONSTANTS N = 4
  Work <- W_3
  RankCas = TRUE
  Emit = TRUE
  MaxSwitch = 3
INIT Init
NEXT Next
INVARIANT PartitionCorrect
INVARIANT RootRank
INVARIANT Acyclic
CONSTRAINT SwitchBound
CHECK_DEADLOCK FALSE
