CONSTANTS
 NS = {2,3,4,5,6,7,9,11,14,20,109,110,112,115,117,120,125,133,140,155,170,200}
 CodeMax = 7
 KInits = {128}
 Variants = {0}
 Level = 1
 Emit = TRUE
INIT Init2D
NEXT Next2D
INVARIANT Inv2D
CHECK_DEADLOCK FALSE
