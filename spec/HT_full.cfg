CONSTANTS Size = 4
  StepC = 1
  Work <- W_a
  Claim = "cas"
  Emit = FALSE
  MaxSwitch = 99
INIT Init
NEXT Next
INVARIANT Retrievable
INVARIANT UsedCountsClaims
INVARIANT NoDuplicateKeys

CHECK_DEADLOCK FALSE
