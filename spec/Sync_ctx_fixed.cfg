CONSTANTS Threads <- T3
  Variant = "fixed"
  Programs <- P_ctx
INIT Init
NEXT Next
INVARIANT NoDataRace
