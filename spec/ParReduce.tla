----------------------------- MODULE ParReduce -----------------------------
(***************************************************************************)
(* oneTBB parallel_reduce as a protocol (C13, C04): the range is halved      *)
(* recursively; a body is split (Body(b, split)) ONLY when the right half    *)
(* is stolen, otherwise the same body goes on to the right half; a stolen    *)
(* right body is joined into the left one with left.join(right).             *)
(*                                                                          *)
(* (1) the functional form used by manifold::reduce / transform_reduce /     *)
(*     all_of / count_if (src/parallel.h:500-508): TBB re-seeds every split  *)
(*     body with its IDENTITY argument.  IdentityArg = "init" is what the    *)
(*     code on the pinned tree passes (its `init`), "identity" is a true     *)
(*     identity (0) with init folded in once.  TLC refutes                   *)
(*     ReduceEqualsSequential for "init" as soon as one steal happens and    *)
(*     init is not an identity of f - finding F4.                            *)
(* (2) the body form used by the radix sort (details::SortedRange,           *)
(*     parallel.h:275-325): operator()(range) sorts the sub-range and        *)
(*     appends it to the body's run (join); join merges two adjacent runs.   *)
(*     Invariant: the final run is the sorted input.  Every instance is      *)
(*     emitted as an operation list the driver executes on the real body.    *)
(***************************************************************************)
EXTENDS Naturals, Sequences, FiniteSets, TLC, Json, SequencesExt

CONSTANTS N, Keys, InitVal, IdentityArg, Emit

RECURSIVE Trees(_, _)
Trees(lo, hi) ==
  IF hi - lo <= 1 THEN { [lo |-> lo, hi |-> hi, kids |-> <<>>] }
  ELSE LET mid == lo + (hi - lo) \div 2 IN
       { [lo |-> lo, hi |-> hi, kids |-> <<>>] } \cup
       { [lo |-> lo, hi |-> hi, kids |-> <<l, r, s>>] : l \in Trees(lo, mid), r \in Trees(mid, hi), s \in BOOLEAN }

(* ---- (1) functional reduce over input 1..N with f = + -------------------- *)
In(i) == i + 1
RECURSIVE Sum(_, _)
Sum(lo, hi) == IF lo >= hi THEN 0 ELSE In(lo) + Sum(lo + 1, hi)
Seed == IF IdentityArg = "init" THEN InitVal ELSE 0
(* value of the body after processing tree t starting from value v *)
RECURSIVE Red(_, _)
Red(t, v) ==
  IF t.kids = <<>> THEN v + Sum(t.lo, t.hi)                   \* my_value = real_body(range, my_value)
  ELSE IF t.kids[3] THEN Red(t.kids[1], v) + Red(t.kids[2], Seed)   \* stolen: split body re-seeded, then joined
       ELSE Red(t.kids[2], Red(t.kids[1], v))
ReduceResult(t) == IF IdentityArg = "init" THEN Red(t, InitVal) ELSE InitVal + Red(t, 0)
ReduceEqualsSequential(t) == ReduceResult(t) = InitVal + Sum(0, N)
RECURSIVE Steals(_)
Steals(t) == IF t.kids = <<>> THEN 0 ELSE (IF t.kids[3] THEN 1 ELSE 0) + Steals(t.kids[1]) + Steals(t.kids[2])
(* what the spec allows an observed parallel result to be, given IdentityArg *)
PossibleResults == { ReduceResult(t) : t \in Trees(0, N) }

(* ---- (2) SortedRange protocol ---------------------------------------------- *)
Call(b, lo, hi) == [o |-> "call", b |-> b, lo |-> lo, hi |-> hi]
Split(nb, b) == [o |-> "split", b |-> nb, a |-> b]
Join(b, a) == [o |-> "join", b |-> b, a |-> a]          \* b.join(a): a is the RIGHT run
RECURSIVE SP(_, _, _)
SP(t, b, nb) ==     \* returns [ops, nb]
  IF t.kids = <<>> THEN [ops |-> << Call(b, t.lo, t.hi) >>, nb |-> nb]
  ELSE IF ~t.kids[3]
    THEN LET L == SP(t.kids[1], b, nb)  R == SP(t.kids[2], b, L.nb)
         IN [ops |-> L.ops \o R.ops, nb |-> R.nb]
    ELSE LET L == SP(t.kids[1], b, nb + 1)  R == SP(t.kids[2], nb, L.nb)
         IN [ops |-> << Split(nb, b) >> \o L.ops \o R.ops \o << Join(b, nb) >>, nb |-> R.nb]
SortOps(t) == SP(t, 1, 2).ops

(* transcription: a body is [off, len] (its run within the array) or empty; the *)
(* array content of a run is always sorted after call/join                      *)
RECURSIVE Ins(_, _)
Ins(x, s) == IF s = <<>> THEN <<x>> ELSE IF x <= Head(s) THEN <<x>> \o s ELSE <<Head(s)>> \o Ins(x, Tail(s))
RECURSIVE SortS(_)
SortS(s) == IF s = <<>> THEN <<>> ELSE Ins(Head(s), SortS(Tail(s)))
RECURSIVE ExecS(_, _, _, _)
ExecS(ops, k, runs, arr) ==      \* runs: body -> <<off, len>>, arr: the key array 1..N
  IF k > Len(ops) THEN [runs |-> runs, arr |-> arr]
  ELSE LET op == ops[k] IN
    CASE op.o = "split" -> ExecS(ops, k + 1, runs @@ (op.b :> <<0, 0>>), arr)
      [] op.o = "call"  ->
           LET piece == SortS(SubSeq(arr, op.lo + 1, op.hi))
               arr1 == [i \in 1..N |-> IF i > op.lo /\ i <= op.hi THEN piece[i - op.lo] ELSE arr[i]]
               r == runs[op.b]
           IN IF r[2] = 0 THEN ExecS(ops, k + 1, [runs EXCEPT ![op.b] = <<op.lo, op.hi - op.lo>>], arr1)
              ELSE \* join(rhs): runs must be adjacent; merge
                   LET m == SortS(SubSeq(arr1, r[1] + 1, op.hi))
                       arr2 == [i \in 1..N |-> IF i > r[1] /\ i <= op.hi THEN m[i - r[1]] ELSE arr1[i]]
                   IN ExecS(ops, k + 1, [runs EXCEPT ![op.b] = <<r[1], op.hi - r[1]>>], arr2)
      [] op.o = "join"  ->
           LET r == runs[op.b]  q == runs[op.a]
               m == SortS(SubSeq(arr, r[1] + 1, q[1] + q[2]))
               arr2 == [i \in 1..N |-> IF i > r[1] /\ i <= q[1] + q[2] THEN m[i - r[1]] ELSE arr[i]]
           IN ExecS(ops, k + 1, [runs EXCEPT ![op.b] = <<r[1], q[1] + q[2] - r[1]>>], arr2)
RunSort(t, arr) == ExecS(SortOps(t), 1, (1 :> <<0, 0>>), arr)

VARIABLES inst, done
Init == inst \in (Trees(0, N) \X [1..N -> Keys]) /\ done = FALSE
Next == /\ ~done /\ done' = TRUE /\ UNCHANGED inst
        /\ (Emit => PrintT(<<"BEH", ToJson([kind |-> "sortedrange", n |-> N, keys |-> inst[2], ops |-> SortOps(inst[1]),
                                            sorted |-> SortS(inst[2])])>>))
SortCorrect == LET r == RunSort(inst[1], inst[2]) IN r.arr = SortS(inst[2]) /\ r.runs[1] = <<0, N>>
ReduceOK == ReduceEqualsSequential(inst[1])
=============================================================================
