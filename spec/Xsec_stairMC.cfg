\* C11: the staircase-ribbon formula (StairPix) equals the fill of the staircase contour, small instances
CONSTANTS K = 5
  Grid = 3
  LeafFam = "stairMC"
  GenNames <- GensCore
  OpNames <- Ops2
  MaxLeaf = 1
  Depth = 1
  Acts = {"Leaf"}
  ObsModes = {1}
  Sample = FALSE
  Emit = TRUE
INIT Init
NEXT Next
INVARIANT StairSound
INVARIANT CentresOffEdges
INVARIANT RayIndependent
INVARIANT EverythingInWindow
INVARIANT ContoursInWindow
CHECK_DEADLOCK FALSE
