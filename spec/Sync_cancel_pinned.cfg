CONSTANTS Threads <- T2
  Variant = "pinned"
  Programs <- P_cancel
INIT Init
NEXT Next
INVARIANT NoDataRace
