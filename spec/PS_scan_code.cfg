CONSTANTS N = 5
  Kind = "scan"
  JoinOrder = "code"
  Emit = FALSE
INIT Init
NEXT Next
INVARIANT EqualsSequential
CHECK_DEADLOCK FALSE
