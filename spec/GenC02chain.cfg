\* C02: ALL chains of three Booleans over the four coincident bars/slabs (each used once): derived operands
CONSTANTS K = 2
  LeafBoxes <- CatDerived
  GenNames <- GensTiny
  OpNames <- AllOps
  MaxLeaf = 4
  MaxNode = 7
  NH = 7
  Depth = 7
  Acts <- ActsBool
  LeafProps <- NoProps
  Emit = TRUE
INIT Init
NEXT Next
ACTION_CONSTRAINT ChainAC
CHECK_DEADLOCK FALSE
