------------------------------- MODULE Expr -------------------------------
(***************************************************************************)
(* Annotated CSG expression trees/DAGs and the evaluator's rewrites (C03,   *)
(* C02, C05).  Where Program.tla lets TLC wander through arbitrary action   *)
(* sequences, this module enumerates EXPRESSIONS exhaustively by family:    *)
(* every tree shape, every operator assignment, every placement of (non-    *)
(* commuting) lattice transforms on leaves and interior nodes, and every    *)
(* OWNERSHIP of interior nodes -                                            *)
(*    "temp": a C++ temporary, uniquely owned when the root is forced       *)
(*            (the evaluator may collapse it into its parent),              *)
(*    "held": a live user handle keeps it (shared_ptr use_count > 2: must   *)
(*            not be collapsed; its own value must stay correct),           *)
(*    "pre" : held and forced BEFORE it is used (it is a leaf by then).     *)
(* Two denotations are defined and TLC checks that they agree on every      *)
(* enumerated expression (invariant RewritesSound):                         *)
(*    Den   - the meaning of the expression (Lattice.tla set algebra),      *)
(*    Eval  - a functional transcription of CsgOpNode::ToLeafNode           *)
(*            (csg_tree.cpp:711-748): collapse of same-operator unique      *)
(*            children with transform push-down T*node.t, negative-children *)
(*            propagation (a-b)-c = a-(b+c), flat batch at finalize,        *)
(*            cache_ = result transformed by the node's own transform.      *)
(* The driver (drive/expr.cpp) builds each expression with real C++ object  *)
(* lifetimes and compares root and every held node with Den.                *)
(***************************************************************************)
EXTENDS Lattice, TLC, Json, Sequences, FiniteSets, SequencesExt

CONSTANTS Family,    \* which family of expressions Init enumerates
          Emit

(* leaves: four boxes inside [-1,1]^3 with overlap, face contact, nesting   *)
LeafBox(i) ==
  CASE i = 1 -> << <<-1,-1,-1>>, <<1,1,1>> >>       \* the 2x2x2 cube
    [] i = 2 -> << <<0,-1,-1>>,  <<1,1,0>> >>       \* inside 1, touches its faces
    [] i = 3 -> << <<-1,0,0>>,   <<1,1,1>> >>       \* overlaps 1, edge contact with 2
    [] i = 4 -> << <<0,0,-1>>,   <<1,1,1>> >>       \* overlaps 2 and 3

Tf(name) == IF name = "none" THEN Id3 ELSE Gen(name)
NodeT == {"none", "RZ", "TXP"}        \* RZ and TXP do not commute
Own == {"temp", "held", "pre"}
OpsAS == {"Add", "Subtract"}

(* ---- tree families ------------------------------------------------------ *)
RECURSIVE Shapes(_, _, _, _, _, _)
(* trees over leaves f..f+n-1; ops from O, interior transforms from TI,     *)
(* leaf transforms from TL, ownership of non-root interior nodes from W     *)
Shapes(n, f, O, TI, TL, OW) ==
  IF n = 1 THEN { [k |-> "leaf", i |-> f, t |-> g] : g \in TL }
  ELSE UNION { { [k |-> "op", op |-> o, t |-> g, own |-> w, ch |-> <<l, r>>] :
                   l \in Shapes(m, f, O, TI, TL, OW), r \in Shapes(n - m, f + m, O, TI, TL, OW),
                   o \in O, g \in TI, w \in OW } : m \in 1..(n-1) }
Rooted(S) == { t \in S : t.k = "leaf" \/ t.own = "held" }   \* root ownership is irrelevant

(* T4: 4 leaves, all 5 shapes, Add/Subtract per node, transforms on the 3    *)
(*     interior nodes, ownership temp/held                                   *)
T4(dummy) == Rooted(Shapes(4, 1, OpsAS, NodeT, {"none"}, {"temp", "held"}))
(* I4: same with all-Intersect / mixed Intersect (BatchBoolean path)         *)
I4(dummy) == Rooted(Shapes(4, 1, {"Intersect", "Add"}, {"none", "RZ"}, {"none"}, {"temp", "held"}))
(* T3: 3 leaves, both shapes, all ops, transforms on leaves AND interior      *)
(*     nodes (pending leaf transforms: lazy bounding boxes), all ownerships   *)
T3(dummy) == Rooted(Shapes(3, 1, Ops, NodeT, NodeT, Own))
(* T2: 2 leaves exhaustively with the full generator set on the leaves       *)
T2(dummy) == Rooted(Shapes(2, 1, Ops, NodeT, {"none","RZ","TXP","MX","RX"}, {"held"}))
(* D3: a shared sub-expression s = (L1 o1 L2)[t] used twice under different   *)
(*     transforms: (s[a] o2 L3) o3 s[b]                                       *)
D3(dummy) == { [k |-> "let",
         def |-> [k |-> "op", op |-> o1, t |-> t0, own |-> w, ch |-> << [k |-> "leaf", i |-> 1, t |-> "none"],
                                                                       [k |-> "leaf", i |-> 2, t |-> "none"] >>],
         body |-> [k |-> "op", op |-> o3, t |-> "none", own |-> "held",
                   ch |-> << [k |-> "op", op |-> o2, t |-> "none", own |-> w2,
                              ch |-> << [k |-> "ref", t |-> a], [k |-> "leaf", i |-> 3, t |-> "none"] >>],
                             [k |-> "ref", t |-> b] >>]] :
        o1 \in Ops, o2 \in Ops, o3 \in Ops, t0 \in NodeT, a \in NodeT, b \in NodeT,
        w \in Own, w2 \in {"temp", "held"} }

(* (families take a dummy argument so that TLC does not pre-evaluate them all) *)
Fam(name) == CASE name = "T4" -> T4(0) [] name = "I4" -> I4(0) [] name = "T3" -> T3(0)
               [] name = "T2" -> T2(0) [] name = "D3" -> D3(0)

(* ---- meaning ------------------------------------------------------------- *)
RECURSIVE Den(_, _)
Den(n, s) ==      \* s: cells of the shared definition (for "ref")
  CASE n.k = "leaf" -> ApCells(Tf(n.t), BoxCells(LeafBox(n.i)))
    [] n.k = "ref"  -> ApCells(Tf(n.t), s)
    [] n.k = "op"   -> ApCells(Tf(n.t), BatchSem(n.op, [j \in 1..Len(n.ch) |-> Den(n.ch[j], s)]))
    [] n.k = "let"  -> Den(n.body, Den(n.def, {}))

(* ---- the evaluator's algorithm, functionally ------------------------------ *)
(* returns [pos, neg : Seq of cell sets]                                      *)
RECURSIVE EvalF(_, _, _, _, _)
EvalF(n, parentOp, T, top, s) ==
  IF n.k = "leaf" THEN [pos |-> << ApCells(Comp(T, Tf(n.t)), BoxCells(LeafBox(n.i))) >>, neg |-> <<>>]
  ELSE IF n.k = "ref" THEN [pos |-> << ApCells(Comp(T, Tf(n.t)), s) >>, neg |-> <<>>]  \* a cached/evaluated node is a leaf
  ELSE IF n.own = "pre" /\ ~top THEN [pos |-> << ApCells(T, Den(n, s)) >>, neg |-> <<>>]   \* already a leaf
  ELSE
    LET collapse == ~top /\ n.op = parentOp /\ n.own = "temp"
        TT == IF collapse THEN Comp(T, Tf(n.t)) ELSE Id3
        RECURSIVE Kids(_, _, _)
        Kids(j, pos, neg) ==
          IF j > Len(n.ch) THEN [pos |-> pos, neg |-> neg]
          ELSE LET negative == n.op = "Subtract" /\ j # 1
                   r == EvalF(n.ch[j], IF negative THEN "Add" ELSE n.op, TT, FALSE, s)
               IN IF negative THEN Kids(j + 1, pos, neg \o r.pos)     \* dest2 = nullptr: r.neg is empty
                  ELSE Kids(j + 1, pos \o r.pos, neg \o r.neg)
        k == Kids(1, <<>>, <<>>)
    IN IF collapse THEN k
       ELSE LET res == CASE n.op = "Add"       -> BatchSem("Add", k.pos)
                         [] n.op = "Intersect" -> BatchSem("Intersect", k.pos)
                         [] n.op = "Subtract"  -> BatchSem("Add", k.pos) \ BatchSem("Add", k.neg)
                cache == ApCells(Tf(n.t), res)
            IN [pos |-> << ApCells(T, cache) >>, neg |-> <<>>]
Eval(n) == IF n.k = "let" THEN EvalF(n.body, n.body.op, Id3, TRUE, Den(n.def, {})).pos[1]
           ELSE IF n.k = "leaf" THEN Den(n, {})
           ELSE EvalF(n, n.op, Id3, TRUE, {}).pos[1]

(* ---- what is emitted for the driver -------------------------------------- *)
RECURSIVE Annot(_, _)
Annot(n, s) ==
  CASE n.k = "leaf" -> [k |-> "leaf", box |-> LET b == LeafBox(n.i) IN <<b[1][1],b[1][2],b[1][3],b[2][1],b[2][2],b[2][3]>>, t |-> n.t]
    [] n.k = "ref"  -> [k |-> "ref", t |-> n.t]
    [] n.k = "op"   -> [k |-> "op", op |-> n.op, t |-> n.t, own |-> n.own,
                        ch |-> [j \in 1..Len(n.ch) |-> Annot(n.ch[j], s)],
                        cells |-> EncSet(Den(n, s)), vol |-> Cardinality(Den(n, s))]
    [] n.k = "let"  -> [k |-> "let", def |-> Annot(n.def, {}), body |-> Annot(n.body, Den(n.def, {}))]

(* ---- provenance (C07): the instances of every original -------------------- *)
(* every occurrence of leaf i in the expression is an INSTANCE of original i   *)
(* whose run transform is the composition of all transforms above it.          *)
RECURSIVE Inst(_, _, _)
Inst(n, T, sdef) ==     \* T: transform accumulated from the root; sdef: the shared definition (for "ref")
  CASE n.k = "leaf" -> { [i |-> n.i, g |-> Comp(T, Tf(n.t))] }
    [] n.k = "ref"  -> Inst(sdef, Comp(T, Tf(n.t)), sdef)
    [] n.k = "op"   -> UNION { Inst(n.ch[j], Comp(T, Tf(n.t)), sdef) : j \in 1..Len(n.ch) }
    [] n.k = "let"  -> Inst(n.body, T, n.def)
Instances(t) == Inst(t, Id3, [k |-> "leaf", i |-> 1, t |-> "none"])
InstJson(t) == SetToSeq({ [i |-> e.i, ax |-> e.g.ax, sg |-> e.g.sg, tr |-> e.g.tr] : e \in Instances(t) })

VARIABLES tree, done
Init == tree \in Fam(Family) /\ done = FALSE
Next == /\ ~done /\ done' = TRUE /\ UNCHANGED tree
        /\ (Emit => PrintT(<<"BEH", ToJson(Annot(tree, {}) @@ [inst |-> InstJson(tree)])>>))

(* the evaluator's rewrites are sound on every enumerated expression         *)
RewritesSound == Eval(tree) = Den(tree, {})
InsideWindow == InWindow(Den(tree, {}))
=============================================================================
