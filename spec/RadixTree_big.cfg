CONSTANTS
 NS = {129,160,257,600}
 CodeMax = 7
 KInits = {128}
 Variants = {0,1}
 Level = 1
 Emit = TRUE
INIT InitBig
NEXT NextBig
INVARIANT BigInv
CHECK_DEADLOCK FALSE
