-------------------------------- MODULE CApi --------------------------------
(***************************************************************************)
(* C20 - the C binding (bindings/c) is a faithful, memory-safe image of    *)
(* the C++ API.  Three families, selected by the constant Fam:             *)
(*                                                                         *)
(*  "life"  the LIFE-CYCLE of C objects.  The C API hands out raw storage  *)
(*          (manifold_alloc_<t>, or caller memory of manifold_<t>_size()   *)
(*          bytes), every constructor/operation placement-constructs its   *)
(*          result into the `void* mem` it is given, manifold_destruct_<t> *)
(*          runs the destructor, manifold_delete_<t> = destructor +        *)
(*          operator delete.  Two INDEPENDENT descriptions are kept side   *)
(*          by side and TLC checks them against each other on every        *)
(*          program of at most MaxCalls calls over NS slots:               *)
(*            ps  - the PROTOCOL automaton a C caller must follow          *)
(*                  Unalloc -> Raw(size) -> Live(type) -> Destructed ->    *)
(*                  Freed  (Legal(c) is its transition table), and         *)
(*            mm  - a MEMORY MODEL of what the C functions do (blocks      *)
(*                  owned/released, the C++ object living in a block,      *)
(*                  vector elements as copies); Apply(c) is total and      *)
(*                  records every memory error a call commits in `bad`.    *)
(*          Invariants: the protocol implies memory safety and no leak     *)
(*          (NoDoubleDestruct, NoUseAfterDestruct,                         *)
(*          ConstructOnlyIntoRawOfCorrectSize, NoLeakAtEnd, NoBadFree,     *)
(*          InBounds), the protocol state is an abstraction of the memory  *)
(*          (Refines), and the protocol is TIGHT: every call the protocol  *)
(*          forbids commits a memory error (GuardsTight) - "the only legal *)
(*          orders are the ones the model allows".  With Guarded = FALSE   *)
(*          (a C caller may call anything at any time) each invariant is   *)
(*          violated: the *_bad_* configurations demonstrate that.         *)
(*          Every COMPLETE legal program is printed, with the values the   *)
(*          memory model says each observation returns; drive/capi.cpp     *)
(*          executes it against the real functions for every handle type.  *)
(*                                                                         *)
(*  "ops"/"unit"  typed programs over the exported functions (table Fns:   *)
(*          name, operand kinds, result kind, argument domain), executed   *)
(*          call for call through the C surface and through the C++ API.   *)
(*          "unit": every row x every argument tuple once after the        *)
(*          standard prelude; "ops": seeded random compositions.           *)
(*                                                                         *)
(*  "enum"  the enum correspondences of bindings/c/conv.cpp by NAME.       *)
(***************************************************************************)
EXTENDS Integers, Sequences, FiniteSets, TLC, Json

CONSTANTS Fam,        \* "life" | "unit" | "ops" | "enum"
          NS,         \* life: number of slots (C pointer variables)
          MaxCalls,   \* life: bound on calls (BFS) / length at which closing starts (simulation)
          Guarded,    \* life: TRUE = only protocol-legal calls are taken
          Closing,    \* life: TRUE = simulation mode, after MaxCalls calls only closing calls are taken
          OpsLen,     \* ops: number of random steps after the prelude
          Emit

VARIABLES ps, mm, bad, hist, fin

(* ======================================================================= *)
(*                              life-cycle                                 *)
(* ======================================================================= *)
Slots == 1..NS
(* abstract handle types: E = element value (manifold / cross_section /     *)
(* simple_polygon), V = vector of E (manifold_vec / cross_section_vec /     *)
(* polygons), P = plain (box, rect, meshgl, meshgl64, triangulation,        *)
(* ray_hit_vec, execution_context)                                          *)
Types == {"E", "V", "P"}

P0 == [st |-> "Unalloc", org |-> "none", ty |-> "none"]
M0 == [blk |-> "none", cap |-> "none", obj |-> "none", val |-> <<>>]

(* value token of the k-th constructed object: 1, 2, 1, 2 ...  (0 = default *)
(* constructed element of a vector)                                         *)
NCtor(h) == Cardinality({i \in 1..Len(h) : h[i].op \in {"ctor"}})
Token(h) == 1 + (NCtor(h) % 2)

(* ---- the universe of calls a C program can make next -------------------- *)
Universe ==
     { [op |-> o, s |-> s, t |-> t] : o \in {"alloc", "malloc"}, s \in Slots, t \in Types }
  \cup { [op |-> "ctor", s |-> s, t |-> t, n |-> n] : s \in Slots, t \in {"E", "P"}, n \in {0} }
  \cup { [op |-> "ctor", s |-> s, t |-> "V", n |-> n] : s \in Slots, n \in 0..2 }
  \cup { [op |-> "copy", s |-> s, from |-> f] : s \in Slots, f \in Slots }
  \cup { [op |-> "push", s |-> s, from |-> f] : s \in Slots, f \in Slots }
  \cup { [op |-> "set", s |-> s, from |-> f, i |-> i] : s \in Slots, f \in Slots, i \in 0..2 }
  \cup { [op |-> "get", s |-> s, from |-> f, i |-> i] : s \in Slots, f \in Slots, i \in 0..2 }
  \cup { [op |-> o, s |-> s] : o \in {"use", "destruct", "delete", "free"}, s \in Slots }
  \cup { [op |-> "done"] }

(* ---- the protocol (what the header's comments and the README demand) ---- *)
CanHold(p, t) == p.st \in {"Raw", "Destructed"} /\ p.ty = t
IsLive(p, t) == p.st = "Live" /\ p.ty = t
VLen(s) == Len(mm[s].val)     \* the observable manifold_*_vec_length

Legal(c) ==
  CASE c.op \in {"alloc", "malloc"} -> ps[c.s].st \in {"Unalloc", "Freed"}
    [] c.op = "ctor"     -> CanHold(ps[c.s], c.t)
    [] c.op = "copy"     -> CanHold(ps[c.s], "E") /\ IsLive(ps[c.from], "E")
    [] c.op = "push"     -> IsLive(ps[c.s], "V") /\ IsLive(ps[c.from], "E")
    [] c.op = "set"      -> IsLive(ps[c.s], "V") /\ IsLive(ps[c.from], "E") /\ c.i < VLen(c.s)
    [] c.op = "get"      -> CanHold(ps[c.s], "E") /\ IsLive(ps[c.from], "V") /\ c.i < VLen(c.from)
    [] c.op = "use"      -> ps[c.s].st = "Live"
    [] c.op = "destruct" -> ps[c.s].st = "Live"
    [] c.op = "delete"   -> ps[c.s].st = "Live" /\ ps[c.s].org = "new"
    [] c.op = "free"     -> ps[c.s].st \in {"Raw", "Destructed"} /\ ps[c.s].org = "malloc"
    [] c.op = "done"     -> \A s \in Slots : ps[s].st \in {"Unalloc", "Freed"}

PNext(c) ==   \* protocol state after a LEGAL call
  CASE c.op = "alloc"    -> [ps EXCEPT ![c.s] = [st |-> "Raw", org |-> "new", ty |-> c.t]]
    [] c.op = "malloc"   -> [ps EXCEPT ![c.s] = [st |-> "Raw", org |-> "malloc", ty |-> c.t]]
    [] c.op \in {"ctor", "copy", "get"} -> [ps EXCEPT ![c.s].st = "Live"]
    [] c.op = "destruct" -> [ps EXCEPT ![c.s].st = "Destructed"]
    [] c.op \in {"delete", "free"} -> [ps EXCEPT ![c.s].st = "Freed"]
    [] OTHER -> ps

(* ---- the memory model (what the functions do, whatever the caller does) -- *)
Owned(m) == m.blk \in {"new", "malloc"}
(* placement construction of a `t` with value v into slot s *)
Place(s, t, v) ==
  [m |-> [mm EXCEPT ![s].obj = t, ![s].val = v],
   e |-> (IF ~Owned(mm[s]) THEN {"write-unowned"} ELSE {})
         \cup (IF Owned(mm[s]) /\ mm[s].cap # t THEN {"size-mismatch"} ELSE {})
         \cup (IF mm[s].obj # "none" THEN {"overwrite-live"} ELSE {})]
Reads(s, t) == IF mm[s].obj = t THEN {} ELSE {"use-nonlive"}
ElemOf(f) == IF mm[f].obj = "E" THEN mm[f].val ELSE <<0>>     \* an E's val is <<token>>

Apply(c, tok) ==   \* [m |-> memory after, e |-> errors committed]
  CASE c.op \in {"alloc", "malloc"} ->
         [m |-> [mm EXCEPT ![c.s] = [blk |-> IF c.op = "alloc" THEN "new" ELSE "malloc", cap |-> c.t,
                                     obj |-> "none", val |-> <<>>]],
          e |-> IF Owned(mm[c.s]) THEN {"leak-block"} ELSE {}]
    [] c.op = "ctor" ->
         Place(c.s, c.t, IF c.t = "V" THEN [k \in 1..c.n |-> 0] ELSE <<tok>>)
    [] c.op = "copy" ->
         LET p == Place(c.s, "E", ElemOf(c.from)) IN [m |-> p.m, e |-> p.e \cup Reads(c.from, "E")]
    [] c.op = "push" ->
         [m |-> [mm EXCEPT ![c.s].val = Append(@, ElemOf(c.from)[1])],
          e |-> Reads(c.s, "V") \cup Reads(c.from, "E")]
    [] c.op = "set" ->
         [m |-> IF c.i < VLen(c.s) THEN [mm EXCEPT ![c.s].val[c.i + 1] = ElemOf(c.from)[1]] ELSE mm,
          e |-> Reads(c.s, "V") \cup Reads(c.from, "E") \cup (IF c.i < VLen(c.s) THEN {} ELSE {"index-oob"})]
    [] c.op = "get" ->
         LET ok == mm[c.from].obj = "V" /\ c.i < VLen(c.from)
             p == Place(c.s, "E", IF ok THEN <<mm[c.from].val[c.i + 1]>> ELSE <<0>>)
         IN [m |-> p.m, e |-> p.e \cup Reads(c.from, "V")
                               \cup (IF mm[c.from].obj = "V" /\ ~(c.i < VLen(c.from)) THEN {"index-oob"} ELSE {})]
    [] c.op = "use" ->
         [m |-> mm, e |-> IF mm[c.s].obj = "none" THEN {"use-nonlive"} ELSE {}]
    [] c.op = "destruct" ->      \* runs ~T() on whatever is there
         [m |-> [mm EXCEPT ![c.s].obj = "none", ![c.s].val = <<>>],
          e |-> IF mm[c.s].obj = "none" THEN {"destruct-nonlive"} ELSE {}]
    [] c.op = "delete" ->        \* ~T() then ::operator delete
         [m |-> [mm EXCEPT ![c.s] = [blk |-> "gone", cap |-> "none", obj |-> "none", val |-> <<>>]],
          e |-> (IF mm[c.s].obj = "none" THEN {"destruct-nonlive"} ELSE {})
                \cup (IF mm[c.s].blk = "malloc" THEN {"dealloc-mismatch"} ELSE {})
                \cup (IF ~Owned(mm[c.s]) THEN {"free-unowned"} ELSE {})]
    [] c.op = "free" ->          \* the caller's free() of its own malloc()
         [m |-> [mm EXCEPT ![c.s] = [blk |-> "gone", cap |-> "none", obj |-> "none", val |-> <<>>]],
          e |-> (IF mm[c.s].obj # "none" THEN {"released-live"} ELSE {})
                \cup (IF mm[c.s].blk = "new" THEN {"dealloc-mismatch"} ELSE {})
                \cup (IF ~Owned(mm[c.s]) THEN {"free-unowned"} ELSE {})]
    [] c.op = "done" ->
         [m |-> mm, e |-> IF \E s \in Slots : Owned(mm[s]) THEN {"leak-at-end"} ELSE {}]

(* what the call is expected to let the caller observe (the driver compares) *)
Expect(c, m2) ==
  CASE c.op = "use" -> [c EXCEPT !.op = "use"] @@ [ty |-> ps[c.s].ty, exp |-> mm[c.s].val]
    [] c.op \in {"ctor", "copy", "get"} -> c @@ [ty |-> ps[c.s].ty, exp |-> m2[c.s].val]
    [] c.op \in {"push", "set"} -> c @@ [exp |-> m2[c.s].val]
    [] OTHER -> c

(* ---- generation constraints (not part of legality) ---------------------- *)
(* slots are taken into use in index order (they are interchangeable)        *)
InOrder(c) == c.op \in {"alloc", "malloc"} => \A s \in 1..(c.s - 1) : ps[s].st # "Unalloc"
(* calls still needed to bring a slot back to Freed                          *)
Need(p) == CASE p.st \in {"Unalloc", "Freed"} -> 0
             [] p.st = "Live" -> IF p.org = "new" THEN 1 ELSE 2
             [] OTHER -> IF p.org = "new" THEN 2 ELSE 1
RECURSIVE SumNeed(_, _)
SumNeed(q, s) == IF s = 0 THEN 0 ELSE Need(q[s]) + SumNeed(q, s - 1)
Completable(q, n) == n + SumNeed(q, NS) <= MaxCalls
(* closing calls: the shortest way out of every slot (simulation mode)       *)
IsClosing(c) == \/ c.op \in {"delete", "free", "done"}
                \/ c.op = "destruct" /\ ps[c.s].org = "malloc"
                \/ c.op = "ctor" /\ ps[c.s].org = "new"

LifeInit == /\ ps = [s \in Slots |-> P0] /\ mm = [s \in Slots |-> M0]
            /\ bad = {} /\ hist = <<>> /\ fin = FALSE

(* a cheap superset of the legal calls of a state (only to spare TLC the     *)
(* enumeration of the whole universe; Legal decides)                         *)
Plausible(s) ==
  CASE ps[s].st \in {"Unalloc", "Freed"} -> { [op |-> o, s |-> s, t |-> t] : o \in {"alloc", "malloc"}, t \in Types }
    [] ps[s].st \in {"Raw", "Destructed"} ->
         { [op |-> "ctor", s |-> s, t |-> ps[s].ty, n |-> n] : n \in IF ps[s].ty = "V" THEN 0..2 ELSE {0} }
         \cup { [op |-> "copy", s |-> s, from |-> f] : f \in Slots }
         \cup { [op |-> "get", s |-> s, from |-> f, i |-> i] : f \in Slots, i \in 0..2 }
         \cup { [op |-> "free", s |-> s] }
    [] OTHER ->
         { [op |-> o, s |-> s] : o \in {"use", "destruct", "delete"} }
         \cup { [op |-> "push", s |-> s, from |-> f] : f \in Slots }
         \cup { [op |-> "set", s |-> s, from |-> f, i |-> i] : f \in Slots, i \in 0..2 }
Cands == IF Guarded THEN UNION { Plausible(s) : s \in Slots } \cup { [op |-> "done"] } ELSE Universe

LifeNext ==
  /\ ~fin
  /\ \E c \in Cands :
       /\ Guarded => Legal(c)
       /\ InOrder(c)
       /\ (Closing /\ Len(hist) >= MaxCalls) => IsClosing(c)
       /\ LET r == Apply(c, Token(hist))
              q == IF Legal(c) THEN PNext(c) ELSE ps
          IN /\ (~Closing) => Completable(q, Len(hist) + 1) \/ c.op = "done"
             /\ ps' = q
             /\ mm' = r.m
             /\ bad' = bad \cup r.e
             /\ hist' = Append(hist, Expect(c, r.m))
             /\ fin' = (c.op = "done")
             /\ (Emit /\ c.op = "done" /\ Len(hist) > 0) =>
                   PrintT(<<"BEH", ToJson([fam |-> "life", calls |-> hist'])>>)

(* ---- invariants ---------------------------------------------------------- *)
NoDoubleDestruct == "destruct-nonlive" \notin bad
NoUseAfterDestruct == "use-nonlive" \notin bad
ConstructOnlyIntoRawOfCorrectSize == bad \cap {"write-unowned", "size-mismatch", "overwrite-live"} = {}
NoLeakAtEnd == bad \cap {"leak-at-end", "released-live", "leak-block"} = {}
NoBadFree == bad \cap {"dealloc-mismatch", "free-unowned"} = {}
InBounds == "index-oob" \notin bad
MemorySafe == bad = {}
(* the protocol state is an abstraction of the memory state                   *)
Refines == \A s \in Slots :
  /\ (ps[s].st = "Live") = (mm[s].obj # "none")
  /\ (ps[s].st = "Live") => mm[s].obj = ps[s].ty
  /\ (ps[s].st \in {"Raw", "Live", "Destructed"}) = Owned(mm[s])
  /\ Owned(mm[s]) => mm[s].cap = ps[s].ty /\ mm[s].blk = ps[s].org
  /\ (mm[s].obj = "E" => Len(mm[s].val) = 1) /\ (mm[s].obj = "P" => Len(mm[s].val) = 1)
(* every call outside the protocol commits a memory error                     *)
GuardsTight == fin \/ \A c \in Universe : Legal(c) \/ Apply(c, 1).e # {}
(* ... and no call inside it does                                             *)
LegalIsSafe == fin \/ \A c \in Universe : Legal(c) => Apply(c, 1).e = {}
(* the enumeration shortcut loses nothing                                     *)
ShortcutComplete == fin \/ \A c \in Universe : Legal(c) => c \in Cands
(* a finished program has given everything back                               *)
CleanAtEnd == fin => \A s \in Slots : ~Owned(mm[s]) /\ mm[s].obj = "none"

(* ======================================================================= *)
(*                 enum correspondences of conv.cpp, by name               *)
(* ======================================================================= *)
ErrorMap == <<
  <<"MANIFOLD_NO_ERROR", "NoError">>,
  <<"MANIFOLD_NON_FINITE_VERTEX", "NonFiniteVertex">>,
  <<"MANIFOLD_NOT_MANIFOLD", "NotManifold">>,
  <<"MANIFOLD_VERTEX_INDEX_OUT_OF_BOUNDS", "VertexOutOfBounds">>,
  <<"MANIFOLD_PROPERTIES_WRONG_LENGTH", "PropertiesWrongLength">>,
  <<"MANIFOLD_MISSING_POSITION_PROPERTIES", "MissingPositionProperties">>,
  <<"MANIFOLD_MERGE_VECTORS_DIFFERENT_LENGTHS", "MergeVectorsDifferentLengths">>,
  <<"MANIFOLD_MERGE_INDEX_OUT_OF_BOUNDS", "MergeIndexOutOfBounds">>,
  <<"MANIFOLD_TRANSFORM_WRONG_LENGTH", "TransformWrongLength">>,
  <<"MANIFOLD_RUN_INDEX_WRONG_LENGTH", "RunIndexWrongLength">>,
  <<"MANIFOLD_FACE_ID_WRONG_LENGTH", "FaceIDWrongLength">>,
  <<"MANIFOLD_INVALID_CONSTRUCTION", "InvalidConstruction">>,
  <<"MANIFOLD_RESULT_TOO_LARGE", "ResultTooLarge">>,
  <<"MANIFOLD_INVALID_TANGENTS", "InvalidTangents">>,
  <<"MANIFOLD_CANCELLED", "Cancelled">> >>
OpMap == << <<"MANIFOLD_ADD", "Add">>, <<"MANIFOLD_SUBTRACT", "Subtract">>, <<"MANIFOLD_INTERSECT", "Intersect">> >>
JoinMap == << <<"MANIFOLD_JOIN_TYPE_SQUARE", "Square">>, <<"MANIFOLD_JOIN_TYPE_ROUND", "Round">>,
              <<"MANIFOLD_JOIN_TYPE_MITER", "Miter">>, <<"MANIFOLD_JOIN_TYPE_BEVEL", "Bevel">> >>
EnumCases(dummy) ==
     { [fam |-> "enum", enum |-> "Error", c |-> ErrorMap[i][1], cpp |-> ErrorMap[i][2]] : i \in 1..Len(ErrorMap) }
  \cup { [fam |-> "enum", enum |-> "OpType", c |-> OpMap[i][1], cpp |-> OpMap[i][2]] : i \in 1..Len(OpMap) }
  \cup { [fam |-> "enum", enum |-> "JoinType", c |-> JoinMap[i][1], cpp |-> JoinMap[i][2]] : i \in 1..Len(JoinMap) }
OneToOne(m) == \A i, j \in 1..Len(m) : i # j => m[i][1] # m[j][1] /\ m[i][2] # m[j][2]
EnumMapsBijective == OneToOne(ErrorMap) /\ OneToOne(OpMap) /\ OneToOne(JoinMap)

(* ======================================================================= *)
(*          typed programs over the exported functions (faithfulness)      *)
(* ======================================================================= *)
(* register kinds and how many registers of each the programs use           *)
NReg == [M |-> 3, CS |-> 3, PG |-> 2, SP |-> 2, MG |-> 2, MG64 |-> 2, BX |-> 2, RC |-> 2,
         MV |-> 1, CV |-> 1, RH |-> 1, TR |-> 1, EC |-> 1]
Kinds == DOMAIN NReg

(* argument domains: small integer tuples, deliberately ASYMMETRIC so that a *)
(* swapped pair of arguments changes the result.  The row's divisor q turns  *)
(* them into doubles (value = entry / q) before BOTH calls are made.         *)
Dom(d) ==
  CASE d = "none"  -> { <<>> }
    [] d = "op"    -> { <<0>>, <<1>>, <<2>> }                      \* ManifoldOpType by ordinal of OpMap
    [] d = "v3"    -> { <<1, 2, 3>>, <<-3, 1, 2>> }
    [] d = "s3"    -> { <<1, 2, 3>>, <<2, -1, 1>> }
    [] d = "rot3"  -> { <<10, 20, 30>>, <<90, 0, 0>>, <<0, 0, -45>> }
    [] d = "plane" -> { <<1, 0, 0, 1>>, <<1, 2, 3, 2>>, <<0, -1, 1, -1>> }
    [] d = "m12"   -> { <<1,0,0, 0,1,0, 0,0,1, 2,3,4>>, <<0,1,0, -1,0,0, 0,0,1, 1,2,3>>, <<2,0,0, 0,3,0, 1,0,1, 0,0,5>> }
    [] d = "m6"    -> { <<1,0, 0,1, 2,3>>, <<0,1, -1,0, 1,2>>, <<2,0, 1,3, 0,5>> }
    [] d = "cube"  -> { <<2, 3, 4, 0>>, <<4, 2, 3, 1>>, <<-1, 1, 1, 0>> }      \* x y z center
    [] d = "cyl"   -> { <<4, 2, 1, 6, 0>>, <<3, 1, 2, 5, 1>>, <<2, 1, -1, 0, 0>> } \* h rLow rHigh seg center
    [] d = "sph"   -> { <<2, 8>>, <<3, 4>>, <<1, 0>> }                     \* radius segments
    [] d = "h"     -> { <<1>>, <<3>> }                                     \* slice height (q = 2)
    [] d = "ext"   -> { <<3, 0, 0, 1, 1>>, <<2, 2, 30, 1, 2>>, <<4, 1, 90, 2, 1>>, <<2, 1, 0, 0, 0>> } \* h slices twist sx sy
    [] d = "rev"   -> { <<0, 360>>, <<5, 360>>, <<6, 90>> }                \* segments degrees
    [] d = "n1"    -> { <<1>>, <<2>>, <<3>> }
    [] d = "len"   -> { <<3>>, <<7>> }                                     \* refine_to_length (q = 2)
    [] d = "tol"   -> { <<1>>, <<5>> }                                     \* tolerances (q = 100)
    [] d = "smo"   -> { <<600, 0>>, <<300, 5>> }                           \* minSharpAngle, minSmoothness (q = 10)
    [] d = "idx"   -> { <<0>>, <<1>>, <<2>> }                              \* container index, taken modulo the length
    [] d = "idx2"  -> { <<0, 1>>, <<1, 0>>, <<0, 2>> }
    [] d = "pts"   -> { <<0>>, <<1>>, <<2>> }                              \* which predefined point list
    [] d = "curv"  -> { <<0, 1>>, <<1, 0>> }                               \* gaussian_idx mean_idx
    [] d = "nrm"   -> { <<0, 60>>, <<3, 30>> }                             \* normal_idx min_sharp_angle
    [] d = "gap"   -> { <<1>>, <<10>> }
    [] d = "ray"   -> { <<-5, 1, 1, 5, 1, 2>>, <<1, 1, -5, 1, 2, 5>>, <<3, 3, 3, 4, 5, 6>> }
    [] d = "p3"    -> { <<1, 1, 1>>, <<5, 1, 1>>, <<1, 2, 3>> }
    [] d = "ls"    -> { <<1, 0, -2>>, <<2, 1, 1>> }                         \* edge_length(q) level tolerance
    [] d = "sq"    -> { <<3, 2, 0>>, <<2, 5, 1>> }                         \* x y center
    [] d = "cir"   -> { <<2, 6>>, <<1, 0>>, <<3, 5>> }
    [] d = "v2"    -> { <<1, 2>>, <<-3, 1>> }
    [] d = "pt2"   -> { <<1, 2>>, <<-3, 1>>, <<2, 4>> }                    \* (2,4) is inside rect 1, (4,2) is not
    [] d = "pt3"   -> { <<1, 2, 3>>, <<-3, 1, 2>>, <<2, 4, 6>> }           \* (2,4,6) is inside box 1, no permutation of it is
    [] d = "deg"   -> { <<30>>, <<90>>, <<-45>> }
    [] d = "off"   -> { <<1, 0, 4, 0>>, <<1, 1, 4, 6>>, <<1, 2, 6, 0>>, <<-1, 2, 4, 0>>, <<1, 3, 4, 0>>, <<2, 1, 4, 0>> } \* delta(q) join miter seg
    [] d = "r4"    -> { <<0, 1, 3, 5>>, <<4, 2, 1, 0>> }
    [] d = "b6"    -> { <<0, 1, 2, 3, 5, 7>>, <<4, 2, 6, 1, 0, 3>> }
    [] d = "mopt"  -> { <<0>>, <<1>>, <<2>>, <<3>>, <<4>>, <<5>>, <<6>>, <<7>> }        \* which optional arrays the mesh is rebuilt with
    [] d = "sm"    -> { <<0>>, <<1>>, <<2>> }                              \* which sharpened-edge list
    [] d = "nidx"  -> { <<-1>>, <<0>> }
    [] d = "q"     -> { <<0>>, <<1>>, <<2>> }                              \* which quality setting
    [] d = "ids"   -> { <<1>>, <<3>> }
    [] d = "np"    -> { <<1>>, <<3>> }                                     \* set_properties: number of properties
    [] d = "obj"   -> { <<0>>, <<1>> }

R(n, a, r, p, q) == [n |-> n, a |-> a, r |-> r, p |-> p, q |-> q]
(* r: result kind; "-" = a value compared on the spot; "!" = mutates operand 1; "MM" = a pair of M *)
Fns == {
  \* ---- polygons
  R("simple_polygon", <<>>, "SP", "pts", 1), R("polygons", <<"SP", "SP">>, "PG", "none", 1),
  R("polygons_get_simple", <<"PG">>, "SP", "idx", 1),
  R("simple_polygon_length", <<"SP">>, "-", "none", 1), R("polygons_length", <<"PG">>, "-", "none", 1),
  R("polygons_simple_length", <<"PG">>, "-", "idx", 1), R("simple_polygon_get_point", <<"SP">>, "-", "idx", 1),
  R("polygons_get_point", <<"PG">>, "-", "idx2", 1),
  \* ---- meshes
  R("meshgl", <<"MG">>, "MG", "none", 1), R("meshgl_w_tangents", <<"MG">>, "MG", "none", 1),
  R("meshgl_w_options", <<"MG">>, "MG", "mopt", 1), R("get_meshgl", <<"M">>, "MG", "none", 1),
  R("get_meshgl_w_normals", <<"M">>, "MG", "nidx", 1), R("meshgl_copy", <<"MG">>, "MG", "none", 1),
  R("meshgl_merge", <<"MG">>, "MG", "none", 1),
  R("meshgl64", <<"MG64">>, "MG64", "none", 1), R("meshgl64_w_tangents", <<"MG64">>, "MG64", "none", 1),
  R("meshgl64_w_options", <<"MG64">>, "MG64", "mopt", 1), R("get_meshgl64", <<"M">>, "MG64", "none", 1),
  R("get_meshgl64_w_normals", <<"M">>, "MG64", "nidx", 1), R("meshgl64_copy", <<"MG64">>, "MG64", "none", 1),
  R("meshgl64_merge", <<"MG64">>, "MG64", "none", 1),
  R("meshgl_backside", <<"MG">>, "-", "idx", 1), R("meshgl_has_normals", <<"MG">>, "-", "idx", 1),
  R("meshgl64_backside", <<"MG64">>, "-", "idx", 1), R("meshgl64_has_normals", <<"MG64">>, "-", "idx", 1),
  \* ---- SDF
  R("level_set", <<"BX">>, "M", "ls", 2), R("level_set_seq", <<"BX">>, "M", "ls", 2),
  \* ---- vectors
  R("manifold_empty_vec", <<>>, "MV", "none", 1), R("manifold_vec", <<>>, "MV", "n1", 1),
  R("manifold_vec_reserve", <<"MV">>, "!", "n1", 1), R("manifold_vec_length", <<"MV">>, "-", "none", 1),
  R("manifold_vec_get", <<"MV">>, "M", "idx", 1), R("manifold_vec_set", <<"MV", "M">>, "!", "idx", 1),
  R("manifold_vec_push_back", <<"MV", "M">>, "!", "none", 1),
  R("cross_section_empty_vec", <<>>, "CV", "none", 1), R("cross_section_vec", <<>>, "CV", "n1", 1),
  R("cross_section_vec_reserve", <<"CV">>, "!", "n1", 1), R("cross_section_vec_length", <<"CV">>, "-", "none", 1),
  R("cross_section_vec_get", <<"CV">>, "CS", "idx", 1), R("cross_section_vec_set", <<"CV", "CS">>, "!", "idx", 1),
  R("cross_section_vec_push_back", <<"CV", "CS">>, "!", "none", 1),
  \* ---- Booleans
  R("boolean", <<"M", "M">>, "M", "op", 1), R("batch_boolean", <<"MV">>, "M", "op", 1),
  R("union", <<"M", "M">>, "M", "none", 1), R("difference", <<"M", "M">>, "M", "none", 1),
  R("intersection", <<"M", "M">>, "M", "none", 1), R("split", <<"M", "M">>, "MM", "none", 1),
  R("split_by_plane", <<"M">>, "MM", "plane", 1), R("trim_by_plane", <<"M">>, "M", "plane", 1),
  R("minkowski_sum", <<"M", "M">>, "M", "none", 1), R("minkowski_difference", <<"M", "M">>, "M", "none", 1),
  \* ---- 3D to 2D, hulls
  R("slice", <<"M">>, "PG", "h", 2), R("project", <<"M">>, "PG", "none", 1),
  R("hull", <<"M">>, "M", "none", 1), R("batch_hull", <<"MV">>, "M", "none", 1), R("hull_pts", <<>>, "M", "pts", 1),
  \* ---- transformations
  R("translate", <<"M">>, "M", "v3", 1), R("rotate", <<"M">>, "M", "rot3", 1), R("scale", <<"M">>, "M", "s3", 1),
  R("transform", <<"M">>, "M", "m12", 1), R("mirror", <<"M">>, "M", "v3", 1), R("warp", <<"M">>, "M", "n1", 1),
  R("smooth_by_normals", <<"M">>, "M", "none", 1), R("smooth_out", <<"M">>, "M", "smo", 10),
  R("refine", <<"M">>, "M", "n1", 1), R("refine_to_length", <<"M">>, "M", "len", 2),
  R("refine_to_tolerance", <<"M">>, "M", "tol", 100), R("set_tolerance", <<"M">>, "M", "tol", 100),
  R("simplify", <<"M">>, "M", "tol", 100),
  \* ---- shapes / constructors
  R("empty", <<>>, "M", "none", 1), R("copy", <<"M">>, "M", "none", 1), R("tetrahedron", <<>>, "M", "none", 1),
  R("cube", <<>>, "M", "cube", 1), R("cylinder", <<>>, "M", "cyl", 1), R("sphere", <<>>, "M", "sph", 1),
  R("of_meshgl", <<"MG">>, "M", "none", 1), R("of_meshgl64", <<"MG64">>, "M", "none", 1),
  R("smooth", <<"MG">>, "M", "sm", 1), R("smooth64", <<"MG64">>, "M", "sm", 1),
  R("extrude", <<"PG">>, "M", "ext", 1), R("revolve", <<"PG">>, "M", "rev", 1),
  R("compose", <<"MV">>, "M", "none", 1), R("decompose", <<"M">>, "MV", "none", 1),
  R("as_original", <<"M">>, "M", "none", 1),
  \* ---- info
  R("is_empty", <<"M">>, "-", "none", 1), R("status", <<"M">>, "-", "none", 1),
  R("with_context", <<"M", "EC">>, "M", "none", 1),
  R("num_vert", <<"M">>, "-", "none", 1), R("num_edge", <<"M">>, "-", "none", 1), R("num_tri", <<"M">>, "-", "none", 1),
  R("num_prop", <<"M">>, "-", "none", 1), R("bounding_box", <<"M">>, "BX", "none", 1),
  R("epsilon", <<"M">>, "-", "none", 1), R("get_tolerance", <<"M">>, "-", "none", 1),
  R("num_prop_vert", <<"M">>, "-", "none", 1), R("genus", <<"M">>, "-", "none", 1),
  R("surface_area", <<"M">>, "-", "none", 1), R("volume", <<"M">>, "-", "none", 1),
  R("get_circular_segments", <<>>, "-", "n1", 2), R("original_id", <<"M">>, "-", "none", 1),
  R("reserve_ids", <<>>, "-", "ids", 1), R("set_properties", <<"M">>, "M", "np", 1),
  R("calculate_curvature", <<"M">>, "M", "curv", 1), R("min_gap", <<"M", "M">>, "-", "gap", 1),
  R("calculate_normals", <<"M">>, "M", "nrm", 1),
  R("ray_cast", <<"M">>, "RH", "ray", 2), R("ray_hit_vec_length", <<"RH">>, "-", "none", 1),
  R("ray_hit_vec_get", <<"RH">>, "-", "idx", 1), R("winding_number", <<"M">>, "-", "p3", 2),
  \* ---- execution context
  R("execution_context", <<>>, "EC", "none", 1), R("execution_context_cancel", <<"EC">>, "!", "none", 1),
  R("execution_context_cancelled", <<"EC">>, "-", "none", 1), R("execution_context_progress", <<"EC">>, "-", "none", 1),
  R("execution_context_level_set", <<"EC", "BX">>, "M", "ls", 2),
  R("execution_context_level_set_seq", <<"EC", "BX">>, "M", "ls", 2),
  R("execution_context_of_meshgl", <<"EC", "MG">>, "M", "none", 1),
  R("execution_context_of_meshgl64", <<"EC", "MG64">>, "M", "none", 1),
  R("execution_context_smooth", <<"EC", "MG">>, "M", "sm", 1),
  R("execution_context_smooth64", <<"EC", "MG64">>, "M", "sm", 1),
  \* ---- cross sections
  R("cross_section_empty", <<>>, "CS", "none", 1), R("cross_section_copy", <<"CS">>, "CS", "none", 1),
  R("cross_section_of_simple_polygon", <<"SP">>, "CS", "none", 1), R("cross_section_of_polygons", <<"PG">>, "CS", "none", 1),
  R("cross_section_even_odd_simple_polygon", <<"SP">>, "CS", "none", 1),
  R("cross_section_even_odd_polygons", <<"PG">>, "CS", "none", 1),
  R("cross_section_square", <<>>, "CS", "sq", 1), R("cross_section_circle", <<>>, "CS", "cir", 1),
  R("cross_section_decompose", <<"CS">>, "CV", "none", 1),
  R("cross_section_boolean", <<"CS", "CS">>, "CS", "op", 1), R("cross_section_batch_boolean", <<"CV">>, "CS", "op", 1),
  R("cross_section_union", <<"CS", "CS">>, "CS", "none", 1), R("cross_section_difference", <<"CS", "CS">>, "CS", "none", 1),
  R("cross_section_intersection", <<"CS", "CS">>, "CS", "none", 1),
  R("cross_section_hull", <<"CS">>, "CS", "none", 1), R("cross_section_batch_hull", <<"CV">>, "CS", "none", 1),
  R("cross_section_hull_simple_polygon", <<"SP">>, "CS", "none", 1), R("cross_section_hull_polygons", <<"PG">>, "CS", "none", 1),
  R("cross_section_translate", <<"CS">>, "CS", "v2", 1), R("cross_section_rotate", <<"CS">>, "CS", "deg", 1),
  R("cross_section_scale", <<"CS">>, "CS", "v2", 1), R("cross_section_mirror", <<"CS">>, "CS", "v2", 1),
  R("cross_section_transform", <<"CS">>, "CS", "m6", 1), R("cross_section_warp_context", <<"CS">>, "CS", "n1", 1),
  R("cross_section_simplify", <<"CS">>, "CS", "tol", 100), R("cross_section_set_tolerance", <<"CS">>, "CS", "tol", 100),
  R("cross_section_offset", <<"CS">>, "CS", "off", 2),
  R("cross_section_area", <<"CS">>, "-", "none", 1), R("cross_section_get_tolerance", <<"CS">>, "-", "none", 1),
  R("cross_section_num_vert", <<"CS">>, "-", "none", 1), R("cross_section_num_contour", <<"CS">>, "-", "none", 1),
  R("cross_section_is_empty", <<"CS">>, "-", "none", 1), R("cross_section_bounds", <<"CS">>, "RC", "none", 1),
  R("cross_section_to_polygons", <<"CS">>, "PG", "none", 1),
  \* ---- rectangles
  R("rect", <<>>, "RC", "r4", 1), R("rect_min", <<"RC">>, "-", "none", 1), R("rect_max", <<"RC">>, "-", "none", 1),
  R("rect_dimensions", <<"RC">>, "-", "none", 1), R("rect_center", <<"RC">>, "-", "none", 1),
  R("rect_scale", <<"RC">>, "-", "none", 1), R("rect_contains_pt", <<"RC">>, "-", "pt2", 1),
  R("rect_contains_rect", <<"RC", "RC">>, "-", "none", 1), R("rect_include_pt", <<"RC">>, "!", "pt2", 1),
  R("rect_union", <<"RC", "RC">>, "RC", "none", 1), R("rect_transform", <<"RC">>, "RC", "m6", 1),
  R("rect_translate", <<"RC">>, "RC", "v2", 1), R("rect_mul", <<"RC">>, "RC", "v2", 1),
  R("rect_does_overlap_rect", <<"RC", "RC">>, "-", "none", 1), R("rect_is_empty", <<"RC">>, "-", "none", 1),
  R("rect_is_finite", <<"RC">>, "-", "none", 1),
  \* ---- boxes
  R("box", <<>>, "BX", "b6", 1), R("box_min", <<"BX">>, "-", "none", 1), R("box_max", <<"BX">>, "-", "none", 1),
  R("box_dimensions", <<"BX">>, "-", "none", 1), R("box_center", <<"BX">>, "-", "none", 1),
  R("box_scale", <<"BX">>, "-", "none", 1), R("box_contains_pt", <<"BX">>, "-", "pt3", 1),
  R("box_contains_box", <<"BX", "BX">>, "-", "none", 1), R("box_include_pt", <<"BX">>, "!", "pt3", 1),
  R("box_union", <<"BX", "BX">>, "BX", "none", 1), R("box_transform", <<"BX">>, "BX", "m12", 1),
  R("box_translate", <<"BX">>, "BX", "v3", 1), R("box_mul", <<"BX">>, "BX", "s3", 1),
  R("box_does_overlap_pt", <<"BX">>, "-", "pt3", 1), R("box_does_overlap_box", <<"BX", "BX">>, "-", "none", 1),
  R("box_is_finite", <<"BX">>, "-", "none", 1),
  \* ---- quality globals
  R("set_min_circular_angle", <<>>, "-", "q", 1), R("set_min_circular_edge_length", <<>>, "-", "q", 1),
  R("set_circular_segments", <<>>, "-", "q", 1), R("reset_to_circular_defaults", <<>>, "-", "none", 1),
  \* ---- triangulation
  R("triangulate", <<"PG">>, "TR", "tol", 100), R("triangulation_num_tri", <<"TR">>, "-", "none", 1),
  R("triangulation_tri_verts", <<"TR">>, "-", "none", 1),
  \* ---- OBJ I/O
  R("read_obj", <<>>, "M", "obj", 1), R("meshgl64_read_obj", <<>>, "MG64", "obj", 1),
  R("write_obj", <<"M">>, "-", "none", 1), R("meshgl64_write_obj", <<"MG64">>, "-", "none", 1)
}

FnNamed(n) == CHOOSE f \in Fns : f.n = n
OutKinds(f) == IF f.r = "MM" THEN <<"M", "M">> ELSE IF f.r \in Kinds THEN <<f.r>> ELSE <<>>
Sig(f) == [a |-> f.a, o |-> OutKinds(f)]
Step(n, in, out, p) == [f |-> n, in |-> in, out |-> out, p |-> p, q |-> FnNamed(n).q, sig |-> Sig(FnNamed(n))]

(* the standard prelude: fills every register; itself a typed program        *)
Prelude == <<
  Step("cube", <<>>, <<1>>, <<2, 3, 4, 0>>),
  Step("sphere", <<>>, <<2>>, <<2, 8>>),
  Step("translate", <<2>>, <<2>>, <<1, 2, 3>>),
  Step("tetrahedron", <<>>, <<3>>, <<>>),
  Step("cross_section_square", <<>>, <<1>>, <<3, 2, 0>>),
  Step("cross_section_circle", <<>>, <<2>>, <<2, 6>>),
  Step("cross_section_translate", <<2>>, <<2>>, <<1, 2>>),
  Step("cross_section_difference", <<1, 2>>, <<3>>, <<>>),
  Step("cross_section_to_polygons", <<3>>, <<1>>, <<>>),
  Step("simple_polygon", <<>>, <<1>>, <<0>>),
  Step("simple_polygon", <<>>, <<2>>, <<1>>),
  Step("polygons", <<1, 2>>, <<2>>, <<>>),
  Step("calculate_normals", <<1>>, <<3>>, <<0, 60>>),
  Step("get_meshgl", <<3>>, <<1>>, <<>>),
  Step("get_meshgl", <<2>>, <<2>>, <<>>),
  Step("get_meshgl64", <<3>>, <<1>>, <<>>),
  Step("get_meshgl64", <<2>>, <<2>>, <<>>),
  Step("box", <<>>, <<1>>, <<0, 1, 2, 3, 5, 7>>),
  Step("bounding_box", <<2>>, <<2>>, <<>>),
  Step("rect", <<>>, <<1>>, <<0, 1, 3, 5>>),
  Step("cross_section_bounds", <<2>>, <<2>>, <<>>),
  Step("manifold_empty_vec", <<>>, <<1>>, <<>>),
  Step("manifold_vec_push_back", <<1, 1>>, <<>>, <<>>),
  Step("manifold_vec_push_back", <<1, 2>>, <<>>, <<>>),
  Step("cross_section_empty_vec", <<>>, <<1>>, <<>>),
  Step("cross_section_vec_push_back", <<1, 1>>, <<>>, <<>>),
  Step("cross_section_vec_push_back", <<1, 2>>, <<>>, <<>>),
  Step("ray_cast", <<1>>, <<1>>, <<-5, 1, 1, 5, 1, 2>>),
  Step("triangulate", <<1>>, <<1>>, <<1>>),
  Step("execution_context", <<>>, <<1>>, <<>>) >>

(* which registers hold an object: regs[k] = set of indices                  *)
RegsAfter(regs, st) ==
  LET f == FnNamed(st.f) ok == OutKinds(f)
  IN [k \in Kinds |-> regs[k] \cup {st.out[j] : j \in {j \in 1..Len(ok) : ok[j] = k}}]
WellTypedStep(regs, st) ==
  LET f == FnNamed(st.f)
  IN /\ Len(st.in) = Len(f.a) /\ \A j \in 1..Len(f.a) : st.in[j] \in regs[f.a[j]]
     /\ Len(st.out) = Len(OutKinds(f)) /\ \A j \in 1..Len(st.out) : st.out[j] \in 1..NReg[OutKinds(f)[j]]
     /\ (f.r = "MM" => st.out[1] # st.out[2])
     /\ st.p \in Dom(f.p) /\ st.q = f.q /\ st.sig = Sig(f)
RECURSIVE RegsOf(_, _)
RegsOf(prog, n) == IF n = 0 THEN [k \in Kinds |-> {}] ELSE RegsAfter(RegsOf(prog, n - 1), prog[n])
RECURSIVE WTFrom(_, _, _)
WTFrom(prog, n, regs) == n > Len(prog) \/ (WellTypedStep(regs, prog[n]) /\ WTFrom(prog, n + 1, RegsAfter(regs, prog[n])))
WellTyped(prog) == WTFrom(prog, 1, [k \in Kinds |-> {}])
AllSet(regs) == \A k \in Kinds : regs[k] = 1..NReg[k]

(* random compositions leave out the two argument tuples that are known to stop the   *)
(* process (merge vectors of different lengths, see known_findings F20-1/F20-2)      *)
DomR(d) == IF d = "mopt" THEN Dom(d) \ { <<5>>, <<6>> } ELSE Dom(d)
NeedsNormals == {"smooth_by_normals", "get_meshgl_w_normals", "get_meshgl64_w_normals"}
(* every way of calling row f in register state regs *)
RECURSIVE Tuples(_, _, _)
Tuples(kinds, j, sets) == IF j > Len(kinds) THEN { <<>> }
                          ELSE { <<x>> \o t : x \in sets[kinds[j]], t \in Tuples(kinds, j + 1, sets) }
StepsOf(f, regs) ==
  { [f |-> f.n, in |-> i, out |-> o, p |-> p, q |-> f.q, sig |-> Sig(f)] :
      i \in Tuples(f.a, 1, regs),
      o \in { oo \in Tuples(OutKinds(f), 1, [k \in Kinds |-> 1..NReg[k]]) : f.r = "MM" => oo[1] # oo[2] },
      p \in DomR(f.p) }
(* unit family: first operand registers only, every argument tuple          *)
UnitSteps(f) ==
  { [f |-> f.n, in |-> [j \in 1..Len(f.a) |-> IF f.n \in NeedsNormals THEN 3 ELSE IF j > 1 /\ f.a[j] = f.a[1] THEN 2 ELSE 1],
     out |-> IF f.r = "MM" THEN <<3, 1>> ELSE IF f.r \in Kinds THEN <<NReg[f.r]>> ELSE <<>>, p |-> p, q |-> f.q, sig |-> Sig(f)] : p \in Dom(f.p) }

OpsInit ==
  /\ ps = RegsOf(Prelude, Len(Prelude)) /\ mm = <<>> /\ bad = {} /\ fin = FALSE
  /\ IF Fam = "unit" THEN hist \in { <<s>> : s \in UNION { UnitSteps(f) : f \in Fns } }
     ELSE hist = <<>>
EmitOps(h) == PrintT(<<"BEH", ToJson([fam |-> "ops", prelude |-> Prelude, steps |-> h])>>)
OpsNext ==
  /\ ~fin
  /\ IF Fam = "unit"
     THEN /\ fin' = TRUE /\ UNCHANGED <<ps, mm, bad, hist>> /\ (Emit => EmitOps(hist))
     ELSE \/ /\ Len(hist) < OpsLen
             /\ \E f \in {RandomElement(Fns)} : \E st \in {RandomElement(StepsOf(f, ps))} :
                  /\ hist' = Append(hist, st) /\ ps' = RegsAfter(ps, st)
             /\ UNCHANGED <<mm, bad, fin>>
          \/ /\ Len(hist) = OpsLen /\ fin' = TRUE /\ UNCHANGED <<ps, mm, bad, hist>>
             /\ (Emit => EmitOps(hist))
(* invariants of the typed programs *)
PreludeTyped == WellTyped(Prelude) /\ AllSet(RegsOf(Prelude, Len(Prelude)))
ProgramTyped == fin => WellTyped(Prelude \o hist)
NamesUnique == \A f, g \in Fns : f.n = g.n => f = g

EnumInit == /\ ps = <<>> /\ mm = <<>> /\ bad = {} /\ fin = FALSE /\ hist \in { <<c>> : c \in EnumCases(0) }
EnumNext == /\ ~fin /\ fin' = TRUE /\ UNCHANGED <<ps, mm, bad, hist>>
            /\ (Emit => PrintT(<<"BEH", ToJson(hist[1])>>))

Init == CASE Fam = "life" -> LifeInit [] Fam = "enum" -> EnumInit [] OTHER -> OpsInit
Next == CASE Fam = "life" -> LifeNext [] Fam = "enum" -> EnumNext [] OTHER -> OpsNext
=============================================================================
