---- MODULE MCUnionFind_TTrace_1790197543 ----
EXTENDS Sequences, TLCExt, MCUnionFind, Toolbox, Naturals, TLC

_expression ==
    LET MCUnionFind_TEExpression == INSTANCE MCUnionFind_TEExpression
    IN MCUnionFind_TEExpression!expression
----

_trace ==
    LET MCUnionFind_TETrace == INSTANCE MCUnionFind_TETrace
    IN MCUnionFind_TETrace!trace
----

_inv ==
    ~(
        TLCGet("level") = Len(_TETrace)
        /\
        r2 = (<<0, 0>>)
        /\
        which = (<<2, 2>>)
        /\
        cur = (<<2, 0>>)
        /\
        data = ((0 :> <<1, 0>> @@ 1 :> <<1, 1>> @@ 2 :> <<0, 1>>))
        /\
        last = (0)
        /\
        switches = (0)
        /\
        pc = (<<"Done", "Done">>)
        /\
        sched = (<<>>)
        /\
        v = (<<<<0, 0>>, <<0, 0>>>>)
        /\
        id2 = (<<1, 0>>)
        /\
        id1 = (<<2, 1>>)
        /\
        job = (<<2, 2>>)
        /\
        r1 = (<<0, 0>>)
    )
----

_init ==
    /\ cur = _TETrace[1].cur
    /\ job = _TETrace[1].job
    /\ v = _TETrace[1].v
    /\ pc = _TETrace[1].pc
    /\ r1 = _TETrace[1].r1
    /\ r2 = _TETrace[1].r2
    /\ data = _TETrace[1].data
    /\ sched = _TETrace[1].sched
    /\ last = _TETrace[1].last
    /\ switches = _TETrace[1].switches
    /\ id1 = _TETrace[1].id1
    /\ id2 = _TETrace[1].id2
    /\ which = _TETrace[1].which
----

_next ==
    /\ \E i,j \in DOMAIN _TETrace:
        /\ \/ /\ j = i + 1
              /\ i = TLCGet("level")
        /\ cur  = _TETrace[i].cur
        /\ cur' = _TETrace[j].cur
        /\ job  = _TETrace[i].job
        /\ job' = _TETrace[j].job
        /\ v  = _TETrace[i].v
        /\ v' = _TETrace[j].v
        /\ pc  = _TETrace[i].pc
        /\ pc' = _TETrace[j].pc
        /\ r1  = _TETrace[i].r1
        /\ r1' = _TETrace[j].r1
        /\ r2  = _TETrace[i].r2
        /\ r2' = _TETrace[j].r2
        /\ data  = _TETrace[i].data
        /\ data' = _TETrace[j].data
        /\ sched  = _TETrace[i].sched
        /\ sched' = _TETrace[j].sched
        /\ last  = _TETrace[i].last
        /\ last' = _TETrace[j].last
        /\ switches  = _TETrace[i].switches
        /\ switches' = _TETrace[j].switches
        /\ id1  = _TETrace[i].id1
        /\ id1' = _TETrace[j].id1
        /\ id2  = _TETrace[i].id2
        /\ id2' = _TETrace[j].id2
        /\ which  = _TETrace[i].which
        /\ which' = _TETrace[j].which

\* Uncomment the ASSUME below to write the states of the error trace
\* to the given file in Json format. Note that you can pass any tuple
\* to `JsonSerialize`. For example, a sub-sequence of _TETrace.
    \* ASSUME
    \*     LET J == INSTANCE Json
    \*         IN J!JsonSerialize("MCUnionFind_TTrace_1790197543.json", _TETrace)

=============================================================================

 Note that you can extract this module `MCUnionFind_TEExpression`
  to a dedicated file to reuse `expression` (the module in the 
  dedicated `MCUnionFind_TEExpression.tla` file takes precedence 
  over the module `MCUnionFind_TEExpression` below).

---- MODULE MCUnionFind_TEExpression ----
EXTENDS Sequences, TLCExt, MCUnionFind, Toolbox, Naturals, TLC

expression == 
    [
        \* To hide variables of the `MCUnionFind` spec from the error trace,
        \* remove the variables below.  The trace will be written in the order
        \* of the fields of this record.
        cur |-> cur
        ,job |-> job
        ,v |-> v
        ,pc |-> pc
        ,r1 |-> r1
        ,r2 |-> r2
        ,data |-> data
        ,sched |-> sched
        ,last |-> last
        ,switches |-> switches
        ,id1 |-> id1
        ,id2 |-> id2
        ,which |-> which
        
        \* Put additional constant-, state-, and action-level expressions here:
        \* ,_stateNumber |-> _TEPosition
        \* ,_curUnchanged |-> cur = cur'
        
        \* Format the `cur` variable as Json value.
        \* ,_curJson |->
        \*     LET J == INSTANCE Json
        \*     IN J!ToJson(cur)
        
        \* Lastly, you may build expressions over arbitrary sets of states by
        \* leveraging the _TETrace operator.  For example, this is how to
        \* count the number of times a spec variable changed up to the current
        \* state in the trace.
        \* ,_curModCount |->
        \*     LET F[s \in DOMAIN _TETrace] ==
        \*         IF s = 1 THEN 0
        \*         ELSE IF _TETrace[s].cur # _TETrace[s-1].cur
        \*             THEN 1 + F[s-1] ELSE F[s-1]
        \*     IN F[_TEPosition - 1]
    ]

=============================================================================



Parsing and semantic processing can take forever if the trace below is long.
 In this case, it is advised to uncomment the module below to deserialize the
 trace from a generated binary file.

\*
\*---- MODULE MCUnionFind_TETrace ----
\*EXTENDS IOUtils, MCUnionFind, TLC
\*
\*trace == IODeserialize("MCUnionFind_TTrace_1790197543.bin", TRUE)
\*
\*=============================================================================
\*

---- MODULE MCUnionFind_TETrace ----
EXTENDS MCUnionFind, TLC

trace == 
    <<
    ([r2 |-> <<0, 0>>,which |-> <<1, 1>>,cur |-> <<0, 0>>,data |-> (0 :> <<0, 0>> @@ 1 :> <<0, 1>> @@ 2 :> <<0, 2>>),last |-> 0,switches |-> 0,pc |-> <<"Start", "Start">>,sched |-> <<>>,v |-> <<<<0, 0>>, <<0, 0>>>>,id2 |-> <<0, 0>>,id1 |-> <<0, 0>>,job |-> <<1, 1>>,r1 |-> <<0, 0>>]),
    ([r2 |-> <<0, 0>>,which |-> <<1, 1>>,cur |-> <<1, 0>>,data |-> (0 :> <<0, 0>> @@ 1 :> <<0, 1>> @@ 2 :> <<0, 2>>),last |-> 0,switches |-> 0,pc |-> <<"FindTest", "Start">>,sched |-> <<>>,v |-> <<<<0, 0>>, <<0, 0>>>>,id2 |-> <<2, 0>>,id1 |-> <<1, 0>>,job |-> <<1, 1>>,r1 |-> <<0, 0>>]),
    ([r2 |-> <<0, 0>>,which |-> <<2, 1>>,cur |-> <<2, 0>>,data |-> (0 :> <<0, 0>> @@ 1 :> <<0, 1>> @@ 2 :> <<0, 2>>),last |-> 0,switches |-> 0,pc |-> <<"FindTest", "Start">>,sched |-> <<>>,v |-> <<<<0, 0>>, <<0, 0>>>>,id2 |-> <<2, 0>>,id1 |-> <<1, 0>>,job |-> <<1, 1>>,r1 |-> <<0, 0>>]),
    ([r2 |-> <<0, 0>>,which |-> <<2, 1>>,cur |-> <<2, 1>>,data |-> (0 :> <<0, 0>> @@ 1 :> <<0, 1>> @@ 2 :> <<0, 2>>),last |-> 0,switches |-> 0,pc |-> <<"FindTest", "FindTest">>,sched |-> <<>>,v |-> <<<<0, 0>>, <<0, 0>>>>,id2 |-> <<2, 0>>,id1 |-> <<1, 1>>,job |-> <<1, 1>>,r1 |-> <<0, 0>>]),
    ([r2 |-> <<0, 0>>,which |-> <<2, 2>>,cur |-> <<2, 0>>,data |-> (0 :> <<0, 0>> @@ 1 :> <<0, 1>> @@ 2 :> <<0, 2>>),last |-> 0,switches |-> 0,pc |-> <<"FindTest", "FindTest">>,sched |-> <<>>,v |-> <<<<0, 0>>, <<0, 0>>>>,id2 |-> <<2, 0>>,id1 |-> <<1, 1>>,job |-> <<1, 1>>,r1 |-> <<0, 0>>]),
    ([r2 |-> <<0, 0>>,which |-> <<2, 2>>,cur |-> <<2, 0>>,data |-> (0 :> <<0, 0>> @@ 1 :> <<0, 1>> @@ 2 :> <<0, 2>>),last |-> 0,switches |-> 0,pc |-> <<"Eq", "FindTest">>,sched |-> <<>>,v |-> <<<<0, 0>>, <<0, 0>>>>,id2 |-> <<2, 0>>,id1 |-> <<1, 1>>,job |-> <<1, 1>>,r1 |-> <<0, 0>>]),
    ([r2 |-> <<0, 0>>,which |-> <<2, 2>>,cur |-> <<2, 0>>,data |-> (0 :> <<0, 0>> @@ 1 :> <<0, 1>> @@ 2 :> <<0, 2>>),last |-> 0,switches |-> 0,pc |-> <<"Rk1", "FindTest">>,sched |-> <<>>,v |-> <<<<0, 0>>, <<0, 0>>>>,id2 |-> <<2, 0>>,id1 |-> <<1, 1>>,job |-> <<1, 1>>,r1 |-> <<0, 0>>]),
    ([r2 |-> <<0, 0>>,which |-> <<2, 2>>,cur |-> <<2, 0>>,data |-> (0 :> <<0, 0>> @@ 1 :> <<0, 1>> @@ 2 :> <<0, 2>>),last |-> 0,switches |-> 0,pc |-> <<"Rk2", "FindTest">>,sched |-> <<>>,v |-> <<<<0, 0>>, <<0, 0>>>>,id2 |-> <<2, 0>>,id1 |-> <<1, 1>>,job |-> <<1, 1>>,r1 |-> <<0, 0>>]),
    ([r2 |-> <<0, 0>>,which |-> <<2, 2>>,cur |-> <<2, 0>>,data |-> (0 :> <<0, 0>> @@ 1 :> <<0, 1>> @@ 2 :> <<0, 2>>),last |-> 0,switches |-> 0,pc |-> <<"Cas1", "FindTest">>,sched |-> <<>>,v |-> <<<<0, 0>>, <<0, 0>>>>,id2 |-> <<1, 0>>,id1 |-> <<2, 1>>,job |-> <<1, 1>>,r1 |-> <<0, 0>>]),
    ([r2 |-> <<0, 0>>,which |-> <<2, 2>>,cur |-> <<2, 0>>,data |-> (0 :> <<0, 0>> @@ 1 :> <<0, 1>> @@ 2 :> <<0, 2>>),last |-> 0,switches |-> 0,pc |-> <<"Cas1", "Eq">>,sched |-> <<>>,v |-> <<<<0, 0>>, <<0, 0>>>>,id2 |-> <<1, 0>>,id1 |-> <<2, 1>>,job |-> <<1, 1>>,r1 |-> <<0, 0>>]),
    ([r2 |-> <<0, 0>>,which |-> <<2, 2>>,cur |-> <<2, 0>>,data |-> (0 :> <<0, 0>> @@ 1 :> <<0, 1>> @@ 2 :> <<0, 2>>),last |-> 0,switches |-> 0,pc |-> <<"Cas1", "Rk1">>,sched |-> <<>>,v |-> <<<<0, 0>>, <<0, 0>>>>,id2 |-> <<1, 0>>,id1 |-> <<2, 1>>,job |-> <<1, 1>>,r1 |-> <<0, 0>>]),
    ([r2 |-> <<0, 0>>,which |-> <<2, 2>>,cur |-> <<2, 0>>,data |-> (0 :> <<0, 0>> @@ 1 :> <<0, 1>> @@ 2 :> <<0, 2>>),last |-> 0,switches |-> 0,pc |-> <<"Cas1", "Rk2">>,sched |-> <<>>,v |-> <<<<0, 0>>, <<0, 0>>>>,id2 |-> <<1, 0>>,id1 |-> <<2, 1>>,job |-> <<1, 1>>,r1 |-> <<0, 0>>]),
    ([r2 |-> <<0, 0>>,which |-> <<2, 2>>,cur |-> <<2, 0>>,data |-> (0 :> <<0, 0>> @@ 1 :> <<0, 1>> @@ 2 :> <<0, 1>>),last |-> 0,switches |-> 0,pc |-> <<"Cas2", "Rk2">>,sched |-> <<>>,v |-> <<<<0, 0>>, <<0, 0>>>>,id2 |-> <<1, 0>>,id1 |-> <<2, 1>>,job |-> <<1, 1>>,r1 |-> <<0, 0>>]),
    ([r2 |-> <<0, 0>>,which |-> <<2, 2>>,cur |-> <<2, 0>>,data |-> (0 :> <<0, 0>> @@ 1 :> <<0, 1>> @@ 2 :> <<0, 1>>),last |-> 0,switches |-> 0,pc |-> <<"Cas2", "Cas1">>,sched |-> <<>>,v |-> <<<<0, 0>>, <<0, 0>>>>,id2 |-> <<1, 0>>,id1 |-> <<2, 1>>,job |-> <<1, 1>>,r1 |-> <<0, 0>>]),
    ([r2 |-> <<0, 0>>,which |-> <<2, 2>>,cur |-> <<2, 0>>,data |-> (0 :> <<0, 0>> @@ 1 :> <<0, 0>> @@ 2 :> <<0, 1>>),last |-> 0,switches |-> 0,pc |-> <<"Cas2", "Cas2">>,sched |-> <<>>,v |-> <<<<0, 0>>, <<0, 0>>>>,id2 |-> <<1, 0>>,id1 |-> <<2, 1>>,job |-> <<1, 1>>,r1 |-> <<0, 0>>]),
    ([r2 |-> <<0, 0>>,which |-> <<2, 2>>,cur |-> <<2, 0>>,data |-> (0 :> <<0, 0>> @@ 1 :> <<1, 1>> @@ 2 :> <<0, 1>>),last |-> 0,switches |-> 0,pc |-> <<"Start", "Cas2">>,sched |-> <<>>,v |-> <<<<0, 0>>, <<0, 0>>>>,id2 |-> <<1, 0>>,id1 |-> <<2, 1>>,job |-> <<2, 1>>,r1 |-> <<0, 0>>]),
    ([r2 |-> <<0, 0>>,which |-> <<2, 2>>,cur |-> <<2, 0>>,data |-> (0 :> <<0, 0>> @@ 1 :> <<1, 1>> @@ 2 :> <<0, 1>>),last |-> 0,switches |-> 0,pc |-> <<"Done", "Cas2">>,sched |-> <<>>,v |-> <<<<0, 0>>, <<0, 0>>>>,id2 |-> <<1, 0>>,id1 |-> <<2, 1>>,job |-> <<2, 1>>,r1 |-> <<0, 0>>]),
    ([r2 |-> <<0, 0>>,which |-> <<2, 2>>,cur |-> <<2, 0>>,data |-> (0 :> <<1, 0>> @@ 1 :> <<1, 1>> @@ 2 :> <<0, 1>>),last |-> 0,switches |-> 0,pc |-> <<"Done", "Start">>,sched |-> <<>>,v |-> <<<<0, 0>>, <<0, 0>>>>,id2 |-> <<1, 0>>,id1 |-> <<2, 1>>,job |-> <<2, 2>>,r1 |-> <<0, 0>>]),
    ([r2 |-> <<0, 0>>,which |-> <<2, 2>>,cur |-> <<2, 0>>,data |-> (0 :> <<1, 0>> @@ 1 :> <<1, 1>> @@ 2 :> <<0, 1>>),last |-> 0,switches |-> 0,pc |-> <<"Done", "Done">>,sched |-> <<>>,v |-> <<<<0, 0>>, <<0, 0>>>>,id2 |-> <<1, 0>>,id1 |-> <<2, 1>>,job |-> <<2, 2>>,r1 |-> <<0, 0>>])
    >>
----


=============================================================================

---- CONFIG MCUnionFind_TTrace_1790197543 ----
CONSTANTS
    N = 3
    Work <- W_race
    RankCas = FALSE
    Emit = FALSE
    MaxSwitch = 99

INVARIANT
    _inv

CHECK_DEADLOCK
    \* CHECK_DEADLOCK off because of PROPERTY or INVARIANT above.
    FALSE

INIT
    _init

NEXT
    _next

CONSTANT
    _TETrace <- _trace

ALIAS
    _expression
=============================================================================
\* Generated on Wed Sep 23 21:06:03 UTC 2026