\* C11: every catalogue contour alone, both fill rules; validates the exact winding oracle itself
CONSTANTS K = 4
  Grid = 3
  LeafFam = "single"
  GenNames <- GensCore
  OpNames <- Ops2
  MaxLeaf = 1
  Depth = 1
  Acts = {"Leaf"}
  ObsModes = {1}
  Sample = FALSE
  Emit = TRUE
INIT Init
NEXT Next
INVARIANT CentresOffEdges
INVARIANT RayIndependent
INVARIANT ReverseNegates
INVARIANT GroupCovariant
INVARIANT FillIsRule
INVARIANT EverythingInWindow
INVARIANT ContoursInWindow
CHECK_DEADLOCK FALSE
