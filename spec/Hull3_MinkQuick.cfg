CONSTANTS K = 4
  Families = {"MK2", "MD2", "MKb2"}
  Emit = TRUE
INIT Init
NEXT Next
INVARIANT RefIsHull
INVARIANT SpansIffVolume
INVARIANT ExtremeAgree
INVARIANT SplitSound
INVARIANT RejectsDamaged
INVARIANT MinkAlgebra
INVARIANT TraceConsistent
CHECK_DEADLOCK FALSE
