CONSTANTS
  Fam = "life"
  NS = 2
  MaxCalls = 4
  Guarded = FALSE
  Closing = FALSE
  OpsLen = 0
  Emit = FALSE
INIT Init
NEXT Next
CHECK_DEADLOCK FALSE
INVARIANT NoDoubleDestruct
