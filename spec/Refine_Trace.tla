---------------------------- MODULE Refine_Trace ----------------------------
(* Validation of the partitions RETURNED BY THE IMPLEMENTATION against        *)
(* Refine!ValidPartition.  The ndjson file named by the environment variable  *)
(* REFINE_TRACE holds one record per partition, written by drive/refine.cpp   *)
(* from manifold::verif::GetPartition / ReindexPartition: the boundary layout *)
(* demanded by the specification (corner, edge, io - copied from the case     *)
(* Refine.tla printed) and what the implementation produced (tris, ninter,    *)
(* and for cached patterns the classified barycentric points: loc, tok, sgn). *)
(* TLC evaluates the TLA+ predicate on every record and prints the verdict;   *)
(* checks/C19.py turns a failed clause into a violation and compares with the *)
(* driver's own C++ transcription of the predicate.                           *)
EXTENDS Refine

Runs == ndJsonDeserialize(IOEnv.REFINE_TRACE)
TInit == /\ done = FALSE
         /\ \E i \in 1..Len(Runs) : cs = [kind |-> "trace", in |-> i]
TNext == /\ ~done /\ done' = TRUE
         /\ cs' = [kind |-> "trace", f |-> TraceVerdict(Runs[cs.in])]
         /\ PrintT(<<"BEH", ToJson(cs'.f)>>)
=============================================================================
