\* exhaustive model check of the API-level system on a small catalogue
CONSTANTS K = 1
  LeafBoxes <- Cat2
  GenNames <- GensTiny
  OpNames <- AllOps
  MaxLeaf = 2
  MaxNode = 4
  NH = 3
  Depth = 5
  Acts <- ActsMC
  LeafProps <- NoProps
  Emit = FALSE
INIT Init
NEXT Next
INVARIANT ValueStable
INVARIANT RewriteTheorems
INVARIANT InclusionExclusion
INVARIANT TransformPreservesVolume
CHECK_DEADLOCK FALSE
