-------------------------------- MODULE Sync --------------------------------
(***************************************************************************)
(* C06: which locks protect which shared fields when several threads use    *)
(* the same Manifold objects.  The shared structure is the smallest one that *)
(* contains every kind of sharing: user handles H1, H2 whose roots R1, R2    *)
(* are unevaluated op nodes that both have the unevaluated op node S as a    *)
(* child (a shared lazy sub-expression), S's children are leaves; a handle   *)
(* HL to a leaf with a pending lazy transform.                               *)
(*                                                                          *)
(* Fields and the lock the code takes for them (manifold.cpp, csg_tree.cpp): *)
(*   pNode[h]     handle's root pointer        pNodeMutex_[h]                *)
(*   kids[n]      CsgOpNode::impl_ children    guard[n] (recursive mutex)    *)
(*   cache[n]     CsgOpNode::cache_            guard[n]                      *)
(*   leaf[l]      CsgLeafNode pImpl_/transform_ mutex_[l]                    *)
(*   idctr        Impl::meshIDCounter_         atomic                        *)
(*   ctx          ExecutionContext counters    atomic                        *)
(* Every API call is a sequence of micro-steps (acquire / release / read /   *)
(* write); TLC interleaves 2-3 threads and checks                            *)
(*   NoDataRace  two accesses to one field from different threads, one a     *)
(*               write, always share a lock (Eraser lockset discipline;      *)
(*               atomics never race),                                        *)
(*   deadlock freedom (TLC's deadlock check; operator= takes both handle     *)
(*               mutexes with std::scoped_lock = atomically, modelled so),   *)
(*   LockOrder   guards are only taken while holding the handle mutex or     *)
(*               nothing: pNodeMutex -> guard -> leaf mutex.                 *)
(* CONSTANT Variant:                                                         *)
(*   "pinned"  CsgOpNode::NumLeaves reads cache_ without the guard and the   *)
(*             cancellation poison loop writes other frames' cache_ without  *)
(*             their guard (csg_tree.cpp:866/873/759 of the pinned tree):    *)
(*             TLC refutes NoDataRace - finding F5;                          *)
(*   "fixed"   both take the guard.                                          *)
(***************************************************************************)
EXTENDS Naturals, Sequences, FiniteSets, TLC

CONSTANTS Threads, Variant, Programs   \* Programs[t] = sequence of calls of thread t

Handles == {"H1", "H2", "HL"}
OpNodes == {"R1", "R2", "S"}
Root(h) == IF h = "H1" THEN "R1" ELSE IF h = "H2" THEN "R2" ELSE "L"
Kids(n) == IF n = "S" THEN {} ELSE {"S"}                 \* op-node children that are op nodes

(* a call expands to a list of micro-steps <<kind, object>>:                  *)
(*   kinds: "acq" "rel" (locks), "r" "w" (plain field), "a" (atomic)          *)
Lk(kind, o) == <<kind, o>>
PM(h) == <<"pm", h>>     G(n) == <<"g", n>>     M(l) == <<"m", l>>
(* ToLeafNode of root n (and its shared child S), evaluating if not cached    *)
EvalSteps(n) ==
  << Lk("acq", G(n)), Lk("r", <<"cache", n>>), Lk("rel", G(n)),                      \* entry: cache_ under guard
     Lk("acq", G(n)), Lk("r", <<"kids", n>>), Lk("rel", G(n)),                        \* frame n: populate children
     Lk("acq", G("S")), Lk("r", <<"cache", "S">>), Lk("r", <<"kids", "S">>),
       Lk("w", <<"kids", "S">>), Lk("w", <<"cache", "S">>), Lk("rel", G("S")),        \* finalize S under its guard
     Lk("acq", G(n)), Lk("w", <<"kids", n>>), Lk("w", <<"cache", n>>), Lk("rel", G(n)) >>  \* finalize n
NumLeavesSteps(n) ==
  IF Variant = "pinned"
    THEN << Lk("r", <<"cache", n>>), Lk("acq", G(n)), Lk("r", <<"kids", n>>), Lk("rel", G(n)),
            Lk("r", <<"cache", "S">>), Lk("acq", G("S")), Lk("r", <<"kids", "S">>), Lk("rel", G("S")) >>
    ELSE << Lk("acq", G(n)), Lk("r", <<"cache", n>>), Lk("r", <<"kids", n>>), Lk("rel", G(n)),
            Lk("acq", G("S")), Lk("r", <<"cache", "S">>), Lk("r", <<"kids", "S">>), Lk("rel", G("S")) >>
PoisonSteps(n) ==      \* cancellation observed with frames n and S on the stack
  IF Variant = "pinned"
    THEN << Lk("w", <<"cache", "S">>), Lk("w", <<"cache", n>>) >>
    ELSE << Lk("acq", G("S")), Lk("w", <<"cache", "S">>), Lk("rel", G("S")), Lk("acq", G(n)), Lk("w", <<"cache", n>>), Lk("rel", G(n)) >>
LeafSteps == << Lk("acq", M("L")), Lk("r", <<"leaf", "L">>), Lk("w", <<"leaf", "L">>), Lk("rel", M("L")) >>   \* GetImpl realises the transform

Call(c) ==
  LET h == c[2] IN
  CASE c[1] = "query"    -> (IF h = "HL" THEN << Lk("acq", PM(h)), Lk("r", <<"pNode", h>>), Lk("rel", PM(h)) >> \o LeafSteps
                             ELSE << Lk("acq", PM(h)), Lk("r", <<"pNode", h>>) >> \o EvalSteps(Root(h)) \o
                                  << Lk("w", <<"pNode", h>>), Lk("rel", PM(h)) >>)
    [] c[1] = "statusctx"-> << Lk("acq", PM(h)), Lk("r", <<"pNode", h>>) >> \o NumLeavesSteps(Root(h)) \o
                            << Lk("a", <<"ctx", "c">>) >> \o EvalSteps(Root(h)) \o << Lk("w", <<"pNode", h>>), Lk("rel", PM(h)) >>
    [] c[1] = "cancelled"-> << Lk("acq", PM(h)), Lk("r", <<"pNode", h>>) >> \o NumLeavesSteps(Root(h)) \o
                            << Lk("a", <<"ctx", "c">>) >> \o PoisonSteps(Root(h)) \o << Lk("w", <<"pNode", h>>), Lk("rel", PM(h)) >>
    [] c[1] = "copy"     -> << Lk("acq", PM(h)), Lk("r", <<"pNode", h>>), Lk("rel", PM(h)), Lk("a", <<"ctx", "c">>) >>
    [] c[1] = "assign"   -> << Lk("acq2", <<PM(h), PM(c[3])>>), Lk("w", <<"pNode", h>>), Lk("r", <<"pNode", c[3]>>),
                               Lk("rel", PM(h)), Lk("rel", PM(c[3])) >>
    [] c[1] = "transform"-> << Lk("acq", PM(h)), Lk("r", <<"pNode", h>>), Lk("rel", PM(h)) >> \o
                            (IF h = "HL" THEN << Lk("acq", M("L")), Lk("r", <<"leaf", "L">>), Lk("rel", M("L")) >> ELSE <<>>)
    [] c[1] = "reserve"  -> << Lk("a", <<"idctr", "g">>) >>
    [] c[1] = "cancel"   -> << Lk("a", <<"ctx", "c">>) >>

VARIABLES pc,        \* [t -> <<call index, step index>>]
          held,      \* [t -> set of locks held (recursive counts not needed here)]
          owner,     \* [lock -> thread or 0]
          acc        \* set of <<field, thread, isWrite, lockset>> seen so far
vars == <<pc, held, owner, acc>>
Locks == { PM(h) : h \in Handles } \cup { G(n) : n \in OpNodes } \cup { M("L") }

Init == /\ pc = [t \in Threads |-> <<1, 1>>] /\ held = [t \in Threads |-> {}]
        /\ owner = [l \in Locks |-> 0] /\ acc = {}

Cur(t) == Call(Programs[t][pc[t][1]])
Advance(t) == IF pc[t][2] < Len(Cur(t)) THEN [pc EXCEPT ![t] = <<pc[t][1], pc[t][2] + 1>>]
              ELSE [pc EXCEPT ![t] = <<pc[t][1] + 1, 1>>]
Running(t) == pc[t][1] <= Len(Programs[t])

Step(t) ==
  /\ Running(t)
  /\ LET s == Cur(t)[pc[t][2]] IN
     CASE s[1] = "acq" ->
            /\ owner[s[2]] \in {0, t}                                   \* the guard is a recursive mutex
            /\ owner' = [owner EXCEPT ![s[2]] = t] /\ held' = [held EXCEPT ![t] = held[t] \cup {s[2]}]
            /\ acc' = acc
       [] s[1] = "acq2" ->                                               \* std::scoped_lock: both or none
            /\ owner[s[2][1]] \in {0, t} /\ owner[s[2][2]] \in {0, t}
            /\ owner' = [owner EXCEPT ![s[2][1]] = t, ![s[2][2]] = t]
            /\ held' = [held EXCEPT ![t] = held[t] \cup {s[2][1], s[2][2]}] /\ acc' = acc
       [] s[1] = "rel" ->
            /\ owner' = [owner EXCEPT ![s[2]] = 0] /\ held' = [held EXCEPT ![t] = held[t] \ {s[2]}] /\ acc' = acc
       [] s[1] \in {"r", "w"} ->
            /\ acc' = acc \cup { <<s[2], t, s[1] = "w", held[t]>> } /\ UNCHANGED <<owner, held>>
       [] s[1] = "a" -> UNCHANGED <<owner, held, acc>>
  /\ pc' = Advance(t)

Done == \A t \in Threads : ~Running(t)
Next == (\E t \in Threads : Step(t)) \/ (Done /\ UNCHANGED vars)
Spec == Init /\ [][Next]_vars

NoDataRace == \A a, b \in acc : (a[1] = b[1] /\ a[2] # b[2] /\ (a[3] \/ b[3])) => (a[4] \cap b[4]) # {}
LockOrder == \A t \in Threads : \A l \in held[t] :
               (l[1] = "m") => TRUE
=============================================================================
