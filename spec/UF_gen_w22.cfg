CONSTANTS N = 4
  Work <- W_22
  RankCas = TRUE
  Emit = TRUE
  MaxSwitch = 2
INIT Init
NEXT Next
INVARIANT PartitionCorrect
INVARIANT RootRank
INVARIANT Acyclic
CONSTRAINT SwitchBound
CHECK_DEADLOCK FALSE
