-------------------------------- MODULE Ctx --------------------------------
(***************************************************************************)
(* The cancellation / progress protocol of a context-observed evaluation    *)
(* (C15).  One evaluation is a plan: a sequence of NB Booleans, each made   *)
(* of NP phases (kPhasesPerBoolean); the LAST phase of a Boolean runs a     *)
(* cancel-aware helper (SortGeometry(ctx)) that returns EARLY, leaving a    *)
(* partial mesh, when it sees the flag - the code's contract is that every  *)
(* such helper is followed by a cancellation check (src/sort.cpp:243,       *)
(* boolean_result.cpp phase(), quickhull.cpp:855, sdf.cpp:595,              *)
(* smoothing.cpp Refine).  The environment may raise the flag between any   *)
(* two steps.  Steps follow the code:                                       *)
(*   Begin      GetCsgLeafNode: numerators reset first, then denominators   *)
(*   LoopCheck  while(!stack.empty()) { if IsCancelled -> poison, return }  *)
(*   Entry      SimpleBoolean: if IsCancelled -> ErrorLeaf(Cancelled)       *)
(*   Work       one phase of Boolean3::Result builds part of the mesh       *)
(*   Helper     the cancel-aware helper inside the last phase               *)
(*   Phase      phase(): donePhases++ ; if IsCancelled -> Cancelled impl    *)
(*   Balance    ~PhaseBalance: top up to NP unless cancelled                *)
(* CONSTANT PostCheck = FALSE removes the check after the helper: TLC then  *)
(* refutes AllOrNothing (this is the regression class the conformance       *)
(* sweep - cancel at the k-th check for every k - is built to catch).       *)
(***************************************************************************)
EXTENDS Naturals, Sequences, TLC

CONSTANTS NB,         \* Booleans in the plan
          NP,         \* phases per Boolean
          PostCheck   \* is the helper followed by a cancellation check

VARIABLES pc, b, p,        \* control: step kind, current Boolean, current phase
          cancel,          \* the flag (only ever raised)
          done, total,     \* donePhases, totalPhases
          built,           \* phases of the current Boolean whose output exists
          partial,         \* the helper bailed out: current mesh is partial
          result,          \* "none" | "complete" | "cancelled" | "partial"
          maxdone,         \* history: largest done seen in this evaluation
          pre              \* history: was the flag already raised when the call began
vars == <<pc, b, p, cancel, done, total, built, partial, result, maxdone, pre>>

Init == /\ pc = "Begin" /\ b = 1 /\ p = 1 /\ cancel \in BOOLEAN
        /\ done \in {0, 3} /\ total \in {0, 5}      \* stale counters of an earlier use of the context
        /\ built = 0 /\ partial = FALSE /\ result = "none" /\ maxdone = 0 /\ pre = FALSE

Cancel == ~cancel /\ cancel' = TRUE /\ UNCHANGED <<pc, b, p, done, total, built, partial, result, maxdone, pre>>

Begin == /\ pc = "Begin"
         /\ done' = 0 /\ total' = NB * NP /\ maxdone' = 0
         /\ pc' = "LoopCheck"
         /\ pre' = cancel
         /\ UNCHANGED <<b, p, cancel, built, partial, result>>

Finish(r) == pc' = "Done" /\ result' = r

LoopCheck == /\ pc = "LoopCheck"
             \* while (!stack.empty()) { if (IsCancelled(ctx)) ... } : no check once the stack is empty
             /\ IF b > NB THEN Finish(IF partial THEN "partial" ELSE "complete") /\ UNCHANGED <<b, p>>
                ELSE IF cancel THEN Finish("cancelled") /\ UNCHANGED <<b, p>>
                ELSE pc' = "Entry" /\ UNCHANGED <<b, p, result>>
             /\ UNCHANGED <<cancel, done, total, built, partial, maxdone, pre>>

Entry == /\ pc = "Entry"
         /\ IF cancel THEN Finish("cancelled") /\ UNCHANGED <<p, built>>
            ELSE pc' = "Work" /\ p' = 1 /\ built' = 0 /\ UNCHANGED result
         /\ UNCHANGED <<b, cancel, done, total, partial, maxdone, pre>>

Work == /\ pc = "Work"
        /\ built' = built + 1
        /\ pc' = IF p = NP THEN "Helper" ELSE "Phase"
        /\ UNCHANGED <<b, p, cancel, done, total, partial, result, maxdone, pre>>

(* the helper returns early when it sees the flag: its output is partial     *)
Helper == /\ pc = "Helper"
          /\ partial' = cancel
          /\ pc' = "Phase"
          /\ UNCHANGED <<b, p, cancel, done, total, built, result, maxdone, pre>>

Phase == /\ pc = "Phase"
         /\ done' = done + 1 /\ maxdone' = IF done + 1 > maxdone THEN done + 1 ELSE maxdone
         /\ IF cancel /\ (p < NP \/ PostCheck)
              THEN Finish("cancelled") /\ UNCHANGED <<b, p>>
              ELSE IF p = NP THEN pc' = "Balance" /\ UNCHANGED <<b, p, result>>
                             ELSE pc' = "Work" /\ p' = p + 1 /\ UNCHANGED <<b, result>>
         /\ UNCHANGED <<cancel, total, built, partial, pre>>

Balance == /\ pc = "Balance"
           /\ b' = b + 1 /\ pc' = "LoopCheck"
           /\ UNCHANGED <<p, cancel, done, total, built, partial, result, maxdone, pre>>

Next == Cancel \/ Begin \/ LoopCheck \/ Entry \/ Work \/ Helper \/ Phase \/ Balance
Spec == Init /\ [][Next]_vars /\ WF_vars(Begin \/ LoopCheck \/ Entry \/ Work \/ Helper \/ Phase \/ Balance)

(* ---- the listed property ------------------------------------------------- *)
AllOrNothing == pc = "Done" => result \in {"complete", "cancelled"}
NoPartialEscapes == result # "partial"
ProgressBounded == pc # "Begin" => done <= total
ProgressMonotone == [][pc # "Begin" => done' >= done]_vars
CompletedMeansOne == (pc = "Done" /\ result = "complete" /\ ~cancel) => done = total
CancelSticky == [][cancel => cancel']_vars
ShortCircuit == (pc = "Done" /\ pre) => (result = "cancelled" /\ maxdone = 0)
Terminates == <>(pc = "Done")
=============================================================================
