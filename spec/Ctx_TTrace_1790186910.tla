---- MODULE Ctx_TTrace_1790186910 ----
EXTENDS Sequences, TLCExt, Ctx, Toolbox, Naturals, TLC

_expression ==
    LET Ctx_TEExpression == INSTANCE Ctx_TEExpression
    IN Ctx_TEExpression!expression
----

_trace ==
    LET Ctx_TETrace == INSTANCE Ctx_TETrace
    IN Ctx_TETrace!trace
----

_inv ==
    ~(
        TLCGet("level") = Len(_TETrace)
        /\
        cancel = (TRUE)
        /\
        result = ("partial")
        /\
        p = (3)
        /\
        maxdone = (6)
        /\
        b = (3)
        /\
        pre = (FALSE)
        /\
        total = (6)
        /\
        pc = ("Done")
        /\
        built = (3)
        /\
        done = (6)
        /\
        partial = (TRUE)
    )
----

_init ==
    /\ cancel = _TETrace[1].cancel
    /\ result = _TETrace[1].result
    /\ maxdone = _TETrace[1].maxdone
    /\ done = _TETrace[1].done
    /\ b = _TETrace[1].b
    /\ pre = _TETrace[1].pre
    /\ p = _TETrace[1].p
    /\ pc = _TETrace[1].pc
    /\ built = _TETrace[1].built
    /\ partial = _TETrace[1].partial
    /\ total = _TETrace[1].total
----

_next ==
    /\ \E i,j \in DOMAIN _TETrace:
        /\ \/ /\ j = i + 1
              /\ i = TLCGet("level")
        /\ cancel  = _TETrace[i].cancel
        /\ cancel' = _TETrace[j].cancel
        /\ result  = _TETrace[i].result
        /\ result' = _TETrace[j].result
        /\ maxdone  = _TETrace[i].maxdone
        /\ maxdone' = _TETrace[j].maxdone
        /\ done  = _TETrace[i].done
        /\ done' = _TETrace[j].done
        /\ b  = _TETrace[i].b
        /\ b' = _TETrace[j].b
        /\ pre  = _TETrace[i].pre
        /\ pre' = _TETrace[j].pre
        /\ p  = _TETrace[i].p
        /\ p' = _TETrace[j].p
        /\ pc  = _TETrace[i].pc
        /\ pc' = _TETrace[j].pc
        /\ built  = _TETrace[i].built
        /\ built' = _TETrace[j].built
        /\ partial  = _TETrace[i].partial
        /\ partial' = _TETrace[j].partial
        /\ total  = _TETrace[i].total
        /\ total' = _TETrace[j].total

\* Uncomment the ASSUME below to write the states of the error trace
\* to the given file in Json format. Note that you can pass any tuple
\* to `JsonSerialize`. For example, a sub-sequence of _TETrace.
    \* ASSUME
    \*     LET J == INSTANCE Json
    \*         IN J!JsonSerialize("Ctx_TTrace_1790186910.json", _TETrace)

=============================================================================

 Note that you can extract this module `Ctx_TEExpression`
  to a dedicated file to reuse `expression` (the module in the 
  dedicated `Ctx_TEExpression.tla` file takes precedence 
  over the module `Ctx_TEExpression` below).

---- MODULE Ctx_TEExpression ----
EXTENDS Sequences, TLCExt, Ctx, Toolbox, Naturals, TLC

expression == 
    [
        \* To hide variables of the `Ctx` spec from the error trace,
        \* remove the variables below.  The trace will be written in the order
        \* of the fields of this record.
        cancel |-> cancel
        ,result |-> result
        ,maxdone |-> maxdone
        ,done |-> done
        ,b |-> b
        ,pre |-> pre
        ,p |-> p
        ,pc |-> pc
        ,built |-> built
        ,partial |-> partial
        ,total |-> total
        
        \* Put additional constant-, state-, and action-level expressions here:
        \* ,_stateNumber |-> _TEPosition
        \* ,_cancelUnchanged |-> cancel = cancel'
        
        \* Format the `cancel` variable as Json value.
        \* ,_cancelJson |->
        \*     LET J == INSTANCE Json
        \*     IN J!ToJson(cancel)
        
        \* Lastly, you may build expressions over arbitrary sets of states by
        \* leveraging the _TETrace operator.  For example, this is how to
        \* count the number of times a spec variable changed up to the current
        \* state in the trace.
        \* ,_cancelModCount |->
        \*     LET F[s \in DOMAIN _TETrace] ==
        \*         IF s = 1 THEN 0
        \*         ELSE IF _TETrace[s].cancel # _TETrace[s-1].cancel
        \*             THEN 1 + F[s-1] ELSE F[s-1]
        \*     IN F[_TEPosition - 1]
    ]

=============================================================================



Parsing and semantic processing can take forever if the trace below is long.
 In this case, it is advised to uncomment the module below to deserialize the
 trace from a generated binary file.

\*
\*---- MODULE Ctx_TETrace ----
\*EXTENDS IOUtils, Ctx, TLC
\*
\*trace == IODeserialize("Ctx_TTrace_1790186910.bin", TRUE)
\*
\*=============================================================================
\*

---- MODULE Ctx_TETrace ----
EXTENDS Ctx, TLC

trace == 
    <<
    ([cancel |-> FALSE,result |-> "none",p |-> 1,maxdone |-> 0,b |-> 1,pre |-> FALSE,total |-> 0,pc |-> "Begin",built |-> 0,done |-> 0,partial |-> FALSE]),
    ([cancel |-> FALSE,result |-> "none",p |-> 1,maxdone |-> 0,b |-> 1,pre |-> FALSE,total |-> 6,pc |-> "LoopCheck",built |-> 0,done |-> 0,partial |-> FALSE]),
    ([cancel |-> FALSE,result |-> "none",p |-> 1,maxdone |-> 0,b |-> 1,pre |-> FALSE,total |-> 6,pc |-> "Entry",built |-> 0,done |-> 0,partial |-> FALSE]),
    ([cancel |-> FALSE,result |-> "none",p |-> 1,maxdone |-> 0,b |-> 1,pre |-> FALSE,total |-> 6,pc |-> "Work",built |-> 0,done |-> 0,partial |-> FALSE]),
    ([cancel |-> FALSE,result |-> "none",p |-> 1,maxdone |-> 0,b |-> 1,pre |-> FALSE,total |-> 6,pc |-> "Phase",built |-> 1,done |-> 0,partial |-> FALSE]),
    ([cancel |-> FALSE,result |-> "none",p |-> 2,maxdone |-> 1,b |-> 1,pre |-> FALSE,total |-> 6,pc |-> "Work",built |-> 1,done |-> 1,partial |-> FALSE]),
    ([cancel |-> FALSE,result |-> "none",p |-> 2,maxdone |-> 1,b |-> 1,pre |-> FALSE,total |-> 6,pc |-> "Phase",built |-> 2,done |-> 1,partial |-> FALSE]),
    ([cancel |-> FALSE,result |-> "none",p |-> 3,maxdone |-> 2,b |-> 1,pre |-> FALSE,total |-> 6,pc |-> "Work",built |-> 2,done |-> 2,partial |-> FALSE]),
    ([cancel |-> FALSE,result |-> "none",p |-> 3,maxdone |-> 2,b |-> 1,pre |-> FALSE,total |-> 6,pc |-> "Helper",built |-> 3,done |-> 2,partial |-> FALSE]),
    ([cancel |-> FALSE,result |-> "none",p |-> 3,maxdone |-> 2,b |-> 1,pre |-> FALSE,total |-> 6,pc |-> "Phase",built |-> 3,done |-> 2,partial |-> FALSE]),
    ([cancel |-> FALSE,result |-> "none",p |-> 3,maxdone |-> 3,b |-> 1,pre |-> FALSE,total |-> 6,pc |-> "Balance",built |-> 3,done |-> 3,partial |-> FALSE]),
    ([cancel |-> FALSE,result |-> "none",p |-> 3,maxdone |-> 3,b |-> 2,pre |-> FALSE,total |-> 6,pc |-> "LoopCheck",built |-> 3,done |-> 3,partial |-> FALSE]),
    ([cancel |-> FALSE,result |-> "none",p |-> 3,maxdone |-> 3,b |-> 2,pre |-> FALSE,total |-> 6,pc |-> "Entry",built |-> 3,done |-> 3,partial |-> FALSE]),
    ([cancel |-> FALSE,result |-> "none",p |-> 1,maxdone |-> 3,b |-> 2,pre |-> FALSE,total |-> 6,pc |-> "Work",built |-> 0,done |-> 3,partial |-> FALSE]),
    ([cancel |-> FALSE,result |-> "none",p |-> 1,maxdone |-> 3,b |-> 2,pre |-> FALSE,total |-> 6,pc |-> "Phase",built |-> 1,done |-> 3,partial |-> FALSE]),
    ([cancel |-> FALSE,result |-> "none",p |-> 2,maxdone |-> 4,b |-> 2,pre |-> FALSE,total |-> 6,pc |-> "Work",built |-> 1,done |-> 4,partial |-> FALSE]),
    ([cancel |-> FALSE,result |-> "none",p |-> 2,maxdone |-> 4,b |-> 2,pre |-> FALSE,total |-> 6,pc |-> "Phase",built |-> 2,done |-> 4,partial |-> FALSE]),
    ([cancel |-> FALSE,result |-> "none",p |-> 3,maxdone |-> 5,b |-> 2,pre |-> FALSE,total |-> 6,pc |-> "Work",built |-> 2,done |-> 5,partial |-> FALSE]),
    ([cancel |-> TRUE,result |-> "none",p |-> 3,maxdone |-> 5,b |-> 2,pre |-> FALSE,total |-> 6,pc |-> "Work",built |-> 2,done |-> 5,partial |-> FALSE]),
    ([cancel |-> TRUE,result |-> "none",p |-> 3,maxdone |-> 5,b |-> 2,pre |-> FALSE,total |-> 6,pc |-> "Helper",built |-> 3,done |-> 5,partial |-> FALSE]),
    ([cancel |-> TRUE,result |-> "none",p |-> 3,maxdone |-> 5,b |-> 2,pre |-> FALSE,total |-> 6,pc |-> "Phase",built |-> 3,done |-> 5,partial |-> TRUE]),
    ([cancel |-> TRUE,result |-> "none",p |-> 3,maxdone |-> 6,b |-> 2,pre |-> FALSE,total |-> 6,pc |-> "Balance",built |-> 3,done |-> 6,partial |-> TRUE]),
    ([cancel |-> TRUE,result |-> "none",p |-> 3,maxdone |-> 6,b |-> 3,pre |-> FALSE,total |-> 6,pc |-> "LoopCheck",built |-> 3,done |-> 6,partial |-> TRUE]),
    ([cancel |-> TRUE,result |-> "partial",p |-> 3,maxdone |-> 6,b |-> 3,pre |-> FALSE,total |-> 6,pc |-> "Done",built |-> 3,done |-> 6,partial |-> TRUE])
    >>
----


=============================================================================

---- CONFIG Ctx_TTrace_1790186910 ----
CONSTANTS
    NB = 2
    NP = 3
    PostCheck = FALSE

INVARIANT
    _inv

CHECK_DEADLOCK
    \* CHECK_DEADLOCK off because of PROPERTY or INVARIANT above.
    FALSE

INIT
    _init

NEXT
    _next

CONSTANT
    _TETrace <- _trace

ALIAS
    _expression
=============================================================================
\* Generated on Wed Sep 23 18:08:44 UTC 2026