CONSTANTS
 NS = {5,6}
 CodeMax = 7
 KInits = {128}
 Variants = {5}
 Level = 1
 Emit = TRUE
INIT InitGen
NEXT NextGen
INVARIANT GenInv
CHECK_DEADLOCK FALSE
