CONSTANTS K = 4
  Family = "T3"
  Emit = TRUE
INIT Init
NEXT Next
INVARIANT RewritesSound
INVARIANT InsideWindow
CHECK_DEADLOCK FALSE
