CONSTANTS K = 2
  Families = {"FLATq", "SIMPq", "TANq"}
  MaxTri = 8
  MaxQuad = 4
  FwdAll = FALSE
  Emit = TRUE
INIT Init
NEXT Next
INVARIANT RefValid
INVARIANT RejectsDamaged
INVARIANT CountLaw
INVARIANT KeyLaw
INVARIANT ReqLaw
INVARIANT ProgLaw
INVARIANT TraceConsistent
CHECK_DEADLOCK FALSE
