---------------------------- MODULE MCUnionFind ----------------------------
EXTENDS UnionFind
(* two threads racing on equal-rank roots: T1 unite(1,2), T2 unite(1,0)     *)
W_race == << << <<1,2>> >>, << <<1,0>> >> >>
(* two unites per thread over 4 elements                                    *)
W_22 == << << <<0,1>>, <<2,3>> >>, << <<1,2>>, <<3,0>> >> >>
(* three threads, one unite each, chained                                    *)
W_3 == << << <<0,1>> >>, << <<1,2>> >>, << <<2,3>> >> >>
W_21 == << << <<0,1>>, <<1,2>> >>, << <<2,0>> >> >>
=============================================================================
