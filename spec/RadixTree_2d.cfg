CONSTANTS
 NS = {2,3,6,9,14,109,112,117,125,140,170}
 CodeMax = 7
 KInits = {128}
 Variants = {0}
 Level = 1
 Emit = TRUE
INIT Init2D
NEXT Next2D
INVARIANT Inv2D
CHECK_DEADLOCK FALSE
