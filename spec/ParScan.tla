------------------------------ MODULE ParScan ------------------------------
(***************************************************************************)
(* oneTBB parallel_scan as a PROTOCOL over user bodies, driving manifold's  *)
(* details::ScanBody / details::CopyIfScanBody (src/parallel.h:152-207).    *)
(* (C13: exclusive/inclusive scan, copy_if, remove_if, unique ... equal     *)
(* their sequential meaning under every legal splitting/ordering.)          *)
(*                                                                          *)
(* The protocol (Body requirements of parallel_scan; parallel_scan.h        *)
(* start_scan / sum_node / final_sum / finish_scan abstracted):             *)
(*  pass 1  the range is halved recursively (a node may also stop           *)
(*          splitting); the left half continues with the current body; the  *)
(*          right half is either NOT stolen (same body goes on) or STOLEN:  *)
(*          a body split off with Body(b, split) pre-scans it, and when     *)
(*          both halves are done the right body absorbs the left summary    *)
(*          with right.reverse_join(left) and becomes the running body;     *)
(*          a body whose summary is the exact prefix runs final_scan, any   *)
(*          other body runs pre_scan.                                       *)
(*  pass 2  every pre-scanned subrange is scanned again with final_scan by  *)
(*          a body holding the exact prefix: the stored left body, after    *)
(*          left.reverse_join(incoming) when the left body itself started   *)
(*          from a split.                                                   *)
(*  end     user_body.assign(last body)                                     *)
(* TLC enumerates ALL protocol instances (where splitting stops x steal     *)
(* flags x pass-2 strategy) for N elements, evaluates each on the           *)
(* transcription of the body, and checks the result against the sequential  *)
(* scan for a NON-COMMUTATIVE f (concatenation).  Each instance is also     *)
(* emitted as an operation list that the driver executes call for call on   *)
(* the real C++ bodies.                                                     *)
(***************************************************************************)
EXTENDS Naturals, Sequences, FiniteSets, TLC, Json

CONSTANTS N,        \* number of input elements
          Kind,     \* "scan" (ScanBody, exclusive scan) or "copyif" (CopyIfScanBody)
          JoinOrder,\* "code": sum = f(a.sum, sum)   "swapped": the regression f(sum, a.sum)
          Emit

(* input element i is the one-letter word <<i>>; init is <<0>>; f = \o        *)
In(i) == <<i>>
InitSum == <<0>>
Ident == <<>>
Pred(i) == i % 3 # 1          \* copy_if predicate on the index (0-based)

(* ---- protocol instances as operation lists ------------------------------ *)
(* tree: [lo, hi, kids]  kids = <<>> (leaf) or <<left, right, stolen>>        *)
RECURSIVE Trees(_, _)
Trees(lo, hi) ==
  IF hi - lo <= 1 THEN { [lo |-> lo, hi |-> hi, kids |-> <<>>] }
  ELSE LET mid == lo + (hi - lo) \div 2 IN
       { [lo |-> lo, hi |-> hi, kids |-> <<>>] } \cup
       { [lo |-> lo, hi |-> hi, kids |-> <<l, r, s>>] : l \in Trees(lo, mid), r \in Trees(mid, hi), s \in BOOLEAN }

Call(b, lo, hi, fin) == [o |-> "call", b |-> b, lo |-> lo, hi |-> hi, fin |-> fin]
Split(nb, b) == [o |-> "split", b |-> nb, a |-> b]
RJoin(b, a) == [o |-> "rjoin", b |-> b, a |-> a]       \* b.reverse_join(a): a is the LEFT summary
Assign(b, a) == [o |-> "assign", b |-> b, a |-> a]

(* final pass over a pre-scanned subtree t with the body x that holds the     *)
(* exact prefix at t.lo: its leaves in order (x accumulates)                  *)
RECURSIVE Final(_, _)
Final(t, x) ==
  IF t.kids = <<>> THEN << Call(x, t.lo, t.hi, TRUE) >>
  ELSE Final(t.kids[1], x) \o Final(t.kids[2], x)

(* pass 1: returns [ops, cur, nb, t (tree annotated with lb), pend]           *)
RECURSIVE P1(_, _, _, _)
P1(t, b, fin, nb) ==
  IF t.kids = <<>> THEN [ops |-> << Call(b, t.lo, t.hi, fin) >>, cur |-> b, nb |-> nb, t |-> t @@ [lb |-> 0], pend |-> <<>>]
  ELSE IF ~t.kids[3]
    THEN LET L == P1(t.kids[1], b, fin, nb)
             R == P1(t.kids[2], L.cur, fin, L.nb)
         IN [ops |-> L.ops \o R.ops, cur |-> R.cur, nb |-> R.nb,
             t |-> [lo |-> t.lo, hi |-> t.hi, kids |-> <<L.t, R.t, FALSE>>, lb |-> 0], pend |-> L.pend \o R.pend]
    ELSE LET rb == nb
             L == P1(t.kids[1], b, fin, nb + 1)
             R == P1(t.kids[2], rb, FALSE, L.nb)
         IN [ops |-> << Split(rb, b) >> \o L.ops \o R.ops \o << RJoin(R.cur, L.cur) >>,
             cur |-> R.cur, nb |-> R.nb,
             t |-> [lo |-> t.lo, hi |-> t.hi, kids |-> <<L.t, R.t, TRUE>>, lb |-> L.cur],
             \* an exact chain can finish its stolen right child later with the stored left body
             pend |-> L.pend \o (IF fin THEN << [sub |-> R.t, body |-> L.cur] >> ELSE <<>>) \o R.pend]

(* pass 2 may finish the pending subranges in any order (they are disjoint    *)
(* and each has its own prefix body): rev chooses right-to-left              *)
RECURSIVE Pass2(_)
Pass2(pend) == IF pend = <<>> THEN <<>> ELSE Final(pend[1].sub, pend[1].body) \o Pass2(Tail(pend))
Rev(s) == [i \in 1..Len(s) |-> s[Len(s) + 1 - i]]

Protocol(t, rev) ==
  LET p == P1(t, 1, TRUE, 2)
  IN p.ops \o Pass2(IF rev THEN Rev(p.pend) ELSE p.pend) \o << Assign(1, p.cur) >>

(* ---- the bodies, transcribed --------------------------------------------- *)
(* state: sums[b], out (function index -> value or "none")                    *)
F(a, b) == a \o b
RECURSIVE RunCall(_, _, _, _, _)
RunCall(sum, out, i, hi, fin) ==      \* ScanBody::operator(): exclusive scan
  IF i >= hi THEN [sum |-> sum, out |-> out]
  ELSE RunCall(F(sum, In(i)), IF fin THEN [out EXCEPT ![i] = sum] ELSE out, i + 1, hi, fin)
RECURSIVE RunCopy(_, _, _, _, _)
RunCopy(sum, out, i, hi, fin) ==      \* CopyIfScanBody::operator(): sum counts, out[count-1] = input
  IF i >= hi THEN [sum |-> sum, out |-> out]
  ELSE IF Pred(i) THEN RunCopy(sum + 1, IF fin THEN [out EXCEPT ![sum] = In(i)] ELSE out, i + 1, hi, fin)
       ELSE RunCopy(sum, out, i + 1, hi, fin)

NoneOut == [i \in 0..(N-1) |-> <<99>>]
RECURSIVE Exec(_, _, _, _)
Exec(ops, k, sums, out) ==
  IF k > Len(ops) THEN [sums |-> sums, out |-> out]
  ELSE LET op == ops[k] IN
    CASE op.o = "split"  -> Exec(ops, k + 1, sums @@ (op.b :> (IF Kind = "scan" THEN Ident ELSE 0)), out)
      [] op.o = "assign" -> Exec(ops, k + 1, [sums EXCEPT ![op.b] = sums[op.a]], out)
      [] op.o = "rjoin"  -> Exec(ops, k + 1,
                              [sums EXCEPT ![op.b] =
                                 IF Kind = "scan"
                                   THEN IF JoinOrder = "code" THEN F(sums[op.a], sums[op.b]) ELSE F(sums[op.b], sums[op.a])
                                   ELSE sums[op.a] + sums[op.b]], out)
      [] op.o = "call"   -> LET r == IF Kind = "scan" THEN RunCall(sums[op.b], out, op.lo, op.hi, op.fin)
                                                      ELSE RunCopy(sums[op.b], out, op.lo, op.hi, op.fin)
                            IN Exec(ops, k + 1, [sums EXCEPT ![op.b] = r.sum], r.out)
Run(ops) == Exec(ops, 1, (1 :> (IF Kind = "scan" THEN InitSum ELSE 0)), NoneOut)

(* ---- sequential meaning --------------------------------------------------- *)
RECURSIVE SeqScan(_, _, _)
SeqScan(i, acc, out) == IF i >= N THEN [sum |-> acc, out |-> out] ELSE SeqScan(i + 1, F(acc, In(i)), [out EXCEPT ![i] = acc])
RECURSIVE SeqCopy(_, _, _)
SeqCopy(i, cnt, out) == IF i >= N THEN [sum |-> cnt, out |-> out]
                        ELSE IF Pred(i) THEN SeqCopy(i + 1, cnt + 1, [out EXCEPT ![cnt] = In(i)]) ELSE SeqCopy(i + 1, cnt, out)
Expected == IF Kind = "scan" THEN SeqScan(0, InitSum, NoneOut) ELSE SeqCopy(0, 0, NoneOut)

VARIABLES inst, done
Init == inst \in (Trees(0, N) \X BOOLEAN) /\ done = FALSE
Ops == Protocol(inst[1], inst[2])
Next == /\ ~done /\ done' = TRUE /\ UNCHANGED inst
        /\ (Emit => PrintT(<<"BEH", ToJson([kind |-> Kind, n |-> N, ops |-> Ops,
                                            out |-> [i \in 1..N |-> Expected.out[i-1]], sum |-> Expected.sum])>>))
EqualsSequential == LET r == Run(Ops) IN r.out = Expected.out /\ r.sums[1] = Expected.sum
=============================================================================
