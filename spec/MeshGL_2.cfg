CONSTANTS Emit = TRUE
  MaxBad = 2
INIT Init
NEXT Next
INVARIANT LadderTotal
INVARIANT UnsafeRejected
INVARIANT Sticky
CHECK_DEADLOCK FALSE
