---------------------------- MODULE Poly_Trace ----------------------------
(***************************************************************************)
(* C10 trace validation: binds Poly.tla!ValidTriangulation to the code.     *)
(* The driver (drive/poly.cpp --record) logs, for a sample of its calls of  *)
(* TriangulateIdx / Triangulate / PolygonTriangulator, one ndjson record    *)
(*   {"polys":[[[x,y,idx],..],..], "tris":[[i,j,k],..], "valid":b,          *)
(*    "ntri":n, "area2":a, "call":.., "ok":b, "why":.., "place":[..]}       *)
(* with the lattice polygon set as the library saw it (after the exact      *)
(* rotation / renumbering of the view) and the triangles it returned.       *)
(* TLC evaluates the specification's predicates on every record:            *)
(*   Accept: the input is a valid set with the logged count and area, and   *)
(*           the logged triangles satisfy ValidTriangulation;               *)
(*   Reject: (records corrupted by the check, or outputs the driver found   *)
(*           wrong) the predicate must NOT hold.                            *)
(* The file name comes from the environment (POLY_TRACE), the mode from the *)
(* constant Mode.                                                           *)
(***************************************************************************)
EXTENDS Integers, Sequences, FiniteSets, TLC, Json, IOUtils

CONSTANT Mode      \* "accept" | "reject"

P == INSTANCE Poly WITH Family <- "T", G <- 0, MaxV <- 0, Emit <- FALSE, StartRows <- {},
                        path <- <<>>, polys <- <<>>, done <- FALSE

Records == ndJsonDeserialize(IOEnv.POLY_TRACE)
NRec == Len(Records)
ChunkSize == 8
NChunks == (NRec + ChunkSize - 1) \div ChunkSize

VARIABLES lvl, i
Init == lvl = 0 /\ i = 0
Next == \/ lvl = 0 /\ lvl' = 1 /\ i' \in 1..NChunks
        \/ lvl = 1 /\ lvl' = 2 /\ i' \in { j \in 1..NRec : (j - 1) \div ChunkSize + 1 = i }

(* what the specification says about one record *)
(* "place": <<>> or the placement <<sn, sd, tx, ty>> under which the library saw the set:  *)
(* it must be one of the specification's placements and admissible for this set           *)
PlaceLogged(r) == \/ Len(r.place) = 0
                  \/ P!PlaceOK(<<r.place[1], r.place[2], r.place[3], r.place[4]>>, P!Undupped(r.polys))
InputAsLogged(r) == /\ P!EpsValidWithDups(r.polys)     \* = EpsValidSet when no vertex is repeated
                    /\ PlaceLogged(r)
                    /\ P!ExpectedTris(r.polys) = r.ntri
                    /\ P!SetArea2(r.polys) = r.area2
Verdict(r) == IF r.valid THEN (IF InputAsLogged(r) THEN P!WhyInvalid(r.polys, r.tris) ELSE "input")
              ELSE (IF P!IndicesValid(r.polys, r.tris) THEN "" ELSE "index")

Accept == (Mode = "accept" /\ lvl = 2) => Verdict(Records[i]) = ""
Reject == (Mode = "reject" /\ lvl = 2) => Verdict(Records[i]) # ""
(* the driver's exact 64-bit transcription agrees with the specification     *)
SameClause == lvl = 2 => (Records[i].why = "-" \/ Verdict(Records[i]) = Records[i].why)
=============================================================================
