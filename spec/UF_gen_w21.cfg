CONSTANTS N = 3
  Work <- W_21
  RankCas = TRUE
  Emit = TRUE
  MaxSwitch = 3
INIT Init
NEXT Next
INVARIANT PartitionCorrect
INVARIANT RootRank
INVARIANT Acyclic
CONSTRAINT SwitchBound
CHECK_DEADLOCK FALSE
