\* C11 (quick): every program "two leaves, then one Boolean or one transform" over the small leaf family,
\* 8 of the 18 generators
CONSTANTS K = 4
  Grid = 3
  LeafFam = "small"
  GenNames = {"R90", "MX", "SWAP", "TXP", "TPM", "REPOS", "REEO", "WARPX"}
  OpNames <- Ops2
  MaxLeaf = 2
  Depth = 3
  Acts = {"Leaf", "Bool", "Xf"}
  ObsModes = {0, 1}
  Sample = FALSE
  Emit = TRUE
INIT Init
NEXT Next
INVARIANT EverythingInWindow
INVARIANT SetLaws
CHECK_DEADLOCK FALSE
