CONSTANTS K = 1
  Families = {"M222s", "S223s", "S333a", "NAMED", "C221", "C222s"}
  Emit = TRUE
INIT Init
NEXT Next
INVARIANT RefIsHull
INVARIANT SpansIffVolume
INVARIANT ExtremeAgree
INVARIANT SplitSound
INVARIANT RejectsDamaged
INVARIANT MinkAlgebra
INVARIANT TraceConsistent
CHECK_DEADLOCK FALSE
