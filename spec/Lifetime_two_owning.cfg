CONSTANTS Threads <- T2
  Walk = "owning"
  Programs <- P_two
INIT Init
NEXT Next
INVARIANT NoUseAfterFree
INVARIANT FreedIffUnowned
INVARIANT NoLeakAtEnd
