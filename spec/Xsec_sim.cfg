\* C11: seeded random programs: 3 leaves (any catalogue contour, or a pair of the special ones, either rule),
\* then Booleans, BatchBooleans and lattice transforms of any earlier step
CONSTANTS K = 4
  Grid = 4
  LeafFam = "sim"
  GenNames <- AllGens2
  OpNames <- Ops2
  MaxLeaf = 3
  Depth = 8
  Acts = {"Leaf", "Bool", "Batch", "Xf"}
  ObsModes = {0, 1}
  Sample = TRUE
  Emit = TRUE
INIT Init
NEXT Next
INVARIANT EverythingInWindow
INVARIANT SetLaws
CHECK_DEADLOCK FALSE
