CONSTANTS Threads <- T3
  Walk = "owning"
  Programs <- P_three
INIT Init
NEXT Next
INVARIANT NoUseAfterFree
INVARIANT FreedIffUnowned
INVARIANT NoLeakAtEnd
