------------------------------ MODULE Program ------------------------------
(***************************************************************************)
(* The trunk of the suite: the SYSTEM as a user sees it.  A pool of live    *)
(* handles (C++ Manifold objects) over an immutable expression DAG; public  *)
(* operations are actions; every node has ONE denotation (a set of lattice  *)
(* cells, Lattice.tla) fixed when it is created.  The listed properties     *)
(* are statements about this system:                                        *)
(*   C02  BoolSem / BatchSem / Split / plane split are the set operations   *)
(*   C03  Den is a function of the expression only (not of how/when the     *)
(*        real evaluator is forced, which handles are alive, ...)           *)
(*   C05  ValueStable: nothing observable about a live handle ever changes  *)
(*   C18  measurements are functions of the denotation                      *)
(* The module is bound to the implementation by replay: TLC enumerates or   *)
(* samples behaviours, every Force/Measure record carries the value the     *)
(* specification demands, and the driver (drive/prog.cpp) executes the      *)
(* behaviour against the real API and compares (DESIGN.md 1, B1), and by    *)
(* trace validation of driver-generated random programs (Program_Trace).    *)
(***************************************************************************)
EXTENDS Lattice, TLC, Json, SequencesExt

CONSTANTS
  LeafBoxes,   \* catalogue of boxes usable as leaves (subset of AllBoxes)
  GenNames,    \* transform generators usable (subset of AllGens)
  OpNames,     \* subset of Ops
  MaxLeaf, MaxNode, NH,   \* bounds: leaves, nodes in total, handles
  Depth,       \* behaviours are printed when hist reaches this length
  Acts,        \* enabled action kinds, subset of AllActs
  LeafProps,   \* subset of {0,1}: may leaves carry vertex properties
  Emit         \* TRUE: print behaviours (generation); FALSE: model checking only

AllActs == {"Leaf","Bool","Batch","Xf","Copy","Assign","Drop","Force","Same","Split","Plane","BoolAssign","XfAssign"}

VARIABLES
  nodes,   \* Seq of node records; children always have smaller index
  hnd,     \* [1..NH -> 0..Len(nodes)] : 0 = no object
  seen,    \* [1..NH -> {<<>>} \cup {<<cells>>}] : last observation of a live handle
  hist,    \* the behaviour so far (generation / replay only)
  kind     \* "" or the action kind picked for the next step (see Pick)
vars == <<nodes, hnd, seen, hist, kind>>
(* hist is a history variable: it is only carried when behaviours are       *)
(* emitted, so that exhaustive model checking explores the DAG/handle state *)
(* space and not the set of all histories.                                  *)
Log(h, rec) == IF Emit THEN Append(h, rec) ELSE Append(h, 0)

Free == { h \in 1..NH : hnd[h] = 0 }
Live == { h \in 1..NH : hnd[h] # 0 }
NewH == CHOOSE h \in Free : \A g \in Free : h <= g
NLeaves == Cardinality({ n \in 1..Len(nodes) : nodes[n].k = "leaf" })

(* ---- denotation: recursion on the DAG ---------------------------------- *)
RECURSIVE Den(_)
Den(n) ==
  LET nd == nodes[n] IN
  CASE nd.k = "leaf"  -> BoxCells(nd.box)
    [] nd.k = "op"    -> BatchSem(nd.op, [i \in 1..Len(nd.ch) |-> Den(nd.ch[i])])
    [] nd.k = "xf"    -> ApCells(Gen(nd.g), Den(nd.ch[1]))
    [] nd.k = "same"  -> Den(nd.ch[1])          \* surface-only derivations
    [] nd.k = "above" -> PlaneAbove(Den(nd.ch[1]), nd.axis, nd.off)
    [] nd.k = "below" -> PlaneBelow(Den(nd.ch[1]), nd.axis, nd.off)

Init == /\ nodes = <<>> /\ hnd = [h \in 1..NH |-> 0]
        /\ seen = [h \in 1..NH |-> <<>>] /\ hist = <<>> /\ kind = ""

Room == Len(nodes) < MaxNode /\ Free # {}

AddNode(nd, rec) ==
  /\ nodes' = Append(nodes, nd)
  /\ hnd' = [hnd EXCEPT ![NewH] = Len(nodes) + 1]
  /\ seen' = seen
  /\ hist' = Log(hist, rec @@ [h |-> NewH])

Leaf == /\ kind = "Leaf" /\ kind' = "" /\ Room /\ NLeaves < MaxLeaf
        /\ \E b \in LeafBoxes :
             \E p \in LeafProps :   \* p = 1: the leaf carries vertex properties
             AddNode([k |-> "leaf", box |-> b],
                     [a |-> "Leaf", p |-> p, box |-> <<b[1][1],b[1][2],b[1][3],b[2][1],b[2][2],b[2][3]>>])

Bool == /\ kind = "Bool" /\ kind' = "" /\ Room
        /\ \E x, y \in Live, op \in OpNames :
             AddNode([k |-> "op", op |-> op, ch |-> <<hnd[x], hnd[y]>>],
                     [a |-> "Bool", x |-> x, y |-> y, op |-> op])

(* a += b, a -= b, a ^= b : operator= onto the left operand's own handle    *)
BoolAssign ==
        /\ kind = "BoolAssign" /\ kind' = "" /\ Len(nodes) < MaxNode
        /\ \E x, y \in Live, op \in OpNames :
             /\ nodes' = Append(nodes, [k |-> "op", op |-> op, ch |-> <<hnd[x], hnd[y]>>])
             /\ hnd' = [hnd EXCEPT ![x] = Len(nodes) + 1]
             /\ seen' = [seen EXCEPT ![x] = <<>>]
             /\ hist' = Log(hist, [a |-> "BoolAssign", x |-> x, y |-> y, op |-> op])

(* BatchBoolean over a sequence of 0..3 live handles (repetition allowed)   *)
Batch == /\ kind = "Batch" /\ kind' = "" /\ Room
         /\ \E n \in {0, 1, 3}, op \in OpNames :
              \E xs \in [1..n -> Live] :
                AddNode([k |-> "op", op |-> op, ch |-> [i \in 1..n |-> hnd[xs[i]]]],
                        [a |-> "Batch", xs |-> xs, op |-> op])

Xf == /\ kind = "Xf" /\ kind' = "" /\ Room
      /\ \E x \in Live, g \in GenNames :
           /\ InWindow(ApCells(Gen(g), Den(hnd[x])))
           /\ AddNode([k |-> "xf", g |-> g, ch |-> <<hnd[x]>>],
                      [a |-> "Xf", x |-> x, g |-> g])

(* h = h.Transform(g): the old node stays referenced only by the new one     *)
XfAssign == /\ kind = "XfAssign" /\ kind' = "" /\ Len(nodes) < MaxNode
      /\ \E x \in Live, g \in GenNames :
           /\ InWindow(ApCells(Gen(g), Den(hnd[x])))
           /\ nodes' = Append(nodes, [k |-> "xf", g |-> g, ch |-> <<hnd[x]>>])
           /\ hnd' = [hnd EXCEPT ![x] = Len(nodes) + 1]
           /\ seen' = [seen EXCEPT ![x] = <<>>]
           /\ hist' = Log(hist, [a |-> "XfAssign", x |-> x, g |-> g])

(* derivations that must not change the solid: Simplify, AsOriginal,        *)
(* Refine(2), SetTolerance(small), CalculateNormals, re-import of export    *)
SameKinds == {"Simplify", "AsOriginal", "Refine2", "SetTol", "Normals", "Reimport", "SetProps"}
Same == /\ kind = "Same" /\ kind' = "" /\ Room
        /\ \E x \in Live, s \in SameKinds :
             AddNode([k |-> "same", s |-> s, ch |-> <<hnd[x]>>],
                     [a |-> "Same", x |-> x, s |-> s])

(* Split(a, b) = <<a ^ b, a - b>> : two new handles                         *)
Split == /\ kind = "Split" /\ kind' = "" /\ Len(nodes) + 2 <= MaxNode /\ Cardinality(Free) >= 2
         /\ \E x, y \in Live :
              LET h1 == NewH
                  h2 == CHOOSE h \in Free \ {h1} : \A g \in Free \ {h1} : h <= g
              IN /\ nodes' = nodes \o << [k |-> "op", op |-> "Intersect", ch |-> <<hnd[x], hnd[y]>>],
                                         [k |-> "op", op |-> "Subtract",  ch |-> <<hnd[x], hnd[y]>>] >>
                 /\ hnd' = [hnd EXCEPT ![h1] = Len(nodes) + 1, ![h2] = Len(nodes) + 2]
                 /\ seen' = seen
                 /\ hist' = Log(hist, [a |-> "Split", x |-> x, y |-> y, h |-> h1, h2 |-> h2])

(* SplitByPlane(+e_axis, off) -> <<above, below>> ; TrimByPlane = above     *)
Plane == /\ kind = "Plane" /\ kind' = "" /\ Len(nodes) + 2 <= MaxNode /\ Cardinality(Free) >= 2
         /\ \E x \in Live, axis \in 1..3, off \in (-K+1)..(K-1) :
              LET h1 == NewH
                  h2 == CHOOSE h \in Free \ {h1} : \A g \in Free \ {h1} : h <= g
              IN /\ nodes' = nodes \o << [k |-> "above", axis |-> axis, off |-> off, ch |-> <<hnd[x]>>],
                                         [k |-> "below", axis |-> axis, off |-> off, ch |-> <<hnd[x]>>] >>
                 /\ hnd' = [hnd EXCEPT ![h1] = Len(nodes) + 1, ![h2] = Len(nodes) + 2]
                 /\ seen' = seen
                 /\ hist' = Log(hist, [a |-> "Plane", x |-> x, axis |-> axis, off |-> off, h |-> h1, h2 |-> h2])

Copy == /\ kind = "Copy" /\ kind' = "" /\ Free # {}
        /\ \E x \in Live :
             /\ hnd' = [hnd EXCEPT ![NewH] = hnd[x]]
             /\ seen' = [seen EXCEPT ![NewH] = seen[x]]
             /\ hist' = Log(hist, [a |-> "Copy", x |-> x, h |-> NewH])
        /\ UNCHANGED nodes

Assign == /\ kind = "Assign" /\ kind' = ""
          /\ \E x, t \in Live : x # t /\ hnd[x] # hnd[t]
               /\ hnd' = [hnd EXCEPT ![t] = hnd[x]]
               /\ seen' = [seen EXCEPT ![t] = seen[x]]
               /\ hist' = Log(hist, [a |-> "Assign", x |-> x, h |-> t])
          /\ UNCHANGED nodes

Drop == /\ kind = "Drop" /\ kind' = "" /\ Cardinality(Live) > 1
        /\ \E x \in Live :
             /\ hnd' = [hnd EXCEPT ![x] = 0]
             /\ seen' = [seen EXCEPT ![x] = <<>>]
             /\ hist' = Log(hist, [a |-> "Drop", h |-> x])
        /\ UNCHANGED nodes

(* Any const query forces the lazy evaluation.  q says which one the driver *)
(* calls; the record carries what the specification demands of it.          *)
Queries == {"mesh", "status", "vol"}
(* what the specification demands of an observation of a solid with cells d *)
Demand(d) == [cells |-> EncSet(d), vol |-> Cardinality(d), faces |-> ExposedFaces(d),
              ext |-> IF d = {} THEN <<>> ELSE Extent(d)]
Force == /\ kind = "Force" /\ kind' = ""
         /\ \E x \in Live, q \in Queries :
              LET d == Den(hnd[x]) IN
              /\ seen' = [seen EXCEPT ![x] = <<d>>]
              /\ hist' = Log(hist, [a |-> "Force", h |-> x, q |-> q] @@ Demand(d))
         /\ UNCHANGED <<nodes, hnd>>

(* ---- behaviour emission -------------------------------------------------*)
Behaviour == [prog |-> hist,
              final |-> SetToSeq({ [h |-> h] @@ Demand(Den(hnd[h])) : h \in Live })]

(* ---- scheduling of the generator ----------------------------------------- *)
(* A step is "pick an action kind, then take one instance of it".  It does   *)
(* not change what behaviours exist; it makes TLC's -simulate choose the     *)
(* KIND uniformly (otherwise kinds with many instances, like Batch, crowd    *)
(* out Drop/Force/Copy, the very actions C03/C05 are about).                 *)
Ready == NLeaves = MaxLeaf          \* programs start with their MaxLeaf leaves
Can(k) ==
  CASE k = "Leaf"       -> Room /\ NLeaves < MaxLeaf
    [] k = "Bool"       -> Ready /\ Room
    [] k = "BoolAssign" -> Ready /\ Len(nodes) < MaxNode
    [] k = "Batch"      -> Ready /\ Room
    [] k = "Xf"         -> Ready /\ Room /\ \E x \in Live, g \in GenNames : InWindow(ApCells(Gen(g), Den(hnd[x])))
    [] k = "XfAssign"   -> Ready /\ Len(nodes) < MaxNode /\ \E x \in Live, g \in GenNames : InWindow(ApCells(Gen(g), Den(hnd[x])))
    [] k = "Same"       -> Ready /\ Room
    [] k = "Split"      -> Ready /\ Len(nodes) + 2 <= MaxNode /\ Cardinality(Free) >= 2
    [] k = "Plane"      -> Ready /\ Len(nodes) + 2 <= MaxNode /\ Cardinality(Free) >= 2
    [] k = "Copy"       -> Ready /\ Free # {}
    [] k = "Assign"     -> Ready /\ \E x, t \in Live : hnd[x] # hnd[t]
    [] k = "Drop"       -> Ready /\ Cardinality(Live) > 1
    [] k = "Force"      -> Ready
Pick == /\ kind = "" /\ Len(hist) < Depth
        /\ \E k \in Acts : Can(k) /\ kind' = k
        /\ UNCHANGED <<nodes, hnd, seen, hist>>
(* the behaviour is complete: emit it (generation) and stop                  *)
Finish == /\ kind = "" /\ Len(hist) = Depth
          /\ (Emit => PrintT(<<"BEH", ToJson(Behaviour)>>))
          /\ kind' = "done"
          /\ UNCHANGED <<nodes, hnd, seen, hist>>

Next == Pick \/ Finish \/ Leaf \/ Bool \/ BoolAssign \/ Batch \/ Xf \/ XfAssign \/ Same \/ Split \/ Plane
        \/ Copy \/ Assign \/ Drop \/ Force
Spec == Init /\ [][Next]_vars

(* ---- properties of the system ------------------------------------------ *)
(* C05: an observation of a live handle, once made, equals every later      *)
(* denotation of that handle.                                               *)
ValueStable == \A h \in Live : seen[h] # <<>> => seen[h][1] = Den(hnd[h])
(* C03: the rewrites the evaluator relies on are theorems of the semantics. *)
RewriteTheorems ==
  \A a, b, c \in { Den(n) : n \in 1..Len(nodes) } :
     /\ (a \ b) \ c = a \ (b \cup c)
     /\ (a \cup b) \cup c = BatchSem("Add", <<a, b, c>>)
     /\ (a \cap b) \cap c = BatchSem("Intersect", <<a, b, c>>)
(* C02: inclusion-exclusion and commutativity.                              *)
InclusionExclusion ==
  \A a, b \in { Den(n) : n \in 1..Len(nodes) } :
     /\ Cardinality(a \cup b) + Cardinality(a \cap b) = Cardinality(a) + Cardinality(b)
     /\ Cardinality(a \ b) + Cardinality(a \cap b) = Cardinality(a)
     /\ BoolSem("Add", a, b) = BoolSem("Add", b, a)
     /\ BoolSem("Intersect", a, b) = BoolSem("Intersect", b, a)
(* C17: a lattice transform permutes cells: volume preserved.               *)
TransformPreservesVolume ==
  \A n \in 1..Len(nodes) : nodes[n].k = "xf" =>
     Cardinality(Den(n)) = Cardinality(Den(nodes[n].ch[1]))

=============================================================================
