------------------------------- MODULE Poly -------------------------------
(***************************************************************************)
(* C10 - Triangulate / TriangulateIdx returns a correct triangulation of    *)
(* epsilon-valid polygons.                                                  *)
(*                                                                          *)
(* Exact domain: polygon sets whose vertices are points of a small integer  *)
(* lattice.  Every geometric predicate is an exact integer 2-D cross        *)
(* product (|coordinates| <= 64, so all intermediates fit TLC's 32 bits).   *)
(*                                                                          *)
(*  (a) INPUT side.  EpsValidSet(polys): every contour is a simple polygon  *)
(*      (distinct vertices, no two edges meet except consecutive edges at   *)
(*      their common vertex, no folded spike; collinear runs are allowed),  *)
(*      contours are pairwise disjoint, and a contour nested inside an even *)
(*      number of others is counter-clockwise (an outer contour), one       *)
(*      nested inside an odd number is clockwise (a hole): "non-overlapping *)
(*      simple polygons with holes, any nesting depth".  Such a set is      *)
(*      valid, hence epsilon-valid for every epsilon.                       *)
(*      Generators: family "S" is a BFS of TLC over ALL simple lattice paths *)
(*      (state = path; action Extend adds a vertex whose new edge meets no  *)
(*      earlier edge; action Close emits the polygon) - i.e. every simple   *)
(*      lattice polygon with <= MaxV vertices on the G x G grid up to       *)
(*      translation, collinear runs included.  The other families are       *)
(*      enumerated in Init: holes (H1, H2), nesting to depth 4 (N), several *)
(*      outer contours (M), combs and staircases (C), star-shaped octagons  *)
(*      alone and as holes / islands (Z, ZH), one vertex repeated (D: not   *)
(*      valid but epsilon-valid, see EpsValidWithDups), arbitrary finite    *)
(*      contours (X: only termination and index validity are demanded).     *)
(*  (a') PLACEMENT.  "At any scale and epsilon": every valid set is also     *)
(*      presented at similarity placements s * p + t in real units (scale    *)
(*      1e-3 .. 1e3, offset up to 3e6 along x, y or both) with the SAME       *)
(*      expected numbers; AdmissibleClasses keeps the placements under which  *)
(*      the set stays epsilon-valid with margin for the default epsilon.      *)
(*      PlaceNumbers / PlaceValid: the oracle's numbers, validity and nesting *)
(*      are invariant under (integer) similarities.                           *)
(*  (b) OUTPUT side.  ValidTriangulation(polys, tris) is the statement of   *)
(*      C10 clause by clause.  TLC checks on every enumerated polygon set   *)
(*      that the generator and the independent full predicate agree         *)
(*      (GenValid), that a reference ear-clipper written in the spec        *)
(*      satisfies ValidTriangulation (RefValid: the predicate and the count *)
(*      formula V-2+2h-2(o-1) are satisfiable on every hole-free case),     *)
(*      and that corrupted triangulations are rejected (MutantsRejected).   *)
(*      Poly_Trace.tla evaluates the same predicate on outputs recorded     *)
(*      from the real TriangulateIdx.                                       *)
(***************************************************************************)
EXTENDS Integers, Sequences, FiniteSets, TLC, Json

CONSTANTS Family,   \* "S" | "H1" | "H2" | "N" | "M" | "C" | "Z" | "ZH" | "D" | "X"
          G,        \* family S: grid is 0..G-1 x 0..G-1 ; others: size parameter
          MaxV,     \* family S: maximal number of vertices ; others: size parameter
          Emit,     \* print the cases as JSON
          StartRows \* family S: y-coordinates of the start vertex explored by this run (to split the BFS)

(* ------------------------------------------------------------------------ *)
(* exact integer predicates                                                  *)
(* ------------------------------------------------------------------------ *)
Orient(a, b, c) == (b[1] - a[1]) * (c[2] - a[2]) - (b[2] - a[2]) * (c[1] - a[1])
(* (a-b).(c-b) *)
DotAt(a, b, c) == (a[1] - b[1]) * (c[1] - b[1]) + (a[2] - b[2]) * (c[2] - b[2])
Min(x, y) == IF x < y THEN x ELSE y
Max(x, y) == IF x < y THEN y ELSE x
InBox(a, b, p) == /\ Min(a[1], b[1]) <= p[1] /\ p[1] <= Max(a[1], b[1])
                  /\ Min(a[2], b[2]) <= p[2] /\ p[2] <= Max(a[2], b[2])
OnSeg(a, b, p) == Orient(a, b, p) = 0 /\ InBox(a, b, p)
Opposite(x, y) == (x > 0 /\ y < 0) \/ (x < 0 /\ y > 0)
(* closed segments ab and cd have a point in common *)
SegMeet(a, b, c, d) ==
  \/ Opposite(Orient(a, b, c), Orient(a, b, d)) /\ Opposite(Orient(c, d, a), Orient(c, d, b))
  \/ OnSeg(a, b, c) \/ OnSeg(a, b, d) \/ OnSeg(c, d, a) \/ OnSeg(c, d, b)
(* edges v->a and v->c leaving the same vertex overlap (folded spike) *)
Spike(a, v, c) == Orient(a, v, c) = 0 /\ DotAt(a, v, c) > 0

SumSeq(s) == LET f[i \in 0..Len(s)] == IF i = 0 THEN 0 ELSE f[i - 1] + s[i] IN f[Len(s)]
Nx(i, n) == IF i = n THEN 1 ELSE i + 1
XY(v) == <<v[1], v[2]>>
(* doubled signed area of a contour (sequence of <<x,y>> or <<x,y,idx>>) *)
Area2(c) == SumSeq([i \in 1..Len(c) |-> c[i][1] * c[Nx(i, Len(c))][2] - c[Nx(i, Len(c))][1] * c[i][2]])

(* ------------------------------------------------------------------------ *)
(* (a) the input side: valid polygon sets                                    *)
(* ------------------------------------------------------------------------ *)
SimpleContour(c) ==
  LET n == Len(c) IN
  /\ n >= 3
  /\ \A i, j \in 1..n : i < j => XY(c[i]) # XY(c[j])
  /\ \A i \in 1..n : ~Spike(c[i], c[Nx(i, n)], c[Nx(Nx(i, n), n)])
  /\ \A i, j \in 1..n :
       (i < j /\ Nx(i, n) # j /\ Nx(j, n) # i) =>
          ~SegMeet(c[i], c[Nx(i, n)], c[j], c[Nx(j, n)])

ContoursDisjoint(c, d) ==
  \A i \in 1..Len(c), j \in 1..Len(d) : ~SegMeet(c[i], c[Nx(i, Len(c))], d[j], d[Nx(j, Len(d))])

(* p strictly inside contour c (p is known not to lie on c): crossing number *)
(* of the ray from p to +x, decided by signs only                            *)
Inside(p, c) ==
  LET n == Len(c)
      cr == { i \in 1..n :
                LET a == c[i]  b == c[Nx(i, n)] IN
                \/ a[2] <= p[2] /\ b[2] > p[2] /\ Orient(a, b, p) > 0
                \/ b[2] <= p[2] /\ a[2] > p[2] /\ Orient(a, b, p) < 0 }
  IN Cardinality(cr) % 2 = 1

Depth(polys, k) == Cardinality({ m \in 1..Len(polys) : m # k /\ Inside(polys[k][1], polys[m]) })

EpsValidSet(polys) ==
  /\ Len(polys) >= 1
  /\ \A k \in 1..Len(polys) : SimpleContour(polys[k])
  /\ \A k, m \in 1..Len(polys) : k < m => ContoursDisjoint(polys[k], polys[m])
  /\ \A k \in 1..Len(polys) :
       IF Depth(polys, k) % 2 = 0 THEN Area2(polys[k]) > 0 ELSE Area2(polys[k]) < 0

(* duplicate vertices: a contour in which a vertex is repeated (a zero-length  *)
(* edge) is not simple, but it is epsilon-valid for every epsilon > 0 when the *)
(* contour without the repetitions is valid: moving the copy along the next    *)
(* edge by less than epsilon gives a valid polygon with a collinear vertex.    *)
(* ("duplicate-within-epsilon vertices" of the property's quantifier)          *)
RECURSIVE UndupFrom(_, _)
UndupFrom(c, i) ==
  IF i > Len(c) THEN <<>>
  ELSE (IF XY(c[i]) = XY(c[IF i = 1 THEN Len(c) ELSE i - 1]) THEN <<>> ELSE <<c[i]>>) \o UndupFrom(c, i + 1)
UndupSet(polys) == [k \in 1..Len(polys) |-> UndupFrom(polys[k], 1)]
EpsValidWithDups(polys) == EpsValidSet(UndupSet(polys))
DupAt(c, i) == [j \in 1..(Len(c) + 1) |-> IF j <= i THEN c[j] ELSE c[j - 1]]

NumVerts(polys) == SumSeq([k \in 1..Len(polys) |-> Len(polys[k])])
NumOuter(polys) == Cardinality({ k \in 1..Len(polys) : Area2(polys[k]) > 0 })
NumHoles(polys) == Cardinality({ k \in 1..Len(polys) : Area2(polys[k]) < 0 })
SetArea2(polys) == SumSeq([k \in 1..Len(polys) |-> Area2(polys[k])])
(* "exactly V-2+2h-2(o-1) triangles" *)
ExpectedTris(polys) == NumVerts(polys) - 2 + 2 * NumHoles(polys) - 2 * (NumOuter(polys) - 1)

(* ------------------------------------------------------------------------ *)
(* (a') placement and scale ("... at any scale and epsilon")                  *)
(* A lattice set ps is also presented to the library as  s * ps + t  for the  *)
(* similarity placements below: s = sn/sd, t = T * d (REAL units, not lattice *)
(* units: the coordinates are neither powers of two nor exactly               *)
(* representable; each is the correctly rounded value of an exact rational).  *)
(* Everything the property demands of the result - V-2+2h-2(o-1) triangles    *)
(* over the input indices, each CCW, area sum, edge pairing - is invariant    *)
(* under an orientation preserving similarity, so the expected numbers of a   *)
(* Case do not depend on the placement (PlaceNumbers / PlaceValid check that  *)
(* on integer similarities).  A placement is only used for ps when the placed *)
(* set is epsilon-valid with a comfortable margin for the library's default   *)
(* epsilon = 1e-12 * (largest |coordinate|) (polygon.cpp: epsilon_ =          *)
(* bBox_.Scale() * kPrecision):                                               *)
(*   feature size (least distance between a vertex and an edge it is not an   *)
(*   end of; >= 1/q lattice units, q = FeatInv)          >= 1000 * epsilon,   *)
(*   height of any clockwise triangle of lattice points (>= 1/(W+H) units)    *)
(*                                                         >= 10 * epsilon,   *)
(* so that "CCW within epsilon" stays exactly "lattice cross product >= 0",   *)
(* and the rounding of the coordinates (<= 1.2e-4 * epsilon) is more than six *)
(* orders of magnitude below the feature size.                                *)
(* ------------------------------------------------------------------------ *)
PScales == { <<1, 1000>>, <<1, 100>>, <<1, 1>>, <<1000, 1>> }       \* sn/sd
POffsets == { 0, 1000, 100000, 3000000 }                            \* T
PDirs == { <<1, 0>>, <<0, 1>>, <<1, 1>>, <<-1, 1>> }                \* t = T * d  (x, y, both, both with mixed signs)
(* admissibility depends on the class <<sn, sd, T>> only; <<1,1,0>> is the lattice set itself *)
PClasses(u) == { <<s[1], s[2], t>> : s \in PScales, t \in POffsets } \ { <<1, 1, 0>> }
Placements(u) == { <<c[1], c[2], c[3] * d[1], c[3] * d[2]>> : c \in PClasses(u), d \in PDirs }

AbsI(x) == IF x < 0 THEN -x ELSE x
CeilDiv(x, y) == (x + y - 1) \div y
MaxOf(S) == CHOOSE x \in S : \A y \in S : y <= x
MinOf(S) == CHOOSE x \in S : \A y \in S : x <= y
Len2(a, b) == (b[1] - a[1]) * (b[1] - a[1]) + (b[2] - a[2]) * (b[2] - a[2])
(* 1 / (squared distance of p from the closed segment ab), rounded up; p is a   *)
(* lattice point that is not on ab: beyond an end of ab the distance is at least *)
(* 1, above ab it is |Orient| / |ab|                                             *)
InvDist2(a, b, p) ==
  IF DotAt(p, a, b) <= 0 \/ DotAt(p, b, a) <= 0 THEN 1
  ELSE IF Orient(a, b, p) = 0 THEN 1000000       \* p on ab: no valid set
  ELSE CeilDiv(Len2(a, b), Orient(a, b, p) * Orient(a, b, p))
PointsOf(ps) == UNION { { XY(ps[k][i]) : i \in 1..Len(ps[k]) } : k \in 1..Len(ps) }
EdgesOf(ps) == UNION { { <<XY(ps[k][i]), XY(ps[k][Nx(i, Len(ps[k]))])>> : i \in 1..Len(ps[k]) } : k \in 1..Len(ps) }
(* feature size >= 1 / sqrt(FeatInv2) >= 1 / FeatInv lattice units *)
FeatInv2(ps) ==
  LET V == PointsOf(ps) IN
  MaxOf({1} \cup UNION { { InvDist2(e[1], e[2], p) : p \in V \ { e[1], e[2] } } : e \in EdgesOf(ps) })
FeatInv(ps) == LET f == FeatInv2(ps) IN CHOOSE q \in 1..1000 : q * q >= f /\ (q - 1) * (q - 1) < f
MaxAbs(ps) == MaxOf({ AbsI(p[1]) : p \in PointsOf(ps) } \cup { AbsI(p[2]) : p \in PointsOf(ps) })
SpanWH(ps) == LET xs == { p[1] : p \in PointsOf(ps) }  ys == { p[2] : p \in PointsOf(ps) }
              IN (MaxOf(xs) - MinOf(xs)) + (MaxOf(ys) - MinOf(ys))
(* class c = <<sn, sd, T>> for a set with feature bound q, largest |coordinate| m, *)
(* width + height wh.  All quantities in units of 1e-3 / sd (T is a multiple of    *)
(* 1000) so that they stay below 2^31:  X >= 1e-3 * sd * (largest placed           *)
(* |coordinate|), i.e.  epsilon <= 1e-9 * X / sd ; feature >= sn / (sd * q).       *)
ClassOK(c, q, m, wh) ==
  LET X == (c[3] \div 1000) * c[2] + CeilDiv(c[1] * m, 1000) IN
  /\ q * X <= c[1] * 1000000                      \* feature >= 1000 * epsilon
  /\ CeilDiv(wh * X, 100) <= c[1] * 1000000       \* 1/(W+H) lattice units >= 10 * epsilon
AdmissibleClasses(ps) ==
  LET q == FeatInv(ps)  m == MaxAbs(ps)  wh == SpanWH(ps) IN
  { c \in PClasses(0) : ClassOK(c, q, m, wh) }
(* pl = <<sn, sd, tx, ty>> *)
PlaceOK(pl, ps) ==
  /\ pl \in Placements(0)
  /\ <<pl[1], pl[2], Max(AbsI(pl[3]), AbsI(pl[4]))>> \in AdmissibleClasses(ps)
(* the image of ps under the integer similarity p -> k * p + <<dx, dy>> *)
(* (<<>> \o f makes TLC build the tuple once instead of re-evaluating the lazy function at every application) *)
Image(ps, k, dx, dy) == <<>> \o [c \in 1..Len(ps) |-> <<>> \o [i \in 1..Len(ps[c]) |-> <<k * ps[c][i][1] + dx, k * ps[c][i][2] + dy>>]]
Undupped(ps) == IF Family \in {"D", "X", "T"} THEN <<>> \o [k \in 1..Len(ps) |-> UndupFrom(ps[k], 1)] ELSE ps

(* ------------------------------------------------------------------------ *)
(* (b) the output side: the statement of C10                                 *)
(* polys: sequence of contours, each a sequence of <<x, y, idx>>             *)
(* tris : sequence of <<i, j, k>> (vertex indices)                           *)
(* ------------------------------------------------------------------------ *)
VertsOf(polys) == UNION { { polys[k][i] : i \in 1..Len(polys[k]) } : k \in 1..Len(polys) }
IdxOf(polys) == { v[3] : v \in VertsOf(polys) }
PosOf(polys, id) == LET v == CHOOSE w \in VertsOf(polys) : w[3] = id IN <<v[1], v[2]>>
InputEdges(polys) ==
  UNION { { <<polys[k][i][3], polys[k][Nx(i, Len(polys[k]))][3]>> : i \in 1..Len(polys[k]) } :
          k \in 1..Len(polys) }
TriEdgeSlots(tris) == (1..Len(tris)) \X (1..3)
SlotEdge(tris, s) == <<tris[s[1]][s[2]], tris[s[1]][Nx(s[2], 3)]>>
(* number of times the directed edge e occurs in the triangles *)
Mult(tris, e) == Cardinality({ s \in TriEdgeSlots(tris) : SlotEdge(tris, s) = e })
TriArea2(polys, t) == Orient(PosOf(polys, t[1]), PosOf(polys, t[2]), PosOf(polys, t[3]))

IndicesValid(polys, tris) == \A t \in 1..Len(tris) : \A k \in 1..3 : tris[t][k] \in IdxOf(polys)
CountOK(polys, tris) == Len(tris) = ExpectedTris(polys)
(* counter-clockwise within epsilon: a clockwise lattice triangle has height *)
(* >= 1/(longest edge) >> epsilon, so "within epsilon" is exactly cross >= 0 *)
AllCCW(polys, tris) == \A t \in 1..Len(tris) : TriArea2(polys, tris[t]) >= 0
AreaOK(polys, tris) == SumSeq([t \in 1..Len(tris) |-> TriArea2(polys, tris[t])]) = SetArea2(polys)
(* every input edge occurs exactly once in its input direction *)
InputEdgesOnce(polys, tris) == \A e \in InputEdges(polys) : Mult(tris, e) = 1
(* every other edge is matched by its reverse (an occurrence of the reverse  *)
(* of an input edge is already used up by that input edge)                   *)
OthersPaired(polys, tris) ==
  LET IE == InputEdges(polys) IN
  \A s \in TriEdgeSlots(tris) :
    LET e == SlotEdge(tris, s)  r == <<e[2], e[1]>> IN
    e \notin IE => Mult(tris, e) = Mult(tris, r) - (IF r \in IE THEN 1 ELSE 0)

ValidTriangulation(polys, tris) ==
  /\ IndicesValid(polys, tris)
  /\ CountOK(polys, tris)
  /\ AllCCW(polys, tris)
  /\ AreaOK(polys, tris)
  /\ InputEdgesOnce(polys, tris)
  /\ OthersPaired(polys, tris)

(* first violated clause, for reports ("" when valid) *)
WhyInvalid(polys, tris) ==
  IF ~IndicesValid(polys, tris) THEN "index"
  ELSE IF ~CountOK(polys, tris) THEN "count"
  ELSE IF ~AllCCW(polys, tris) THEN "cw"
  ELSE IF ~AreaOK(polys, tris) THEN "area"
  ELSE IF ~InputEdgesOnce(polys, tris) THEN "inputedge"
  ELSE IF ~OthersPaired(polys, tris) THEN "unpaired"
  ELSE ""

(* ------------------------------------------------------------------------ *)
(* reference triangulator (hole-free contours): plain ear clipping with the  *)
(* exact predicates.  Vertex i of the remaining ring r is an ear when it is  *)
(* not reflex and no other remaining vertex lies in the closed triangle; a   *)
(* straight (collinear) vertex is a flat ear.  It only has to produce SOME   *)
(* valid triangulation so that RefValid shows the predicate to be            *)
(* satisfiable with exactly the stated count.                                *)
(* ------------------------------------------------------------------------ *)
InTriClosed(a, b, c, p) == Orient(a, b, p) >= 0 /\ Orient(b, c, p) >= 0 /\ Orient(c, a, p) >= 0
RemoveAt(r, i) == [j \in 1..(Len(r) - 1) |-> IF j < i THEN r[j] ELSE r[j + 1]]
Prv(i, n) == IF i = 1 THEN n ELSE i - 1
IsEar(r, i) ==
  LET n == Len(r)  a == r[Prv(i, n)]  b == r[i]  c == r[Nx(i, n)] IN
  IF Orient(a, b, c) = 0
    THEN DotAt(a, b, c) < 0 \/ XY(a) = XY(b) \/ XY(b) = XY(c)      \* straight or repeated vertex: flat ear
    ELSE /\ Orient(a, b, c) > 0
         /\ \A j \in 1..n : (j # i /\ j # Prv(i, n) /\ j # Nx(i, n) /\ XY(r[j]) \notin { XY(a), XY(b), XY(c) })
                                 => ~InTriClosed(a, b, c, r[j])
RECURSIVE EarClip(_)
EarClip(r) ==
  IF Len(r) < 3 THEN <<>>
  ELSE IF Len(r) = 3 THEN << <<r[1][3], r[2][3], r[3][3]>> >>
  ELSE LET E == { i \in 1..Len(r) : IsEar(r, i) } IN
       IF E = {} THEN <<>>      \* cannot happen for a simple polygon (RefValid would fail)
       ELSE LET i == CHOOSE j \in E : \A m \in E : j <= m IN
            <<  <<r[Prv(i, Len(r))][3], r[i][3], r[Nx(i, Len(r))][3]>> >> \o EarClip(RemoveAt(r, i))
RECURSIVE RefTri(_, _)
RefTri(polys, k) == IF k > Len(polys) THEN <<>> ELSE EarClip(polys[k]) \o RefTri(polys, k + 1)
HoleFree(polys) == NumHoles(polys) = 0

(* ------------------------------------------------------------------------ *)
(* contour constructors                                                      *)
(* ------------------------------------------------------------------------ *)
Rev(c) == [i \in 1..Len(c) |-> c[Len(c) + 1 - i]]
Rect(x0, y0, x1, y1) == << <<x0, y0>>, <<x1, y0>>, <<x1, y1>>, <<x0, y1>> >>
(* rectangle with every lattice point of its boundary as a vertex            *)
RECURSIVE Walk(_, _, _)
Walk(p, d, n) == IF n = 0 THEN <<>> ELSE <<p>> \o Walk(<<p[1] + d[1], p[2] + d[2]>>, d, n - 1)
RectFull(x0, y0, x1, y1) ==
  Walk(<<x0, y0>>, <<1, 0>>, x1 - x0) \o Walk(<<x1, y0>>, <<0, 1>>, y1 - y0) \o
  Walk(<<x1, y1>>, <<-1, 0>>, x1 - x0) \o Walk(<<x0, y1>>, <<0, -1>>, y1 - y0)
(* rectangle (even sides) with the edge midpoints as collinear vertices       *)
RectMid(x0, y0, x1, y1) ==
  LET mx == (x0 + x1) \div 2  my == (y0 + y1) \div 2 IN
  << <<x0, y0>>, <<mx, y0>>, <<x1, y0>>, <<x1, my>>, <<x1, y1>>, <<mx, y1>>, <<x0, y1>>, <<x0, my>> >>
Diamond(cx, cy, r) == << <<cx, cy - r>>, <<cx + r, cy>>, <<cx, cy + r>>, <<cx - r, cy>> >>
Shift(c, dx, dy) == [i \in 1..Len(c) |-> <<c[i][1] + dx, c[i][2] + dy>>]
PtsIn(x0, y0, x1, y1) == (x0..x1) \X (y0..y1)
Less(p, q) == p[1] < q[1] \/ (p[1] = q[1] /\ p[2] < q[2])
(* all counter-clockwise lattice triangles with vertices in P (canonical start) *)
TrisCCW(P) == { <<a, b, c>> \in P \X P \X P : Less(a, b) /\ Less(a, c) /\ Orient(a, b, c) > 0 }
(* candidate quadrilaterals in P (canonical start = least vertex); simplicity  *)
(* and orientation are decided later by EpsValidSet                           *)
QuadsCand(P) == { q \in { <<a, b, c, d>> : a \in P, b \in P, c \in P, d \in P } :
                   Less(q[1], q[2]) /\ Less(q[1], q[3]) /\ Less(q[1], q[4]) }

(* number the vertices 0,1,2.. in contour order: <<x,y>> -> <<x,y,idx>>      *)
RECURSIVE Offs(_, _)
Offs(polys, k) == IF k = 1 THEN 0 ELSE Offs(polys, k - 1) + Len(polys[k - 1])
Indexed(polys) == [k \in 1..Len(polys) |->
                     [i \in 1..Len(polys[k]) |-> <<polys[k][i][1], polys[k][i][2], Offs(polys, k) + i - 1>>]]

(* ------------------------------------------------------------------------ *)
(* families: CANDIDATE sets enumerated in Init (cheap constructions); the      *)
(* action EmitSet keeps exactly those that satisfy EpsValidSet                *)
(* ------------------------------------------------------------------------ *)
LShape(n) == << <<0, 0>>, <<n, 0>>, <<n, 2>>, <<2, 2>>, <<2, n>>, <<0, n>> >>
UShape(n) == << <<0, 0>>, <<n, 0>>, <<n, n>>, <<n - 1, n>>, <<n - 1, 1>>, <<1, 1>>, <<1, n>>, <<0, n>> >>
Outers(n) == { Rect(0, 0, n, n), RectFull(0, 0, n, n), LShape(n), Diamond(n, n, n),
               << <<0, 0>>, <<n, 1>>, <<n - 1, n>>, <<1, n - 1>> >> }   \* the last one: SkewQuad(n)

(* H1: an outer contour with one hole: every clockwise triangle and simple   *)
(* quadrilateral on the lattice that fits strictly inside                    *)
FamH1(n) ==
  LET P == PtsIn(1, 1, n - 1, n - 1)
      T == { Rev(t) : t \in TrisCCW(P) }
      Q == { Rev(q) : q \in QuadsCand(PtsIn(1, 1, Min(n - 1, 3), Min(n - 1, 4))) }
  IN { <<o, h>> : o \in Outers(n) \cup { UShape(n) }, h \in T }
     \cup { <<o, h>> : o \in { Rect(0, 0, n, n), LShape(n) }, h \in Q }
     \cup { <<h, o>> : o \in { Rect(0, 0, n, n) }, h \in T }   \* hole listed first

(* H2: a square / L / skew quadrilateral with two disjoint small triangular    *)
(* holes (unordered pairs): the second hole is bridged to an outer loop that   *)
(* already contains the first one                                              *)
SkewQuad(n) == << <<0, 0>>, <<n, 1>>, <<n - 1, n>>, <<1, n - 1>> >>
FamH2(n) ==
  LET T == { Rev(t) : t \in { u \in TrisCCW(PtsIn(1, 1, n - 1, n - 1)) : Orient(u[1], u[2], u[3]) <= MaxV } }   \* MaxV bounds the doubled hole area
  IN { s \in { <<o, h1, h2>> : o \in { Rect(0, 0, n, n), LShape(n), SkewQuad(n) }, h1 \in T, h2 \in T } :
         Less(s[2][1], s[3][1]) }

(* N: nesting to depth 4: concentric rings (square, full square, diamond,    *)
(* triangle, square with midpoints) of decreasing radius around (8,8), the innermost one displaced  *)
Ring(kind, r) ==
  CASE kind = 1 -> Rect(8 - r, 8 - r, 8 + r, 8 + r)
    [] kind = 2 -> Diamond(8, 8, r)
    [] kind = 3 -> << <<8 - r, 8 - r>>, <<8 + r, 8 - r + 1>>, <<8, 8 + r>> >>
    [] kind = 4 -> RectMid(8 - r, 8 - r, 8 + r, 8 + r)
Oriented(c, depth) == IF depth % 2 = 0 THEN c ELSE Rev(c)
FamN(maxd) ==
  LET Kinds == 1..4
      Radii == <<8, 6, 4, 2>>       \* touching combinations are filtered by EpsValidSet
      Disp == { <<0, 0>>, <<1, 0>>, <<0, 1>>, <<-1, -1>>, <<1, -1>> }
      Build(ks, d) == [j \in 1..Len(ks) |->
                         Oriented(IF j = Len(ks) THEN Shift(Ring(ks[j], Radii[j] - (IF ks[j] = 2 THEN 0 ELSE 1)), d[1], d[2])
                                                 ELSE Ring(ks[j], Radii[j]), j - 1)]
  IN UNION { { Build(ks, d) : ks \in [1..dd -> Kinds], d \in Disp } : dd \in 2..maxd }

(* M: two outer contours, the first with a triangular hole; the second lies  *)
(* to the right of / above / inside the notch of the first                   *)
FamM(n) ==
  LET T == { Rev(t) : t \in TrisCCW(PtsIn(1, 1, n - 1, n - 1)) }
      S == { << <<0, 0>>, <<1, 0>>, <<0, 2>> >>, << <<0, 1>>, <<1, 0>>, <<1, 2>> >>, Rect(0, 0, 1, 1) }
      B == { Shift(t, n + 1, 0) : t \in S } \cup { Shift(t, n + 1, n - 2) : t \in S } \cup
           { Shift(t, 3, 3) : t \in S }                       \* inside the notch of the L
  IN { <<o, h, b>> : o \in { Rect(0, 0, n, n), LShape(n) }, h \in T, b \in B }
     \cup { <<b, h, o>> : o \in { LShape(n) }, h \in T, b \in B }

(* C: combs and staircases.  Comb: n teeth of heights hs[i] in 1..3 on a bar; *)
(* Stair: n steps with rises in 1..2; both with all boundary lattice points   *)
(* of the bar as (collinear) vertices when full = TRUE                        *)
RECURSIVE Teeth(_, _)
Teeth(hs, i) ==   \* walked right-to-left along the top of the bar (y = 1)
  IF i = 0 THEN <<>>
  ELSE << <<2 * i, 1>>, <<2 * i, 1 + hs[i]>>, <<2 * i - 1, 1 + hs[i]>>, <<2 * i - 1, 1>> >> \o Teeth(hs, i - 1)
Comb(hs, full) ==
  LET n == Len(hs)
      bottom == IF full THEN Walk(<<0, 0>>, <<1, 0>>, 2 * n + 1) ELSE << <<0, 0>> >>
  IN bottom \o << <<2 * n + 1, 0>>, <<2 * n + 1, 1>> >> \o Teeth(hs, n) \o << <<0, 1>> >>
RECURSIVE StairUp(_, _, _, _)
StairUp(rs, i, x, y) ==
  IF i > Len(rs) THEN <<>>
  ELSE << <<x, y>>, <<x, y + rs[i]>> >> \o StairUp(rs, i + 1, x - 1, y + rs[i])
Stair(rs) ==
  LET n == Len(rs) IN << <<0, 0>>, <<n + 1, 0>> >> \o StairUp(rs, 1, n + 1, 0) \o
                      << <<0, SumSeq(rs)>> >>
FamC(n) ==
  UNION { { <<Comb(hs, f)>> : hs \in [1..m -> 1..3], f \in BOOLEAN } : m \in 1..n }
  \cup UNION { { <<Stair(rs)>> : rs \in [1..m -> 1..2] } : m \in 1..(n + 1) }

(* Z: star-shaped octagons: vertex i lies k[i] steps from the centre in the    *)
(* i-th of the 8 king's-move directions, k[i] in 1..n: 8 vertices with up to 4 *)
(* reflex ones, collinear runs, long thin ears.  ZH: such a star (radii 1..2)  *)
(* as a hole of a square / diamond / three times the same star (parallel       *)
(* edges), and as an island inside a star-shaped hole                          *)
Dirs8 == << <<1, 0>>, <<1, 1>>, <<0, 1>>, <<-1, 1>>, <<-1, 0>>, <<-1, -1>>, <<0, -1>>, <<1, -1>> >>
Star(cx, cy, k, m) == [i \in 1..8 |-> <<cx + m * k[i] * Dirs8[i][1], cy + m * k[i] * Dirs8[i][2]>>]
FamZ(n) == { <<Star(n, n, k, 1)>> : k \in [1..8 -> 1..n] }
FamZH(n) ==
  UNION { { <<Rect(0, 0, 14, 14), Rev(Star(7, 7, k, 1))>>,
            <<Star(7, 7, k, 3), Rev(Star(7, 7, k, 1))>>,
            <<Rect(0, 0, 14, 14), Rev(Star(7, 7, k, 2)), Star(7, 7, k, 1)>> } : k \in [1..8 -> 1..n] }
  \cup UNION { { <<Rev(Star(8, 8, k, 1)), Diamond(8, 8, 8)>>,
                 <<Rect(0, 0, 14, 14), Rev(Star(4, 4, k, 1)), Rev(Star(10, 5, [i \in 1..8 |-> k[9 - i]], 1))>> } :
               k \in { kk \in [1..8 -> 1..n] : kk[1] = 1 /\ kk[5] = n } }

(* D: one vertex repeated, at every position of every contour of the valid     *)
(* sets of a base family (combs/staircases, square and L with a triangular     *)
(* hole, star octagons): V grows by one, so does the number of triangles       *)
BaseD(n) ==
  { s \in FamC(2) \cup { <<o, Rev(t)>> : o \in { Rect(0, 0, n, n) }, t \in TrisCCW(PtsIn(1, 1, n - 1, n - 1)) } : EpsValidSet(s) }
  \cup { <<Star(2, 2, k, 1)>> : k \in { kk \in [1..8 -> 1..2] : kk[1] = 1 /\ kk[2] = 2 } }
FamD(n) ==
  UNION { { [s EXCEPT ![kk[1]] = DupAt(s[kk[1]], kk[2])] :
              kk \in { q \in (1..Len(s)) \X (1..16) : q[2] <= Len(s[q[1]]) } } : s \in BaseD(n) }

(* X: ARBITRARY finite contours (repeated points, self-intersections, zero    *)
(* area, clockwise outers, overlapping pairs): only termination and "indices  *)
(* are input indices" are demanded of these, unless the set happens to be     *)
(* epsilon-valid (Case.valid is computed by InputOK)                          *)
FamX(n) ==
  LET P == PtsIn(0, 0, 2, 2)  Q == PtsIn(0, 0, 1, 1) IN
  UNION { { <<c>> : c \in [1..m -> P] } : m \in 3..n }
  \cup { <<a, b>> : a \in [1..3 -> Q], b \in [1..3 -> Q] }
  \cup { <<c>> : c \in [1..2 -> Q] }                       \* a contour of two points
  \cup { << <<p>> >> : p \in { <<0, 0>>, <<1, 2>> } }        \* a contour of one point
  \cup { << Rect(0, 0, 2, 2), <<p>> >> : p \in { <<1, 1>>, <<3, 0>> } }

Fam(f) == CASE f = "X" -> FamX(MaxV) [] f = "D" -> FamD(G) [] f = "Z" -> FamZ(G) [] f = "ZH" -> FamZH(G) [] f = "H1" -> FamH1(G) [] f = "H2" -> FamH2(G) [] f = "N" -> FamN(MaxV)
            [] f = "M" -> FamM(G) [] f = "C" -> FamC(G)
            [] OTHER -> {}

(* ------------------------------------------------------------------------ *)
(* the generating state machine                                              *)
(* ------------------------------------------------------------------------ *)
VARIABLES path,    \* family S: the simple open lattice path built so far
          polys,   \* <<>> until a polygon set is complete, then the set (unindexed)
          done

(* may the path q be extended by p?  p is new and lexicographically above    *)
(* the start (the start stays the least vertex: one representative per        *)
(* rotation), the new edge meets no earlier edge and does not fold back       *)
CanExtend(q, p) ==
  LET n == Len(q) IN
  /\ Less(q[1], p)
  /\ \A i \in 1..n : q[i] # p
  /\ (IF n >= 2 THEN ~Spike(q[n - 1], q[n], p) ELSE TRUE)
  /\ \A i \in 1..(n - 2) : ~SegMeet(q[i], q[i + 1], q[n], p)
(* may the path be closed?  the closing edge meets no edge but its            *)
(* neighbours, no spike at either end, counter-clockwise, lowest vertex on    *)
(* y = 0 (one representative per translation)                                 *)
CanClose(q) ==
  LET n == Len(q) IN
  /\ n >= 3
  /\ ~Spike(q[n - 1], q[n], q[1]) /\ ~Spike(q[n], q[1], q[2])
  /\ \A i \in 2..(n - 2) : ~SegMeet(q[i], q[i + 1], q[n], q[1])
  /\ \E i \in 1..n : q[i][2] = 0
  /\ Area2(q) > 0

(* D and X contain repeated vertices: epsilon-valid iff valid without the repetitions *)
InputOK(ps) == IF Family \in {"D", "X"} THEN EpsValidWithDups(ps) ELSE EpsValidSet(ps)
Case(ps) ==
  LET ip == Indexed(ps) IN
  [fam |-> Family, polys |-> ip, valid |-> (Family # "X" \/ InputOK(ps)),
   dup |-> NumVerts(ps) - NumVerts(UndupSet(ps)),
   V |-> NumVerts(ps), h |-> NumHoles(ps), o |-> NumOuter(ps),
   ntri |-> ExpectedTris(ps), area2 |-> SetArea2(ps),
   \* the placement classes <<sn, sd, T>> under which this set is presented as well (same expected numbers;
   \* arbitrary finite input must terminate with valid indices wherever it lies)
   place |-> IF Family # "X" \/ InputOK(ps) THEN AdmissibleClasses(Undupped(ps)) ELSE PClasses(0)]

Init ==
  /\ done = FALSE
  /\ IF Family = "S"
       THEN /\ path \in { <<p>> : p \in {0} \X StartRows }   \* x = 0: least vertex on the left edge
            /\ polys = <<>>
       ELSE /\ path = <<>>
            /\ polys \in Fam(Family)

Extend == /\ Family = "S" /\ ~done /\ Len(path) < MaxV
          /\ \E p \in (0..(G - 1)) \X (0..(G - 1)) :
               /\ CanExtend(path, p)
               /\ path' = Append(path, p)
          /\ UNCHANGED <<polys, done>>
Close == /\ Family = "S" /\ ~done /\ CanClose(path)
         /\ polys' = <<path>> /\ done' = TRUE /\ UNCHANGED path
         /\ (Emit => PrintT(<<"BEH", ToJson(Case(<<path>>))>>))
EmitSet == /\ Family # "S" /\ ~done
           /\ (IF Family = "X" THEN TRUE ELSE InputOK(polys))
           /\ done' = TRUE /\ UNCHANGED <<path, polys>>
           /\ (Emit => PrintT(<<"BEH", ToJson(Case(polys))>>))
Next == Extend \/ Close \/ EmitSet

(* ------------------------------------------------------------------------ *)
(* invariants checked by TLC over every enumerated state                     *)
(* ------------------------------------------------------------------------ *)
(* the incremental generator and the full independent predicate agree; every *)
(* emitted set has positive area and a positive triangle count               *)
GenValid == (done /\ Family # "X") =>
                            /\ InputOK(polys)
                            /\ SetArea2(polys) > 0
                            /\ ExpectedTris(polys) >= 1
                            /\ NumOuter(polys) >= 1
(* every prefix of a generated path is a simple open path                    *)
PathSimple == \A i, j \in 1..(Len(path) - 1) :
                 (i + 1 < j) => ~SegMeet(path[i], path[i + 1], path[j], path[j + 1])
(* Pick's theorem ties together the quantities the count formula is made of:  *)
(* with I interior lattice points (inside an odd number of contours, on none) *)
(* and B boundary lattice points, 2*Area = 2I + B - 2(o - h).  It is checked  *)
(* with Inside/OnSeg/Area2/NumOuter/NumHoles exactly as defined above.        *)
RECURSIVE GCD(_, _)
GCD(a, b) == IF b = 0 THEN a ELSE GCD(b, a % b)
Abs(x) == IF x < 0 THEN -x ELSE x
BoundaryPts(c) == SumSeq([i \in 1..Len(c) |-> GCD(Abs(c[Nx(i, Len(c))][1] - c[i][1]), Abs(c[Nx(i, Len(c))][2] - c[i][2]))])
PickOK ==
  (done /\ (Family # "X" \/ InputOK(polys))) =>
    LET V == VertsOf(polys)
        xs == { v[1] : v \in V }  ys == { v[2] : v \in V }
        x0 == CHOOSE x \in xs : \A z \in xs : x <= z   x1 == CHOOSE x \in xs : \A z \in xs : x >= z
        y0 == CHOOSE y \in ys : \A z \in ys : y <= z   y1 == CHOOSE y \in ys : \A z \in ys : y >= z
        OnB(p) == \E k \in 1..Len(polys) : \E i \in 1..Len(polys[k]) : OnSeg(polys[k][i], polys[k][Nx(i, Len(polys[k]))], p)
        In(p) == Cardinality({ k \in 1..Len(polys) : Inside(p, polys[k]) }) % 2 = 1
        I == Cardinality({ p \in (x0..x1) \X (y0..y1) : ~OnB(p) /\ In(p) })
        B == SumSeq([k \in 1..Len(polys) |-> BoundaryPts(polys[k])])
    IN SetArea2(polys) = 2 * I + B - 2 * (NumOuter(polys) - NumHoles(polys))

(* the C10 predicate is satisfiable with exactly the stated count: the       *)
(* reference ear clipper's output satisfies it on every hole-free set        *)
RefValid == (done /\ HoleFree(polys) /\ (Family # "X" \/ InputOK(polys))) =>
               ValidTriangulation(Indexed(polys), RefTri(Indexed(polys), 1))
(* ... and it is not vacuous: corrupting the reference output is rejected    *)
FlipTri(t) == <<t[1], t[3], t[2]>>
MutantsRejected ==
  (done /\ HoleFree(polys) /\ (Family # "X" \/ InputOK(polys))) =>
    LET ip == Indexed(polys)
        ref == RefTri(ip, 1)
        flipped == [ref EXCEPT ![1] = FlipTri(ref[1])]
        dropped == Tail(ref)
        doubled == ref \o <<ref[1]>>
        outidx == [ref EXCEPT ![1] = <<ref[1][1], ref[1][2], NumVerts(polys)>>]
    IN /\ ~ValidTriangulation(ip, flipped)
       /\ ~ValidTriangulation(ip, dropped)
       /\ ~ValidTriangulation(ip, doubled)
       /\ ~ValidTriangulation(ip, outidx)
(* placement: the numbers the oracle is made of do not depend on the placement *)
(* (checked on integer similarities k * p + t), scaling alone is admissible for  *)
(* every valid set, and admissibility is monotone in the distance from the origin *)
Sims == { <<3, -7, 11>>, <<1, 40, 40>> }
PlaceNumbers ==
  (done /\ (Family # "X" \/ InputOK(polys))) =>
    LET U == Undupped(polys)  A == AdmissibleClasses(U)  q == FeatInv(U) IN
    /\ \A m \in Sims :
         LET im == Image(U, m[1], m[2], m[3]) IN
         /\ NumVerts(im) = NumVerts(U) /\ NumHoles(im) = NumHoles(U) /\ NumOuter(im) = NumOuter(U)
         /\ ExpectedTris(im) = ExpectedTris(U)
         /\ SetArea2(im) = m[1] * m[1] * SetArea2(U)
         /\ SpanWH(im) = m[1] * SpanWH(U)
         /\ (m[1] = 1 => FeatInv2(im) = FeatInv2(U))
    /\ \A s \in PScales : s # <<1, 1>> => <<s[1], s[2], 0>> \in A
    /\ \A c \in A : \A t \in POffsets : t < c[3] => (<<c[1], c[2], t>> \in A \/ <<c[1], c[2], t>> = <<1, 1, 0>>)
    /\ \A c \in A : q * (c[3] \div 1000) * c[2] <= c[1] * 1000000
(* ... and the image of a valid set is a valid set with the same nesting *)
PlaceValid ==
  (done /\ (Family # "X" \/ InputOK(polys))) =>
    LET U == Undupped(polys) IN
    \A m \in { <<3, -7, 11>> } : LET im == Image(U, m[1], m[2], m[3]) IN
       /\ EpsValidSet(im)
       /\ \A k \in 1..Len(U) : Depth(im, k) = Depth(U, k)
=============================================================================
