CONSTANTS Family = "S"
  G = 5
  MaxV = 4
  Emit = TRUE
  StartRows = {0,1,2,3,4}
INIT Init
NEXT Next
INVARIANT GenValid
INVARIANT PathSimple
INVARIANT RefValid
INVARIANT PickOK
INVARIANT MutantsRejected
INVARIANT PlaceNumbers
INVARIANT PlaceValid
CHECK_DEADLOCK FALSE
