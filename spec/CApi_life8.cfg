CONSTANTS
  Fam = "life"
  NS = 3
  MaxCalls = 8
  Guarded = TRUE
  Closing = FALSE
  OpsLen = 0
  Emit = TRUE
INIT Init
NEXT Next
CHECK_DEADLOCK FALSE
INVARIANT NoDoubleDestruct
INVARIANT NoUseAfterDestruct
INVARIANT ConstructOnlyIntoRawOfCorrectSize
INVARIANT NoLeakAtEnd
INVARIANT NoBadFree
INVARIANT InBounds
INVARIANT MemorySafe
INVARIANT Refines
INVARIANT CleanAtEnd
