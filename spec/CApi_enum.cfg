CONSTANTS
  Fam = "enum"
  NS = 1
  MaxCalls = 1
  Guarded = TRUE
  Closing = FALSE
  OpsLen = 0
  Emit = TRUE
INIT Init
NEXT Next
CHECK_DEADLOCK FALSE
INVARIANT EnumMapsBijective
