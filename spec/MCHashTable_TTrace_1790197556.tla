---- MODULE MCHashTable_TTrace_1790197556 ----
EXTENDS Sequences, TLCExt, Toolbox, Naturals, TLC, MCHashTable

_expression ==
    LET MCHashTable_TEExpression == INSTANCE MCHashTable_TEExpression
    IN MCHashTable_TEExpression!expression
----

_trace ==
    LET MCHashTable_TETrace == INSTANCE MCHashTable_TETrace
    IN MCHashTable_TETrace!trace
----

_inv ==
    ~(
        TLCGet("level") = Len(_TETrace)
        /\
        pc = (<<"Done", "Done">>)
        /\
        sched = (<<>>)
        /\
        last = (0)
        /\
        gaveUp = ({})
        /\
        vals = ((0 :> 0 @@ 1 :> 11 @@ 2 :> 12 @@ 3 :> 0 @@ 4 :> 0 @@ 5 :> 15 @@ 6 :> 0 @@ 7 :> 0))
        /\
        keys = ((0 :> 99 @@ 1 :> 1 @@ 2 :> 2 @@ 3 :> 99 @@ 4 :> 99 @@ 5 :> 5 @@ 6 :> 99 @@ 7 :> 99))
        /\
        switches = (0)
        /\
        used = (4)
        /\
        seenOpen = (<<FALSE, FALSE>>)
        /\
        job = (<<3, 3>>)
        /\
        idx = (<<2, 1>>)
    )
----

_init ==
    /\ seenOpen = _TETrace[1].seenOpen
    /\ job = _TETrace[1].job
    /\ pc = _TETrace[1].pc
    /\ keys = _TETrace[1].keys
    /\ sched = _TETrace[1].sched
    /\ last = _TETrace[1].last
    /\ used = _TETrace[1].used
    /\ switches = _TETrace[1].switches
    /\ gaveUp = _TETrace[1].gaveUp
    /\ vals = _TETrace[1].vals
    /\ idx = _TETrace[1].idx
----

_next ==
    /\ \E i,j \in DOMAIN _TETrace:
        /\ \/ /\ j = i + 1
              /\ i = TLCGet("level")
        /\ seenOpen  = _TETrace[i].seenOpen
        /\ seenOpen' = _TETrace[j].seenOpen
        /\ job  = _TETrace[i].job
        /\ job' = _TETrace[j].job
        /\ pc  = _TETrace[i].pc
        /\ pc' = _TETrace[j].pc
        /\ keys  = _TETrace[i].keys
        /\ keys' = _TETrace[j].keys
        /\ sched  = _TETrace[i].sched
        /\ sched' = _TETrace[j].sched
        /\ last  = _TETrace[i].last
        /\ last' = _TETrace[j].last
        /\ used  = _TETrace[i].used
        /\ used' = _TETrace[j].used
        /\ switches  = _TETrace[i].switches
        /\ switches' = _TETrace[j].switches
        /\ gaveUp  = _TETrace[i].gaveUp
        /\ gaveUp' = _TETrace[j].gaveUp
        /\ vals  = _TETrace[i].vals
        /\ vals' = _TETrace[j].vals
        /\ idx  = _TETrace[i].idx
        /\ idx' = _TETrace[j].idx

\* Uncomment the ASSUME below to write the states of the error trace
\* to the given file in Json format. Note that you can pass any tuple
\* to `JsonSerialize`. For example, a sub-sequence of _TETrace.
    \* ASSUME
    \*     LET J == INSTANCE Json
    \*         IN J!JsonSerialize("MCHashTable_TTrace_1790197556.json", _TETrace)

=============================================================================

 Note that you can extract this module `MCHashTable_TEExpression`
  to a dedicated file to reuse `expression` (the module in the 
  dedicated `MCHashTable_TEExpression.tla` file takes precedence 
  over the module `MCHashTable_TEExpression` below).

---- MODULE MCHashTable_TEExpression ----
EXTENDS Sequences, TLCExt, Toolbox, Naturals, TLC, MCHashTable

expression == 
    [
        \* To hide variables of the `MCHashTable` spec from the error trace,
        \* remove the variables below.  The trace will be written in the order
        \* of the fields of this record.
        seenOpen |-> seenOpen
        ,job |-> job
        ,pc |-> pc
        ,keys |-> keys
        ,sched |-> sched
        ,last |-> last
        ,used |-> used
        ,switches |-> switches
        ,gaveUp |-> gaveUp
        ,vals |-> vals
        ,idx |-> idx
        
        \* Put additional constant-, state-, and action-level expressions here:
        \* ,_stateNumber |-> _TEPosition
        \* ,_seenOpenUnchanged |-> seenOpen = seenOpen'
        
        \* Format the `seenOpen` variable as Json value.
        \* ,_seenOpenJson |->
        \*     LET J == INSTANCE Json
        \*     IN J!ToJson(seenOpen)
        
        \* Lastly, you may build expressions over arbitrary sets of states by
        \* leveraging the _TETrace operator.  For example, this is how to
        \* count the number of times a spec variable changed up to the current
        \* state in the trace.
        \* ,_seenOpenModCount |->
        \*     LET F[s \in DOMAIN _TETrace] ==
        \*         IF s = 1 THEN 0
        \*         ELSE IF _TETrace[s].seenOpen # _TETrace[s-1].seenOpen
        \*             THEN 1 + F[s-1] ELSE F[s-1]
        \*     IN F[_TEPosition - 1]
    ]

=============================================================================



Parsing and semantic processing can take forever if the trace below is long.
 In this case, it is advised to uncomment the module below to deserialize the
 trace from a generated binary file.

\*
\*---- MODULE MCHashTable_TETrace ----
\*EXTENDS IOUtils, TLC, MCHashTable
\*
\*trace == IODeserialize("MCHashTable_TTrace_1790197556.bin", TRUE)
\*
\*=============================================================================
\*

---- MODULE MCHashTable_TETrace ----
EXTENDS TLC, MCHashTable

trace == 
    <<
    ([pc |-> <<"Start", "Start">>,sched |-> <<>>,last |-> 0,gaveUp |-> {},vals |-> (0 :> 0 @@ 1 :> 0 @@ 2 :> 0 @@ 3 :> 0 @@ 4 :> 0 @@ 5 :> 0 @@ 6 :> 0 @@ 7 :> 0),keys |-> (0 :> 99 @@ 1 :> 99 @@ 2 :> 99 @@ 3 :> 99 @@ 4 :> 99 @@ 5 :> 99 @@ 6 :> 99 @@ 7 :> 99),switches |-> 0,used |-> 0,seenOpen |-> <<FALSE, FALSE>>,job |-> <<1, 1>>,idx |-> <<0, 0>>]),
    ([pc |-> <<"Start", "L">>,sched |-> <<>>,last |-> 0,gaveUp |-> {},vals |-> (0 :> 0 @@ 1 :> 0 @@ 2 :> 0 @@ 3 :> 0 @@ 4 :> 0 @@ 5 :> 0 @@ 6 :> 0 @@ 7 :> 0),keys |-> (0 :> 99 @@ 1 :> 99 @@ 2 :> 99 @@ 3 :> 99 @@ 4 :> 99 @@ 5 :> 99 @@ 6 :> 99 @@ 7 :> 99),switches |-> 0,used |-> 0,seenOpen |-> <<FALSE, FALSE>>,job |-> <<1, 1>>,idx |-> <<0, 5>>]),
    ([pc |-> <<"L", "L">>,sched |-> <<>>,last |-> 0,gaveUp |-> {},vals |-> (0 :> 0 @@ 1 :> 0 @@ 2 :> 0 @@ 3 :> 0 @@ 4 :> 0 @@ 5 :> 0 @@ 6 :> 0 @@ 7 :> 0),keys |-> (0 :> 99 @@ 1 :> 99 @@ 2 :> 99 @@ 3 :> 99 @@ 4 :> 99 @@ 5 :> 99 @@ 6 :> 99 @@ 7 :> 99),switches |-> 0,used |-> 0,seenOpen |-> <<FALSE, FALSE>>,job |-> <<1, 1>>,idx |-> <<1, 5>>]),
    ([pc |-> <<"L", "C">>,sched |-> <<>>,last |-> 0,gaveUp |-> {},vals |-> (0 :> 0 @@ 1 :> 0 @@ 2 :> 0 @@ 3 :> 0 @@ 4 :> 0 @@ 5 :> 0 @@ 6 :> 0 @@ 7 :> 0),keys |-> (0 :> 99 @@ 1 :> 99 @@ 2 :> 99 @@ 3 :> 99 @@ 4 :> 99 @@ 5 :> 99 @@ 6 :> 99 @@ 7 :> 99),switches |-> 0,used |-> 0,seenOpen |-> <<FALSE, FALSE>>,job |-> <<1, 1>>,idx |-> <<1, 5>>]),
    ([pc |-> <<"L", "C">>,sched |-> <<>>,last |-> 0,gaveUp |-> {},vals |-> (0 :> 0 @@ 1 :> 0 @@ 2 :> 0 @@ 3 :> 0 @@ 4 :> 0 @@ 5 :> 0 @@ 6 :> 0 @@ 7 :> 0),keys |-> (0 :> 99 @@ 1 :> 99 @@ 2 :> 99 @@ 3 :> 99 @@ 4 :> 99 @@ 5 :> 99 @@ 6 :> 99 @@ 7 :> 99),switches |-> 0,used |-> 0,seenOpen |-> <<FALSE, TRUE>>,job |-> <<1, 1>>,idx |-> <<1, 5>>]),
    ([pc |-> <<"C", "C">>,sched |-> <<>>,last |-> 0,gaveUp |-> {},vals |-> (0 :> 0 @@ 1 :> 0 @@ 2 :> 0 @@ 3 :> 0 @@ 4 :> 0 @@ 5 :> 0 @@ 6 :> 0 @@ 7 :> 0),keys |-> (0 :> 99 @@ 1 :> 99 @@ 2 :> 99 @@ 3 :> 99 @@ 4 :> 99 @@ 5 :> 99 @@ 6 :> 99 @@ 7 :> 99),switches |-> 0,used |-> 0,seenOpen |-> <<FALSE, TRUE>>,job |-> <<1, 1>>,idx |-> <<1, 5>>]),
    ([pc |-> <<"C", "U">>,sched |-> <<>>,last |-> 0,gaveUp |-> {},vals |-> (0 :> 0 @@ 1 :> 0 @@ 2 :> 0 @@ 3 :> 0 @@ 4 :> 0 @@ 5 :> 0 @@ 6 :> 0 @@ 7 :> 0),keys |-> (0 :> 99 @@ 1 :> 99 @@ 2 :> 99 @@ 3 :> 99 @@ 4 :> 99 @@ 5 :> 5 @@ 6 :> 99 @@ 7 :> 99),switches |-> 0,used |-> 0,seenOpen |-> <<FALSE, FALSE>>,job |-> <<1, 1>>,idx |-> <<1, 5>>]),
    ([pc |-> <<"C", "V">>,sched |-> <<>>,last |-> 0,gaveUp |-> {},vals |-> (0 :> 0 @@ 1 :> 0 @@ 2 :> 0 @@ 3 :> 0 @@ 4 :> 0 @@ 5 :> 0 @@ 6 :> 0 @@ 7 :> 0),keys |-> (0 :> 99 @@ 1 :> 99 @@ 2 :> 99 @@ 3 :> 99 @@ 4 :> 99 @@ 5 :> 5 @@ 6 :> 99 @@ 7 :> 99),switches |-> 0,used |-> 1,seenOpen |-> <<FALSE, FALSE>>,job |-> <<1, 1>>,idx |-> <<1, 5>>]),
    ([pc |-> <<"C", "Start">>,sched |-> <<>>,last |-> 0,gaveUp |-> {},vals |-> (0 :> 0 @@ 1 :> 0 @@ 2 :> 0 @@ 3 :> 0 @@ 4 :> 0 @@ 5 :> 15 @@ 6 :> 0 @@ 7 :> 0),keys |-> (0 :> 99 @@ 1 :> 99 @@ 2 :> 99 @@ 3 :> 99 @@ 4 :> 99 @@ 5 :> 5 @@ 6 :> 99 @@ 7 :> 99),switches |-> 0,used |-> 1,seenOpen |-> <<FALSE, FALSE>>,job |-> <<1, 2>>,idx |-> <<1, 5>>]),
    ([pc |-> <<"C", "L">>,sched |-> <<>>,last |-> 0,gaveUp |-> {},vals |-> (0 :> 0 @@ 1 :> 0 @@ 2 :> 0 @@ 3 :> 0 @@ 4 :> 0 @@ 5 :> 15 @@ 6 :> 0 @@ 7 :> 0),keys |-> (0 :> 99 @@ 1 :> 99 @@ 2 :> 99 @@ 3 :> 99 @@ 4 :> 99 @@ 5 :> 5 @@ 6 :> 99 @@ 7 :> 99),switches |-> 0,used |-> 1,seenOpen |-> <<FALSE, FALSE>>,job |-> <<1, 2>>,idx |-> <<1, 1>>]),
    ([pc |-> <<"C", "C">>,sched |-> <<>>,last |-> 0,gaveUp |-> {},vals |-> (0 :> 0 @@ 1 :> 0 @@ 2 :> 0 @@ 3 :> 0 @@ 4 :> 0 @@ 5 :> 15 @@ 6 :> 0 @@ 7 :> 0),keys |-> (0 :> 99 @@ 1 :> 99 @@ 2 :> 99 @@ 3 :> 99 @@ 4 :> 99 @@ 5 :> 5 @@ 6 :> 99 @@ 7 :> 99),switches |-> 0,used |-> 1,seenOpen |-> <<FALSE, FALSE>>,job |-> <<1, 2>>,idx |-> <<1, 1>>]),
    ([pc |-> <<"C", "C">>,sched |-> <<>>,last |-> 0,gaveUp |-> {},vals |-> (0 :> 0 @@ 1 :> 0 @@ 2 :> 0 @@ 3 :> 0 @@ 4 :> 0 @@ 5 :> 15 @@ 6 :> 0 @@ 7 :> 0),keys |-> (0 :> 99 @@ 1 :> 99 @@ 2 :> 99 @@ 3 :> 99 @@ 4 :> 99 @@ 5 :> 5 @@ 6 :> 99 @@ 7 :> 99),switches |-> 0,used |-> 1,seenOpen |-> <<TRUE, FALSE>>,job |-> <<1, 2>>,idx |-> <<1, 1>>]),
    ([pc |-> <<"C", "C">>,sched |-> <<>>,last |-> 0,gaveUp |-> {},vals |-> (0 :> 0 @@ 1 :> 0 @@ 2 :> 0 @@ 3 :> 0 @@ 4 :> 0 @@ 5 :> 15 @@ 6 :> 0 @@ 7 :> 0),keys |-> (0 :> 99 @@ 1 :> 99 @@ 2 :> 99 @@ 3 :> 99 @@ 4 :> 99 @@ 5 :> 5 @@ 6 :> 99 @@ 7 :> 99),switches |-> 0,used |-> 1,seenOpen |-> <<TRUE, TRUE>>,job |-> <<1, 2>>,idx |-> <<1, 1>>]),
    ([pc |-> <<"U", "C">>,sched |-> <<>>,last |-> 0,gaveUp |-> {},vals |-> (0 :> 0 @@ 1 :> 0 @@ 2 :> 0 @@ 3 :> 0 @@ 4 :> 0 @@ 5 :> 15 @@ 6 :> 0 @@ 7 :> 0),keys |-> (0 :> 99 @@ 1 :> 1 @@ 2 :> 99 @@ 3 :> 99 @@ 4 :> 99 @@ 5 :> 5 @@ 6 :> 99 @@ 7 :> 99),switches |-> 0,used |-> 1,seenOpen |-> <<FALSE, TRUE>>,job |-> <<1, 2>>,idx |-> <<1, 1>>]),
    ([pc |-> <<"V", "C">>,sched |-> <<>>,last |-> 0,gaveUp |-> {},vals |-> (0 :> 0 @@ 1 :> 0 @@ 2 :> 0 @@ 3 :> 0 @@ 4 :> 0 @@ 5 :> 15 @@ 6 :> 0 @@ 7 :> 0),keys |-> (0 :> 99 @@ 1 :> 1 @@ 2 :> 99 @@ 3 :> 99 @@ 4 :> 99 @@ 5 :> 5 @@ 6 :> 99 @@ 7 :> 99),switches |-> 0,used |-> 2,seenOpen |-> <<FALSE, TRUE>>,job |-> <<1, 2>>,idx |-> <<1, 1>>]),
    ([pc |-> <<"Start", "C">>,sched |-> <<>>,last |-> 0,gaveUp |-> {},vals |-> (0 :> 0 @@ 1 :> 11 @@ 2 :> 0 @@ 3 :> 0 @@ 4 :> 0 @@ 5 :> 15 @@ 6 :> 0 @@ 7 :> 0),keys |-> (0 :> 99 @@ 1 :> 1 @@ 2 :> 99 @@ 3 :> 99 @@ 4 :> 99 @@ 5 :> 5 @@ 6 :> 99 @@ 7 :> 99),switches |-> 0,used |-> 2,seenOpen |-> <<FALSE, TRUE>>,job |-> <<2, 2>>,idx |-> <<1, 1>>]),
    ([pc |-> <<"L", "C">>,sched |-> <<>>,last |-> 0,gaveUp |-> {},vals |-> (0 :> 0 @@ 1 :> 11 @@ 2 :> 0 @@ 3 :> 0 @@ 4 :> 0 @@ 5 :> 15 @@ 6 :> 0 @@ 7 :> 0),keys |-> (0 :> 99 @@ 1 :> 1 @@ 2 :> 99 @@ 3 :> 99 @@ 4 :> 99 @@ 5 :> 5 @@ 6 :> 99 @@ 7 :> 99),switches |-> 0,used |-> 2,seenOpen |-> <<FALSE, TRUE>>,job |-> <<2, 2>>,idx |-> <<2, 1>>]),
    ([pc |-> <<"C", "C">>,sched |-> <<>>,last |-> 0,gaveUp |-> {},vals |-> (0 :> 0 @@ 1 :> 11 @@ 2 :> 0 @@ 3 :> 0 @@ 4 :> 0 @@ 5 :> 15 @@ 6 :> 0 @@ 7 :> 0),keys |-> (0 :> 99 @@ 1 :> 1 @@ 2 :> 99 @@ 3 :> 99 @@ 4 :> 99 @@ 5 :> 5 @@ 6 :> 99 @@ 7 :> 99),switches |-> 0,used |-> 2,seenOpen |-> <<FALSE, TRUE>>,job |-> <<2, 2>>,idx |-> <<2, 1>>]),
    ([pc |-> <<"C", "U">>,sched |-> <<>>,last |-> 0,gaveUp |-> {},vals |-> (0 :> 0 @@ 1 :> 11 @@ 2 :> 0 @@ 3 :> 0 @@ 4 :> 0 @@ 5 :> 15 @@ 6 :> 0 @@ 7 :> 0),keys |-> (0 :> 99 @@ 1 :> 1 @@ 2 :> 99 @@ 3 :> 99 @@ 4 :> 99 @@ 5 :> 5 @@ 6 :> 99 @@ 7 :> 99),switches |-> 0,used |-> 2,seenOpen |-> <<FALSE, FALSE>>,job |-> <<2, 2>>,idx |-> <<2, 1>>]),
    ([pc |-> <<"C", "V">>,sched |-> <<>>,last |-> 0,gaveUp |-> {},vals |-> (0 :> 0 @@ 1 :> 11 @@ 2 :> 0 @@ 3 :> 0 @@ 4 :> 0 @@ 5 :> 15 @@ 6 :> 0 @@ 7 :> 0),keys |-> (0 :> 99 @@ 1 :> 1 @@ 2 :> 99 @@ 3 :> 99 @@ 4 :> 99 @@ 5 :> 5 @@ 6 :> 99 @@ 7 :> 99),switches |-> 0,used |-> 3,seenOpen |-> <<FALSE, FALSE>>,job |-> <<2, 2>>,idx |-> <<2, 1>>]),
    ([pc |-> <<"C", "V">>,sched |-> <<>>,last |-> 0,gaveUp |-> {},vals |-> (0 :> 0 @@ 1 :> 11 @@ 2 :> 0 @@ 3 :> 0 @@ 4 :> 0 @@ 5 :> 15 @@ 6 :> 0 @@ 7 :> 0),keys |-> (0 :> 99 @@ 1 :> 1 @@ 2 :> 99 @@ 3 :> 99 @@ 4 :> 99 @@ 5 :> 5 @@ 6 :> 99 @@ 7 :> 99),switches |-> 0,used |-> 3,seenOpen |-> <<TRUE, FALSE>>,job |-> <<2, 2>>,idx |-> <<2, 1>>]),
    ([pc |-> <<"U", "V">>,sched |-> <<>>,last |-> 0,gaveUp |-> {},vals |-> (0 :> 0 @@ 1 :> 11 @@ 2 :> 0 @@ 3 :> 0 @@ 4 :> 0 @@ 5 :> 15 @@ 6 :> 0 @@ 7 :> 0),keys |-> (0 :> 99 @@ 1 :> 1 @@ 2 :> 2 @@ 3 :> 99 @@ 4 :> 99 @@ 5 :> 5 @@ 6 :> 99 @@ 7 :> 99),switches |-> 0,used |-> 3,seenOpen |-> <<FALSE, FALSE>>,job |-> <<2, 2>>,idx |-> <<2, 1>>]),
    ([pc |-> <<"V", "V">>,sched |-> <<>>,last |-> 0,gaveUp |-> {},vals |-> (0 :> 0 @@ 1 :> 11 @@ 2 :> 0 @@ 3 :> 0 @@ 4 :> 0 @@ 5 :> 15 @@ 6 :> 0 @@ 7 :> 0),keys |-> (0 :> 99 @@ 1 :> 1 @@ 2 :> 2 @@ 3 :> 99 @@ 4 :> 99 @@ 5 :> 5 @@ 6 :> 99 @@ 7 :> 99),switches |-> 0,used |-> 4,seenOpen |-> <<FALSE, FALSE>>,job |-> <<2, 2>>,idx |-> <<2, 1>>]),
    ([pc |-> <<"Start", "V">>,sched |-> <<>>,last |-> 0,gaveUp |-> {},vals |-> (0 :> 0 @@ 1 :> 11 @@ 2 :> 12 @@ 3 :> 0 @@ 4 :> 0 @@ 5 :> 15 @@ 6 :> 0 @@ 7 :> 0),keys |-> (0 :> 99 @@ 1 :> 1 @@ 2 :> 2 @@ 3 :> 99 @@ 4 :> 99 @@ 5 :> 5 @@ 6 :> 99 @@ 7 :> 99),switches |-> 0,used |-> 4,seenOpen |-> <<FALSE, FALSE>>,job |-> <<3, 2>>,idx |-> <<2, 1>>]),
    ([pc |-> <<"Done", "V">>,sched |-> <<>>,last |-> 0,gaveUp |-> {},vals |-> (0 :> 0 @@ 1 :> 11 @@ 2 :> 12 @@ 3 :> 0 @@ 4 :> 0 @@ 5 :> 15 @@ 6 :> 0 @@ 7 :> 0),keys |-> (0 :> 99 @@ 1 :> 1 @@ 2 :> 2 @@ 3 :> 99 @@ 4 :> 99 @@ 5 :> 5 @@ 6 :> 99 @@ 7 :> 99),switches |-> 0,used |-> 4,seenOpen |-> <<FALSE, FALSE>>,job |-> <<3, 2>>,idx |-> <<2, 1>>]),
    ([pc |-> <<"Done", "Start">>,sched |-> <<>>,last |-> 0,gaveUp |-> {},vals |-> (0 :> 0 @@ 1 :> 11 @@ 2 :> 12 @@ 3 :> 0 @@ 4 :> 0 @@ 5 :> 15 @@ 6 :> 0 @@ 7 :> 0),keys |-> (0 :> 99 @@ 1 :> 1 @@ 2 :> 2 @@ 3 :> 99 @@ 4 :> 99 @@ 5 :> 5 @@ 6 :> 99 @@ 7 :> 99),switches |-> 0,used |-> 4,seenOpen |-> <<FALSE, FALSE>>,job |-> <<3, 3>>,idx |-> <<2, 1>>]),
    ([pc |-> <<"Done", "Done">>,sched |-> <<>>,last |-> 0,gaveUp |-> {},vals |-> (0 :> 0 @@ 1 :> 11 @@ 2 :> 12 @@ 3 :> 0 @@ 4 :> 0 @@ 5 :> 15 @@ 6 :> 0 @@ 7 :> 0),keys |-> (0 :> 99 @@ 1 :> 1 @@ 2 :> 2 @@ 3 :> 99 @@ 4 :> 99 @@ 5 :> 5 @@ 6 :> 99 @@ 7 :> 99),switches |-> 0,used |-> 4,seenOpen |-> <<FALSE, FALSE>>,job |-> <<3, 3>>,idx |-> <<2, 1>>])
    >>
----


=============================================================================

---- CONFIG MCHashTable_TTrace_1790197556 ----
CONSTANTS
    Size = 8
    StepC = 1
    Work <- W_a
    Claim = "loadstore"
    Emit = FALSE
    MaxSwitch = 99

INVARIANT
    _inv

CHECK_DEADLOCK
    \* CHECK_DEADLOCK off because of PROPERTY or INVARIANT above.
    FALSE

INIT
    _init

NEXT
    _next

CONSTANT
    _TETrace <- _trace

ALIAS
    _expression
=============================================================================
\* Generated on Wed Sep 23 21:06:11 UTC 2026