CONSTANTS N = 3
  Work <- W_race
  RankCas = FALSE
  Emit = FALSE
  MaxSwitch = 99
INIT Init
NEXT Next
INVARIANT PartitionCorrect
INVARIANT RootRank
INVARIANT Acyclic

CHECK_DEADLOCK FALSE
