\* C11: EVERY BatchBoolean (0, 1 or 3 operands, repetition allowed, 3 operations) over every triple of the
\* four micro-family leaves (two overlapping squares, rectilinear bow-tie, diamond; EvenOdd)
CONSTANTS K = 4
  Grid = 3
  LeafFam = "micro"
  GenNames <- GensCore
  OpNames <- Ops2
  MaxLeaf = 3
  Depth = 4
  Acts = {"Leaf", "Batch"}
  ObsModes = {1}
  Sample = FALSE
  Emit = TRUE
INIT Init
NEXT Next
INVARIANT EverythingInWindow
INVARIANT SetLaws
CHECK_DEADLOCK FALSE
