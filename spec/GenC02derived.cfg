\* C02: seeded random 3-Boolean programs over the coincident bar/slab catalogue (derived operands)
CONSTANTS K = 2
  LeafBoxes <- CatDerived
  GenNames <- GensTiny
  OpNames <- AllOps
  MaxLeaf = 4
  MaxNode = 7
  NH = 7
  Depth = 7
  Acts <- ActsBool
  LeafProps <- NoProps
  Emit = TRUE
INIT Init
NEXT Next
CHECK_DEADLOCK FALSE
