---- MODULE Ctor_TTrace_1790192107 ----
EXTENDS Sequences, TLCExt, Ctor, Toolbox, Naturals, TLC

_expression ==
    LET Ctor_TEExpression == INSTANCE Ctor_TEExpression
    IN Ctor_TEExpression!expression
----

_trace ==
    LET Ctor_TETrace == INSTANCE Ctor_TETrace
    IN Ctor_TETrace!trace
----

_inv ==
    ~(
        TLCGet("level") = Len(_TETrace)
        /\
        c = ([ops |-> <<[op |-> "Scale", v |-> <<-2, -2, -2>>]>>, kind |-> "xform", base |-> "box"])
        /\
        den = ([in |-> {<<-2, -4, -4>>, <<-2, -4, -3>>, <<-2, -4, -2>>, <<-2, -4, -1>>, <<-2, -3, -4>>, <<-2, -3, -3>>, <<-2, -3, -2>>, <<-2, -3, -1>>, <<-2, -2, -4>>, <<-2, -2, -3>>, <<-2, -2, -2>>, <<-2, -2, -1>>, <<-2, -1, -4>>, <<-2, -1, -3>>, <<-2, -1, -2>>, <<-2, -1, -1>>, <<-1, -4, -4>>, <<-1, -4, -3>>, <<-1, -4, -2>>, <<-1, -4, -1>>, <<-1, -3, -4>>, <<-1, -3, -3>>, <<-1, -3, -2>>, <<-1, -3, -1>>, <<-1, -2, -4>>, <<-1, -2, -3>>, <<-1, -2, -2>>, <<-1, -2, -1>>, <<-1, -1, -4>>, <<-1, -1, -3>>, <<-1, -1, -2>>, <<-1, -1, -1>>}, band |-> {}])
        /\
        done = (TRUE)
    )
----

_init ==
    /\ c = _TETrace[1].c
    /\ den = _TETrace[1].den
    /\ done = _TETrace[1].done
----

_next ==
    /\ \E i,j \in DOMAIN _TETrace:
        /\ \/ /\ j = i + 1
              /\ i = TLCGet("level")
        /\ c  = _TETrace[i].c
        /\ c' = _TETrace[j].c
        /\ den  = _TETrace[i].den
        /\ den' = _TETrace[j].den
        /\ done  = _TETrace[i].done
        /\ done' = _TETrace[j].done

\* Uncomment the ASSUME below to write the states of the error trace
\* to the given file in Json format. Note that you can pass any tuple
\* to `JsonSerialize`. For example, a sub-sequence of _TETrace.
    \* ASSUME
    \*     LET J == INSTANCE Json
    \*         IN J!JsonSerialize("Ctor_TTrace_1790192107.json", _TETrace)

=============================================================================

 Note that you can extract this module `Ctor_TEExpression`
  to a dedicated file to reuse `expression` (the module in the 
  dedicated `Ctor_TEExpression.tla` file takes precedence 
  over the module `Ctor_TEExpression` below).

---- MODULE Ctor_TEExpression ----
EXTENDS Sequences, TLCExt, Ctor, Toolbox, Naturals, TLC

expression == 
    [
        \* To hide variables of the `Ctor` spec from the error trace,
        \* remove the variables below.  The trace will be written in the order
        \* of the fields of this record.
        c |-> c
        ,den |-> den
        ,done |-> done
        
        \* Put additional constant-, state-, and action-level expressions here:
        \* ,_stateNumber |-> _TEPosition
        \* ,_cUnchanged |-> c = c'
        
        \* Format the `c` variable as Json value.
        \* ,_cJson |->
        \*     LET J == INSTANCE Json
        \*     IN J!ToJson(c)
        
        \* Lastly, you may build expressions over arbitrary sets of states by
        \* leveraging the _TETrace operator.  For example, this is how to
        \* count the number of times a spec variable changed up to the current
        \* state in the trace.
        \* ,_cModCount |->
        \*     LET F[s \in DOMAIN _TETrace] ==
        \*         IF s = 1 THEN 0
        \*         ELSE IF _TETrace[s].c # _TETrace[s-1].c
        \*             THEN 1 + F[s-1] ELSE F[s-1]
        \*     IN F[_TEPosition - 1]
    ]

=============================================================================



Parsing and semantic processing can take forever if the trace below is long.
 In this case, it is advised to uncomment the module below to deserialize the
 trace from a generated binary file.

\*
\*---- MODULE Ctor_TETrace ----
\*EXTENDS IOUtils, Ctor, TLC
\*
\*trace == IODeserialize("Ctor_TTrace_1790192107.bin", TRUE)
\*
\*=============================================================================
\*

---- MODULE Ctor_TETrace ----
EXTENDS Ctor, TLC

trace == 
    <<
    ([c |-> [ops |-> <<[op |-> "Scale", v |-> <<-2, -2, -2>>]>>, kind |-> "xform", base |-> "box"],den |-> [in |-> {}, band |-> {}],done |-> FALSE]),
    ([c |-> [ops |-> <<[op |-> "Scale", v |-> <<-2, -2, -2>>]>>, kind |-> "xform", base |-> "box"],den |-> [in |-> {<<-2, -4, -4>>, <<-2, -4, -3>>, <<-2, -4, -2>>, <<-2, -4, -1>>, <<-2, -3, -4>>, <<-2, -3, -3>>, <<-2, -3, -2>>, <<-2, -3, -1>>, <<-2, -2, -4>>, <<-2, -2, -3>>, <<-2, -2, -2>>, <<-2, -2, -1>>, <<-2, -1, -4>>, <<-2, -1, -3>>, <<-2, -1, -2>>, <<-2, -1, -1>>, <<-1, -4, -4>>, <<-1, -4, -3>>, <<-1, -4, -2>>, <<-1, -4, -1>>, <<-1, -3, -4>>, <<-1, -3, -3>>, <<-1, -3, -2>>, <<-1, -3, -1>>, <<-1, -2, -4>>, <<-1, -2, -3>>, <<-1, -2, -2>>, <<-1, -2, -1>>, <<-1, -1, -4>>, <<-1, -1, -3>>, <<-1, -1, -2>>, <<-1, -1, -1>>}, band |-> {}],done |-> TRUE])
    >>
----


=============================================================================

---- CONFIG Ctor_TTrace_1790192107 ----
CONSTANTS
    K = 4
    Family = "xform"
    Emit = TRUE
    Big = FALSE

INVARIANT
    _inv

CHECK_DEADLOCK
    \* CHECK_DEADLOCK off because of PROPERTY or INVARIANT above.
    FALSE

INIT
    _init

NEXT
    _next

CONSTANT
    _TETrace <- _trace

ALIAS
    _expression
=============================================================================
\* Generated on Wed Sep 23 19:40:17 UTC 2026